"""C03, handle distinctness at the language level: every route by which a second declaration could come to denote a
foreign qubit, in every syntactic position.  Each attempt is a whole program that (if it is accepted and runs) flips
the would-be alias, or a fresh declaration made after the holder is gone, and then prints `measure a` for the untouched
victim `a`: the answer has to be 0, or the program has to be rejected.  Every attempt has a control (the aliasing
statement left out) that must be accepted and print 0, so a template that is rejected for an unrelated reason shows."""

CLS_Q = """class C {
  public qubit q;
  public qubit[2] qs;
  public constructor() -> C { }
  %s
}
"""
GEN = """class Box<T> {
  public T v;
  public constructor() -> Box<T> { }
  %s
}
"""


def positions(assign):
    """the same assignment in statement and expression positions"""
    yield "stmt", "%s;" % assign
    yield "expr-stmt", "(%s);" % assign
    yield "for-step", "for (int i_ = 0; i_ < 1; (%s)) { i_ = 1; }" % assign
    yield "nested-block", "{ if (true) { (%s); } }" % assign


def attempts():
    """-> (name, classes, control classes, setup, attempt, control attempt, use, drop)
    `use` flips the would-be alias; `drop` releases the holder"""
    out = []

    def add(name, classes, setup, attempt, use, drop, ctl_classes=None, ctl_attempt=""):
        out.append((name, classes, classes if ctl_classes is None else ctl_classes, setup, attempt, ctl_attempt, use, drop))

    AA = "x(r[0]); bit t_ = measure aa[0]; if (t_ == 1b) { x(a); }"
    # A. locals
    add("local-decl-init", "", "", "qubit b = a;", "x(b);", None, ctl_attempt="qubit b;")
    for pn, st in positions("b = a"):
        add("local-assign/" + pn, "", "qubit b;", st, "x(b);", None)
    for pn, st in positions("r[0] = a"):
        add("array-elem/" + pn, "", "qubit[2] r;", st, "x(r[0]);", None)
    for pn, st in positions("r = aa"):
        add("array-whole/" + pn, "", "qubit[2] r; qubit[2] aa;", st, AA, None)
    add("array-decl-init", "", "qubit[2] aa;", "qubit[] r = aa;", AA, None, ctl_attempt="qubit[2] r;")
    # B. fields, from inside a method / constructor and from outside
    def meth(sig, st):
        return CLS_Q % ("public function bind(%s) -> void { %s }" % (sig, st))
    for tgt in ("q", "this.q"):
        for pn, st in positions("%s = p" % tgt):
            add("field-in-method/%s/%s" % (tgt, pn), meth("qubit p", st), "C o = new C();", "o.bind(a);", "x(o.q);", "destroy o;",
                ctl_classes=meth("qubit p", ""), ctl_attempt="o.bind(a);")
    for pn, st in positions("q = p"):
        add("field-in-ctor/" + pn, CLS_Q % ("public constructor(qubit p) -> C { %s }" % st), "", "C o = new C(a);", "x(o.q);", "destroy o;",
            ctl_classes=CLS_Q % "public constructor(qubit p) -> C { }", ctl_attempt="C o = new C(a);")
    for tgt in ("qs[0]", "this.qs[0]"):
        for pn, st in positions("%s = p" % tgt):
            add("field-elem-in-method/%s/%s" % (tgt, pn), meth("qubit p", st), "C o = new C();", "o.bind(a);", "x(o.qs[0]);", "destroy o;",
                ctl_classes=meth("qubit p", ""), ctl_attempt="o.bind(a);")
    for tgt in ("qs", "this.qs"):
        for pn, st in positions("%s = ps" % tgt):
            add("field-array-in-method/%s/%s" % (tgt, pn), meth("qubit[] ps", st), "C o = new C(); qubit[2] aa;", "o.bind(aa);",
                "x(o.qs[0]); bit t_ = measure aa[0]; if (t_ == 1b) { x(a); }", "destroy o;", ctl_classes=meth("qubit[] ps", ""), ctl_attempt="o.bind(aa);")
    for pn, st in positions("o.q = a"):
        add("field-from-outside/" + pn, CLS_Q % "", "C o = new C();", st, "x(o.q);", "destroy o;")
    for pn, st in positions("o.qs[1] = a"):
        add("field-elem-from-outside/" + pn, CLS_Q % "", "C o = new C();", st, "x(o.qs[1]);", "destroy o;")
    # C. default constructors
    D1 = "class D { public qubit q; public constructor() -> D { } %s }\n"
    add("default-ctor-qubit", D1 % "public constructor(qubit q) -> D = default;", "", "D o = new D(a);", "x(o.q);", "destroy o;",
        ctl_classes=D1 % "", ctl_attempt="D o = new D();")
    D2 = "class D { public qubit[2] qs; public constructor() -> D { } %s }\n"
    add("default-ctor-qubit[]", D2 % "public constructor(qubit[] qs) -> D = default;", "qubit[2] aa;", "D o = new D(aa);",
        "x(o.qs[0]); bit t_ = measure aa[0]; if (t_ == 1b) { x(a); }", "destroy o;", ctl_classes=D2 % "", ctl_attempt="D o = new D();")
    # D. through a class type parameter (the analyser sees T, only the run sees qubit)
    for tgt in ("v", "this.v"):
        for pn, st in positions("%s = p" % tgt):
            add("generic-field/%s/%s" % (tgt, pn), GEN % ("public function bind(T p) -> void { %s }" % st),
                "Box<qubit> o = new Box<qubit>();", "o.bind(a);", "x(o.v);", "destroy o;")
    add("generic-ctor", GEN % "public constructor(T p) -> Box<T> { this.v = p; }", "", "Box<qubit> o = new Box<qubit>(a);", "x(o.v);", "destroy o;",
        ctl_attempt="Box<qubit> o = new Box<qubit>();")
    GB = "class GB<T> { public T v; public constructor() -> GB<T> { } public constructor(T v) -> GB<T> = default; }\n"
    add("generic-default-ctor", GB, "", "GB<qubit> o = new GB<qubit>(a);", "x(o.v);", "destroy o;", ctl_attempt="GB<qubit> o = new GB<qubit>();")
    add("generic-local", GEN % "public function keep(T p) -> void { T w = p; }", "Box<qubit> o = new Box<qubit>();", "o.keep(a);", "", "")
    add("generic-from-outside", GEN % "", "Box<qubit> o = new Box<qubit>();", "o.v = a;", "x(o.v);", "destroy o;")
    # ... and a whole register through a type parameter instantiated with qubit[]: if the object took the register over, destroying it
    # releases the register's qubits, the next two declarations recycle them, and a gate on those shows up in the register
    DROPR = ("destroy o; qubit e_; x(e_); qubit f_; x(f_); bit t_ = measure aa[0]; bit u_ = measure aa[1]; "
             "if (t_ == 1b) { x(a); } if (u_ == 1b) { reset a; x(a); }")
    for tgt in ("v", "this.v"):
        for pn, st in positions("%s = p" % tgt):
            add("generic-register-field/%s/%s" % (tgt, pn), GEN % ("public function bind(T p) -> void { %s }" % st),
                "Box<qubit[]> o = new Box<qubit[]>(); qubit[2] aa;", "o.bind(aa);", "", DROPR)
    add("generic-register-ctor", GEN % "public constructor(T p) -> Box<T> { this.v = p; }", "qubit[2] aa;", "Box<qubit[]> o = new Box<qubit[]>(aa);", "", DROPR,
        ctl_attempt="Box<qubit[]> o = new Box<qubit[]>();")
    add("generic-register-default-ctor", GB, "qubit[2] aa;", "GB<qubit[]> o = new GB<qubit[]>(aa);", "", DROPR, ctl_attempt="GB<qubit[]> o = new GB<qubit[]>();")
    add("generic-register-from-outside", GEN % "", "Box<qubit[]> o = new Box<qubit[]>(); qubit[2] aa;", "o.v = aa;", "", DROPR)
    return out


def programs():
    """-> list of (name, variant, source, control_source)"""
    res = []
    for name, classes, ctl_classes, setup, attempt, ctl_attempt, use, drop in attempts():
        def prog(cl, att, tail):
            return "%sfunction main() -> void {\n  qubit a;\n  %s\n  %s\n  %s\n  bit r_ = measure a;\n  echo(r_);\n}\n" % (cl, setup, att, tail)
        if use:
            res.append((name, "use", prog(classes, attempt, use), prog(ctl_classes, ctl_attempt, use)))
        if drop is not None:
            tail = "%s\n  qubit c_;\n  x(c_);" % drop
            res.append((name, "recycle", prog(classes, attempt, tail), prog(ctl_classes, ctl_attempt, tail)))
    return res


# handles read out of objects that die while the handle is still in use (the qubit must not be recycled under it)
LIFETIME = [
    ("temp-field", "g(mk().q);"), ("temp-getter", "g(mk().get());"), ("temp-elem", "g(mk().qs[1]);"), ("temp-getter-elem", "g(mk().reg()[0]);"),
    ("temp-register", "hh(mk().qs);"), ("temp-getter-register", "hh(mk().reg());"), ("temp-method-arg", "mk().pass(mk().q);"),
]
LIFETIME_SRC = """class Cell { public qubit q; public qubit[2] qs; public constructor() -> Cell { }
  public function get() -> qubit { return q; }
  public function reg() -> qubit[] { return qs; }
  public function pass(qubit p) -> void { g(p); } }
function mk() -> Cell { Cell c = new Cell(); return c; }
function g(qubit p) -> void { qubit other; x(p); bit r = measure other; echo(r); }
function hh(qubit[] ps) -> void { qubit[3] other; x(ps[0]); x(ps[1]); bit r0 = measure other[0]; bit r1 = measure other[1]; bit r2 = measure other[2]; echo("" + r0 + r1 + r2); }
function main() -> void {
  %s
}
"""


def lifetime_programs():
    return [(n, LIFETIME_SRC % call) for n, call in LIFETIME]


# whole programs: rejected, or exactly this output
STANDALONE = [
    ("generic field initialiser copies a handle (double release)",
     "class P<T> { public T a; public constructor() -> P<T> { } }\n"
     "class Q<T> { public T c = new P<T>().a; public constructor() -> Q<T> { } }\n"
     "function mk() -> void { Q<qubit> p = new Q<qubit>(); }\n"
     "function main() -> void { mk(); qubit n; qubit m; x(n); bit r = measure m; echo(r); }\n", "0\n"),
    ("generic static field initialiser copies a handle",
     "class P<T> { public T a; public constructor() -> P<T> { } }\n"
     "class Q<T> { public static T c = new P<T>().a; public T own; public constructor() -> Q<T> { } }\n"
     "function mk() -> void { Q<qubit> p = new Q<qubit>(); }\n"
     "function main() -> void { mk(); qubit n; qubit m; x(n); bit r = measure m; echo(r); }\n", "0\n"),
    ("rotation by an infinite angle",
     "function main() -> void { qubit q; float t = 100000000000000000000.0f; t = t * t; t = t * t; t = t * t; t = t * t; t = t * t;\n"
     "  rx(q, t); qubit p; x(p); bit s = measure p; echo(s); }\n", "1\n"),
    ("rotation by NaN",
     "function main() -> void { qubit q; float t = 100000000000000000000.0f; t = t * t; t = t * t; t = t * t; t = t * t; t = t * t; float u = t - t;\n"
     "  ry(q, u); qubit p; x(p); bit s = measure p; echo(s); }\n", "1\n"),
]
