"""C01 - gates act as their unitaries on exactly the addressed qubits."""
import cmath, os, shutil
import vlib
from checks import simcommon as sc

TRUSTED_BASE = [
    "Coq 8.16.1 kernel (coqc); vm_compute only in the non-vacuity Examples",
    "axioms: loop theorems (apply1, cx, bit lemmas) closed under the global context; the matrix theorems over R depend on "
    "ClassicalDedekindReals.sig_forall_dec, ClassicalDedekindReals.sig_not_dec, FunctionalExtensionality.functional_extensionality_dep (Coq.Reals)",
    "extraction: ExtrOcamlBasic + ExtrOcamlString; scalar instance binary64 + libm supplied by extract/driver_sim.ml",
    "harness: drv_sim.cpp / drv_prog.cpp, hooks H1 (state accessor), H3 (friend access)",
    "not modelled: binary64 rounding (comparison tolerance 1e-9), the power-series definition of exp(-itP/2) (closed form proved instead)",
]

def up_to_phase(a, b, tol=1e-9):
    """a: model amps [(re,im)], b: impl amps [[re,im]]"""
    if len(a) != len(b):
        return False
    za = [complex(x, y) for x, y in a]
    zb = [complex(x[0], x[1]) if isinstance(x, list) else complex('nan') for x in b]
    i = max(range(len(za)), key=lambda k: abs(za[k]))
    if abs(za[i]) < 1e-12 or abs(zb[i]) < 1e-12:
        return False
    ph = zb[i] / za[i]
    if abs(abs(ph) - 1) > 1e-9:
        return False
    return all(abs(x * ph - y) <= tol for x, y in zip(za, zb))

def parse_direct(line):
    d = sc.parse_model_line(line)
    return d

def gen_direct(rng, quick):
    scripts = []
    nmax = 4 if quick else 6
    for n in range(1, nmax + 1):
        for b in range(2 ** n):
            prep = ["A"] * n + sum((["X", str(i)] for i in range(n) if (b >> i) & 1), [])
            for q in range(n):
                for g in ("H", "X", "Y", "Z"):
                    scripts.append(prep + [g, str(q)])
                for g in ("RX", "RY", "RZ"):
                    scripts.append(prep + [g, str(q), sc.fnum(sc.ANGLES[(b + q) % len(sc.ANGLES)])])
            for c in range(n):
                for t in range(n):
                    if c != t:
                        scripts.append(prep + ["CX", str(c), str(t)])
    # superposed / entangled inputs, larger registers, lazily allocated qubits
    for _ in range(150 if quick else 1500):
        n = rng.randint(2, 6 if quick else 8)
        s = ["A"] * rng.randint(1, n)
        alloc = s.count("A")
        for _ in range(rng.randint(3, 14)):
            r = rng.random()
            if alloc < n and r < 0.15:
                s.append("A"); alloc += 1
            elif r < 0.4 and alloc >= 2:
                c, t = rng.sample(range(alloc), 2)
                s += ["CX", str(c), str(t)]
            else:
                g = rng.choice(sc.GATES1)
                s += [g, str(rng.randrange(alloc))]
                if g in ("RX", "RY", "RZ"):
                    s.append(sc.fnum(rng.choice(sc.ANGLES + [rng.uniform(-7, 7)])))
        scripts.append(s)
    return scripts

def call_forms():
    """(what, source, acceptable outcomes): ways of writing a gate call that the generated programs do not use.  An outcome is the list of
    operation lines of the emitted circuit, or 'rejected' (Semantic error); a call that is accepted must reach the simulator"""
    F = []
    one = "function main() -> void { qubit q; %s }"
    F.append(("plain call", one % "x(q);", [["x q[0];"]]))
    F.append(("parenthesised gate name", one % "(x)(q);", ["rejected", ["x q[0];"]]))
    F.append(("doubly parenthesised gate name", one % "((h))(q);", ["rejected", ["h q[0];"]]))
    F.append(("call of a call", one % "h(q)(q);", ["rejected"]))
    F.append(("parenthesised rotation", one % "(rx)(q, 1.5f);", ["rejected", ["rx(1.500000) q[0];"]]))
    gen = ("class R<T> { public T v; public constructor(T v) -> R<T> { this.v = v; return this; } "
           "public function rot(qubit q) -> void { %s(q, this.v); } }\nfunction main() -> void { qubit a; R<%s> r = new R<%s>(%s); r.rot(a); }")
    for g in ("rx", "ry", "rz"):
        for ty, lit, txt in (("int", "3", "3.000000"), ("long", "2L", "2.000000"), ("bit", "1b", "1.000000"), ("float", "1.5f", "1.500000")):
            F.append(("%s angle of type %s reached through a type parameter" % (g, ty), gen % (g, ty, ty, lit), ["rejected", ["%s(%s) q[0];" % (g, txt)]]))
    F.append(("array literal as an angle", one % "rx(q, {3.0f});", ["rejected"]))
    F.append(("cast angle", one % "ry(q, (float) 2);", [["ry(2.000000) q[0];"]]))
    F.append(("computed angle", one % "float t = 0.5f; rz(q, t + t);", [["rz(1.000000) q[0];"]]))
    return F

def run_call_forms(chk):
    from checks import langcommon as lc
    F = call_forms()
    res = lc.run_impl([src for _, src, _ in F])
    for (what, src, ok), r in zip(F, res):
        if r.get("status") == "error" and r.get("cat") == "Semantic":
            got = "rejected"
        elif r.get("status") == "ok":
            got = [l.strip() for l in (r.get("qasm") or "").splitlines() if l.strip() and not l.startswith(("OPENQASM", "include", "qreg", "creg"))]
        else:
            got = "%s %s %s" % (r.get("status"), r.get("cat"), (r.get("msg") or "")[:100])
        if got not in ok:
            chk.report("c01-call-form", {"what": what, "source": src, "acceptable": ok, "got": got, "how": "bloch --emit-qasm <source>"},
                       "gate call written as %s: expected %s, got %s" % (what, ok, got))
    return len(F)

def run(chk):
    quick = chk.tier == "quick"
    chk.proofs()
    rng = chk.rng
    exe_m = vlib.ocaml_engine("sim")
    vlib.repo_build("hooked")
    drv = vlib.cpp_driver("drv_sim")
    scripts = gen_direct(rng, quick)
    tmp = os.path.join(vlib.BUILD, "tmp", "c01-%d" % os.getpid())
    os.makedirs(tmp, exist_ok=True)
    try:
        cf = os.path.join(tmp, "scripts.txt")
        with open(cf, "w") as f:
            for s in scripts:
                f.write("script " + " ".join(s) + "\n")
        rc1, om = vlib.sh([exe_m, cf], timeout=3000)
        rc2, oc = vlib.sh([drv, cf], timeout=3000)
    finally:
        shutil.rmtree(tmp, ignore_errors=True)
    lm, lc = om.splitlines(), oc.splitlines()
    if rc1 != 0 or len(lm) != len(scripts):
        raise RuntimeError("model driver failed: rc=%d lines=%d/%d %s" % (rc1, len(lm), len(scripts), om[-300:]))
    if len(lc) != len(scripts):
        chk.violation("c01-crash", {"script": " ".join(scripts[len(lc)]) if len(lc) < len(scripts) else None,
                                    "how": "build/drivers/hooked/drv_sim <file with 'script ...'>"},
                      "simulator driver died at script %d" % len(lc))
        lc += ["nq 0 | amps | meas | trace | qasm -"] * (len(scripts) - len(lc))
    dis = phase_only = 0
    for s, m, c in zip(scripts, lm, lc):
        dm, dc = parse_direct(m), parse_direct(c)
        if dm["nq"] == dc["nq"] and sc.amps_close(dm["amps"], [list(x) for x in dc["amps"]]) and dm["trace"] == dc["trace"]:
            continue
        dis += 1
        payload = {"script": " ".join(s), "model_amps": dm["amps"], "impl_amps": dc["amps"], "model_trace": dm["trace"], "impl_trace": dc["trace"],
                   "how": "echo 'script %s' > f; build/drivers/hooked/drv_sim f   (model: build/ml/sim/sim.exe f)" % " ".join(s)}
        if dm["trace"] == dc["trace"] and up_to_phase(dm["amps"], [list(x) for x in dc["amps"]]):
            phase_only += 1
            continue
        chk.report("c01-direct", payload, "simulator state after '%s' is not the gate's unitary applied to the input" % " ".join(s)[:120])
    chk.sample({"script": " ".join(scripts[len(scripts) // 3]), "model": lm[len(scripts) // 3][:200]})
    chk.sample({"script": " ".join(scripts[-1]), "model": lm[-1][:200]})
    if phase_only:
        chk.violation("c01-correspondence", {"theorem": "correspondence sim_model <-> QasmSimulator (relation: equal amplitudes within 1e-9)",
                                             "count": phase_only, "note": "states agree up to a global phase on every disagreeing script"},
                      "model and implementation differ by a global phase only on %d scripts" % phase_only, no_input=True)
    ncall = run_call_forms(chk)
    # through the language: dispatcher, argument order, access paths
    progs = []
    for _ in range(120 if quick else 1200):
        ops, draws = sc.gen_prog(rng, max_q=5 if quick else 7, n_ops=rng.randint(4, 14), allow_measure=False, allow_reset=False)
        progs.append(sc.Prog(ops, draws))
    res = sc.run_progs(progs, rng, "c01")
    pdis = 0
    for r in res:
        d = [x for x in sc.compare(r) if x[0] in ("amps", "nq", "crash", "unexpected-error", "no-state", "error-expected")]
        if not d:
            continue
        pdis += 1
        payload = {"source": r["src"], "model_line": r["prog"].model_line(), "disagreements": d,
                   "impl": {k: v for k, v in r["impl"].items() if k in ("status", "cat", "msg", "amps", "nq")}, "model_amps": r["model"]["amps"],
                   "how": "save source as p.bloch; echo 'run p.bloch' > cases; build/drivers/hooked/drv_prog cases"}
        if d[0][0] == "amps" and up_to_phase(r["model"]["amps"], r["impl"]["amps"]):
            chk.violation("c01-correspondence", {"theorem": "correspondence (program level)", "first": payload}, "global-phase-only difference at program level", no_input=True)
        else:
            chk.report("c01-program", payload, "program-level gate application disagrees with the model: %s" % d[0][1][:100])
    chk.sample({"program": res[0]["src"], "model_line": res[0]["prog"].model_line()})
    chk.cov.update({
        "traces_validated_against_impl": len(scripts) + len(progs), "direct_scripts": len(scripts), "programs": len(progs), "call_form_programs": ncall,
        "disagreements": dis + pdis, "exhaustive": False,
        "rule": "direct: every gate x every target / ordered (control,target) pair x every computational basis state for n = 1..%d "
                "(exhaustive for those n), plus random lazily-allocated entangling circuits up to n = %d; program level: generated "
                "Bloch programs reaching each qubit through variables, array elements, function/array parameters, object fields and methods; "
                "all 2^n amplitudes compared (1e-9)" % (4 if quick else 6, 6 if quick else 8),
    })
    chk.assumptions += ["IEEE binary64 rounding is within the 1e-9 comparison tolerance"]
