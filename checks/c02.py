"""C02 - measurement: Born rule and collapse."""
import math, os, shutil
import vlib
from checks import simcommon as sc

TRUSTED_BASE = [
    "Coq 8.16.1 kernel (coqc)",
    "axioms (Coq.Reals): ClassicalDedekindReals.sig_forall_dec, sig_not_dec, FunctionalExtensionality.functional_extensionality_dep; "
    "the evaluator agreement theorem is axiom-free",
    "extraction ExtrOcamlBasic+ExtrOcamlString; binary64 instance in extract/driver_sim.ml",
    "harness drv_prog.cpp/drv_sim.cpp; hooks H1 (state), H2 (injected/recorded draws), H3 (friend access)",
    "assumed, not proved: std::mt19937 + uniform_real_distribution draw uniformly from [0,1) (thorough tier runs a chi-square test of it); "
    "measure theory is not formalised: the distribution claim is the interval statement {r | outcome=1} = [0,p1)",
]

def born_progs(rng, n):
    """programs whose measurement draws sit just either side of the Born probability"""
    progs = []
    eps = 1e-7
    for _ in range(n):
        th = rng.choice([0.5, 1.0, 1.5, 2.0, 2.5, 3.0, 0.25])
        p1 = math.sin(th / 2) ** 2
        kind = rng.choice(["single", "bell", "ghz", "biased-pair", "certain"])
        ops = [('D', rng.choice(['var', 'arr', 'obj']), 1 if False else rng.randint(1, 2))]
        # normalise: use explicit handles
        ops = [('D', 'arr', 3)]
        form = rng.choice(["stmt", "expr", "func"])
        if kind == "single":
            ops += [('G', 'RY', 0, 0, th), ('M', 0, 0, form)]
            draws = [rng.choice([0.0, p1 - eps, p1 + eps, 0.999999])]
        elif kind == "bell":
            ops += [('G', 'H', 0, 0, 0), ('CX', 0, 0, 0, 1), ('M', 0, rng.choice([0, 1]), form), ('M', 0, 2, "expr")]
            draws = [rng.choice([0.0, 0.5 - eps, 0.5 + eps, 0.999999]), rng.random()]
            # partner re-read
            ops.insert(-1, ('G', 'Z', 0, 2, 0))
        elif kind == "ghz":
            ops += [('G', 'H', 0, 0, 0), ('CX', 0, 0, 0, 1), ('CX', 0, 1, 0, 2), ('M', 0, 1, form), ('M', 0, 0, "expr"), ('M', 0, 2, "expr")]
            draws = [rng.choice([0.0, 0.5 - eps, 0.5 + eps, 0.999999]), rng.random(), rng.random()]
        elif kind == "biased-pair":
            ops += [('G', 'RY', 0, 0, th), ('CX', 0, 0, 0, 2), ('G', 'RX', 0, 1, 1.0), ('M', 0, 2, form), ('M', 0, 0, "expr"), ('M', 0, 1, "stmt")]
            draws = [rng.choice([0.0, p1 - eps, p1 + eps, 0.999999]), rng.random(), rng.choice([0.0, 0.2298 - 1e-4, 0.2299 + 1e-4, 0.9])]
        else:
            ops += [('G', 'X', 0, 0, 0), ('M', 0, 0, form), ('M', 0, 1, "expr")]
            draws = [rng.choice([0.0, 0.5, 0.999999999]), rng.choice([0.0, 0.5, 0.999999999])]
        progs.append(sc.Prog(ops, draws))
    return progs

def run(chk):
    quick = chk.tier == "quick"
    chk.proofs()
    rng = chk.rng
    progs = born_progs(rng, 120 if quick else 1500)
    for _ in range(150 if quick else 2000):
        ops, draws = sc.gen_prog(rng, max_q=5, n_ops=rng.randint(5, 14), allow_measure=True, allow_reset=True)
        progs.append(sc.Prog(ops, draws))
    res, ndis = sc.check_progs(chk, progs, "c02", rng,
                               aspects=("amps", "stdout", "last-measurement", "sim-flags", "ev-flags", "nq"),
                               extra=sc.impl_state_sane)
    n_meas = sum(1 for r in res for t in r["model"]["trace"] if t.startswith("ok:") and len(t) > 3)
    outcomes = {"0": 0, "1": 0}
    for r in res:
        for t in r["model"]["trace"]:
            if t.startswith("ok:"):
                for ch in t[3:]:
                    outcomes[ch] += 1
    chk.cov.update({"traces_validated_against_impl": len(progs), "measurements": n_meas, "outcome_distribution": outcomes,
                    "disagreements": ndis,
                    "rule": "Born-boundary programs (single biased qubit, Bell, GHZ, biased pair, certain outcomes) with injected draws at "
                            "0, p1-1e-7, p1+1e-7, 0.999999, each measurement form (statement, expression, @quantum function); plus random "
                            "programs with gates/measure/reset. Compared: echoed bit, stored last-measurement, both measured-flag vectors and every "
                            "post-measurement amplitude (1e-9); the implementation's state is also checked to be a finite unit 2^n vector."})
    if not quick:
        chi_square(chk)
    chk.assumptions += ["RNG uniformity on [0,1)", "binary64 rounding within 1e-9; draws kept 1e-7 away from the Born probability"]

def chi_square(chk):
    """frequency test of the unhooked generator: h-state measured 20000 times (a test of the RNG assumption, not a proof)"""
    exe = os.path.join(vlib.repo_build("hooked"), "bin", "bloch")
    tmp = os.path.join(vlib.BUILD, "tmp", "c02chi-%d" % os.getpid())
    os.makedirs(tmp, exist_ok=True)
    try:
        src = "@shots(20000)\nfunction main() -> void {\n    @tracked qubit q;\n    ry(q, 1.0f);\n    measure q;\n}\n"
        open(os.path.join(tmp, "chi.bloch"), "w").write(src)
        rc, out = vlib.sh([exe, os.path.join(tmp, "chi.bloch")], env={"BLOCH_NO_UPDATE_CHECK": "1"}, timeout=600)
        import re
        m0 = re.search(r"^0\s*\|\s*(\d+)", out, flags=re.M); m1 = re.search(r"^1\s*\|\s*(\d+)", out, flags=re.M)
        if not (m0 and m1):
            chk.notes.append("chi-square run could not parse the table"); return
        n0, n1 = int(m0.group(1)), int(m1.group(1))
        p1 = math.sin(0.5) ** 2
        n = n0 + n1
        chi = (n1 - n * p1) ** 2 / (n * p1) + (n0 - n * (1 - p1)) ** 2 / (n * (1 - p1))
        chk.cov["rng_chi_square"] = {"n": n, "ones": n1, "expected_p1": p1, "chi2": chi}
        if chi > 30:   # p < 1e-7 for 1 dof
            chk.violation("c02-frequency", {"source": src, "counts": [n0, n1], "expected_p1": p1, "chi2": chi},
                          "outcome frequencies of the unhooked generator are far from the Born probability")
    finally:
        shutil.rmtree(tmp, ignore_errors=True)
