"""C03 - unit 2^n state vector and distinct qubit handles in any history."""
import glob, json, os, shutil
import vlib
from checks import simcommon as sc

TRUSTED_BASE = [
    "Coq 8.16.1 kernel (coqc)",
    "axioms: norm theorems depend on Coq.Reals (ClassicalDedekindReals.sig_forall_dec, sig_not_dec, functional_extensionality_dep); "
    "the handle-distinctness theorem is axiom-free",
    "extraction ExtrOcamlBasic+ExtrOcamlString; binary64 instance; harness drv_prog.cpp; hooks H1,H2,H3",
    "not modelled: binary64 rounding (norm checked to 1e-9 on the implementation); scope-exit destruction order of several objects "
    "(generator destroys objects explicitly)",
]

def alias_corpus(chk):
    """declarations must never share a qubit: every aliasing form has to be rejected by the analyser"""
    vlib.repo_build("hooked")
    drv = vlib.cpp_driver("drv_prog")
    files = sorted(glob.glob(os.path.join(vlib.VERIF, "corpus", "C03", "*.bloch")))
    tmp = os.path.join(vlib.BUILD, "tmp", "c03c-%d" % os.getpid())
    os.makedirs(tmp, exist_ok=True)
    try:
        cf = os.path.join(tmp, "cases.txt")
        open(cf, "w").write("".join("run %s draws=0.5,0.5\n" % f for f in files))
        rc, out = vlib.sh([drv, cf, "20"], timeout=300)
    finally:
        shutil.rmtree(tmp, ignore_errors=True)
    for f, line in zip(files, out.splitlines()):
        try:
            r = json.loads(line)
        except Exception:
            r = {"status": "unparsable"}
        if not (r.get("status") == "error" and r.get("cat") == "Semantic"):
            chk.report("c03-alias", {"file": f, "source": open(f).read(), "impl": {k: v for k, v in r.items() if k in ("status", "cat", "msg", "stdout", "nq")},
                                     "how": "bloch <file>: two declarations end up denoting one simulator qubit"},
                       "aliasing program %s accepted: two qubit declarations share a simulator qubit" % os.path.basename(f))
    return len(files)

def run(chk):
    quick = chk.tier == "quick"
    chk.proofs()
    rng = chk.rng
    ncorp = alias_corpus(chk)
    progs = []
    for _ in range(200 if quick else 2500):
        ops, draws = sc.gen_reuse_prog(rng, n_ops=rng.randint(8, 18))
        progs.append(sc.Prog(ops, draws))
    for _ in range(150 if quick else 2000):
        ops, draws = sc.gen_prog(rng, max_q=6, n_ops=rng.randint(6, 16), allow_release=True)
        progs.append(sc.Prog(ops, draws))
    # edge draws: outcomes of probability ~0 / ~1, reset of a qubit that is certainly 1, allocation after entanglement
    for th in (0.0, 1e-4, 3.1415, 3.14159265):
        for d in (0.0, 0.999999999):
            progs.append(sc.Prog([('D', 'obj', 2), ('G', 'RY', 0, 0, th), ('CX', 0, 0, 0, 1), ('D', 'var', 1), ('M', 0, 0, 'expr'),
                                  ('G', 'X', 0, 1, 0), ('R', 0, 1), ('K', 0), ('D', 'arr', 2), ('G', 'H', 2, 0, 0)], [d, d, d, d, d, d]))
    res, ndis = sc.check_progs(chk, progs, "c03", rng, aspects=("amps", "nq", "free-list", "sim-flags", "ev-flags", "last-measurement"),
                               extra=sc.impl_state_sane)
    reused = sum(1 for r in res if any(o[0] == 'K' for o in r["prog"].ops[:-1]))
    chk.cov.update({"traces_validated_against_impl": len(progs), "alias_corpus_programs": ncorp, "histories_with_release": reused, "disagreements": ndis,
                    "rule": "random histories of declare (variable / array / object with qubit fields) / gate / cx / measure / reset / destroy-object "
                            "/ re-declare (index recycling), plus near-0/near-1 probabilities and reset of a certainly-1 qubit; after each run the "
                            "implementation's vector must have 2^n finite entries and norm 1 (1e-9) and must equal the model's state, free list, "
                            "flag and last-measurement vectors; corpus: every way of binding one qubit to two declarations must be a Semantic error"})
