"""C03 - unit 2^n state vector and distinct qubit handles in any history."""
import glob, json, os, shutil
import vlib
from checks import simcommon as sc
from checks import langcommon as lc

TRUSTED_BASE = [
    "Coq 8.16.1 kernel (coqc)",
    "axioms: norm theorems depend on Coq.Reals (ClassicalDedekindReals.sig_forall_dec, sig_not_dec, functional_extensionality_dep); "
    "the handle-distinctness theorem is axiom-free",
    "extraction ExtrOcamlBasic+ExtrOcamlString; binary64 instance; harness drv_prog.cpp; hooks H1,H2,H3",
    "not modelled: binary64 rounding (norm checked to 1e-9 on the implementation); scope-exit destruction order of several objects "
    "(generator destroys objects explicitly)",
]

def alias_corpus(chk):
    """declarations must never share a qubit: every aliasing form has to be rejected by the analyser"""
    vlib.repo_build("hooked")
    drv = vlib.cpp_driver("drv_prog")
    files = sorted(glob.glob(os.path.join(vlib.VERIF, "corpus", "C03", "*.bloch")))
    tmp = os.path.join(vlib.BUILD, "tmp", "c03c-%d" % os.getpid())
    os.makedirs(tmp, exist_ok=True)
    try:
        cf = os.path.join(tmp, "cases.txt")
        open(cf, "w").write("".join("run %s draws=0.5,0.5\n" % f for f in files))
        rc, out = vlib.sh([drv, cf, "20"], timeout=300)
    finally:
        shutil.rmtree(tmp, ignore_errors=True)
    for f, line in zip(files, out.splitlines()):
        try:
            r = json.loads(line)
        except Exception:
            r = {"status": "unparsable"}
        if not (r.get("status") == "error" and r.get("cat") == "Semantic"):
            chk.report("c03-alias", {"file": f, "source": open(f).read(), "impl": {k: v for k, v in r.items() if k in ("status", "cat", "msg", "stdout", "nq")},
                                     "how": "bloch <file>: two declarations end up denoting one simulator qubit"},
                       "aliasing program %s accepted: two qubit declarations share a simulator qubit" % os.path.basename(f))
    return len(files)


def fresh_qubit_corpus(chk):
    """programs (corpus/C03run) in which a destructor, arbitrarily late in an object's teardown, applies x to a qubit it can still
    reach and then measures a freshly declared qubit: the fresh qubit must read 0, or the run must stop with a Runtime diagnostic -
    it reads 1 only if the two declarations share a simulator qubit"""
    files = sorted(glob.glob(os.path.join(vlib.VERIF, "corpus", "C03run", "*.bloch")))
    res = lc.run_impl([open(f).read() for f in files], opts="draws=0.5,0.5,0.5,0.5")
    for f, r in zip(files, res):
        out = r.get("stdout") or ""
        ok = (r.get("status") == "ok" or (r.get("status") == "error" and r.get("cat") == "Runtime")) and "measured 1" not in out
        if not ok:
            chk.report("c03-fresh-qubit", {"file": f, "source": open(f).read(), "impl": {k: r.get(k) for k in ("status", "cat", "msg", "stdout", "signal")},
                                           "how": "bloch <file>: a freshly declared qubit must measure 0"},
                       "%s: %s %s" % (os.path.basename(f), r.get("status"), (out or r.get("msg") or "")[-100:]))
    return len(files)


def alias_attempts(chk):
    """every route x position by which a second declaration could come to denote a foreign qubit (checks/aliasgen.py)"""
    from checks import aliasgen as ag, langcommon as lc
    ps = ag.programs()
    opts = "draws=0.5,0.5,0.5,0.5"
    res = lc.run_impl([p[2] for p in ps], opts=opts)
    ctl = lc.run_impl([p[3] for p in ps], opts=opts)
    kinds = {}
    for (name, variant, src, csrc), r, c in zip(ps, res, ctl):
        rejected = r.get("status") == "error" and r.get("cat") in ("Semantic", "Runtime")
        kinds[r.get("cat") if rejected else r.get("status")] = kinds.get(r.get("cat") if rejected else r.get("status"), 0) + 1
        if not (rejected or (r.get("status") == "ok" and r.get("stdout") == "0\n")):
            chk.report("c03-alias-%s" % variant, {"route": name, "variant": variant, "source": src,
                                                 "impl": {k: v for k, v in r.items() if k in ("status", "cat", "msg", "stdout", "signal")},
                                                 "expected": "rejected, or prints 0 (the victim `a` is never touched)",
                                                 "how": "bloch <file>"},
                       "route %s (%s): a second declaration denotes the victim's simulator qubit: measure a printed %r" % (name, variant, r.get("stdout")))
        if not (c.get("status") == "ok" and c.get("stdout") == "0\n"):
            chk.report("c03-alias-control", {"route": name, "variant": variant, "source": csrc,
                                             "impl": {k: v for k, v in c.items() if k in ("status", "cat", "msg", "stdout", "signal")},
                                             "expected": "the same program without the aliasing statement is accepted and prints 0"},
                       "control of route %s (%s) does not run to 0: %s %s" % (name, variant, c.get("status"), (c.get("msg") or c.get("stdout") or "")[:120]))
    lt = ag.lifetime_programs()
    lres = lc.run_impl([s_ for _, s_ in lt], opts="draws=0.5,0.5,0.5,0.5,0.5,0.5")
    for (name, src), r in zip(lt, lres):
        out = (r.get("stdout") or "").strip()
        if not (r.get("status") == "ok" and out and set(out) == {"0"}):
            chk.report("c03-handle-lifetime", {"route": name, "source": src, "impl": {k: v for k, v in r.items() if k in ("status", "cat", "msg", "stdout", "signal")},
                                               "expected": "a declaration made while the handle is in use gets its own qubit: every printed bit is 0"},
                       "route %s: a handle read from an object that died was recycled under a new declaration: printed %r" % (name, out))
    sres = lc.run_impl([x[1] for x in ag.STANDALONE], opts="draws=0.5,0.5,0.5,0.5,0.5,0.5")
    for (name, src, want), r in zip(ag.STANDALONE, sres):
        rejected = r.get("status") == "error" and r.get("cat") in ("Semantic", "Runtime")
        if not (rejected or (r.get("status") == "ok" and r.get("stdout") == want)):
            chk.report("c03-standalone", {"case": name, "source": src, "expected": "rejected, or prints %r" % want,
                                          "impl": {k: v for k, v in r.items() if k in ("status", "cat", "msg", "stdout", "signal")}},
                       "%s: printed %r (two declarations share a qubit, or the state is no longer a finite unit vector)" % (name, r.get("stdout")))
    return len(ps) + len(ag.STANDALONE), len(lt), kinds

def run(chk):
    quick = chk.tier == "quick"
    chk.proofs()
    rng = chk.rng
    ncorp = alias_corpus(chk)
    nfresh = fresh_qubit_corpus(chk)
    natt, nlife, att_kinds = alias_attempts(chk)
    progs = []
    for _ in range(200 if quick else 2500):
        ops, draws = sc.gen_reuse_prog(rng, n_ops=rng.randint(8, 18))
        progs.append(sc.Prog(ops, draws))
    for _ in range(150 if quick else 2000):
        ops, draws = sc.gen_prog(rng, max_q=6, n_ops=rng.randint(6, 16), allow_release=True)
        progs.append(sc.Prog(ops, draws))
    # edge draws: outcomes of probability ~0 / ~1, reset of a qubit that is certainly 1, allocation after entanglement
    for th in (0.0, 1e-4, 3.1415, 3.14159265):
        for d in (0.0, 0.999999999):
            progs.append(sc.Prog([('D', 'obj', 2), ('G', 'RY', 0, 0, th), ('CX', 0, 0, 0, 1), ('D', 'var', 1), ('M', 0, 0, 'expr'),
                                  ('G', 'X', 0, 1, 0), ('R', 0, 1), ('K', 0), ('D', 'arr', 2), ('G', 'H', 2, 0, 0)], [d, d, d, d, d, d]))
    res, ndis = sc.check_progs(chk, progs, "c03", rng, aspects=("amps", "nq", "free-list", "sim-flags", "ev-flags", "last-measurement"),
                               extra=sc.impl_state_sane)
    reused = sum(1 for r in res if any(o[0] == 'K' for o in r["prog"].ops[:-1]))
    chk.cov.update({"traces_validated_against_impl": len(progs), "alias_corpus_programs": ncorp, "fresh_qubit_programs": nfresh, "alias_attempt_programs": natt, "alias_attempt_outcomes": att_kinds,
                    "handle_lifetime_programs": nlife, "histories_with_release": reused, "disagreements": ndis,
                    "rule": "random histories of declare (variable / array / object with qubit fields) / gate / cx / measure / reset / destroy-object "
                            "/ re-declare (index recycling), plus near-0/near-1 probabilities and reset of a certainly-1 qubit; after each run the "
                            "implementation's vector must have 2^n finite entries and norm 1 (1e-9) and must equal the model's state, free list, "
                            "flag and last-measurement vectors; corpus: every way of binding one qubit to two declarations must be a Semantic error; "
                            "generated aliasing attempts (local / array element / whole register / field by bare name, this. and from outside / constructor / "
                            "default constructor / class type parameter) x (statement, expression statement, for-step, nested block) x (use the alias, "
                            "recycle after the holder dies): rejected or `measure a` prints 0, and the control without the aliasing statement runs to 0; "
                            "handles read from temporaries (f(make().q) ...) are not recycled while in use"})
