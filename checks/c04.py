"""C04 - reset is local."""
import math, os, shutil
import vlib
from checks import simcommon as sc

TRUSTED_BASE = [
    "Coq 8.16.1 kernel (coqc)",
    "axioms (Coq.Reals): ClassicalDedekindReals.sig_forall_dec, sig_not_dec, FunctionalExtensionality.functional_extensionality_dep",
    "extraction ExtrOcamlBasic+ExtrOcamlString; binary64 instance; harness drv_sim.cpp/drv_prog.cpp; hooks H1,H2,H3",
    "the averaging over runs is the two-branch identity p1*rho(branch1)+(1-p1)*rho(branch0)=rho(before); RNG uniformity is assumed (see C02)",
]

def rho_rest(amps, q, n):
    """reduced density matrix of the qubits other than q, as dict (a,b)->complex over indices with bit q clear"""
    s = 1 << q
    idx = [k for k in range(1 << n) if not (k >> q) & 1]
    z = [complex(x, y) for x, y in amps]
    return {(a, b): z[a] * z[b].conjugate() + z[a + s] * z[b + s].conjugate() for a in idx for b in idx}

def locality_direct(chk, rng, n_cases):
    """statement-level check on the implementation alone: the branch taken by reset follows the target's Born
    probability (threshold at p1) and the p1-weighted average of the two branches has the reduced state of before"""
    vlib.repo_build("hooked")
    drv = vlib.cpp_driver("drv_sim")
    preps, meta = [], []
    for _ in range(n_cases):
        n = rng.randint(2, 5)
        s = ["A"] * n
        for _ in range(rng.randint(2, 10)):
            r = rng.random()
            if r < 0.35:
                c, t = rng.sample(range(n), 2); s += ["CX", str(c), str(t)]
            else:
                g = rng.choice(["H", "RY", "RX", "RZ", "X", "Y"])
                s += [g, str(rng.randrange(n))] + ([sc.fnum(rng.choice(sc.ANGLES))] if g.startswith("R") else [])
        preps.append(s); meta.append((n, rng.randrange(n)))
    tmp = os.path.join(vlib.BUILD, "tmp", "c04-%d" % os.getpid())
    os.makedirs(tmp, exist_ok=True)
    def run_scripts(scripts):
        cf = os.path.join(tmp, "s.txt")
        open(cf, "w").write("".join("script " + " ".join(s) + "\n" for s in scripts))
        rc, out = vlib.sh([drv, cf], timeout=1800)
        lines = out.splitlines()
        if len(lines) != len(scripts):
            chk.violation("c04-crash", {"script": " ".join(scripts[len(lines)]) if len(lines) < len(scripts) else ""}, "simulator driver died")
            lines += ["nq 0 | amps | meas | trace | qasm -"] * (len(scripts) - len(lines))
        return [sc.parse_model_line(l)["amps"] for l in lines]
    bad = 0
    try:
        pres = run_scripts(preps)
        scripts = []
        p1s = []
        for s, (n, q), pre in zip(preps, meta, pres):
            p1 = sum(x * x + y * y for k, (x, y) in enumerate(pre) if (k >> q) & 1) if pre else 0.0
            p1s.append(p1)
            lo = max(p1 - 1e-6, 0.0); hi = min(p1 + 1e-6, 0.999999999999)
            for d in (0.0, 0.999999999999, lo, hi):
                scripts.append(s + ["R", str(q), repr(d)])
        outs = run_scripts(scripts)
        for i, ((n, q), pre, p1) in enumerate(zip(meta, pres, p1s)):
            if not pre:
                continue
            b1, b0, blo, bhi = outs[4 * i: 4 * i + 4]
            rp = rho_rest(pre, q, n)
            r1, r0 = rho_rest(b1, q, n), rho_rest(b0, q, n)
            if p1 < 1e-9 or p1 > 1 - 1e-9:
                avg = {k: 0.5 * (r1[k] + r0[k]) for k in rp}      # only one branch exists; both draws select it
            else:
                avg = {k: p1 * r1[k] + (1 - p1) * r0[k] for k in rp}
            err = max(abs(avg[k] - rp[k]) for k in rp)
            left = max(abs(complex(*b[k])) for b in (b1, b0, blo, bhi) for k in range(1 << n) if (k >> q) & 1)
            thr_ok = True
            if 1e-5 < p1 < 1 - 1e-5:
                thr_ok = sc.amps_close(b1, [list(x) for x in blo], 1e-9) and sc.amps_close(b0, [list(x) for x in bhi], 1e-9)
            if err > 1e-9 or left > 1e-12 or not thr_ok:
                bad += 1
                chk.report("c04-locality", {"script": " ".join(preps[i]), "reset_qubit": q, "p1": p1, "max_deviation_of_reduced_state": err,
                                            "amplitude_left_on_target_1": left, "branch_threshold_at_p1": thr_ok,
                                            "how": "drv_sim on: script <script> R q d  for d in 0.0, 0.999999999999, p1-1e-6, p1+1e-6"},
                           "reset is not local: reduced-state deviation %.3g, target residue %.3g, branch threshold at p1: %s" % (err, left, thr_ok))
    finally:
        shutil.rmtree(tmp, ignore_errors=True)
    return len(meta), bad

def release_cases():
    """(what, source, acceptable outcomes): the implicit reset when an object dies, in situations the generated programs do not reach.
    An outcome is ('runs', stdout, required QASM lines) or 'refused' (a located runtime error)"""
    C = []
    # a parent whose destructor hands 'this' to its child: while the child's destructor runs, the parent's qubit is still the parent's
    C.append(("a child's destructor reaches back to its dying parent's qubit",
              "class Child { public Parent owner; public constructor() -> Child { this.owner = null; return this; }\n"
              " public destructor() -> Child { if (this.owner != null) { qubit n; x(n); bit b = measure this.owner.q; echo(\"owner.q=\" + b); } } }\n"
              "class Parent { public Child c; public qubit q; public constructor() -> Parent { this.c = new Child(); return this; }\n"
              " public destructor() -> Parent { this.c.owner = this; } }\nfunction main() -> void { Parent p = new Parent(); p = null; }",
              [("runs", "owner.q=0\n", [])]))
    # the qubit a generic object allocated for its T field: overwriting the field must not let it escape the reset at the object's death
    box = ("class Box<T> { public T v; public constructor() -> Box<T> = default; public function clear() -> void { %s } }\n"
           "function main() -> void { qubit a; Box<qubit> b = new Box<qubit>(); h(a); cx(a, b.v); b.clear(); b = null; qubit n; measure a; measure n; }")
    for st in ("this.v = null;", "v = null;", "destroy this.v;"):
        C.append(("a generic object's qubit field overwritten by `%s`" % st, box % st, ["refused", ("runs", "", ["reset q[1];"])]))
    C.append(("a generic object's qubit field with an initialiser",
              "class Box<T> { public T v = null; public constructor() -> Box<T> = default; }\n"
              "function main() -> void { qubit a; Box<qubit> b = new Box<qubit>(); b = null; qubit n; measure a; measure n; }",
              ["refused", ("runs", "", ["reset q[1];"])]))
    C.append(("control: the field left alone", box % "", [("runs", "", ["reset q[1];"])]))
    return C

def run_release_cases(chk):
    from checks import langcommon as lc
    C = release_cases()
    res = lc.run_impl([src for _, src, _ in C], opts="draws=0.9,0.9,0.9,0.9")
    for (what, src, ok), r in zip(C, res):
        good = False
        got = "%s %s %s" % (r.get("status"), r.get("cat"), (r.get("msg") or "")[:120])
        for o in ok:
            if o == "refused":
                good = good or (r.get("status") == "error" and r.get("cat") == "Runtime" and (r.get("line") or 0) > 0)
            else:
                lines = [l.strip() for l in (r.get("qasm") or "").splitlines()]
                good = good or (r.get("status") == "ok" and r.get("stdout") == o[1] and all(x in lines for x in o[2]))
        if r.get("status") == "ok":
            got = "runs: stdout %r, circuit %s" % (r.get("stdout"), [l.strip() for l in (r.get("qasm") or "").splitlines()][4:])
        if not good:
            chk.report("c04-release", {"what": what, "source": src, "acceptable": [o if o == "refused" else list(o) for o in ok], "got": got,
                                       "how": "bloch --emit-qasm <source> (measurement outcomes forced to 1)"},
                       "implicit reset at an object's death (%s): got %s" % (what, got))
    return len(C)

def run(chk):
    quick = chk.tier == "quick"
    chk.proofs()
    rng = chk.rng
    nrel = run_release_cases(chk)
    nloc, bad = locality_direct(chk, rng, 150 if quick else 2500)
    progs = []
    # entangled target, reset through: statement, function, object destruction, index reuse
    for _ in range(160 if quick else 2000):
        ops = [('D', 'obj', 2), ('D', rng.choice(['var', 'arr']), 1)]
        ops += [('G', rng.choice(['H', 'RY']), 0, 0, rng.choice(sc.ANGLES)), ('CX', 0, 0, 1, 0), ('G', 'RY', 0, 1, rng.choice(sc.ANGLES)), ('CX', 0, 1, 1, 0)]
        kind = rng.choice(["stmt", "destroy", "reuse"])
        if kind == "stmt":
            ops += [('R', 0, rng.choice([0, 1]))]
        elif kind == "destroy":
            ops += [('K', 0)]
        else:
            ops += [('K', 0), ('D', 'arr', 2), ('G', 'H', 2, 0, 0), ('CX', 2, 0, 1, 0)]
        ops += [('M', 1, 0, 'expr')]
        draws = [rng.choice([0.0, 0.1, 0.3, 0.5, 0.7, 0.9, 0.999999]) for _ in range(8)]
        progs.append(sc.Prog(ops, draws))
    for _ in range(100 if quick else 1500):
        ops, draws = sc.gen_reuse_prog(rng, n_ops=rng.randint(8, 16))
        progs.append(sc.Prog(ops, draws))
    res, ndis = sc.check_progs(chk, progs, "c04", rng, aspects=("amps", "nq", "stdout", "free-list", "sim-flags"), extra=sc.impl_state_sane)
    chk.cov.update({"traces_validated_against_impl": len(progs) + 3 * nloc, "locality_cases": nloc, "locality_failures": bad, "disagreements": ndis, "release_case_programs": nrel,
                    "rule": "locality: random entangling circuits on 2..5 qubits, then reset of a random qubit with the draw forcing each branch; "
                            "p1*rho(branch 1)+(1-p1)*rho(branch 0) must equal the reduced density matrix before the reset (1e-9) and no amplitude may "
                            "remain on target=1. Programs: entangled target reset by statement, by a @quantum function, by object destruction and by "
                            "index reuse, compared amplitude by amplitude with the model"})
