"""C05 - the emitted OpenQASM 2.0 replays to the same quantum state as the simulation."""
import os, shutil, json
import vlib
from checks import simcommon as sc
from checks.c01 import up_to_phase

TRUSTED_BASE = [
    "Coq 8.16.1 kernel (coqc); vm_compute only in the Example",
    "axioms: none for the parse/emit round trip, log = history and operand well-formedness (closed under the global context); the replay theorem "
    "(lazy allocation = register declared up front) is over Coq's reals and depends on the standard library's ClassicalDedekindReals.sig_forall_dec, "
    "ClassicalDedekindReals.sig_not_dec and FunctionalExtensionality.functional_extensionality_dep",
    "extraction ExtrOcamlBasic+ExtrOcamlString; the reader parse_qasm and the replaying simulator are the extracted Coq functions",
    "harness drv_prog.cpp, the real CLI binary for the --emit-qasm/.qasm comparison; hooks H1,H2,H3",
    "std::to_string(double) is modelled by printf(\"%f\") in the OCaml driver; angles are compared after replay with tolerance 5e-7 per rotation",
    "proved over the reals, observed in binary64: that lazily allocated qubits commute with every operation (Sim/LazyAlloc.v); the replay on every "
    "generated program checks the same thing on the implementation, with rounding",
]

def run(chk):
    quick = chk.tier == "quick"
    chk.proofs()
    rng = chk.rng
    progs = []
    for _ in range(220 if quick else 3000):
        ops, draws = sc.gen_prog(rng, max_q=6, n_ops=rng.randint(5, 18), allow_release=(rng.random() < 0.4), decl_mid=True)
        progs.append(sc.Prog(ops, draws))
    for _ in range(60 if quick else 800):
        ops, draws = sc.gen_reuse_prog(rng, n_ops=rng.randint(8, 16))
        progs.append(sc.Prog(ops, draws))
    # cx on one qubit must never reach the log (repaired defect)
    progs.append(sc.Prog([('D', 'var', 1), ('CX', 0, 0, 0, 0)], []))
    progs.append(sc.Prog([('D', 'arr', 2), ('G', 'H', 0, 0, 0), ('CX', 0, 1, 0, 1), ('G', 'X', 0, 0, 0)], []))
    res, ndis = sc.check_progs(chk, progs, "c05", rng, aspects=("qasm", "nq", "amps", "error-kind"), control=True)
    # independent replay of the implementation's own text
    exe_m = vlib.ocaml_engine("sim")
    tmp = os.path.join(vlib.BUILD, "tmp", "c05-%d" % os.getpid())
    os.makedirs(tmp, exist_ok=True)
    n_replay = n_bad = 0
    try:
        todo = [r for r in res if r["impl"].get("status") in ("ok", "error") and "qasm" in r["impl"]]
        with open(os.path.join(tmp, "r.txt"), "w") as f:
            for r in todo:
                outs = "".join(str(d[3]) for d in r["impl"]["draws"]) or "-"
                f.write("replay %s %s\n" % (r["impl"]["qasm"].encode("latin-1").hex(), outs))
        rc, out = vlib.sh([exe_m, os.path.join(tmp, "r.txt")], timeout=1800)
        lines = out.splitlines()
        if len(lines) != len(todo):
            raise RuntimeError("replay driver failed: %s" % out[-300:])
        for r, l in zip(todo, lines):
            n_replay += 1
            c = r["impl"]
            payload = {"source": r["src"], "qasm": c["qasm"], "outcomes": [d[3] for d in c["draws"]],
                       "how": "bloch --emit-qasm on the source; replay the text on any OpenQASM interpreter with the listed measure/reset outcomes"}
            if l.startswith("parse-error"):
                n_bad += 1
                chk.report("c05-malformed", payload, "emitted text is not in the OpenQASM subset the simulator is supposed to emit")
                continue
            d = sc.parse_model_line(l)
            if " wf true" not in l.replace("|", " "):
                n_bad += 1
                chk.report("c05-operands", payload, "emitted program has an operand out of range or a two-qubit gate on one qubit")
                continue
            if d["nq"] != c["nq"]:
                n_bad += 1
                chk.report("c05-register", payload, "qreg size %d differs from the %d qubits used" % (d["nq"], c["nq"]))
                continue
            nrot = c["qasm"].count("rx(") + c["qasm"].count("ry(") + c["qasm"].count("rz(")
            tol = 1e-9 + 1e-6 * nrot
            if not (sc.amps_close(d["amps"], c["amps"], tol) or up_to_phase(d["amps"], c["amps"], tol)):
                n_bad += 1
                payload["replayed"] = d["amps"]; payload["simulated"] = c["amps"]
                chk.report("c05-replay", payload, "replaying the emitted text does not reproduce the simulator's final state")
    finally:
        shutil.rmtree(tmp, ignore_errors=True)
    ncli = cli_file_vs_stdout(chk, res[: (25 if quick else 200)])
    chk.cov.update({"traces_validated_against_impl": len(progs), "texts_replayed": n_replay, "replay_failures": n_bad, "cli_file_vs_stdout": ncli,
                    "disagreements": ndis,
                    "rule": "generated programs (gates via variables, array elements, function/array parameters, object fields and methods, inside "
                            "for-loops and conditionals on measured bits; measurements, resets, object destruction and index reuse; qubits declared "
                            "mid-program). (1) emitted text must equal the model's emit of the model's log byte for byte; (2) the implementation's own "
                            "text is parsed by the extracted reader, checked for operand range/distinctness and register size, replayed on n "
                            "pre-allocated qubits with the recorded outcomes and compared with the simulator's final amplitudes (up to global phase, "
                            "1e-6 per rotation); (3) the .qasm file written by the CLI must equal what --emit-qasm prints."})

def cli_file_vs_stdout(chk, recs):
    exe = os.path.join(vlib.repo_build("hooked"), "bin", "bloch")
    tmp = os.path.join(vlib.BUILD, "tmp", "c05cli-%d" % os.getpid())
    os.makedirs(tmp, exist_ok=True)
    n = 0
    try:
        for i, r in enumerate(recs):
            if r["impl"].get("status") != "ok":
                continue
            # the source is named in the ways a user names it: absolute with the documented extension, without an
            # extension below a directory whose name has a dot, as ./name, and through ../ from a subdirectory
            shape = i % 4
            cwd = os.path.join(tmp, "w%d" % i, "sub")
            os.makedirs(os.path.join(tmp, "w%d" % i, "proj.v1"), exist_ok=True)
            os.makedirs(cwd, exist_ok=True)
            if shape == 0:
                p = arg = os.path.join(tmp, "p%d.bloch" % i); q = os.path.join(tmp, "p%d.qasm" % i)
            elif shape == 1:
                arg = "../proj.v1/prog"; p = os.path.join(tmp, "w%d" % i, "proj.v1", "prog"); q = p + ".qasm"
            elif shape == 2:
                arg = "./prog"; p = os.path.join(cwd, "prog"); q = p + ".qasm"
            else:
                arg = "../../w%d/main.v2.bloch" % i; p = os.path.join(tmp, "w%d" % i, "main.v2.bloch")
                q = os.path.join(tmp, "w%d" % i, "main.v2.qasm")
            open(p, "w").write(r["src"])
            dfile = os.path.join(tmp, "d%d.txt" % i)
            open(dfile, "w").write("\n".join(sc.fnum(d) for d in r["prog"].draws) + "\n")
            rc, out = vlib.sh([exe, "--emit-qasm", arg], cwd=cwd, env={"BLOCH_NO_UPDATE_CHECK": "1", "BLOCH_VERIF_DRAWS": dfile}, timeout=60)
            n += 1
            text = open(q).read() if os.path.exists(q) else None
            if rc != 0 or text is None or not out.endswith(text) or text != r["impl"]["qasm"]:
                chk.report("c05-file", {"source": r["src"], "stdout": out[-2000:], "file": text, "rc": rc,
                                        "path": arg, "expected_file": os.path.relpath(q, cwd),
                                        "how": "from a directory sub/: bloch --emit-qasm <path>; diff <path without extension>.qasm against the OPENQASM block printed"},
                           "the .qasm file differs from what --emit-qasm prints")
    finally:
        shutil.rmtree(tmp, ignore_errors=True)
    return n
