"""C06 - a measured qubit cannot be operated on until reset, through any access path."""
import itertools
import vlib
from checks import simcommon as sc

TRUSTED_BASE = [
    "Coq 8.16.1 kernel (coqc); vm_compute only in the Example",
    "axioms: none (all C06 theorems closed under the global context)",
    "extraction ExtrOcamlBasic+ExtrOcamlString; harness drv_prog.cpp; hooks H1,H2,H3",
    "modelled not verified: only the qubit-relevant part of the evaluator (EvalQ.v); control flow around it is exercised by the generated programs",
]

def exhaustive(maxlen):
    """all op sequences of length <= maxlen over a scalar v (handle 0) and a 2-element register (handle 1)"""
    targets = [(0, 0), (1, 0), (1, 1)]
    alphabet = []
    for (h, e) in targets:
        alphabet.append(('G', 'X', h, e, 0.0))
        alphabet.append(('M', h, e, 'stmt'))
        alphabet.append(('M', h, e, 'expr'))
        alphabet.append(('R', h, e))
    alphabet.append(('MA', 1))
    alphabet.append(('CX', 0, 0, 1, 0))
    alphabet.append(('CX', 1, 1, 0, 0))
    seqs = []
    for L in range(1, maxlen + 1):
        for s in itertools.product(alphabet, repeat=L):
            seqs.append(list(s))
    return seqs

def field_routes():
    """(what, source, expectation): a qubit named through class fields in the ways the generated programs do not reach.
    expectation: 'refused' = a located Runtime error naming a measured qubit; 'runs:<stdout>'; 'rejected' = Semantic error; a tuple lists
    the acceptable ones (the documentation leaves the choice)"""
    R = []
    hide = ("class O { %s qubit q; public constructor() -> O { } public function f() -> void { measure q; x(this.q); echo(\"gated\"); } }\n"
            "class D extends O { %s public constructor() -> D { super(); } }\nfunction main() -> void { %s d = new D(); d.f(); }")
    R.append(("bare name then this.name in a base method, plain subclass", hide % ("private", "", "D"), "refused"))
    R.append(("bare name then this.name, receiver declared as the base", hide % ("protected", "", "O"), "refused"))
    # a subclass field of the same name must not make q and this.q two qubits: refuse the gate, or reject the declaration
    R.append(("bare name then this.name, subclass re-declares the field", hide % ("private", "private qubit q;", "D"), ("refused", "rejected")))
    R.append(("bare name then this.name, subclass re-declares it as a register", hide % ("public", "public qubit[2] q;", "D"), ("refused", "rejected")))
    reg = ("class A { %s public qubit[%s] r; public constructor() -> A { } }\n"
           "function main() -> void { A a = new A(); x(a.r[1]); bit b = measure a.r[1]; echo(b); %s }")
    R.append(("register field, literal size: never-measured element accepts a gate", reg % ("", "2", ""), "runs:1\n"))
    R.append(("register field, literal size: measured element refuses a gate", reg % ("", "2", "x(a.r[1]);"), "refused"))
    R.append(("register field, literal size: the other element is still usable", reg % ("", "2", "x(a.r[0]); echo(\"ok\");"), "runs:1\nok\n"))
    # sized by a class constant: length N, or rejected - never a register of length 0 that refuses every gate
    R.append(("register field sized by a static final field", reg % ("public static final int N = 2;", "N", ""), ("runs:1\n", "rejected")))
    # a handle to a qubit of a temporary object, bound to a parameter: allocations made while the handle is alive must not recycle it
    tmpl = ("class Reg { public qubit[2] qs; public qubit s; public constructor() -> Reg { } }\nfunction make() -> Reg { return new Reg(); }\n"
            "function probe(qubit a) -> void { %s }\nfunction main() -> void { probe(make().%s); }")
    for route in ("qs[1]", "qs[0]", "s"):
        R.append(("temporary's %s: measured, a fresh local declared, then a gate" % route,
                  tmpl % ("measure a; qubit fresh; h(fresh); h(a); echo(\"gated\");", route), "refused"))
        R.append(("temporary's %s: measured, a fresh object created, then a gate" % route,
                  tmpl % ("measure a; Reg other = new Reg(); h(other.s); h(a); echo(\"gated\");", route), "refused"))
        R.append(("temporary's %s: never measured, a fresh local measured, then a gate" % route,
                  tmpl % ("qubit fresh; measure fresh; h(a); echo(\"ok\");", route), "runs:ok\n"))
        R.append(("temporary's %s: measured, reset, then a gate" % route,
                  tmpl % ("measure a; qubit fresh; reset a; x(a); echo(\"ok\");", route), "runs:ok\n"))
    # the inherited qubit field named as super.q (the analyser accepts it)
    sup = ("class A { public qubit q; public constructor() -> A { } }\nclass D extends A { public constructor() -> D { super(); }\n"
           "  public function go() -> void { %s } }\nfunction main() -> void { D d = new D(); d.go(); }")
    R.append(("super.q, never measured: accepts a gate and a measurement", sup % "x(super.q); bit b = measure super.q; echo(b);", "runs:1\n"))
    R.append(("super.q measured, then a gate through this.q", sup % "measure super.q; x(this.q); echo(\"gated\");", "refused"))
    R.append(("q measured, then a gate through super.q", sup % "measure q; x(super.q); echo(\"gated\");", "refused"))
    R.append(("super.q measured, reset, then a gate", sup % "measure super.q; reset super.q; x(super.q); echo(\"ok\");", "runs:ok\n"))
    # a local declared through a type parameter bound to qubit is a qubit like a field declared that way
    gen = ("class G<T> { public constructor() -> G<T> { }\n  public function go() -> void { T w; %s } }\n"
           "function main() -> void { G<qubit> g = new G<qubit>(); g.go(); g.go(); }")
    R.append(("local of type T = qubit, never measured: accepts a measurement", gen % "bit b = measure w; echo(b);", "runs:0\n0\n"))
    R.append(("local of type T = qubit, measured twice", gen % "measure w; measure w; echo(\"again\");", "refused"))
    genr = ("class G<T> { public constructor() -> G<T> { }\n  public function go() -> void { T[2] la; %s } }\n"
            "function main() -> void { G<qubit> g = new G<qubit>(); g.go(); }")
    R.append(("local register of type T[2], T = qubit, never measured: accepts a measurement", genr % "measure la; echo(\"measured\");", "runs:measured\n"))
    R.append(("local register of type T[2], T = qubit, measured twice", genr % "measure la; measure la; echo(\"again\");", "refused"))
    # a measurement written once inside an array literal in expression position happens once
    lit = "function show(bit[] b) -> void { echo(b[0]); }\nfunction main() -> void { qubit q; x(q); %s }"
    R.append(("measure as the first element of an array-literal argument", lit % "show({measure q});", "runs:1\n"))
    R.append(("measure as the first element of an assigned array literal", lit % "bit[] b = {0b}; b = {measure q, 0b}; echo(b[0]);", "runs:1\n"))
    R.append(("measure as the second element of an array-literal argument", lit % "qubit p; show({measure p, measure q}); x(p); echo(\"no\");", "refused"))
    R.append(("the literal's qubit, measured once there, then refuses a gate", lit % "show({measure q}); x(q);", "refused"))
    return R

def run_field_routes(chk):
    from checks import langcommon as lc
    R = field_routes()
    res = lc.run_impl([src for _, src, _ in R], opts="draws=0.9,0.9,0.9,0.9")
    for (what, src, exp), r in zip(R, res):
        st = r.get("status")
        if st == "error" and r.get("cat") == "Runtime" and "already been measured" in (r.get("msg") or "") and (r.get("line") or 0) > 0:
            got = "refused"
        elif st == "error" and r.get("cat") == "Semantic":
            got = "rejected"
        elif st == "ok":
            got = "runs:" + (r.get("stdout") or "")
        else:
            got = "%s %s %s" % (st, r.get("cat"), (r.get("msg") or "")[:100])
        ok = got in exp if isinstance(exp, tuple) else got == exp
        if not ok:
            chk.report("c06-field-route", {"what": what, "source": src, "expected": exp, "got": got,
                                           "how": "bloch <source> (measurement outcomes forced to 1)"},
                       "a qubit named through a class field (%s): expected %s, got %s" % (what, exp, got))
    return len(R)

def run(chk):
    quick = chk.tier == "quick"
    chk.proofs()
    rng = chk.rng
    nroutes = run_field_routes(chk)
    seqs = exhaustive(2 if quick else 3)
    progs = []
    kinds = [('var', 'arr'), ('obj', 'arr'), ('var', 'obj')]
    for i, s in enumerate(seqs):
        k0, k1 = kinds[i % 3]
        ops = [('D', k0, 1), ('D', k1, 2)]
        body = []
        for o in s:
            if o[0] == 'MA' and k1 != 'arr':
                body += [('M', 1, 0, 'stmt'), ('M', 1, 1, 'stmt')]
            else:
                body.append(o)
        progs.append(sc.Prog(ops + body, [0.3, 0.7, 0.2, 0.9, 0.4, 0.6, 0.1, 0.8]))
    # random longer histories that are allowed to touch measured qubits
    for _ in range(150 if quick else 1500):
        ops, draws = sc.gen_prog(rng, max_q=4, n_ops=rng.randint(4, 12), allow_bad=True, allow_reset=True, allow_release=(rng.random() < 0.3))
        progs.append(sc.Prog(ops, draws))
    res, ndis = sc.check_progs(chk, progs, "c06", rng,
                               aspects=("error-unlocated", "error-kind", "sim-flags", "ev-flags", "last-measurement", "stdout"))
    refused = sum(1 for r in res if any(t.startswith("err:measured") for t in r["model"]["trace"]))
    chk.cov.update({"traces_validated_against_impl": len(progs), "exhaustive_sequences": len(seqs), "exhaustive": False,
                    "programs_ending_in_a_refusal": refused, "disagreements": ndis, "field_route_programs": nroutes,
                    "rule": "all sequences of length <= %d over {x, measure (statement/expression), reset} on a scalar and each element of a "
                            "2-qubit register, measure-array, cx in both directions (enumerated completely), each rendered through variables, "
                            "array elements, function parameters, array parameters, object fields and methods; plus random histories that may "
                            "touch measured qubits. Compared: whether the run stops, that the diagnostic is a located Runtime error naming a measured "
                            "qubit, both flag vectors and the last-measurement vector after the run." % (2 if quick else 3)})
