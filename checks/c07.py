"""C07 - classical evaluation agrees with the reference interpreter written from the documentation."""
import vlib
from checks import langgen as lg
from checks import langcommon as lc

TRUSTED_BASE = [
    "Coq 8.16.1 kernel (coqc)",
    "axioms: none (theorems are stated over an abstract float type with an arbitrary operations record)",
    "extraction ExtrOcamlBasic+ExtrOcamlString; extract/driver_lang.ml instantiates the float record with IEEE doubles "
    "(OCaml float, Printf %g/%.1f) and parses the s-expression form of each generated program; harness/cpp/drv_prog.cpp runs the same "
    "source through /repo's loader, analyser and evaluator",
    "checks/langgen.py renders one generated syntax tree twice (Bloch source, s-expression): a rendering mismatch shows as a disagreement, never hides one",
    "modelled, not verified: the reference interpreter is the documentation's semantics; the implementation is tied to it by differential "
    "execution only; programs whose results the documentation does not fix (long overflow, float-to-integer conversion out of range) are skipped and counted",
]

def precedence_matrix():
    """every ordered pair of binary operators of one operand domain, in both tree shapes, over operand triples that tell
    the shapes apart, written with minimal parentheses: the printed value is the documented precedence / associativity"""
    I = lambda v: ("i", v)
    doms = [(["+", "-", "*", "/", "%"], [(I(7), I(3), I(2)), (I(9), I(4), I(5)), (I(2), I(8), I(3))]),
            (["&&", "||"], [(("B", 1), ("B", 0), ("B", 0)), (("B", 0), ("B", 0), ("B", 1)), (("B", 1), ("B", 1), ("B", 0)), (("B", 0), ("B", 1), ("B", 1))]),
            (["&", "|", "^"], [(("b", 1), ("b", 0), ("b", 0)), (("b", 0), ("b", 0), ("b", 1)), (("b", 1), ("b", 1), ("b", 0)), (("b", 1), ("b", 1), ("b", 1))])]
    out = []
    for ops, triples in doms:
        body = []
        for o1 in ops:
            for o2 in ops:
                for (a, b, c) in triples:
                    body.append(("echo", ("bin", o2, ("bin", o1, a, b), c)))      # (a o1 b) o2 c
                    body.append(("echo", ("bin", o1, a, ("bin", o2, b, c))))      # a o1 (b o2 c)
        # levels against each other: comparison over arithmetic, equality over comparison, logic over equality, unary
        if ops[0] == "+":
            for (a, b, c) in triples:
                for cmp_ in ("<", ">=", "==", "!="):
                    body.append(("echo", ("bin", cmp_, ("bin", "-", a, b), ("bin", "*", b, c))))
                    body.append(("echo", ("bin", "==", ("bin", "<", a, b), ("bin", ">", b, c))))
                    body.append(("echo", ("bin", "||", ("bin", cmp_, a, b), ("bin", "&&", ("bin", "<", b, c), ("bin", "==", a, c)))))
                    body.append(("echo", ("bin", "&&", ("bin", "||", ("bin", cmp_, a, b), ("bin", "<", b, c)), ("bin", "==", a, c))))
                body.append(("echo", ("bin", "*", ("un", "-", a), b)))
                body.append(("echo", ("un", "-", ("bin", "*", a, b))))
                body.append(("echo", ("bin", "-", ("un", "-", a), ("un", "-", b))))
                body.append(("echo", ("un", "!", ("bin", "<", a, b))))
                body.append(("echo", ("bin", "||", ("un", "!", ("bin", "<", a, b)), ("bin", "<", a, b))))
        fns = [("main", "void", [], body)]
        lg.PAREN_MODE = "min"
        try:
            out.append((fns, None, lg.prog_src(fns)))
        finally:
            lg.PAREN_MODE = "full"
    return out


def run(chk):
    quick = chk.tier == "quick"
    chk.proofs()
    rng = chk.rng
    n = 400 if quick else 6000
    progs = []
    stats = {}
    for i in range(n):
        g = lg.Gen(rng, nfuncs=rng.randint(0, 4))
        fns = g.program()
        if i % 2 == 1:
            # the same tree written with only the parentheses the documented grammar requires
            lg.PAREN_MODE = "min"
            try:
                progs.append((fns, None, lg.prog_src(fns)))
            finally:
                lg.PAREN_MODE = "full"
            stats["minimal-parentheses rendering"] = stats.get("minimal-parentheses rendering", 0) + 1
        else:
            progs.append(fns)
        for k, v in g.stats.items():
            stats[k] = stats.get(k, 0) + v
    progs += precedence_matrix()
    recs, counts = lc.differential(chk, progs, "c07")
    agree = [r for r in recs if r["verdict"] == "agree"]
    nontriv = len({r["sx"] for r in agree if (r["model"]["status"] == "err" or len(r["model"].get("lines", [])) >= 2)})
    chk.cov.update({"programs": len(progs), "disagreements_checked": len(progs) - counts.get("agree", 0) - sum(v for k, v in counts.items() if k.startswith("skip") or k == "rejected"),
                    "verdicts": counts, "agreeing_nontrivial_programs": nontriv,
                    "agreeing_runtime_errors": sum(1 for r in agree if r["model"]["status"] == "err"),
                    "construct_counts": dict(sorted(stats.items())),
                    "rule": "type-directed random programs over the documented classical core (all scalar types, promotion pairs, '/', '%', comparisons, "
                            "logical/bitwise operators, casts, concatenation, arrays incl. copies, element conversions and bounds errors, if/else, ternary statement, "
                            "while, for, postfix, chained assignment, functions with array parameters, recursion, early return, shuffled declaration order); half of the programs are written with only the "
                            "parentheses the documented precedence and associativity require; plus a precedence matrix (every ordered pair of binary operators of one operand domain in both "
                            "tree shapes, and the levels against each other, written with minimal parentheses); "
                            "non-trivial = agrees and prints at least two lines or ends in a runtime error; distinct by program text"})
    for r in (agree[:1] + agree[-1:]):
        chk.sample({"program": r["src"], "reference": r["model"]})
