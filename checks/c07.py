"""C07 - classical evaluation agrees with the reference interpreter written from the documentation."""
import vlib
from checks import langgen as lg
from checks import langcommon as lc

TRUSTED_BASE = [
    "Coq 8.16.1 kernel (coqc)",
    "axioms: none (theorems are stated over an abstract float type with an arbitrary operations record)",
    "extraction ExtrOcamlBasic+ExtrOcamlString; extract/driver_lang.ml instantiates the float record with IEEE doubles "
    "(OCaml float, Printf %g/%.1f) and parses the s-expression form of each generated program; harness/cpp/drv_prog.cpp runs the same "
    "source through /repo's loader, analyser and evaluator",
    "checks/langgen.py renders one generated syntax tree twice (Bloch source, s-expression): a rendering mismatch shows as a disagreement, never hides one",
    "modelled, not verified: the reference interpreter is the documentation's semantics; the implementation is tied to it by differential "
    "execution only; programs whose results the documentation does not fix (long overflow, float-to-integer conversion out of range) are skipped and counted",
]

def precedence_matrix():
    """every ordered pair of binary operators of one operand domain, in both tree shapes, over operand triples that tell
    the shapes apart, written with minimal parentheses: the printed value is the documented precedence / associativity"""
    I = lambda v: ("i", v)
    doms = [(["+", "-", "*", "/", "%"], [(I(7), I(3), I(2)), (I(9), I(4), I(5)), (I(2), I(8), I(3))]),
            (["&&", "||"], [(("B", 1), ("B", 0), ("B", 0)), (("B", 0), ("B", 0), ("B", 1)), (("B", 1), ("B", 1), ("B", 0)), (("B", 0), ("B", 1), ("B", 1))]),
            (["&", "|", "^"], [(("b", 1), ("b", 0), ("b", 0)), (("b", 0), ("b", 0), ("b", 1)), (("b", 1), ("b", 1), ("b", 0)), (("b", 1), ("b", 1), ("b", 1))])]
    out = []
    for ops, triples in doms:
        body = []
        for o1 in ops:
            for o2 in ops:
                for (a, b, c) in triples:
                    body.append(("echo", ("bin", o2, ("bin", o1, a, b), c)))      # (a o1 b) o2 c
                    body.append(("echo", ("bin", o1, a, ("bin", o2, b, c))))      # a o1 (b o2 c)
        # levels against each other: comparison over arithmetic, equality over comparison, logic over equality, unary
        if ops[0] == "+":
            for (a, b, c) in triples:
                for cmp_ in ("<", ">=", "==", "!="):
                    body.append(("echo", ("bin", cmp_, ("bin", "-", a, b), ("bin", "*", b, c))))
                    body.append(("echo", ("bin", "==", ("bin", "<", a, b), ("bin", ">", b, c))))
                    body.append(("echo", ("bin", "||", ("bin", cmp_, a, b), ("bin", "&&", ("bin", "<", b, c), ("bin", "==", a, c)))))
                    body.append(("echo", ("bin", "&&", ("bin", "||", ("bin", cmp_, a, b), ("bin", "<", b, c)), ("bin", "==", a, c))))
                body.append(("echo", ("bin", "*", ("un", "-", a), b)))
                body.append(("echo", ("un", "-", ("bin", "*", a, b))))
                body.append(("echo", ("bin", "-", ("un", "-", a), ("un", "-", b))))
                body.append(("echo", ("un", "!", ("bin", "<", a, b))))
                body.append(("echo", ("bin", "||", ("un", "!", ("bin", "<", a, b)), ("bin", "<", a, b))))
        fns = [("main", "void", [], body)]
        lg.PAREN_MODE = "min"
        try:
            out.append((fns, None, lg.prog_src(fns)))
        finally:
            lg.PAREN_MODE = "full"
    return out


def doc_corpus():
    """programs outside the generator's grammar whose output follows from the documentation alone: (name, source, expected stdout)"""
    return [
        ("element assignment as an expression yields the assigned value", "function main() -> void { int[] a = {1, 2}; int x = a[1] = 5; echo(x); echo(a); }", "5\n{1, 5}\n"),
        ("chained element assignment", "function main() -> void { int[] b = {0, 0}; b[0] = b[1] = 7; echo(b); }", "{7, 7}\n"),
        ("element assignment whose value writes the same array", "class H { public int[] xs = {1, 2, 3}; public constructor() -> H { }\n"
         "  public function bump() -> int { xs[2] = 30; return 20; }\n  public function go() -> void { xs[1] = bump(); echo(xs); } }\n"
         "function main() -> void { H h = new H(); h.go(); }", "{1, 20, 30}\n"),
        ("int literal array as a long[] argument", "function sq(long[] v) -> long { return v[0] * v[0]; }\nfunction main() -> void { echo(sq({100000, 2})); }", "10000000000\n"),
        ("int literal array as a float[] argument", "function half(float[] v) -> float { return v[0] / 2; }\nfunction main() -> void { echo(half({1, 2})); }", "0.5\n"),
        ("nested bitwise operators on bit[]", "function main() -> void { bit[] m = {0b, 1b, 1b}; bit[] n = ~m; echo(~(~m)); echo((m & n) | m); echo(m ^ n & 1b); }",
         "{0, 1, 1}\n{0, 1, 1}\n{1, 1, 1}\n"),
        ("bit[] operators through a function", "function f(bit[] m) -> bit[] { return ~m | m; }\nfunction main() -> void { bit[] m = {0b, 1b}; echo(f(m) ^ ~m & 1b); }", "{0, 1}\n"),
        ("for over long and boolean", "function main() -> void { for (long i = 4000000000L; i < 4000000002L; i = i + 1L) { echo(i); } for (boolean go = true; go; go = false) { echo(go); } }",
         "4000000000\n4000000001\ntrue\n"),
        ("array literal in argument position evaluates each element once", "function f(int k) -> int { echo(\"f\" + k); return k; }\nfunction s(int[] v) -> int { return v[0] + v[1]; }\n"
         "function main() -> void { echo(s({f(1), f(2)})); int[] a = {0}; a = {f(3)}; echo(a); }", "f1\nf2\n3\nf3\n{3}\n"),
        ("int literal array as a long[] / float[] argument of a method and a constructor",
         "class O { public long[] ls; public constructor(long[] l) -> O { this.ls = l; return this; }\n  public function g(float[] a) -> void { echo(a[0] / 2); }\n"
         "  public function h(long[] a) -> long { return a[0] * a[0]; } }\n"
         "function main() -> void { O o = new O({100000, 2}); o.g({1, 2}); echo(o.h({100000})); echo(o.ls[0] * o.ls[0]); }", "0.5\n10000000000\n10000000000\n"),
        ("a local named like a field, initialised from the field", "class C { public int y = 41; public constructor() -> C { }\n  public function m() -> int { int y = y + 1; return y; } }\n"
         "function main() -> void { C c = new C(); echo(c.m()); echo(c.y); }", "42\n41\n"),
    ]


def run(chk):
    quick = chk.tier == "quick"
    chk.proofs()
    rng = chk.rng
    n = 400 if quick else 6000
    progs = []
    stats = {}
    for i in range(n):
        g = lg.Gen(rng, nfuncs=rng.randint(0, 4))
        fns = g.program()
        if i % 2 == 1:
            # the same tree written with only the parentheses the documented grammar requires
            lg.PAREN_MODE = "min"
            try:
                progs.append((fns, None, lg.prog_src(fns)))
            finally:
                lg.PAREN_MODE = "full"
            stats["minimal-parentheses rendering"] = stats.get("minimal-parentheses rendering", 0) + 1
        else:
            progs.append(fns)
        for k, v in g.stats.items():
            stats[k] = stats.get(k, 0) + v
    progs += precedence_matrix()
    recs, counts = lc.differential(chk, progs, "c07")
    dc = doc_corpus()
    dres = lc.run_impl([x[1] for x in dc])
    for (name, src, want), r in zip(dc, dres):
        if r.get("status") != "ok" or r.get("stdout") != want:
            chk.report("c07-documented", {"case": name, "source": src, "expected_output": want,
                                          "implementation": {k: r.get(k) for k in ("status", "cat", "msg", "stdout")}, "how": "run /repo's bloch on the source"},
                       "%s: expected %r, got %s %r" % (name, want, r.get("status"), (r.get("msg") or r.get("stdout") or "")[:100]))
    stats["documented-behaviour corpus"] = len(dc)
    agree = [r for r in recs if r["verdict"] == "agree"]
    nontriv = len({r["sx"] for r in agree if (r["model"]["status"] == "err" or len(r["model"].get("lines", [])) >= 2)})
    chk.cov.update({"programs": len(progs), "disagreements_checked": len(progs) - counts.get("agree", 0) - sum(v for k, v in counts.items() if k.startswith("skip") or k == "rejected"),
                    "verdicts": counts, "agreeing_nontrivial_programs": nontriv,
                    "agreeing_runtime_errors": sum(1 for r in agree if r["model"]["status"] == "err"),
                    "construct_counts": dict(sorted(stats.items())),
                    "rule": "type-directed random programs over the documented classical core (all scalar types, promotion pairs, '/', '%', comparisons, "
                            "logical/bitwise operators, casts, concatenation, arrays incl. copies, element conversions and bounds errors, if/else, ternary statement, "
                            "while, for, postfix, chained assignment, functions with array parameters, recursion, early return, shuffled declaration order); half of the programs are written with only the "
                            "parentheses the documented precedence and associativity require; plus a precedence matrix (every ordered pair of binary operators of one operand domain in both "
                            "tree shapes, and the levels against each other, written with minimal parentheses); "
                            "non-trivial = agrees and prints at least two lines or ends in a runtime error; distinct by program text"})
    for r in (agree[:1] + agree[-1:]):
        chk.sample({"program": r["src"], "reference": r["model"]})
