"""C08 - object model: construction order, dispatch, overloads, statics, destructors as documented."""
import vlib
from checks import langgen as lg
from checks import langcommon as lc
from checks import objgen as og
from checks import gengen

TRUSTED_BASE = [
    "Coq 8.16.1 kernel (coqc); vm_compute only in the Examples",
    "axioms: none",
    "extraction ExtrOcamlBasic+ExtrOcamlString; extract/driver_lang.ml; harness/cpp/drv_prog.cpp",
    "checks/objgen.py renders one generated class hierarchy twice (Bloch source, s-expression)",
    "modelled, not verified: the reference interpreter's object layer (Lang/Eval.v) is the documentation's rules - base-first construction, "
    "field initialisers before the constructor body, overload choice by least conversion cost over static types, most-derived override for "
    "virtual calls, super.m() without dispatch, statics per class, destructors derived-first when the last reference goes - and the implementation "
    "is tied to it by differential execution. Generic classes are covered by monomorphisation: the source declares the templates once, the interpreter receives one class per reached instantiation (checks/gengen.py); upcasts between generic classes are not generated. Orders the documentation leaves open (several "
    "objects released by one scope exit) are flagged by the interpreter and skipped.",
]

def doc_corpus():
    """object-model programs outside the generators' reach whose output follows from the documented rules: (name, source, expected stdout)"""
    AB = "class A { public constructor() -> A = default; }\nclass B extends A { public constructor() -> B { super(); } }\n"
    O = ("class O { public constructor() -> O = default;\n  public function f(A a) -> string { return \"f(A)\"; }\n  public function f(B b) -> string { return \"f(B)\"; }\n"
         "  public function h(int a) -> string { return \"h(int)\"; }\n  public function h(long a) -> string { return \"h(long)\"; } }\n")
    GB = 'class Box<T> {\n  public T v;\n  public constructor(T v) -> Box<T> { this.v = v; return this; }\n  public function get() -> T { return this.v; }\n  public virtual function put(T x) -> void { this.v = x; }\n}\nclass IBox extends Box<int> {\n  public constructor() -> IBox { super(1); return this; }\n  public function twice() -> int { int y = get(); put(y + y); int z = super.get(); return z; }\n}\nclass SubBox<U> extends Box<U> {\n  public constructor(U u) -> SubBox<U> { super(u); return this; }\n  public function again(U x) -> U { put(x); super.put(x); U r = get(); return r; }\n}\nfunction main() -> void { IBox i = new IBox(); echo(i.twice()); SubBox<string> s = new SubBox<string>("a"); echo(s.again("b")); }\n'
    SINK = ("class Dog { public constructor() -> Dog = default; }\nclass Sink<T> { public constructor() -> Sink<T> = default; public virtual function put(T x) -> void; }\n"
            "class DogSink extends Sink<Dog> { public constructor() -> DogSink { super(); return this; } public override function put(Dog x) -> void { echo(\"dog\"); } }\n"
            "function main() -> void { Sink<Dog> s = new DogSink(); s.put(new Dog()); }")
    SS = 'class A { public int size = 3; public constructor() -> A = default; public virtual function size() -> int { return 10; } }\nclass B extends A { public constructor() -> B { super(); return this; }\n  public override function size() -> int { return 20; }\n  public function show() -> void { echo(super.size); echo(super.size()); echo(super.size + 1); echo(this.size()); } }\nfunction main() -> void { B b = new B(); b.show(); }\n'
    return [
        ("super.f is the inherited field, super.f() the base method, when both are called f", SS, "3\n10\n4\n20\n"),
        ("an abstract method of a generic base implemented in terms of the type argument", SINK, "dog\n"),
        ("bare and super calls of methods inherited from a generic base take the base's type arguments", GB, "2\nb\n"),
        ("after destroy a variable is a null reference of its class",
         AB + O + "class Dg { public constructor() -> Dg = default; public destructor() -> Dg { echo(\"~Dg\"); } }\n"
         "function main() -> void { Dg d = new Dg(); destroy d; if (d != null) { echo(\"not null\"); } else { echo(\"null\"); } "
         "O o = new O(); A x = new B(); destroy x; echo(o.f(x)); echo(x == null); }", "~Dg\nnull\nf(A)\ntrue\n"),
        ("destroy of a field, instance or static, gives the reference up at once",
         "class R { public string n; public constructor(string n) -> R { this.n = n; return this; } public destructor() -> R { echo(\"~R \" + this.n); } }\n"
         "class H { public static R inst = new R(\"static\"); public R child = new R(\"child\"); public constructor() -> H = default; }\n"
         "function main() -> void { H h = new H(); destroy h.child; echo(\"a\"); destroy H.inst; echo(\"b\"); echo(H.inst == null); echo(h.child == null); }",
         "~R child\na\n~R static\nb\ntrue\ntrue\n"),
        ("static fields: defaults first, then the declared initialisers in textual order",
         "class A { public static A first = new A(); public static int count = 5; public int id; public constructor() -> A { count = count + 1; this.id = count; return this; } }\n"
         "function main() -> void { echo(A.count); A b = new A(); echo(b.id); echo(A.first.id); }", "5\n6\n1\n"),
        ("a class first initialised on demand is not initialised again in its turn",
         "static class A { public static int v = B.t + 1; }\nstatic class B { public static int n = 0; public static int t = bump(); public static function bump() -> int { n = n + 1; echo(\"bump\"); return 1; } }\n"
         "function main() -> void { echo(A.v); echo(B.n); }", "bump\n2\n1\n"),
        ("a variable keeps its declared class through null and reassignment",
         AB + O + "function main() -> void { O o = new O(); A x = new B(); echo(o.f(x)); x = null; echo(o.f(x)); x = new B(); echo(o.f(x)); }", "f(A)\nf(A)\nf(A)\n"),
        ("a field keeps its declared class through null and reassignment",
         AB + O + "class W { public A x = new B(); public constructor() -> W = default;\n  public function go(O o) -> void { echo(o.f(x)); x = null; echo(o.f(x)); this.x = new B(); echo(o.f(this.x)); } }\n"
         "function main() -> void { W w = new W(); w.go(new O()); }", "f(A)\nf(A)\nf(A)\n"),
        ("the constructor that runs is an accessible one",
         AB + "class K { public string tag;\n  public constructor(A a) -> K { this.tag = \"public K(A)\"; }\n  private constructor(B b) -> K { this.tag = \"private K(B)\"; }\n"
         "  public static function own() -> K { return new K(new B()); } }\nclass K2 extends K { public constructor(B b) -> K2 { super(b); } }\n"
         "function main() -> void { K k = new K(new B()); echo(k.tag); K2 k2 = new K2(new B()); echo(k2.tag); echo(K.own().tag); }",
         "public K(A)\npublic K(A)\nprivate K(B)\n"),
        ("a slot declared with a type parameter has the type argument's static type",
         AB + O + "class G<T extends A> { public constructor() -> G<T> = default;\n  public function id(T x) -> T { return x; }\n  public function show(O o, T x) -> string { return o.f(x); } }\n"
         "class P<T> { public constructor() -> P<T> = default;\n  public function id(T x) -> T { return x; } }\n"
         "function main() -> void { O o = new O(); G<A> ga = new G<A>(); echo(o.f(ga.id(new B()))); echo(ga.show(o, new B()));\n"
         "  P<long> pl = new P<long>(); echo(o.h(pl.id(1))); echo(pl.id(2147483647) + 1); }", "f(A)\nf(A)\nh(long)\n2147483648\n"),
        ("a null in a slot of a generic type has that static type",
         "class Box<T> { public T v; public constructor(T v) -> Box<T> { this.v = v; } }\n"
         "class O { public Box<int> fld = null; public constructor() -> O = default;\n  public function f(Box<int> b) -> string { return \"f(Box<int>)\"; }\n"
         "  public function f(Box<string> b) -> string { return \"f(Box<string>)\"; }\n  public function g(Box<int> b) -> string { return f(b); }\n  public function mk() -> Box<int> { return null; } }\n"
         "function main() -> void { O o = new O(); Box<int> x = null; echo(o.f(x)); echo(o.f(o.fld)); echo(o.g(null)); echo(o.f(o.mk())); }",
         "f(Box<int>)\nf(Box<int>)\nf(Box<int>)\nf(Box<int>)\n"),
        ("a value being returned survives a destructor that makes calls",
         "static class Log { public static int n = 0; public static function bump() -> void { Log.n = Log.n + 1; } }\n"
         "class R { public constructor() -> R { } public destructor() -> void { Log.bump(); echo(\"~R\"); } }\n"
         "function f() -> int { if (true) { R r = new R(); return 5; } return 7; }\nfunction main() -> void { int v = f(); echo(v); echo(f() + 1); echo(Log.n); }",
         "~R\n5\n~R\n6\n2\n"),
        ("locals die in reverse declaration order, whatever they are called",
         "class D { public string n; public constructor(string n) -> D { this.n = n; } public destructor() -> void { echo(\"~\" + this.n); } }\n"
         "function g() -> void { D zz = new D(\"1\"); D a = new D(\"2\"); D v8 = new D(\"3\"); D m = new D(\"4\"); echo(\"body\"); }\nfunction main() -> void { g(); echo(\"end\"); }",
         "body\n~4\n~3\n~2\n~1\nend\n"),
        ("a static initialiser runs once, also after the field is destroyed",
         "class A { public string n; public constructor(string n) -> A { this.n = n; echo(\"A ctor \" + n); } public destructor() -> void { echo(\"~A \" + this.n); } }\n"
         "static class H { public static A inst = new A(\"s\"); public static function drop() -> void { destroy inst; } public static function peek() -> boolean { return true; } }\n"
         "function main() -> void { echo(\"main\"); H.drop(); echo(\"dropped\"); echo(H.peek()); }", "A ctor s\nmain\n~A s\ndropped\ntrue\n"),
        ("a static initialiser calls a top-level function",
         "static class S { public static int v = twice(4) + 1; }\nfunction twice(int x) -> int { return x + x; }\nfunction main() -> void { echo(S.v); }", "9\n"),
        ("static initialisers across classes, whatever the declaration order",
         "class A { public static int x = B.y + 1; public constructor() -> A { } }\nclass B { public static int y = C.z * 2; public constructor() -> B { } }\n"
         "class C { public static int z = 5; public constructor() -> C { } }\nfunction main() -> void { echo(A.x); echo(B.y); }", "11\n10\n"),
    ]


def run(chk):
    quick = chk.tier == "quick"
    chk.proofs()
    rng = chk.rng
    n = 300 if quick else 5000
    progs = []
    for i in range(n):
        g = og.ObjGen(rng)
        progs.append(g.program())
    ngen = n // 3
    for i in range(ngen):
        src, fns, classes = gengen.gen(rng)
        progs.append((fns, classes, src))
    recs, counts = lc.differential(chk, progs, "c08")
    dc = doc_corpus()
    dres = lc.run_impl([x[1] for x in dc])
    for (name, src, want), r in zip(dc, dres):
        if r.get("status") != "ok" or r.get("stdout") != want:
            chk.report("c08-documented", {"case": name, "source": src, "expected_output": want,
                                          "implementation": {k: r.get(k) for k in ("status", "cat", "msg", "stdout")}, "how": "run /repo's bloch on the source"},
                       "%s: expected %r, got %s %r" % (name, want, r.get("status"), (r.get("msg") or r.get("stdout") or "")[:120]))
    agree = [r for r in recs if r["verdict"] == "agree"]
    feats = {"overrides": 0, "super_calls": 0, "overloads": 0, "dtors": 0, "depth3": 0, "statics": 0}
    for r in agree:
        s = r["src"]
        feats["overrides"] += "override function" in s
        feats["super_calls"] += "super." in s
        feats["dtors"] += "destructor()" in s
        feats["statics"] += ".cnt" in s
        cl = r["fns"][1]
        if len(r["fns"]) == 3:
            feats["generic"] = feats.get("generic", 0) + 1
            continue
        feats["overloads"] += any(len({m[0] for m in c["meths"]}) < len(c["meths"]) for c in cl)
        byname = {c["name"]: c for c in cl}
        def depth(c):
            d = 1
            while byname[c].get("base"):
                c = byname[c]["base"]; d += 1
            return d
        feats["depth3"] += any(depth(c["name"]) >= 3 for c in cl)
    chk.cov.update({"programs": len(progs), "verdicts": counts,
                    "disagreements_checked": sum(v for k, v in counts.items() if k not in ("agree", "rejected") and not k.startswith("skip")),
                    "agreeing_programs_with": feats,
                    "agreeing_nontrivial_programs": len({r["sx"] for r in agree if len(r["model"].get("lines", [])) >= 6}),
                    "rule": "random class hierarchies (2-5 classes, depth up to 4; override / virtual override patterns; overload sets over int/long/float/"
                            "string/boolean and class-typed parameters; static and instance fields with initialisers that mention other fields; 1-2 constructors "
                            "per class with explicit or implicit super; destructors) and a main that builds objects under exact or ancestor static types, calls "
                            "methods, passes objects to helper functions, reassigns, scopes, destroys and releases them one at a time; every constructor, method "
                            "and destructor echoes a trace line, so output equality means same construction order, same overload, same dispatch target, same "
                            "destructor order. Non-trivial = agreeing with at least 6 trace lines."})
    for r in (agree[:1] + agree[-1:]):
        chk.sample({"program": r["src"], "reference": r["model"]})
