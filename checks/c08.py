"""C08 - object model: construction order, dispatch, overloads, statics, destructors as documented."""
import vlib
from checks import langgen as lg
from checks import langcommon as lc
from checks import objgen as og
from checks import gengen

TRUSTED_BASE = [
    "Coq 8.16.1 kernel (coqc); vm_compute only in the Examples",
    "axioms: none",
    "extraction ExtrOcamlBasic+ExtrOcamlString; extract/driver_lang.ml; harness/cpp/drv_prog.cpp",
    "checks/objgen.py renders one generated class hierarchy twice (Bloch source, s-expression)",
    "modelled, not verified: the reference interpreter's object layer (Lang/Eval.v) is the documentation's rules - base-first construction, "
    "field initialisers before the constructor body, overload choice by least conversion cost over static types, most-derived override for "
    "virtual calls, super.m() without dispatch, statics per class, destructors derived-first when the last reference goes - and the implementation "
    "is tied to it by differential execution. Generic classes are covered by monomorphisation: the source declares the templates once, the interpreter receives one class per reached instantiation (checks/gengen.py); upcasts between generic classes are not generated. Orders the documentation leaves open (several "
    "objects released by one scope exit) are flagged by the interpreter and skipped.",
]

def run(chk):
    quick = chk.tier == "quick"
    chk.proofs()
    rng = chk.rng
    n = 300 if quick else 5000
    progs = []
    for i in range(n):
        g = og.ObjGen(rng)
        progs.append(g.program())
    ngen = n // 3
    for i in range(ngen):
        src, fns, classes = gengen.gen(rng)
        progs.append((fns, classes, src))
    recs, counts = lc.differential(chk, progs, "c08")
    agree = [r for r in recs if r["verdict"] == "agree"]
    feats = {"overrides": 0, "super_calls": 0, "overloads": 0, "dtors": 0, "depth3": 0, "statics": 0}
    for r in agree:
        s = r["src"]
        feats["overrides"] += "override function" in s
        feats["super_calls"] += "super." in s
        feats["dtors"] += "destructor()" in s
        feats["statics"] += ".cnt" in s
        cl = r["fns"][1]
        if len(r["fns"]) == 3:
            feats["generic"] = feats.get("generic", 0) + 1
            continue
        feats["overloads"] += any(len({m[0] for m in c["meths"]}) < len(c["meths"]) for c in cl)
        byname = {c["name"]: c for c in cl}
        def depth(c):
            d = 1
            while byname[c].get("base"):
                c = byname[c]["base"]; d += 1
            return d
        feats["depth3"] += any(depth(c["name"]) >= 3 for c in cl)
    chk.cov.update({"programs": len(progs), "verdicts": counts,
                    "disagreements_checked": sum(v for k, v in counts.items() if k not in ("agree", "rejected") and not k.startswith("skip")),
                    "agreeing_programs_with": feats,
                    "agreeing_nontrivial_programs": len({r["sx"] for r in agree if len(r["model"].get("lines", [])) >= 6}),
                    "rule": "random class hierarchies (2-5 classes, depth up to 4; override / virtual override patterns; overload sets over int/long/float/"
                            "string/boolean and class-typed parameters; static and instance fields with initialisers that mention other fields; 1-2 constructors "
                            "per class with explicit or implicit super; destructors) and a main that builds objects under exact or ancestor static types, calls "
                            "methods, passes objects to helper functions, reassigns, scopes, destroys and releases them one at a time; every constructor, method "
                            "and destructor echoes a trace line, so output equality means same construction order, same overload, same dispatch target, same "
                            "destructor order. Non-trivial = agreeing with at least 6 trace lines."})
    for r in (agree[:1] + agree[-1:]):
        chk.sample({"program": r["src"], "reference": r["model"]})
