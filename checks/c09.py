"""C09 - scoping is lexical: a callee never sees or changes its caller's locals; consistent renaming of
one function's / method's locals or parameters never changes the output."""
import copy
import vlib
from checks import langgen as lg
from checks import langcommon as lc
from checks import objgen as og

TRUSTED_BASE = [
    "Coq 8.16.1 kernel (coqc); vm_compute only in the Examples",
    "axioms: none",
    "extraction ExtrOcamlBasic+ExtrOcamlString; extract/driver_lang.ml; harness/cpp/drv_prog.cpp",
    "checks/c09.py renames on the generated syntax tree (parameters, declarations, for-loop variables and every bare occurrence inside one body); "
    "the new name is fresh for that body, so the renaming is capture-free by construction",
    "modelled, not verified: the implementation's scope stack; it is tied to the lexically scoped reference interpreter by differential execution and "
    "checked directly against the property by comparing its own output before and after renaming",
]


def names_in_expr(e, acc):
    if not isinstance(e, tuple):
        return
    k = e[0]
    if k == "v":
        acc.add(e[1])
    elif k in ("post", "asg"):
        acc.add(e[1])
    for x in e[1:]:
        if isinstance(x, tuple):
            names_in_expr(x, acc)
        elif isinstance(x, list):
            for y in x:
                names_in_expr(y, acc)


def names_in_stmt(s, acc, decl):
    k = s[0]
    if k == "decl":
        decl.add(s[3]); acc.add(s[3])
        if s[4] is not None: names_in_expr(s[4], acc)
    elif k == "declarr":
        decl.add(s[2]); acc.add(s[2])
        for x in s[3:5]:
            if x is not None: names_in_expr(x, acc)
    elif k == "set":
        acc.add(s[1]); names_in_expr(s[2], acc)
    elif k == "aset":
        acc.add(s[1]); names_in_expr(s[2], acc); names_in_expr(s[3], acc)
    elif k == "if":
        names_in_expr(s[1], acc); names_in_stmt(s[2], acc, decl)
        if s[3] is not None: names_in_stmt(s[3], acc, decl)
    elif k == "tern":
        names_in_expr(s[1], acc); names_in_stmt(s[2], acc, decl); names_in_stmt(s[3], acc, decl)
    elif k == "while":
        names_in_expr(s[1], acc); names_in_stmt(s[2], acc, decl)
    elif k == "for":
        if s[1] is not None: names_in_stmt(s[1], acc, decl)
        names_in_expr(s[2], acc); names_in_stmt(s[3], acc, decl); names_in_stmt(s[4], acc, decl)
    elif k in ("echo", "expr", "destroy"):
        names_in_expr(s[1], acc)
    elif k == "ret":
        if s[1] is not None: names_in_expr(s[1], acc)
    elif k == "block":
        for x in s[1]: names_in_stmt(x, acc, decl)


def ren_expr(e, rho):
    if not isinstance(e, tuple):
        return e
    k = e[0]
    if k == "v":
        return ("v", rho.get(e[1], e[1]))
    if k == "post":
        return ("post", rho.get(e[1], e[1]), e[2])
    if k == "asg":
        return ("asg", rho.get(e[1], e[1]), ren_expr(e[2], rho))
    out = [k]
    for x in e[1:]:
        if isinstance(x, tuple):
            out.append(ren_expr(x, rho))
        elif isinstance(x, list):
            out.append([ren_expr(y, rho) for y in x])
        else:
            out.append(x)
    return tuple(out)


def ren_stmt(s, rho):
    k = s[0]
    R = lambda e: None if e is None else ren_expr(e, rho)
    S = lambda x: None if x is None else ren_stmt(x, rho)
    if k == "decl":
        return ("decl", s[1], s[2], rho.get(s[3], s[3]), R(s[4]))
    if k == "declarr":
        return ("declarr", s[1], rho.get(s[2], s[2]), R(s[3]), R(s[4]))
    if k == "set":
        return ("set", rho.get(s[1], s[1]), R(s[2]))
    if k == "aset":
        return ("aset", rho.get(s[1], s[1]), R(s[2]), R(s[3]))
    if k == "if":
        return ("if", R(s[1]), S(s[2]), S(s[3]))
    if k == "tern":
        return ("tern", R(s[1]), S(s[2]), S(s[3]))
    if k == "while":
        return ("while", R(s[1]), S(s[2]))
    if k == "for":
        return ("for", S(s[1]), R(s[2]), S(s[3]), S(s[4]))
    if k in ("echo", "expr", "destroy"):
        return (k, R(s[1]))
    if k == "ret":
        return ("ret", R(s[1]))
    if k == "block":
        return ("block", [S(x) for x in s[1]])
    raise ValueError(k)


def bodies(fns, classes):
    """every renamable body: (kind, path, params, statements)"""
    out = []
    for i, f in enumerate(fns):
        out.append(("fn", i, None, f[2], f[3]))
    for ci, c in enumerate(classes or []):
        for j, ct in enumerate(c["ctors"]):
            out.append(("ctor", ci, j, ct[0], ct[2]))
        for j, m in enumerate(c["meths"]):
            out.append(("meth", ci, j, m[1], m[3]))
    return out


def all_names(fns, classes):
    acc = set()
    for b in bodies(fns, classes):
        acc |= {pn for _, pn in b[3]}
        d = set()
        for s in b[4]:
            names_in_stmt(s, acc, d)
    for c in classes or []:
        acc |= {f[3] for f in c["fields"]}
    return acc


def rename_one(rng, fns, classes, mode):
    """returns (fns', classes', description) or None.  mode: fresh | collide"""
    bs = [b for b in bodies(fns, classes)]
    rng.shuffle(bs)
    everywhere = all_names(fns, classes)
    for b in bs:
        kind, a, j, params, stmts = b
        used, decl = set(), set()
        for s in stmts:
            names_in_stmt(s, used, decl)
        if kind == "ctor" and classes[a]["ctors"][j][1] is not None:
            for e in classes[a]["ctors"][j][1]:
                names_in_expr(e, used)
        local = {pn for _, pn in params} | decl
        local.discard("this")
        if not local:
            continue
        k = rng.randint(1, min(3, len(local)))
        victims = rng.sample(sorted(local), k)
        rho = {}
        taken = set(used) | local
        for v in victims:
            if mode == "collide":
                cands = sorted(n for n in everywhere if n not in taken and n not in ("this", "d") or False)
                cands = [n for n in cands if n not in taken]
            else:
                cands = []
            if cands:
                new = rng.choice(cands)
            else:
                new = "zz%d_%s" % (len(rho), v)
                while new in taken or new in everywhere:
                    new += "_"
            rho[v] = new
            taken.add(new)
        fns2, cl2 = copy.deepcopy(fns), copy.deepcopy(classes) if classes else classes
        if kind == "fn":
            f = fns2[a]
            fns2[a] = (f[0], f[1], [(t, rho.get(n, n)) for t, n in f[2]], [ren_stmt(s, rho) for s in f[3]])
            where = "function " + f[0]
        elif kind == "ctor":
            ct = cl2[a]["ctors"][j]
            sup = None if ct[1] is None else [ren_expr(e, rho) for e in ct[1]]
            cl2[a]["ctors"][j] = ([(t, rho.get(n, n)) for t, n in ct[0]], sup, [ren_stmt(s, rho) for s in ct[2]], ct[3])
            where = "constructor %d of %s" % (j, cl2[a]["name"])
        else:
            m = cl2[a]["meths"][j]
            cl2[a]["meths"][j] = (m[0], [(t, rho.get(n, n)) for t, n in m[1]], m[2], [ren_stmt(s, rho) for s in m[3]], m[4], m[5])
            where = "method %s.%s" % (cl2[a]["name"], m[0])
        return fns2, cl2, "%s: %s" % (where, ", ".join("%s->%s" % kv for kv in sorted(rho.items())))
    return None


def same(a, b):
    # a rejected program: only the fact and the category are compared (the message carries a position)
    if a.get("status") == "error" and a.get("cat") in ("Semantic", "Parse", "Lexical"):
        return (b.get("status"), b.get("cat")) == (a.get("status"), a.get("cat"))
    ka = (a.get("status"), a.get("cat"), a.get("stdout") if a.get("status") == "ok" else lc.impl_err_kind(a.get("msg")))
    kb = (b.get("status"), b.get("cat"), b.get("stdout") if b.get("status") == "ok" else lc.impl_err_kind(b.get("msg")))
    return ka == kb


def run(chk):
    quick = chk.tier == "quick"
    chk.proofs()
    rng = chk.rng
    n = 150 if quick else 2500
    progs = []
    for i in range(n):
        if i % 2 == 0:
            # every third object program leaves its objects to die together at the end of main: the order of their
            # destructors must not depend on how the variables are called
            progs.append(og.ObjGen(rng, die_together=(i % 6 == 0)).program())
        else:
            progs.append((lg.Gen(rng, nfuncs=rng.randint(1, 4)).program(), None))
    # 1. the implementation against the lexically scoped reference interpreter
    recs, counts = lc.differential(chk, progs, "c09")
    # 2. the property itself: rename, run both, compare the implementation with itself
    bases, variants, descs = [], [], []
    for (fns, classes) in progs:
        for mode in ("fresh", "collide"):
            r = rename_one(rng, fns, classes, mode)
            if r is None:
                continue
            bases.append((fns, classes)); variants.append((r[0], r[1])); descs.append((mode, r[2]))
    src_a = [lg.prog_src(*p) for p in bases]
    src_b = [lg.prog_src(*p) for p in variants]
    ra = lc.run_impl(src_a)
    rb = lc.run_impl(src_b)
    ndiff = 0
    nontriv = set()
    for sa, sb, a, b, d in zip(src_a, src_b, ra, rb, descs):
        if a.get("status") == "error" and a.get("cat") in ("Semantic", "Parse"):
            continue
        if not same(a, b):
            ndiff += 1
            chk.report("c09-rename-%s" % d[0], {"renaming": d[1], "original": sa, "renamed": sb,
                                               "original_result": {k: a.get(k) for k in ("status", "cat", "msg", "stdout")},
                                               "renamed_result": {k: b.get(k) for k in ("status", "cat", "msg", "stdout")},
                                               "how": "run /repo's bloch on both sources; outputs must be identical"},
                       "output changed under consistent renaming (%s): %s" % (d[0], d[1][:120]))
        elif a.get("status") == "ok" and len((a.get("stdout") or "").splitlines()) >= 3:
            nontriv.add(sb)
    chk.cov.update({"programs": len(progs), "verdicts": counts, "renamings_run": len(bases), "renamings_that_changed_output": ndiff,
                    "distinct_nontrivial_renamed_programs": len(nontriv),
                    "disagreements_checked": ndiff + sum(v for k, v in counts.items() if k not in ("agree", "rejected") and not k.startswith("skip")),
                    "rule": "class programs (methods, constructors with super arguments, field initialisers, helper functions) and function programs whose "
                            "locals, parameters and fields are drawn from one small name pool, so callers, callees and fields share names; each is (1) compared "
                            "with the lexically scoped reference interpreter and (2) renamed - 1-3 locals/parameters of one function, method or constructor to "
                            "fresh names and to names used by other bodies or fields - and the implementation's output before and after must be identical. "
                            "Non-trivial = renamed program that prints at least 3 lines."})
    if bases:
        chk.sample({"renaming": descs[0][1], "original": src_a[0], "renamed": src_b[0]})
