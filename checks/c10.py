"""C10 - acceptance and behaviour do not depend on top-level declaration order."""
import itertools
import vlib
from checks import langgen as lg
from checks import langcommon as lc
from checks import objgen as og
from checks.c09 import same
from checks import c16
from checks import gengen

TRUSTED_BASE = [
    "Coq 8.16.1 kernel (coqc); vm_compute only in the Examples",
    "axioms: functional_extensionality_dep (Coq.Logic.FunctionalExtensionality), used to identify the lookup functions of two permutations of one declaration list",
    "extraction ExtrOcamlBasic+ExtrOcamlString; extract/driver_lang.ml; harness/cpp/drv_prog.cpp",
    "modelled, not verified: the analyser's and evaluator's tables; the implementation is checked directly against the property by running every "
    "generated program under several permutations of its top-level declarations and comparing acceptance, diagnostic category and output",
]


def perms(rng, n, k):
    """up to k distinct non-identity permutations of range(n): the reverse, a rotation, random ones"""
    ident = list(range(n))
    out = []
    def add(p):
        if p != ident and p not in out:
            out.append(p)
    add(ident[::-1])
    add(ident[1:] + ident[:1])
    tries = 0
    while len(out) < k and tries < 20:
        p = ident[:]
        rng.shuffle(p)
        add(p)
        tries += 1
    return out[:k]


def decl_graphs(rng):
    """chunk lists whose declarations depend on each other across classes in ways a single left-to-right pass gets wrong:
    static initialisers reading other classes' statics (a random DAG, sometimes a cycle, through fields, static methods and
    top-level functions), bounded generic classes used in member signatures of classes declared before the bound's hierarchy"""
    out = []
    k = rng.randint(3, 5)
    names = ["S%d" % i for i in range(k)]
    order = names[:]
    rng.shuffle(order)                      # dependencies go from later to earlier in `order`: acyclic
    chunks = []
    for i, n in enumerate(order):
        deps = [d for d in order[:i] if rng.random() < 0.6]
        if rng.random() < 0.15 and i + 1 < len(order):
            deps.append(order[-1])          # ... sometimes a cycle
        terms = [str(rng.randint(1, 9))]
        for d in deps:
            terms.append(rng.choice(["%s.v" % d, "%s.get()" % d, "twice(%s.v)" % d]))
        chunks.append("static class %s {\n  public static int v = %s;\n  public static int w = v * 2;\n  public static function get() -> int { return v + 100; }\n}\n"
                      % (n, " + ".join(terms)))
    chunks.append("function twice(int x) -> int { return x + x; }\n")
    chunks.append("function main() -> void {\n%s}\n" % "".join("  echo(\"%s \" + %s.v + \" \" + %s.w);\n" % (n, n, n) for n in names))
    out.append(chunks)
    # bounded generics in member signatures
    arg = rng.choice(["Dog0", "Pup0", "Animal0"])
    chunks = ["class Animal0 {\n  public constructor() -> Animal0 { }\n  public virtual function say() -> string { return \"...\"; }\n}\n",
              "class Dog0 extends Animal0 {\n  public constructor() -> Dog0 { super(); }\n  public override function say() -> string { return \"woof\"; }\n}\n",
              "class Pup0 extends Dog0 {\n  public constructor() -> Pup0 { super(); }\n  public function wag() -> string { return \"wag\"; }\n}\n",
              "class Cage0<T extends Animal0> {\n  public T occupant;\n  public constructor(T a) -> Cage0<T> { this.occupant = a; }\n"
              "  public function speak() -> string { return this.occupant.say(); }\n}\n",
              "class Keeper0 {\n  public Cage0<%s> cage;\n  public constructor() -> Keeper0 { this.cage = new Cage0<%s>(new %s()); }\n"
              "  public function swap(Cage0<%s> other) -> Cage0<%s> { Cage0<%s> old = this.cage; this.cage = other; return old; }\n"
              "  public function visit() -> string { return this.cage.speak(); }\n}\n" % ((arg,) * 6),
              "function main() -> void {\n  Keeper0 k = new Keeper0();\n  echo(k.visit());\n  Cage0<%s> c = k.swap(new Cage0<%s>(new %s()));\n  echo(c.speak());\n  echo(k.visit());\n}\n"
              % (arg, arg, arg)]
    out.append(chunks)
    # an override of an overloaded virtual inherited from a generic base, next to an unrelated bounded generic
    chunks = ["class Animal1 { public constructor() -> Animal1 = default; }\n", "class Stone1 { public constructor() -> Stone1 = default; }\n",
              "class Base1<T> {\n  public constructor() -> Base1<T> = default;\n  public virtual function f(T x) -> void { echo(\"Base1.f(T)\"); }\n"
              "  public virtual function f(Animal1 x) -> void { echo(\"Base1.f(Animal1)\"); }\n}\n",
              "class Derived1 extends Base1<Stone1> {\n  public constructor() -> Derived1 { super(); }\n  public override function f(Animal1 x) -> void { echo(\"Derived1.f(Animal1)\"); }\n}\n",
              "class Cage1<T extends Animal1> { public constructor() -> Cage1<T> = default; }\n",
              "static class St1 { public static int v = twice1(4) + 1; }\n", "function twice1(int x) -> int { return x + x; }\n",
              "function main() -> void {\n  Derived1 d = new Derived1();\n  d.f(new Animal1());\n  d.f(new Stone1());\n  echo(St1.v);\n}\n"]
    out.append(chunks)
    # a program that brings its own root class: the classes extending it implicitly may come before it (no library is reachable in the harness)
    chunks = ["class Object { public int id = 7; public constructor() -> Object = default; public virtual function name() -> string { return \"obj\"; } }\n",
              "class A2 { public int a = 1; public constructor() -> A2 = default; public override function name() -> string { return \"A2\"; } }\n",
              "class B2 extends A2 { public int b = 2; public constructor() -> B2 { super(); } }\n",
              "function main() -> void { B2 x = new B2(); Object o = x; echo(x.id); echo(x.a); echo(x.b); echo(o.name()); }\n"]
    out.append(chunks)
    return out


def run(chk):
    quick = chk.tier == "quick"
    chk.proofs()
    rng = chk.rng
    n = 120 if quick else 2000
    progs = []
    for i in range(n):
        if i % 3 != 2:
            g = og.ObjGen(rng, nclasses=rng.randint(3, 5))
            progs.append(g.program())
        else:
            progs.append((lg.Gen(rng, nfuncs=rng.randint(2, 4)).program(), None))
    mutated = []      # edited programs are only analysed, not run: an edit may well make a loop endless
    # rejected programs too: one rule-directed violation (C16's edits) must be rejected in every order
    nbad = 0
    for i in range(n // 3):
        fns = lg.Gen(rng, nfuncs=rng.randint(2, 4)).program()
        m = c16.mutate(rng, fns)
        if m is None:
            continue
        try:
            lg.prog_src(m[0])
        except Exception:
            continue
        mutated.append((m[0], None))
        nbad += 1
    # the reference interpreter looks declarations up by name (order independent by theorem); the implementation
    # must agree with it on the generated order ...
    recs, counts = lc.differential(chk, progs, "c10")
    # ... and with itself on every permutation
    base_src, var_src, meta, opts = [], [], [], []
    for (fns, classes), opt in [(p, "") for p in progs] + [(p, "noexec") for p in mutated]:
        nd = len(classes or []) + len(fns)
        for p in perms(rng, nd, 3 if quick else 5):
            base_src.append(lg.prog_src(fns, classes))
            var_src.append(lg.prog_src(fns, classes, order=p))
            meta.append(p)
            opts.append(opt)
    # generic templates next to ordinary classes (a type parameter may be spelled like one of them)
    for i in range(n // 4):
        parts, fns, classes = gengen.gen(rng, chunks=True)
        for p in perms(rng, len(parts), 3 if quick else 5):
            base_src.append("\n".join(parts))
            var_src.append("\n".join(parts[j] for j in p))
            meta.append(p)
            opts.append("")
    # declaration graphs: static initialisers across classes, bounded generics in member signatures
    graph_idx = []
    for i in range(n // 6):
        for parts in decl_graphs(rng):
            for p in perms(rng, len(parts), 4 if quick else 8):
                graph_idx.append(len(base_src))
                base_src.append("\n".join(parts))
                var_src.append("\n".join(parts[j] for j in p))
                meta.append(p)
                opts.append("")
    ra = lc.run_impl(base_src, opts=opts)
    graph_ok = sum(1 for j in graph_idx if ra[j].get("status") == "ok")
    if graph_idx and graph_ok * 10 < len(graph_idx) * 7:
        raise RuntimeError("declaration-graph programs are mostly not accepted in their base order (%d/%d): the generator is out of step with the language: %s"
                           % (graph_ok, len(graph_idx), (ra[graph_idx[0]].get("msg") or "")[:200]))
    rb = lc.run_impl(var_src, opts=opts)
    ndiff = 0
    nontriv = set()
    accepted = rejected = 0
    for sa, sb, a, b, p in zip(base_src, var_src, ra, rb, meta):
        if a.get("status") == "ok" or a.get("cat") == "Runtime":
            accepted += 1
        else:
            rejected += 1
        if not same(a, b):
            ndiff += 1
            chk.report("c10-permutation", {"permutation": p, "original": sa, "permuted": sb,
                                           "original_result": {k: a.get(k) for k in ("status", "cat", "msg", "stdout")},
                                           "permuted_result": {k: b.get(k) for k in ("status", "cat", "msg", "stdout")},
                                           "how": "run /repo's bloch on both sources; acceptance, category and output must be identical"},
                       "behaviour depends on declaration order: %s / %s vs %s / %s" % (a.get("status"), (a.get("msg") or "")[:60], b.get("status"), (b.get("msg") or "")[:60]))
        elif a.get("status") == "ok" and len((a.get("stdout") or "").splitlines()) >= 3:
            nontriv.add(sb)
    chk.cov.update({"programs": len(progs), "verdicts": counts, "permutations_run": len(base_src), "permutations_that_changed_behaviour": ndiff,
                    "declaration_graph_runs": len(graph_idx), "declaration_graph_runs_accepted": graph_ok, "accepted_base_programs": accepted, "rejected_base_programs": rejected,
                    "distinct_nontrivial_permuted_programs": len(nontriv),
                    "disagreements_checked": ndiff + sum(v for k, v in counts.items() if k not in ("agree", "rejected") and not k.startswith("skip")),
                    "rule": "class programs with 3-5 classes in chains up to depth 4 (plus helper functions and main) and function programs with forward calls, "
                            "argument-taking functions declared after their first use; each run in its generated order, reversed (derived classes before their bases, "
                            "callees after callers), rotated and randomly permuted; generic templates next to ordinary classes; classes whose static initialisers read "
                            "other classes' statics (random DAGs and cycles, through fields, static methods and functions); bounded generic classes used in member "
                            "signatures; acceptance, diagnostic category and output compared. Non-trivial = permuted "
                            "program printing at least 3 lines."})
    if base_src:
        chk.sample({"permutation": meta[0], "original": base_src[0], "permuted": var_src[0]})
