"""C11 - garbage collection is unobservable under every schedule, and race-free."""
import os
import re
import shutil
import vlib
from checks import langgen as lg
from checks import langcommon as lc
from checks import gcgen
from checks import objgen as og

TRUSTED_BASE = [
    "Coq 8.16.1 kernel (coqc); vm_compute only in the Example",
    "axioms: none",
    "extraction ExtrOcamlBasic+ExtrOcamlString; extract/driver_lang.ml, extract/driver_gcpin.ml; harness/cpp/drv_prog.cpp; hook H7 (BLOCH_VERIF_GCLOG: the heap graph, "
    "kept set and swept set of every collection, fed to the extracted GcPin.pin); hook H4 (BLOCH_VERIF_GC forces a collection "
    "at every / no / masked statement boundaries and keeps the wall-clock timer off)",
    "ThreadSanitizer build of /repo without hooks (the real 50 ms timer thread) for the race and shutdown part",
    "modelled, not verified: the C++ collector and its thread. The theorems are about a mark-and-sweep collector over the reference interpreter's heap; "
    "the implementation is tied to the interpreter (which has no tracing collector, so its output is schedule independent) by running each program under "
    "forced schedules and comparing all outputs with each other and with the interpreter; interleavings of the timer thread are sampled by TSan runs, "
    "not enumerated (partial)",
]

SCHEDULES = ["none", "all", "mask:01", "mask:10", "mask:0010", "mask:0001000", "mask:110"]

TSAN_PROGS = [
    # long enough for the 50 ms timer to fire several times while objects are created, held and dropped
    """class Node { public int v; public Node next; public constructor(int v) -> Node { this.v = v; } }
function build(int n) -> Node { Node h = new Node(n); if (n > 1) { h.next = build(n - 1); } return h; }
function main() -> void { int i = 0; int t = 0; while (i < 12000) { Node h = build(6); h.next.next = h; t = t + h.v; i = i + 1; } echo(t); }""",
    # ends with a runtime error while the timer thread is running
    """class Box { public int v; public constructor(int v) -> Box { this.v = v; } }
function main() -> void { int i = 0; int z = 0; while (i < 12000) { Box b = new Box(i); i = i + 1; } echo(1 % z); }""",
    # ends with a null dereference inside a method
    """class Box { public Box other; public int v; public constructor(int v) -> Box { this.v = v; }
  public function peek() -> int { return this.other.v; } }
function main() -> void { int i = 0; while (i < 9000) { Box b = new Box(i); i = i + 1; } Box c = new Box(1); echo(c.peek()); }""",
]


def held_by_cycle_prog(rng):
    """a qubit owner (with a destructor and a tracked field) held only by a garbage cycle of plain objects"""
    k = rng.randint(2, 3)
    burst1, burst2 = rng.choice([0, 20, 40]), rng.choice([0, 20, 40])
    depth = rng.choice([0, 1])
    src = ("class T { @tracked public qubit q; public constructor() -> T { } public destructor() -> void { echo(\"T dies\"); } }\n"
           "class Mid { public T t = null; public constructor() -> Mid { } }\n"
           "class A { public A other = null; public T t = null; public Mid m = null; public constructor() -> A { } }\n"
           "class Junk { public int n; public constructor(int n) -> Junk { this.n = n; } }\n"
           "function churn(int n) -> int { int t = 0; for (int i = 0; i < n; i = i + 1) { Junk j = new Junk(i); t = t + j.n; } return t; }\n")
    body = ["A a%d = new A();" % i for i in range(k)]
    body += ["a%d.other = a%d;" % (i, (i + 1) % k) for i in range(k)]
    holder = "a%d" % rng.randrange(k)
    if depth == 0:
        body.append("%s.t = new T();" % holder)
        ref = "%s.t" % holder
    else:
        body += ["%s.m = new Mid();" % holder, "%s.m.t = new T();" % holder]
        ref = "%s.m.t" % holder
    if rng.random() < 0.6:
        body.append("x(%s.q);" % ref)
    if rng.random() < 0.6:
        body.append("measure %s.q;" % ref)
    make = "function make() -> void {\n  " + "\n  ".join(body) + "\n}\n"
    main = ["make();", "echo(churn(%d));" % burst1, "qubit fresh;", "h(fresh);", "echo(churn(%d));" % burst2, "echo(\"end\");"]
    if rng.random() < 0.5:
        main.insert(4, "bit b = measure fresh; echo(b);")
    return src + make + "function main() -> void {\n  " + "\n  ".join(main) + "\n}\n"


def shared_with_live_prog(rng):
    """a garbage cycle of plain objects that also holds an object a live variable still holds - with a destructor, or owning a
    qubit: whether that object is later released by its variable (destructor runs, qubit reset and reused) must not depend on
    whether a collection unlinked the cycle first"""
    qubit = rng.random() < 0.5
    inner = ("class D { public int id; @tracked public qubit q; public constructor(int id) -> D { this.id = id; return this; } }\n" if qubit else
             "class D { public int id; public constructor(int id) -> D { this.id = id; return this; } public destructor() -> D { echo(\"~D \" + this.id); } }\n")
    k = rng.randint(2, 3)
    src = (inner + "class A { public A other; public D d; public constructor() -> A { this.other = null; this.d = null; return this; } }\n"
           "class Junk { public constructor() -> Junk = default; }\n"
           "function mk(D d) -> void { %s %s a%d.d = d; }\n" % (" ".join("A a%d = new A();" % i for i in range(k)),
                                                               " ".join("a%d.other = a%d;" % (i, (i + 1) % k) for i in range(k)), rng.randrange(k)) +
           "function work(int id, int junk) -> void { D d = new D(id); mk(d); %sfor (int i = 0; i < junk; i = i + 1) { Junk j = new Junk(); } echo(\"work \" + id + \" done\"); }\n"
           % ("x(d.q); measure d.q; " if qubit and rng.random() < 0.6 else ""))
    calls = " ".join("work(%d, %d);" % (i + 1, rng.choice([0, 0, 17, 40])) for i in range(rng.randint(2, 3)))
    tail = "qubit fresh; h(fresh); " if qubit else ""
    return src + "function main() -> void { %s %secho(\"end of main\"); }\n" % (calls, tail)


def qubit_cycle_prog(rng):
    """objects that own qubits (directly or through a base class), tied into garbage cycles; allocation bursts before or
    after a fresh qubit is declared.  The emitted circuit, warnings, qubit numbering and flags must not depend on
    when the collector runs."""
    r0 = rng.random()
    if r0 < 0.25:
        return shared_with_live_prog(rng)
    if r0 < 0.55:
        return held_by_cycle_prog(rng)
    inherited = rng.random() < 0.7
    k = rng.randint(2, 4)
    burst1, burst2 = rng.choice([0, 20, 40]), rng.choice([0, 20, 40])
    gate = rng.choice(["h", "x"])
    reg = "class Register { public qubit q; public constructor() -> Register { } }\n"
    if inherited:
        cell = "class Cell extends Register { public Cell next; public constructor() -> Cell { super(); } }\n"
    else:
        cell = "class Cell { public qubit q; public Cell next; public constructor() -> Cell { } }\n"
    junk = "class Junk { public int n; public constructor(int n) -> Junk { this.n = n; } }\n" \
           "function churn(int n) -> int { int t = 0; for (int i = 0; i < n; i = i + 1) { Junk j = new Junk(i); t = t + j.n; } return t; }\n"
    body = []
    names = ["c%d" % i for i in range(k)]
    for n in names:
        body.append("Cell %s = new Cell();" % n)
    for i, n in enumerate(names):
        body.append("%s.next = %s;" % (n, names[(i + 1) % k]))
        if rng.random() < 0.5:
            body.append("%s(%s.q);" % (gate, n))
    for n in names:
        body.append("%s = null;" % n)
    body.append("echo(churn(%d));" % burst1)
    body.append("qubit fresh;")
    body.append("h(fresh);")
    body.append("echo(churn(%d));" % burst2)
    if rng.random() < 0.5:
        body.append("bit b = measure fresh; echo(b);")
    return reg + cell + junk + "function main() -> void {\n  " + "\n  ".join(body) + "\n}\n"


def graph_prog(rng):
    """a random heap graph of plain nodes (three links and a link to an observable object) and observable
    objects (a user destructor of their own, inherited, or inherited under a `= default` redeclaration; they link back to plain nodes): some nodes stay held by main, the rest become garbage when
    mk returns - garbage cycles, garbage pointing at live objects, garbage reaching an observable object directly, through
    other garbage, through a live object, or not at all"""
    np_, no_ = rng.randint(3, 8), rng.randint(0, 3)
    src = ("class O { public int id; public P back; public constructor(int id) -> O { this.id = id; this.back = null; return this; } "
           "public destructor() -> O { echo(\"~O \" + this.id); } }\n"
           "class O2 extends O { public constructor(int id) -> O2 { super(id); return this; } public destructor() -> O2 = default; }\n"
           "class O3 extends O { public constructor(int id) -> O3 { super(id); return this; } }\n"
           "class P { public P a; public P b; public O o; public P c; public constructor() -> P { this.a = null; this.b = null; this.c = null; this.o = null; return this; } }\n"
           "class Junk { public constructor() -> Junk = default; }\n")
    body = ["P n%d = new P();" % i for i in range(np_)] + ["O o%d = new %s(%d);" % (i, rng.choice(["O", "O2", "O3"]), i) for i in range(no_)]
    plain = ["n%d" % i for i in range(np_)] + ["keep"]
    obs_rate = rng.choice([0.0, 0.04, 0.1, 0.22])       # how often a link involves an observable object
    obs = ["o%d" % i for i in range(no_)] + ["keepo"]
    for _ in range(rng.randint(np_, 2 * np_ + 2)):
        a = rng.choice(plain)
        r = rng.random()
        if r < 1 - 2 * obs_rate:
            body.append("%s.%s = %s;" % (a, rng.choice("abc"), rng.choice(plain)))
        elif r < 1 - obs_rate:
            body.append("%s.o = %s;" % (a, rng.choice(obs)))
        else:
            body.append("%s.back = %s;" % (rng.choice(obs), rng.choice(plain)))
    # garbage only survives its variables when it sits on (or hangs off) a cycle: tie some of the nodes into rings
    for _ in range(rng.randint(1, 2)):
        ring = rng.sample(range(np_), rng.randint(1, min(4, np_)))
        fld = rng.choice("abc")
        body += ["n%d.%s = n%d;" % (x, fld, y) for x, y in zip(ring, ring[1:] + ring[:1])]
    if no_ and rng.random() < 0.4:      # a ring through an observable object
        x = rng.randrange(np_)
        body += ["o0.back = n%d;" % x, "n%d.o = o0;" % x]
    mk = "function mk(P keep, O keepo) -> void {\n  " + "\n  ".join(body) + "\n}\n"
    main = ["P live = new P();", "O lo = new %s(99);" % rng.choice(["O", "O2", "O3"]), "mk(live, lo);",
            "for (int i = 0; i < %d; i = i + 1) { Junk j = new Junk(); }" % rng.choice([0, 3, 25])]
    # the live object changes after the collections above: what it holds by the time its variable dies must be released
    # the same way whether or not a garbage cycle that also held it was reclaimed in between
    r = rng.random()
    if r < 0.3:
        main.append("live.o = new %s(77);" % rng.choice(["O", "O2", "O3"]))
    elif r < 0.45:
        main.append("live.c = new P(); live.c.o = new O(78);")
    if rng.random() < 0.4:
        main.append("live.a = null; live.b = null;")
    if rng.random() < 0.3:
        main.append("live = null;")
    if rng.random() < 0.3:
        main.append("lo = null;")
    main.append("echo(\"end\");")
    return src + mk + "function main() -> void {\n  " + "\n  ".join(main) + "\n}\n"


def parse_gclog_line(line):
    head, graph, pp, ss = [x.strip() for x in line.split("|")]
    n = int(head.split()[1])
    marked, obs, ch = [0] * n, [0] * n, [[] for _ in range(n)]
    for item in graph.split():
        i, m, o, cs = item.split(":")
        marked[int(i)], obs[int(i)] = int(m), int(o)
        ch[int(i)] = [int(c) for c in cs.split(",") if c]
    return n, marked, obs, ch, set(int(x) for x in pp.split()[1:]), set(int(x) for x in ss.split()[1:])


def kept_set_runs(chk, sources):
    """hook H7: every collection's heap graph, kept set and swept set, compared with the model's kept-set iteration (GcPin.pin)
    and with what the theorems say about a swept object"""
    drv = vlib.ocaml_engine("gcpin")
    tmp = os.path.join(vlib.BUILD, "tmp", "c11log-%d" % os.getpid())
    os.makedirs(tmp, exist_ok=True)
    log = os.path.join(tmp, "gc.log")
    stats = {"collections": 0, "distinct_graphs": 0, "too_large_skipped": 0, "with_kept_garbage": 0, "with_swept": 0, "with_marked_on_path": 0,
             "largest_graph": 0, "disagreements": 0}

    def locate(line):
        for src in sources:
            one = os.path.join(tmp, "one.log")
            if os.path.exists(one):
                os.remove(one)
            lc.run_impl([src], env="BLOCH_VERIF_GC=all BLOCH_VERIF_GCLOG=%s" % one)
            if os.path.exists(one) and line in open(one).read().splitlines():
                return src
        return None
    try:
        lc.run_impl(sources, env="BLOCH_VERIF_GC=all BLOCH_VERIF_GCLOG=%s" % log)
        lines = open(log).read().splitlines() if os.path.exists(log) else []
        stats["collections"] = len(lines)
        uniq = []
        for l in sorted(set(lines)):
            if not l.startswith("GC ") or l.count("|") != 3:
                continue        # a line cut short by a child that was killed
            if int(l.split()[1]) > 300:
                stats["too_large_skipped"] += 1
                continue
            uniq.append(l)
        stats["distinct_graphs"] = len(uniq)
        inp = os.path.join(tmp, "graphs.txt")
        open(inp, "w").write("\n".join(uniq) + "\n")
        rc, out = vlib.sh("%s %s" % (drv, inp), timeout=1800)
        outs = out.splitlines()
        if rc != 0 or len(outs) != len(uniq):
            raise RuntimeError("gcpin driver: rc=%s, %d/%d lines: %s" % (rc, len(outs), len(uniq), out[-300:]))
        for l, mo in zip(uniq, outs):
            n, marked, obs, ch, P, S = parse_gclog_line(l)
            stats["largest_graph"] = max(stats["largest_graph"], n)
            why = None
            if any(c < 0 or c >= n for cs in ch for c in cs):
                why = "an object refers to an object that is not in the collector's snapshot of the heap"
            elif any(marked[i] and not marked[c] for i in range(n) for c in ch[i]):
                bad = [(i, c) for i in range(n) for c in ch[i] if marked[i] and not marked[c]][0]
                why = "marking is not closed: object %d was reached from the roots but %d, which it refers to, was not" % bad
            elif mo == "none":
                why = "the model's kept-set iteration did not reach a fixed point within n+1 rounds"
            else:
                Q = set(int(x) for x in mo.split()[1:])
                desc, work = set(Q), list(Q)
                while work:
                    for c in ch[work.pop()]:
                        if c not in desc:
                            desc.add(c)
                            work.append(c)
                expect_swept = set(i for i in range(n) if not marked[i] and not obs[i] and i not in desc)
                if Q != P:
                    why = "kept set differs: implementation %s, model %s" % (sorted(P), sorted(Q))
                elif S != expect_swept:
                    why = "swept set differs: implementation %s, expected the unreached, unobservable objects not reachable from the kept set %s" % (sorted(S), sorted(expect_swept))
                else:
                    for sw in S:
                        for c in ch[sw]:
                            if obs[c] or c in Q:
                                why = "swept object %d refers to %d, which is observable or kept garbage" % (sw, c)
                if any(not marked[i] and not obs[i] for i in Q):
                    stats["with_kept_garbage"] += 1
                if S:
                    stats["with_swept"] += 1
                if any(not marked[i] and any(marked[c] and not obs[c] for c in ch[i]) for i in range(n)):
                    stats["with_marked_on_path"] += 1
            if why:
                stats["disagreements"] += 1
                chk.report("c11-kept-set", {"collection": l, "model": mo, "source": locate(l),
                                            "how": "BLOCH_VERIF_GC=all BLOCH_VERIF_GCLOG=gc.log build/hooked/bin/bloch p.bloch ; build/ml/gcpin/gcpin.exe gc.log "
                                                   "(line format: GC n | index:reached-from-roots:observable:children ... | P kept set | S swept set)"}, why)
    finally:
        shutil.rmtree(tmp, ignore_errors=True)
    return stats


THREAD_PROGS = [
    ("ok", "class N { public N next = null; public constructor() -> N { } }\nfunction main() -> void { N a = new N(); echo(1); }"),
    ("runtime-error", "class N { public N next = null; public constructor() -> N { } }\nfunction main() -> void { N a = new N(); N b = a.next.next; echo(1); }"),
    ("runtime-error", "class N { public int[] xs = {1}; public constructor() -> N { } public function at(int i) -> int { return xs[i]; } }\n"
                      "function deep(N n, int d) -> int { if (d <= 0) { return n.at(5); } return deep(n, d - 1); }\nfunction main() -> void { N a = new N(); echo(deep(a, 6)); }"),
    ("runtime-error", "class D { public constructor() -> D { } public destructor() -> void { int z = 0; echo(1 % z); } }\nfunction main() -> void { D d = new D(); }"),
]


def thread_runs(chk):
    """the timer thread is stopped when a run ends, normally or by an error: one thread left while the evaluator is still alive"""
    drv = vlib.cpp_driver("drv_threads")
    tmp = os.path.join(vlib.BUILD, "tmp", "c11thr-%d" % os.getpid())
    os.makedirs(tmp, exist_ok=True)
    try:
        paths = []
        for i, (_, src) in enumerate(THREAD_PROGS):
            p = os.path.join(tmp, "t%d.bloch" % i)
            open(p, "w").write(src)
            paths.append(p)
        rc, out = vlib.sh([drv] + paths, timeout=120)
        lines = out.splitlines()
        if len(lines) != len(paths):
            raise RuntimeError("drv_threads produced %d/%d lines: %s" % (len(lines), len(paths), out[-300:]))
        for (want, src), l in zip(THREAD_PROGS, lines):
            st, n = l.split()
            if st != want or int(n) != 1:
                chk.report("c11-timer-thread", {"source": src, "expected": "%s 1" % want, "got": l,
                                                "how": "drv_threads p.bloch: run through the library API, count /proc/self/task 120 ms after execute() ended"},
                           "after a run ending '%s' %s thread(s) are alive (the timer thread was not stopped)" % (st, n))
    finally:
        shutil.rmtree(tmp, ignore_errors=True)
    return len(THREAD_PROGS)


def tsan_runs(chk):
    bdir = vlib.repo_build("tsan")
    exe = os.path.join(bdir, "bin", "bloch")
    tmp = os.path.join(vlib.BUILD, "tmp", "c11tsan-%d" % os.getpid())
    os.makedirs(tmp, exist_ok=True)
    n = 0
    try:
        for i, src in enumerate(TSAN_PROGS):
            p = os.path.join(tmp, "t%d.bloch" % i)
            open(p, "w").write(src)
            for rep in range(2):
                rc, out = vlib.sh("cd %s && BLOCH_NO_UPDATE_CHECK=1 TSAN_OPTIONS='halt_on_error=0 exitcode=66' timeout 120 %s %s 2>&1" % (tmp, exe, p), timeout=200)
                n += 1
                txt = re.sub(r"\x1b\[[0-9;]*m", "", out)
                bad = None
                if "ThreadSanitizer" in txt:
                    bad = "data race or thread leak reported"
                elif rc not in (0, 1):
                    bad = "exit status %d (timer thread not stopped / crash)" % rc
                if bad:
                    chk.report("c11-tsan", {"source": src, "exit_status": rc, "output": txt[-4000:],
                                            "how": "build /repo with -fsanitize=thread and run bin/bloch on the source"},
                               "ThreadSanitizer run: %s" % bad)
    finally:
        shutil.rmtree(tmp, ignore_errors=True)
    return n


def run(chk):
    quick = chk.tier == "quick"
    chk.proofs()
    rng = chk.rng
    n = 120 if quick else 1500
    progs = [gcgen.gen(rng) for _ in range(n)]
    # class-hierarchy programs too: constructors, destructors and dispatch while collections are forced
    progs += [og.ObjGen(rng).program() for _ in range(n // 3)]
    sxs = [lg.prog_sx(*p) for p in progs]
    srcs = [lg.prog_src(*p) for p in progs]
    models = lc.run_model(sxs, fuel=6000)
    scheds = SCHEDULES[:4] if quick else SCHEDULES
    outs = {s: lc.run_impl(srcs, env="BLOCH_VERIF_GC=%s" % s) for s in scheds}
    outs["default"] = lc.run_impl(srcs)       # allocation pressure and the real timer
    counts = {}
    ndiff = 0
    nontriv = set()
    for i, (src, m) in enumerate(zip(srcs, models)):
        base = outs["none"][i]
        v, d = lc.classify(m, base)
        counts[v] = counts.get(v, 0) + 1
        if v not in ("agree", "rejected") and not v.startswith("skip"):
            chk.report("c11-reference-%s" % v, {"source": src, "model_input": sxs[i], "reference": m, "schedule": "none",
                                               "implementation": {k: base.get(k) for k in ("status", "cat", "msg", "stdout", "signal")},
                                               "how": "BLOCH_VERIF_GC=none build/hooked/bin/bloch p.bloch vs the reference interpreter"},
                       "no collection at all already disagrees with the reference: %s" % d[:140])
            continue
        for s, res in outs.items():
            r = res[i]
            if (r.get("status"), r.get("cat"), r.get("stdout")) != (base.get("status"), base.get("cat"), base.get("stdout")):
                ndiff += 1
                chk.report("c11-schedule", {"source": src, "schedule": s,
                                            "with_schedule": {k: r.get(k) for k in ("status", "cat", "msg", "stdout", "signal")},
                                            "without_collection": {k: base.get(k) for k in ("status", "cat", "msg", "stdout")},
                                            "how": "BLOCH_VERIF_GC=%s build/hooked/bin/bloch p.bloch   vs   BLOCH_VERIF_GC=none ..." % s},
                           "output depends on the collection schedule (%s)" % s)
                break
        else:
            if base.get("status") == "ok" and "~" in (base.get("stdout") or ""):
                nontriv.add(src)
    # objects owning qubits in garbage cycles: circuit, warnings, numbering and flags under every schedule
    qsrc = [qubit_cycle_prog(rng) for _ in range(30 if quick else 400)]
    draws = "draws=" + ",".join("0.%d" % ((7 * i) % 10) for i in range(12))
    qouts = {s: lc.run_impl(qsrc, env="BLOCH_VERIF_GC=%s" % s, opts=draws) for s in scheds}
    qouts["default"] = lc.run_impl(qsrc, opts=draws)
    keys = ("status", "cat", "stdout", "stderr", "qasm", "nq", "sim_meas", "ev_meas", "free", "last", "draws", "tracked")
    nq = 0
    for i, src in enumerate(qsrc):
        base = qouts["none"][i]
        if base.get("status") in ("signal", "exit", "exception", "unparsable"):
            chk.report("c11-quantum-crash", {"source": src, "implementation": base}, "qubit-owning cycle program crashed")
            continue
        for sname, res in qouts.items():
            r = res[i]
            diff = [k for k in keys if r.get(k) != base.get(k)]
            if diff:
                nq += 1
                chk.report("c11-quantum-schedule", {"source": src, "schedule": sname, "differs_in": diff,
                                                    "with_schedule": {k: r.get(k) for k in diff}, "without_collection": {k: base.get(k) for k in diff},
                                                    "how": "BLOCH_VERIF_GC=%s drv_prog 'run p.bloch %s' vs BLOCH_VERIF_GC=none" % (sname, draws)},
                           "circuit / warnings / qubit bookkeeping depend on the collection schedule (%s): %s" % (sname, ",".join(diff)))
                break
    gsrc = [graph_prog(rng) for _ in range(60 if quick else 800)]
    gouts = {sname: lc.run_impl(gsrc, env="BLOCH_VERIF_GC=%s" % sname) for sname in scheds}
    ng = 0
    for i, src in enumerate(gsrc):
        base = gouts["none"][i]
        if base.get("status") != "ok":
            chk.report("c11-graph-run", {"source": src, "implementation": {k: base.get(k) for k in ("status", "cat", "msg", "stdout", "signal")}},
                       "heap-graph program did not run: %s %s" % (base.get("status"), base.get("msg")))
            continue
        for sname, res in gouts.items():
            r = res[i]
            if (r.get("status"), r.get("stdout")) != (base.get("status"), base.get("stdout")):
                ng += 1
                chk.report("c11-graph-schedule", {"source": src, "schedule": sname, "with_schedule": {k: r.get(k) for k in ("status", "cat", "msg", "stdout", "signal")},
                                                  "without_collection": base.get("stdout"),
                                                  "how": "BLOCH_VERIF_GC=%s build/hooked/bin/bloch p.bloch   vs   BLOCH_VERIF_GC=none ..." % sname},
                           "destructor output depends on the collection schedule (%s)" % sname)
                break
    # a collection costs about one visit per reference: long live structures ending in an observable object, under the default
    # triggers and with a collection at every statement, must finish within the per-program limit (20 s) with the same output
    big = ["class D { public constructor() -> D { return this; } public destructor() -> D { echo(\"~D\"); } }\n"
           "class N { public N next; public D d; public constructor() -> N { this.next = null; this.d = null; return this; } }\n"
           "function main() -> void { N head = new N(); N tail = head; for (int i = 0; i < %d; i = i + 1) { N n = new N(); tail.next = n; tail = n; }\n"
           "  tail.d = new D(); for (int i = 0; i < %d; i = i + 1) { N t = new N(); } echo(\"built\"); }" % (n1, n2) for n1, n2 in ((2500, 2500), (600, 4000))]
    bouts = {sname: lc.run_impl(big, env=("BLOCH_VERIF_GC=%s" % sname) if sname != "default" else "") for sname in ("default", "all")}
    for i, src in enumerate(big):
        for sname, res in bouts.items():
            r = res[i]
            if r.get("status") != "ok" or r.get("stdout") != "built\n~D\n":
                chk.report("c11-long-list", {"source": src, "schedule": sname, "implementation": {k: r.get(k) for k in ("status", "cat", "msg", "stdout", "signal")},
                                             "how": "bloch p.bloch with a 20 s limit (default triggers, or BLOCH_VERIF_GC=all)"},
                           "a long live list ending in an object with a destructor: %s %s (expected built / ~D within 20 s)" % (r.get("status"), (r.get("stdout") or "")[:40]))
    kept = kept_set_runs(chk, gsrc + qsrc + srcs[:(60 if quick else 600)])
    nthr = thread_runs(chk)
    ntsan = tsan_runs(chk) if True else 0
    chk.cov.update({"programs": len(progs), "schedules": list(outs), "executions": len(progs) * len(outs), "verdicts_vs_reference": counts,
                    "schedule_disagreements": ndiff, "qubit_cycle_programs": len(qsrc), "qubit_cycle_schedule_disagreements": nq, "distinct_nontrivial_programs": len(nontriv), "tsan_runs": ntsan, "timer_thread_runs": nthr,
                    "heap_graph_programs": len(gsrc), "heap_graph_schedule_disagreements": ng, "kept_set_correspondence": kept,
                    "disagreements_checked": ndiff + ng + kept["disagreements"] + sum(v for k, v in counts.items() if k not in ("agree", "rejected") and not k.startswith("skip")),
                    "rule": "programs whose object graphs are held by variables, fields, statics, pending call arguments, temporaries used as receivers and in-flight "
                            "return values, with allocation bursts (0..40 objects) at exactly those points, garbage cycles, cascading destructors; plus random class "
                            "hierarchies. Each is run with no collection, a collection at every statement boundary, at masked subsets of boundaries, and with the default "
                            "triggers (allocation pressure + timer); every output must equal the no-collection output and the reference interpreter's. "
                            "Non-trivial = program that runs destructors. ThreadSanitizer runs use the real timer on long allocation loops ending normally and by error."})
    chk.sample({"program": srcs[0], "reference": models[0], "schedules": list(outs)})
