"""C12 - running an accepted program never crashes the interpreter (ASan/UBSan build, edge values)."""
import itertools
import os
import re
import shutil
import vlib
from checks import langgen as lg
from checks import langcommon as lc
from checks import objgen as og
from checks import gengen

TRUSTED_BASE = [
    "Coq 8.16.1 kernel (coqc); vm_compute only in the Example",
    "axioms: none",
    "extraction ExtrOcamlBasic+ExtrOcamlString; extract/driver_lang.ml; harness/cpp/drv_prog.cpp and /repo's CLI, both built with "
    "-fsanitize=address,undefined (signed-integer-overflow and float-cast-overflow reports disabled: those results are outside what the "
    "documentation fixes and are neither a crash nor a memory error)",
    "modelled, not verified: memory safety, teardown order and exception shape are run-time behaviour of the C++ code; the theorems cover the "
    "arithmetic/indexing logic, the sanitizer-instrumented runs observe the rest on the generated and corpus programs only (partial)",
]

IMIN = ("bin", "-", ("un", "-", ("i", 2147483647)), ("i", 1))
LMIN = ("bin", "-", ("un", "-", ("l", 9223372036854775807)), ("l", 1))
INTS = [IMIN, ("i", 2147483647), ("un", "-", ("i", 1)), ("i", 0), ("i", 1), ("i", 65536), ("i", 46341)]
LONGS = [LMIN, ("l", 9223372036854775807), ("un", "-", ("l", 1)), ("l", 0), ("l", 1), ("l", 4294967296), ("l", 3037000500)]


def main_of(body):
    return [("main", "void", [], body)]


def edge_corpus():
    """programs with a model (syntax trees)"""
    progs = []
    for t, vals in (("int", INTS), ("long", LONGS)):
        for op in ["+", "-", "*", "/", "%"]:
            for x, y in itertools.product(vals, repeat=2):
                rt = "float" if op == "/" else t
                progs.append(main_of([("decl", False, t, "a", x), ("decl", False, t, "b", y),
                                      ("decl", False, rt, "c", ("bin", op, ("v", "a"), ("v", "b"))), ("echo", ("v", "c")),
                                      ("echo", ("bin", "+", ("s", "r="), ("bin", op, ("v", "a"), ("v", "b"))))]))
        for x in vals:
            progs.append(main_of([("decl", False, t, "a", x), ("echo", ("un", "-", ("v", "a"))), ("expr", ("post", "a", "++")), ("echo", ("v", "a")),
                                  ("expr", ("post", "a", "--")), ("expr", ("post", "a", "--")), ("echo", ("v", "a"))]))
            for ct in ("int", "long", "float", "bit"):
                progs.append(main_of([("decl", False, t, "a", x), ("echo", ("cast", ct, ("v", "a")))]))
            # indexing with extreme indices, read and write
            progs.append(main_of([("declarr", "int", "xs", None, ("arr", [("i", 1), ("i", 2), ("i", 3)])), ("decl", False, t, "k", x),
                                  ("echo", ("idx", ("v", "xs"), ("v", "k")))]))
            progs.append(main_of([("declarr", "int", "xs", None, ("arr", [("i", 1), ("i", 2), ("i", 3)])), ("decl", False, t, "k", x),
                                  ("aset", "xs", ("v", "k"), ("i", 5)), ("echo", ("v", "xs"))]))
    # mixed int/long with -1 and 0 divisors
    for x, y in itertools.product(LONGS[:3], INTS[2:5]):
        for op in ["/", "%"]:
            progs.append(main_of([("decl", False, "long", "a", x), ("decl", False, "int", "b", y),
                                  ("echo", ("bin", op, ("v", "a"), ("v", "b")))]))
    # floats: huge, tiny, casts out of range
    big = ("f", 2 ** 100, 0)
    for e in [("cast", "int", big), ("cast", "long", big), ("cast", "bit", big), ("bin", "*", big, big),
              ("bin", "/", ("f", 1, 0), ("f", 0, 0)), ("bin", "/", ("i", 1), ("bin", "-", ("f", 1, 0), ("f", 1, 0))),
              ("cast", "int", ("un", "-", big))]:
        progs.append(main_of([("echo", e)]))
    # empty and zero-sized arrays
    progs.append(main_of([("declarr", "int", "z", ("i", 0), None), ("echo", ("v", "z")), ("echo", ("idx", ("v", "z"), ("i", 0)))]))
    progs.append(main_of([("declarr", "str", "z", ("i", 2), None), ("echo", ("v", "z")), ("aset", "z", ("i", 2), ("s", "x"))]))
    progs.append(main_of([("declarr", "bit", "p", None, ("arr", [("b", 1)])), ("declarr", "bit", "q", None, ("arr", [("b", 1), ("b", 0)])),
                          ("echo", ("bin", "&", ("v", "p"), ("v", "q")))]))
    # bounded deep recursion
    rec = ("f", "int", [("int", "d")], [("if", ("bin", "<=", ("v", "d"), ("i", 0)), ("block", [("ret", ("i", 0))]), None),
                                        ("ret", ("bin", "+", ("i", 1), ("call", "f", [("bin", "-", ("v", "d"), ("i", 1))])))])
    progs.append([rec, ("main", "void", [], [("echo", ("call", "f", [("i", 30)]))])])
    return progs


RAW = [
    # literals outside the machine range: rejected with a categorised diagnostic, or handled - never a raw exception
    "function main() -> void { int a = 2147483648; echo(a); }",
    "function main() -> void { int a = 99999999999999999999; echo(a); }",
    "function main() -> void { long a = 9223372036854775808L; echo(a); }",
    "function main() -> void { long a = 99999999999999999999999L; echo(a); }",
    "function main() -> void { float f = 400000000000000000000000000000000000000.0f; echo(f); }",
    "function main() -> void { float f = 0.00000000000000000000000000000000000000000000001f; echo(f); }",
    "function main() -> void { float f = 340282340000000000000000000000000000000.0f; echo(f); }",
    "function main() -> void { echo(1 / 400000000000000000000000000000000000000.0f); }",
    "function main() -> void { int[] a = {1}; echo(a[99999999999]); }",
    "function main() -> void { int[2147483648] a; }",
    "function main() -> void { final int n = 0 - 1; int[n] a; echo(a); }",
    "function main() -> void { final int n = (-2147483647 - 1); int[n / -1] a; }",
    "function main() -> void { final int n = 5; int[n % 0] a; }",
    "@shots(99999999999) function main() -> void { echo(1); }",
    "function main() -> void { string s = \"a\"; int i = 0; while (i < 18) { s = s + s; i = i + 1; } echo(1); }",
]


def failing_destructors():
    """a runtime error raised inside a user destructor, for every way an object can die"""
    faults = {"modulo by zero": "int z = 0; echo(10 % z);", "index": "int[] a = {1}; echo(a[3]);", "null": "D n = null; echo(n.id);"}
    lives = {"end of main": "D d = new D(1); echo(\"x\");",
             "block exit": "{ D d = new D(1); } echo(\"after\");",
             "reassigned": "D d = new D(1); d = null; echo(\"after\");",
             "destroy": "D d = new D(1); destroy d; echo(\"after\");",
             "temporary": "new D(1); echo(\"after\");",
             "argument temporary": "echo(idOf(new D(4))); echo(\"after\");",
             "return unwinding": "echo(f()); echo(\"after\");",
             "owner cascade": "H h0 = new H(); h0 = null; echo(\"after\");",
             "two at once": "D a = new D(1); D b = new D(2); echo(\"x\");",
             "loop": "for (int i = 0; i < 3; i = i + 1) { D d = new D(i); } echo(\"after\");"}
    out = []
    for fn, fault in faults.items():
        for ln, life in lives.items():
            out.append("class D { public int id; public constructor(int id) -> D { this.id = id; } public destructor() -> void { echo(\"~D\"); %s } }\n"
                       "class H { public D inner; public constructor() -> H { this.inner = new D(9); } }\n"
                       "function idOf(D d) -> int { return d.id; }\n"
                       "function f() -> int { if (true) { D d = new D(2); return 5; } return 7; }\n"
                       "function main() -> void { %s }\n" % (fault, life))
    # a destructor that stores 'this': the reference outlives the object
    out.append("class A { public static A keep = null; public string n; public constructor(string n) -> A { this.n = n; }\n"
               "  public destructor() -> void { echo(\"~A \" + this.n); keep = this; } }\n"
               "function main() -> void { A a = new A(\"zombie\"); a = null; A b = new A(\"other\"); A c = new A(\"other2\"); echo(A.keep.n); A.keep = null; }\n")
    out.append("class H { public A held = null; public constructor() -> H { } }\n"
               "class A { public static H sink = new H(); public int v = 5; public constructor() -> A { }\n"
               "  public destructor() -> void { sink.held = this; } }\n"
               "function main() -> void { A a = new A(); a = null; A b = new A(); echo(A.sink.held.v); }\n")
    # depth without nesting in the source: long object chains, deep recursion, self-instantiating generics, deep hierarchies
    out.append("class Node { public Node next; public int v; public constructor(int v) -> Node { this.v = v; this.next = null; } }\n"
               "function main() -> void { Node head = new Node(0); for (int i = 1; i < 10000; i = i + 1) { Node n = new Node(i); n.next = head; head = n; } echo(head.v); head = null; echo(\"done\"); }\n")
    out.append("class Node { public Node next; public int v; public constructor(int v) -> Node { this.v = v; this.next = null; } public destructor() -> void { if (v == 7) { echo(\"~7\"); } } }\n"
               "function main() -> void { Node head = new Node(0); for (int i = 1; i < 3000; i = i + 1) { Node n = new Node(i); n.next = head; head = n; } head = null; echo(\"done\"); }\n")
    out.append("function sum(int n) -> int { if (n <= 0) { return 0; } return 1 + sum(n - 1); }\nfunction main() -> void { echo(sum(300)); echo(sum(100000)); }\n")
    out.append("class A { public constructor() -> A { } public function down(int n) -> int { if (n <= 0) { return 0; } return 1 + this.down(n - 1); } }\n"
               "function main() -> void { A a = new A(); echo(a.down(100000)); }\n")
    out.append("class R { public R inner; public constructor() -> R { this.inner = new R(); } }\nfunction main() -> void { R r = new R(); echo(\"x\"); }\n")
    out.append("class G<T> { public static G<G<T>> next = new G<G<T>>(); public constructor() -> G<T> { } }\nfunction main() -> void { G<int> g = new G<int>(); echo(\"ok\"); }\n")
    out.append("class C0 { public constructor() -> C0 { } public virtual function f() -> int { return 0; } }\n" +
               "".join("class C%d extends C%d { public constructor() -> C%d { super(); } public override function f() -> int { return %d; } }\n" % (i, i - 1, i, i) for i in range(1, 400)) +
               "function main() -> void { C399 c = new C399(); echo(c.f()); }\n")
    out.append("class C0 { public constructor() -> C0 { } public virtual function f() -> int { return 0; } }\n" +
               "".join("class C%d extends C%d { public constructor() -> C%d { super(); } public override function f() -> int { return %d; } }\n" % (i, i - 1, i, i) for i in range(1, 200)) +
               "function main() -> void { C0 c = new C199(); echo(c.f()); }\n")
    # a destructor that writes the fields of its dying parent (which it reaches because the parent's destructor handed out 'this')
    out.append("class Child { public Parent parent; public int gen; public constructor(Parent p, int gen) -> Child { this.parent = p; this.gen = gen; return this; }\n"
               "  public destructor() -> Child { if (this.parent != null) { if (this.gen < 3) { this.parent.kid = new Child(this.parent, this.gen + 1); } } } }\n"
               "class Parent { public Child kid; public constructor() -> Parent { this.kid = new Child(null, 0); return this; } public destructor() -> Parent { this.kid.parent = this; } }\n"
               "function main() -> void { Parent p = new Parent(); p = null; echo(\"done\"); }\n")
    # native stack used inside one call: releases from nested blocks of a destructor, a chain of classes initialised on demand, a deeply nested body under recursion
    out.append("class N { public N next; public constructor() -> N { this.next = null; } public destructor() -> N { " + "{ " * 40 + "this.next = null; " + "} " * 40 + "} }\n"
               "function main() -> void { N head = new N(); for (int i = 0; i < 300; i = i + 1) { N n = new N(); n.next = head; head = n; } head = null; echo(\"done\"); }\n")
    out.append("".join("static class S%d { public static int x = S%d.x + 1; }\n" % (i, i + 1) for i in range(1500)) + "static class S1500 { public static int x = 1; }\nfunction main() -> void { echo(S0.x); }\n")
    out.append("function deep(int n) -> int { " + "if (n > 0) { " * 300 + "return deep(n - 1) + " + " + ".join(["1"] * 300) + "; " + "} " * 300 + "return 0; }\nfunction main() -> void { echo(deep(100000)); }\n")
    # an error in a destructor reached from inside another destructor
    out.append("class Node { public int v; public constructor(int v) -> Node { this.v = v; }\n"
               "  public destructor() -> void { if (this.v == 0) { { Node t = new Node(1); } Node u = new Node(2); } else { int[] d = {1}; int z = d[5]; } } }\n"
               "function main() -> void { Node a = new Node(0); a = null; echo(\"end\"); }\n")
    # a user function named like a built-in gate must be refused (or must simply work)
    for g, ps in (("h", ""), ("x", ""), ("rx", "int a"), ("cx", "int a")):
        out.append("function %s(%s) -> void { echo(\"mine\"); }\nfunction main() -> void { %s(%s); }\n" % (g, ps, g, "1" if ps else ""))
    return out


def cli_shape(chk, sources, tag):
    """run /repo's own CLI (sanitizer build): exit status 0, or 1 with one categorised diagnostic; never a signal,
    a sanitizer report or bare exception text"""
    bdir = vlib.repo_build("asan")
    exe = os.path.join(bdir, "bin", "bloch")
    tmp = os.path.join(vlib.BUILD, "tmp", "c12cli-%d" % os.getpid())
    os.makedirs(tmp, exist_ok=True)
    n = 0
    try:
        for i, src in enumerate(sources):
            p = os.path.join(tmp, "p%04d.bloch" % i)
            open(p, "w").write(src)
            rc, out = vlib.sh("cd %s && BLOCH_NO_UPDATE_CHECK=1 ASAN_OPTIONS=detect_leaks=0 timeout 60 %s %s 2>&1" % (tmp, exe, p), timeout=120)
            n += 1
            txt = re.sub(r"\x1b\[[0-9;]*m", "", out)
            bad = None
            if "AddressSanitizer" in txt or "runtime error:" in txt or "LeakSanitizer" in txt:
                bad = "sanitizer report"
            elif rc not in (0, 1):
                bad = "exit status %d" % rc
            elif rc == 1 and not re.search(r"(Lexical|Parse|Semantic|Runtime) error at Ln \d+, Col \d+", txt) and "error" not in txt.lower():
                bad = "status 1 without a diagnostic"
            elif rc == 1 and not re.search(r"(Lexical|Parse|Semantic|Runtime) error", txt):
                bad = "status 1 with bare exception text instead of a categorised diagnostic"
            elif "terminate called" in txt:
                bad = "std::terminate"
            if bad:
                chk.report("%s-cli-%s" % (tag, bad.split()[0]), {"source": src, "exit_status": rc, "output": txt[-3000:],
                                                              "how": "BLOCH_NO_UPDATE_CHECK=1 <asan build>/bin/bloch p.bloch"},
                           "CLI: %s on an accepted or rejected program" % bad)
    finally:
        shutil.rmtree(tmp, ignore_errors=True)
    return n


def run(chk):
    quick = chk.tier == "quick"
    chk.proofs()
    rng = chk.rng
    progs = edge_corpus()
    n_corpus = len(progs)
    n = 250 if quick else 4000
    for i in range(n):
        g = lg.Gen(rng, nfuncs=rng.randint(0, 3), edge=True)
        progs.append(g.program())
    # class hierarchies (overloaded virtual methods, deep chains, destructors) and generic specialisations on the sanitizer build
    for i in range(60 if quick else 900):
        progs.append(og.ObjGen(rng).program())
    for i in range(40 if quick else 600):
        src, fns, classes = gengen.gen(rng)
        progs.append((fns, classes, src))
    recs, counts = lc.differential(chk, progs, "c12", kind="asan")
    # raw sources: no model, crash / exception shape only
    RAWS = list(RAW) + failing_destructors()
    raws = lc.run_impl(RAWS, kind="asan")
    nraw = {}
    for src, c in zip(RAWS, raws):
        st = c.get("status")
        k = "rejected" if (st == "error" and c.get("cat") in ("Lexical", "Parse", "Semantic")) else \
            "runtime-error" if (st == "error" and c.get("cat") == "Runtime") else st
        nraw[k] = nraw.get(k, 0) + 1
        if st in ("signal", "exit", "unparsable", "exception", "timeout"):
            chk.report("c12-raw-%s" % st, {"source": src, "implementation": c, "how": "run /repo's bloch (sanitizer build) on the source"},
                       "edge program ends with %s %s" % (st, c.get("msg", c.get("signal", ""))))
    # the real CLI on the raw corpus, the corpus programs that end in errors, and a sample of generated ones
    cli_src = list(RAWS) + [r["src"] for r in recs[:n_corpus] if r["model"]["status"] in ("err", "undoc")][: (40 if quick else 400)]
    cli_src += [r["src"] for r in recs[n_corpus:][: (20 if quick else 300)]]
    ncli = cli_shape(chk, cli_src, "c12")
    errs = sum(1 for r in recs if r["model"]["status"] == "err" and r["verdict"] == "agree")
    chk.cov.update({"programs": len(progs) + len(RAWS), "edge_corpus_programs": n_corpus, "generated_programs": n, "raw_edge_sources": len(RAWS),
                    "raw_outcomes": nraw, "cli_runs": ncli, "verdicts": counts, "agreeing_runtime_errors": errs,
                    "disagreements_checked": sum(v for k, v in counts.items() if k not in ("agree", "rejected") and not k.startswith("skip")),
                    "rule": "edge corpus: every pair of extreme int/long operands (MIN, MAX, -1, 0, 1, 2^16, 2^32, sqrt MAX) under + - * / %, unary minus, "
                            "postfix, casts to int/long/float/bit, extreme read/write indices, huge floats and out-of-range conversions, empty arrays, "
                            "mismatched bit[] lengths, recursion depth 30; random type-directed programs with extreme literals; out-of-range literals, "
                            "array sizes and annotations as raw sources; a runtime error (modulo by zero, index, null) raised inside a destructor for every way an "
                            "object can die (scope / block exit, reassignment, destroy, temporary, argument temporary, return unwinding, owner cascade, loop); "
                            "user functions named like built-in gates.  All run on an AddressSanitizer+UBSan build through the harness and through the real CLI; "
                            "a signal, sanitizer report, non-Bloch exception or status other than 0/1 is a violation; where the reference interpreter defines "
                            "the result, output and error are compared as for C07."})
    ok = [r for r in recs if r["verdict"] == "agree"]
    for r in ok[:1] + ok[n_corpus:n_corpus + 1]:
        chk.sample({"program": r["src"], "reference": r["model"]})
