"""C13 - the front end is total: any input yields an AST or one categorised diagnostic."""
import os
import re
import shutil
import vlib
from checks import langgen as lg
from checks import langcommon as lc
from checks import objgen as og
from checks import simcommon as sc

TRUSTED_BASE = [
    "Coq 8.16.1 kernel (coqc)",
    "axioms: none",
    "extraction ExtrOcamlBasic+ExtrOcamlString; extract/driver_parse.ml (token mutations of rendered trees), harness/cpp/drv_front.cpp, "
    "harness/cpp/drv_prog.cpp ('noexec': load + analyse only; 'after=': one analyser instance reused after a rejected program), both on the "
    "AddressSanitizer+UBSan build",
    "modelled, not verified: statement/declaration/class grammar and the semantic analyser are not modelled; for them the property is observed on "
    "mutated inputs (every outcome must be acceptance or exactly one Lexical/Parse/Semantic diagnostic with a position, within the time limit, "
    "without a sanitizer report), not proved (partial). Bounded length and nesting depth as the property states.",
]

TOKEN_RX = re.compile(r'"[^"\n]*"|\'[^\'\n]\'|[A-Za-z_][A-Za-z_0-9]*|\d+\.\d+f|\d+[LbF]?|->|==|!=|<=|>=|&&|\|\||\+\+|--|\s+|.', re.S)
INSERT = ["(", ")", "{", "}", "[", "]", ";", ",", "=", "+", "-", "*", "<", ">", ".", ":", "?", "@", "final", "int", "class", "function", "return",
          "new", "null", "this", "super", "extends", "static", "virtual", "override", "constructor", "destructor", "destroy", "measure", "reset",
          "qubit", "x", "0", "1b", "2.5f", "9L", "\"s\"", "'c'", "<", "import", "package", "->", "@quantum", "@shots(2)", "@tracked", "echo", "if", "else",
          "while", "for", "void", "float", "long", "string", "boolean", "bit", "char", "=default", "99999999999", "1.", "\"", "'", "\x00", "\xff", "#"]


def tokens(src):
    return TOKEN_RX.findall(src)


def mutants(rng, src, k):
    toks = tokens(src)
    sig = [i for i, t in enumerate(toks) if not t.isspace()]
    out = []
    idents = [i for i in sig if re.fullmatch(r"[A-Za-z_][A-Za-z_0-9]*", toks[i])]
    TYPES = ["int", "long", "float", "string", "boolean", "bit", "char", "void", "qubit"]
    LITS = ["0", "7", "3L", "1.5f", "1b", "true", "\"s\"", "'c'", "null", "{1, 2}", "this"]
    for _ in range(k):
        t = list(toks)
        op = rng.random()
        i = rng.choice(sig)
        if op < 0.4 and idents:
            # syntax-preserving: the analyser, not the parser, has to deal with it
            i = rng.choice(idents)
            if toks[i] in TYPES:
                t[i] = rng.choice(TYPES)
            elif rng.random() < 0.6:
                t[i] = toks[rng.choice(idents)]
            else:
                t[i] = rng.choice(LITS)
            out.append("".join(t))
            continue
        op = rng.random()
        if op < 0.3:
            del t[i]
        elif op < 0.55:
            t.insert(i, " " + rng.choice(INSERT) + " ")
        elif op < 0.8:
            t[i] = rng.choice(INSERT)
        elif op < 0.9:
            j = rng.choice(sig)
            t[i], t[j] = t[j], t[i]
        else:
            t = t[:i]                      # truncation
            if rng.random() < 0.3:
                t.append(rng.choice([" // cut", "//", " \"", " '", " 1."]))      # ... ending inside a comment or literal
        out.append("".join(t))
    return out


def random_bytes(rng, n):
    alphabet = "{}()[];,=+-*/%<>!&|^~?:.@\"' \n\tabcxyz0129fLb_\\#$\x00\x7f\xe9"
    return ["".join(rng.choice(alphabet) for _ in range(rng.randint(1, 60))) for _ in range(n)]


def _paren_chain(levels, k):
    e = "1"
    for _ in range(levels):
        e = "(" + e + ")" + "+1" * k
    return e

def nested(rng):
    d = rng.choice([50, 120, 200])
    return ["function main() -> void { echo(" + "(" * d + "1" + ")" * d + "); }",
            "function main() -> void { " + "{" * d + "}" * d + " }",
            "function main() -> void { int[] a = " + "{" * 3 + "1" + "}" * 3 + "; }",
            "function main() -> void { echo(" + "-" * d + "1); }",
            "function main() -> void { echo(1" + "+1" * d + "); }",
            "class A { public constructor() -> A { } } " + "".join("class B%d extends %s { public constructor() -> B%d { super(); } } " % (i, "A" if i == 0 else "B%d" % (i - 1), i) for i in range(40)) + "function main() -> void { }",
            "class A extends B { public constructor() -> A { } } class B extends A { public constructor() -> B { } } class Leaf extends A { public constructor() -> Leaf { } } function main() -> void { }",
            "class Leaf extends A { public constructor() -> Leaf { } } class A extends B { public constructor() -> A { } } class B extends C { public constructor() -> B { } } class C extends A { public constructor() -> C { } } function main() -> void { }",
            # inheritance cycles of every class kind (static classes may extend, too), with and without members that make the analyser walk the chain
            "static class U extends U { public static function f() -> int { return 1; } } function main() -> void { }",
            "static class A extends B { public static function f() -> int { return 1; } } static class B extends A { public static function g() -> int { return 2; } } function main() -> void { echo(A.f()); }",
            "static class P extends Q { public static int n = 1; } static class Q extends R { } static class R extends Q { public static int m = 2; } function main() -> void { echo(P.n); }",
            "abstract class A extends B { public constructor() -> A { } } abstract class B extends A { public constructor() -> B { } } function main() -> void { }",
            "class A<T> extends B<T> { public T v; public constructor() -> A<T> { } } class B<T> extends A<T> { public T w; public constructor() -> B<T> { } } function main() -> void { }",
            "static class S extends C { } class C extends D { public int f = 0; public constructor() -> C { } } class D extends C { public int f = 1; public constructor() -> D { } } function main() -> void { }",
            "function main() -> void { final int n = (-2147483647 - 1); int[n / -1] a; }",
            "function main() -> void { final int n = 1; int[n % 0] a; }",
            "@shots(99999999999) function main() -> void { }",
            "import nothing.here; function main() -> void { }",
            # input that ends inside a token or a comment
            "function main() -> void { } // trailing comment, no newline", "//", "// only a comment", "function main() -> void { echo(1); } //",
            "function main() -> void { echo(\"unterminated", "function main() -> void { echo('c", "function main() -> void { echo(1.", "function main() -> void { echo(1); } /",
            "function main() -> void { } \n// last line\n// and another without newline",
            # long inputs at bracket depth 1: operator chains, a type that doubles at every access, array dimensions
            "function main() -> void { bit x = 1b; x = " + "~" * 13000 + "x; }",
            "function main() -> void { int x = 1" + "+1" * 13000 + "; }",
            "function main() -> void { int x = 0; x = " + "x = " * 13000 + "1; }",
            # type arguments nested tens of thousands deep; a generic type whose size multiplies at every member access
            "class A<T> { public constructor() -> A<T> { } }\nfunction main() -> void { " + "A<" * 30000 + "int" + ">" * 30000 + " x; }",
            "function f(" + "A<" * 30000,
            "class P<A, B, C, D, E, F, G, H> { public P<P<A,B,C,D,E,F,G,H>, P<A,B,C,D,E,F,G,H>, P<A,B,C,D,E,F,G,H>, P<A,B,C,D,E,F,G,H>, P<A,B,C,D,E,F,G,H>, "
            "P<A,B,C,D,E,F,G,H>, P<A,B,C,D,E,F,G,H>, P<A,B,C,D,E,F,G,H>> f = null; public constructor() -> P<A, B, C, D, E, F, G, H> { } }\n"
            "function main() -> void { P<int,int,int,int,int,int,int,int> p = new P<int,int,int,int,int,int,int,int>(); echo(p.f.f.f.f.f.f.f.f.f == null); }",
            # depth that adds up across levels: 25 parentheses, each followed by a chain of 490 operators (24 KB, tree depth 12000)
            "function main() -> void { int x = " + _paren_chain(25, 490) + "; int y = zz; }",
            "function main() -> void { int x = f(" + _paren_chain(9, 490) + "); }",
            # statements nested without any bracket: thousands of ternary statements
            "function main() -> void { boolean x = true; " + "x ? " * 7000 + "y;" + " : x;" * 7000 + " }",
            "function main() -> void { boolean x = true; " + "x ? x; : " * 7000 + "x; }",
            "function main() -> void { boolean b = " + "!" * 9000 + "true; }",
            # casts recurse on their own path in the parser: tens of thousands of them at bracket depth 1, and a mix with other prefixes
            "function main() -> void { int x = " + "(int)" * 30000 + "1; }",
            "function main() -> void { int x = " + "(int)" * 3000 + "1; echo(x); }",
            "function main() -> void { float x = " + "(float)-(int)~" * 4000 + "1; }",
            # a file whose first token is an annotation
            "@quantum function f() -> bit { qubit q; return measure q; }\nfunction main() -> void { echo(f()); }",
            "@shots(3) function main() -> void { }", "@", "@quantum", "@shots(",
            "function main() -> void { int x = " + "-" * 700 + "1; }",
            "class Pair<A, B> { public constructor() -> Pair<A, B> { } }\nclass P<T> { public P<Pair<T, T>> f; public constructor() -> P<T> { } }\n"
            "function g(P<Object> p) -> void { echo(p" + ".f" * 40 + " == null); }\nfunction main() -> void { }",
            "function main() -> void { int" + "[]" * 20000 + " a; }",
            "function main() -> void { int" + "[]" * 7 + " a; }",
            # type-parameter bounds that refer to parameters: to themselves, to each other, to a later one
            "class P { public constructor() -> P { } }\nclass H<T extends T> { public T item = new P(); public constructor() -> H<T> { } }\nfunction main() -> void { }",
            "class P { public constructor() -> P { } }\nclass H<T extends T> { public constructor() -> H<T> { } public function put(T x) -> void { } "
            "public function go() -> void { put(new P()); } }\nfunction main() -> void { H<P> h = new H<P>(); h.go(); }",
            "class P { public constructor() -> P { } }\nclass H<T extends U, U extends T> { public T a = new P(); public U b = new P(); public constructor() -> H<T, U> { } }\n"
            "function main() -> void { }",
            "class P { public constructor() -> P { } }\nclass H<T extends U, U extends P> { public T a = new P(); public constructor() -> H<T, U> { } }\nfunction main() -> void { H<P, P> h = new H<P, P>(); }",
            "class H<T extends H<T>> { public constructor() -> H<T> { } public function me(T x) -> T { return x; } }\nfunction main() -> void { }"]


def classify(c):
    st = c.get("status")
    if st == "ok":
        return "accepted"
    if st == "error" and c.get("cat") in ("Lexical", "Parse", "Semantic") and c.get("line", 0) >= 0:
        return c["cat"]
    if st == "error" and c.get("cat") == "Generic":
        return "Generic"
    return "BAD:" + str(st)


def run(chk):
    quick = chk.tier == "quick"
    chk.proofs()
    rng = chk.rng
    # seeds: valid programs of every kind the generators produce
    seeds = []
    for i in range(12 if quick else 80):
        seeds.append(lg.prog_src(*og.ObjGen(rng).program()))
        seeds.append(lg.prog_src(lg.Gen(rng, nfuncs=rng.randint(1, 3)).program()))
        ops, draws = sc.gen_prog(rng, max_q=3, n_ops=6)
        seeds.append(sc.Prog(ops, draws).render(rng, ("direct", "func", "arrparam", "method"), True)[0])
    # generic templates, bounded type parameters
    from checks import gengen, c10
    for i in range(3 if quick else 20):
        seeds.append(gengen.gen(rng)[0])
        seeds += ["\n".join(p) for p in c10.decl_graphs(rng)]
    inputs = []
    per = 25 if quick else 60
    for s in seeds:
        inputs += mutants(rng, s, per)
    inputs += random_bytes(rng, 150 if quick else 2000)
    inputs += nested(rng)
    res = lc.run_impl(inputs, kind="asan", opts="noexec", per_case=20)
    outcomes = {}
    for src, c in zip(inputs, res):
        k = classify(c)
        outcomes[k] = outcomes.get(k, 0) + 1
        if k.startswith("BAD") or k == "Generic":
            chk.report("c13-front-%s" % (c.get("status")), {"source": src, "implementation": c,
                                                            "how": "drv_prog (ASan+UBSan build): run p.bloch noexec  (load, parse, analyse)"},
                       "front end neither accepts nor gives one categorised diagnostic: %s %s" % (c.get("status"), c.get("msg", c.get("signal", ""))))
    # the analyser stays usable: one instance analyses a rejected program, then a good one
    good = os.path.join(vlib.BUILD, "tmp", "c13-good-%d.bloch" % os.getpid())
    os.makedirs(os.path.dirname(good), exist_ok=True)
    open(good, "w").write(seeds[0])
    try:
        rejected = [s for s, c in zip(inputs, res) if classify(c) == "Semantic" and c.get("phase") == "analyse"][: (150 if quick else 1500)]
        reuse = lc.run_impl(rejected, kind="asan", opts="after=%s" % good)
        nreuse = 0
        for src, c in zip(rejected, reuse):
            nreuse += 1
            if c.get("status") != "reuse" or c.get("after") != "ok":
                chk.report("c13-reuse", {"rejected_first": src, "then": seeds[0], "result": c,
                                         "how": "drv_prog: run bad.bloch after=good.bloch (one SemanticAnalyser instance, bad then good)"},
                           "after rejecting a program the same analyser no longer accepts a valid one: %s" % str(c)[:160])
    finally:
        if os.path.exists(good):
            os.remove(good)
    # expression level: the model parser and the real parser agree on accept / reject for every single-token
    # deletion, duplication and adjacent swap of rendered trees
    from checks import c14
    exe = vlib.ocaml_engine("parse")
    drv = vlib.cpp_driver("drv_front", kind="asan")
    tmp = os.path.join(vlib.BUILD, "tmp", "c13-%d" % os.getpid())
    os.makedirs(tmp, exist_ok=True)
    nmut = ndis = 0
    try:
        trees = [c14.gen(rng, rng.randint(2, 7)) for _ in range(40 if quick else 600)]
        open(os.path.join(tmp, "t.txt"), "w").write("".join("mut %s\n" % t for t in trees))
        rc, out = vlib.sh([exe, os.path.join(tmp, "t.txt")], timeout=900)
        muts = [l.split() for l in out.splitlines() if l.startswith("MUT ")]
        open(os.path.join(tmp, "e.txt"), "w").write("".join("expr %s\n" % m[1] for m in muts))
        rc, out2 = vlib.sh("%s %s 2>/dev/null" % (drv, os.path.join(tmp, "e.txt")), timeout=900)
        lines = out2.splitlines()
        if len(lines) != len(muts):
            raise RuntimeError("drv_front produced %d/%d lines" % (len(lines), len(muts)))
        for m, l in zip(muts, lines):
            nmut += 1
            impl_accept = not (l.startswith("ERR") or l.startswith("EXC") or "extra-statements" in l or l.startswith("(no-echo)"))
            if l.startswith("EXC"):
                chk.report("c13-expr-exception", {"source_hex": m[1], "implementation": l}, "parser raised a non-Bloch exception on a mutated expression")
            elif impl_accept != (m[2] == "accept"):
                ndis += 1
                chk.report("c13-expr-accept", {"source": bytes.fromhex(m[1]).decode("latin-1") if m[1] != "-" else "", "model": m[2], "implementation": l,
                                               "how": "drv_front: expr <hex>  vs  extracted parse_expr on the same tokens"},
                           "model parser %ss, real parser %s" % (m[2], "accepts" if impl_accept else "rejects"))
    finally:
        shutil.rmtree(tmp, ignore_errors=True)
    chk.cov.update({"evaluations": len(inputs) + nmut, "mutated_programs": len(seeds) * per, "random_byte_inputs": 150 if quick else 2000,
                    "outcomes": outcomes, "analyser_reuse_runs": nreuse, "expression_mutants_compared_with_model": nmut, "expression_disagreements": ndis,
                    "distinct_nontrivial": len({s for s, c in zip(inputs, res) if classify(c) in ("Lexical", "Parse", "Semantic")}),
                    "disagreements_checked": ndis + sum(v for k, v in outcomes.items() if k.startswith("BAD") or k == "Generic"),
                    "rule": "valid class, classical and quantum programs from the generators, each mutated by single-token deletion, insertion (punctuation, keywords, "
                            "literals, stray bytes), replacement, swap and truncation; random byte strings; deep nesting, long inheritance chains and cycles, "
                            "out-of-range constants. Every input goes through load+parse+analyse on the ASan/UBSan build with a 20 s limit; outcome must be acceptance "
                            "or exactly one Lexical/Parse/Semantic diagnostic. Rejected programs are followed by a valid one on the same analyser instance. Rendered "
                            "expression trees are mutated token-wise and accept/reject compared with the extracted parser model. Non-trivial = distinct rejected input."})
    chk.sample({"input": inputs[0][:400], "outcome": classify(res[0])})
