"""C14 - render-then-parse round trip of the expression grammar."""
import itertools, os, re, shutil
import vlib

TRUSTED_BASE = [
    "Coq 8.16.1 kernel (coqc)",
    "axioms: none",
    "extraction ExtrOcamlBasic+ExtrOcamlString; extract/driver_parse.ml (s-expression glue, token spelling), harness/cpp/drv_front.cpp (AST dump through the public Lexer/Parser API)",
    "statements (Parse/StmtModel.v) are modelled for one declarator per declaration, primitive and plain class types, @tracked; generic and qualified type names, multi-declarators, functions and class members are exercised by the syntax matrix only (accepted and run to their marks), not by a Coq theorem (partial)",
]
BINOPS = ["||", "&&", "|", "^", "&", "==", "!=", ">", "<", ">=", "<=", "+", "-", "*", "/", "%"]
PREOPS = ["-", "!", "~"]

def hx(s):
    return s.encode("latin-1").hex() if s else "-"

def lit(rng):
    k = rng.choice(["int", "int", "float", "bit", "string", "char", "boolean", "long"])
    t = {"int": rng.choice(["0", "1", "42", "7"]), "float": rng.choice(["1.5f", "0.25f", "3f"]), "bit": rng.choice(["0b", "1b"]),
         "string": rng.choice(['"s"', '"a b"', '"(x)"']), "char": rng.choice(["'c'", "'+'"]), "boolean": rng.choice(["true", "false"]),
         "long": rng.choice(["5L", "100L"])}[k]
    return "(lit %s %s)" % (k, hx(t))

def atom(rng):
    r = rng.random()
    if r < 0.45:
        return "(var %s)" % rng.choice(["a", "b", "c", "x", "foo", "q"])
    if r < 0.85:
        return lit(rng)
    return rng.choice(["(null)", "(this)", "(super)"])

def gen(rng, size, allow_assign=True):
    if size <= 1:
        return atom(rng)
    r = rng.random()
    def sub(n, **kw):
        return gen(rng, max(1, n), **kw)
    if r < 0.38:
        k = rng.randint(1, size - 1)
        return "(bin %s %s %s)" % (rng.choice(BINOPS), sub(k, allow_assign=False), sub(size - 1 - k, allow_assign=False))
    if r < 0.48:
        return "(un %s %s)" % (rng.choice(PREOPS), sub(size - 1, allow_assign=False))
    if r < 0.54:
        return "(post %s %s)" % (rng.choice(["++", "--"]), sub(size - 1, allow_assign=False))
    if r < 0.62:
        n = rng.randint(0, 3)
        return "(call %s%s)" % (sub(size // 2, allow_assign=False), "".join(" " + sub(size // 3) for _ in range(n)))
    if r < 0.69:
        idx = sub(size // 2)
        if re.fullmatch(r"\(un - \(lit int [0-9a-f]+\)\)", idx):
            idx = "(var i)"
        return "(index %s %s)" % (sub(size // 2, allow_assign=False), idx)
    if r < 0.75:
        return "(member %s %s)" % (sub(size - 1, allow_assign=False), rng.choice(["f", "g", "len"]))
    if r < 0.80:
        return "(cast %s %s)" % (rng.choice(["int", "float", "bit"]), sub(size - 1, allow_assign=False))
    if r < 0.84:
        return "(measure %s)" % sub(size - 1)
    if r < 0.88:
        n = rng.randint(0, 3)
        return "(arr%s)" % "".join(" " + sub(size // 3) for _ in range(n))
    if r < 0.91:
        n = rng.randint(0, 2)
        return "(new %s%s)" % (rng.choice(["Foo", "Box"]), "".join(" " + sub(size // 3) for _ in range(n)))
    if r < 0.94:
        return "(paren %s)" % sub(size - 1)
    if allow_assign:
        k = rng.random()
        if k < 0.4:
            return "(assign %s %s)" % (rng.choice(["x", "y"]), sub(size - 1))
        if k < 0.7:
            return "(arrassign %s %s %s)" % (sub(size // 3, allow_assign=False), sub(size // 3), sub(size // 3))
        return "(memassign %s %s %s)" % (sub(size // 3, allow_assign=False), rng.choice(["f", "g"]), sub(size // 3))
    return atom(rng)

def exhaustive_small():
    out = []
    a, b, c = "(var a)", "(var b)", "(var c)"
    for o1, o2 in itertools.product(BINOPS, repeat=2):
        out.append("(bin %s (bin %s %s %s) %s)" % (o1, o2, a, b, c))
        out.append("(bin %s %s (bin %s %s %s))" % (o1, a, o2, b, c))
    for p in PREOPS:
        for o in BINOPS:
            out.append("(un %s (bin %s %s %s))" % (p, o, a, b))
            out.append("(bin %s (un %s %s) %s)" % (o, p, a, b))
            out.append("(bin %s %s (un %s %s))" % (o, a, p, b))
        for p2 in PREOPS:
            out.append("(un %s (un %s %s))" % (p, p2, a))
        out.append("(post ++ (un %s %s))" % (p, a)); out.append("(un %s (post -- %s))" % (p, a))
        out.append("(cast int (un %s %s))" % (p, a)); out.append("(un %s (cast float %s))" % (p, a))
        out.append("(call (un %s %s) %s)" % (p, a, b)); out.append("(index (un %s %s) %s)" % (p, a, b)); out.append("(member (un %s %s) f)" % (p, a))
    for o in BINOPS:
        out.append("(post ++ (bin %s %s %s))" % (o, a, b)); out.append("(bin %s (post ++ %s) %s)" % (o, a, b))
        out.append("(cast int (bin %s %s %s))" % (o, a, b)); out.append("(bin %s (cast int %s) %s)" % (o, a, b))
        out.append("(bin %s (measure %s) %s)" % (o, a, b)); out.append("(bin %s %s (measure %s))" % (o, a, b))
        out.append("(measure (bin %s %s %s))" % (o, a, b))
        out.append("(call (bin %s %s %s) %s)" % (o, a, b, c)); out.append("(index (bin %s %s %s) %s)" % (o, a, b, c)); out.append("(member (bin %s %s %s) f)" % (o, a, b))
        out.append("(bin %s (assign x %s) %s)" % (o, a, b)); out.append("(bin %s %s (assign x %s))" % (o, a, b)); out.append("(assign x (bin %s %s %s))" % (o, a, b))
        out.append("(bin %s (bin < %s %s) (bin > %s (var d)))" % (o, a, b, c))
        out.append("(paren (bin %s (bin < %s %s) (bin > %s (var d))))" % (o, a, b, c))
    out += ["(cast int (cast float %s))" % a, "(cast int (index %s %s))" % (a, b), "(cast bit (measure %s))" % a, "(cast int (call %s))" % a,
            "(assign x (assign y %s))" % a, "(arrassign %s %s (assign y %s))" % (a, b, c), "(memassign (call %s) f %s)" % (a, b),
            "(index %s (assign x %s))" % (a, b), "(call %s (measure %s) (measure %s))" % (a, b, c), "(arr (measure %s) %s)" % (a, b),
            "(measure (measure %s))" % a, "(un - (measure %s))" % a, "(post ++ (measure %s))" % a, "(member (measure %s) f)" % a,
            "(bin < (bin < %s %s) %s)" % (a, b, c), "(paren (bin > (bin < %s %s) %s))" % (a, b, c), "(un ! (paren (bin == (bin < %s (lit int 33)) (bin > %s %s))))" % (a, b, c),
            "(bin && (paren (bin < %s %s)) (paren (bin > %s (var d))))" % (a, b, c), "(new Foo (bin < %s %s) (bin > %s (var d)))" % (a, b, c)]
    return out

# ---- statement trees (s-expressions of extract/driver_parse.ml: stmt_of / sx_stmt)
PRIMS = ["int", "float", "bit", "long", "char", "string", "qubit", "boolean"]

def gen_ty(rng, allow_cls=True):
    if allow_cls and rng.random() < 0.25:
        dims = rng.choice([[], [], ["(none)"], ["(lit %d)" % rng.randint(0, 9)]])
        return "(ty (cls %s)%s)" % (rng.choice(["K", "Foo", "Box", "pkg.K", "a.b.C"]), "".join(" " + d for d in dims))
    dims = []
    for _ in range(rng.choice([0, 0, 0, 1, 1, 2, 3])):
        r = rng.random()
        dims.append("(none)" if r < 0.4 else ("(lit %d)" % rng.choice([0, 1, 2, 16, 123456789]) if r < 0.8 else "(expr %s)" % rng.choice(["(var n)", "(bin * (var n) (lit int %s))" % hx("2"), "(call (var f))"])))
    return "(ty %s%s)" % (rng.choice(PRIMS), "".join(" " + d for d in dims))

def gen_stmt_expr(rng, size):
    """an expression that can begin a statement: not a block, not `measure`, not `name =`, and not something the declaration look-ahead takes for a type"""
    r = rng.random()
    if r < 0.3:
        return "(call (var %s)%s)" % (rng.choice(["f", "go"]), "".join(" " + gen(rng, max(1, size // 2)) for _ in range(rng.randint(0, 2))))
    if r < 0.45:
        return "(post %s (var %s))" % (rng.choice(["++", "--"]), rng.choice(["i", "n"]))
    if r < 0.6:
        return "(call (member (var o) %s)%s)" % (rng.choice(["m", "g"]), "".join(" " + gen(rng, max(1, size // 2)) for _ in range(rng.randint(0, 2))))
    if r < 0.72:
        return "(memassign (var o) f %s)" % gen(rng, max(1, size - 1))
    if r < 0.84:
        return "(arrassign (var a) %s %s)" % (gen(rng, 2, allow_assign=False) if rng.random() < 0.5 else "(var i)", gen(rng, max(1, size - 1)))
    if r < 0.92:
        return "(paren %s)" % gen(rng, max(1, size - 1))
    return "(un %s %s)" % (rng.choice(PREOPS), gen(rng, max(1, size - 1), allow_assign=False))

def gen_cond(rng, size):
    r = rng.random()
    if r < 0.25:
        return "(measure %s)" % rng.choice(["(var q)", "(index (var r) (lit int %s))" % hx("0"), "(member (var o) q)"])
    if r < 0.5:
        return "(paren %s)" % gen(rng, max(1, size - 1))
    if r < 0.8:
        return "(bin %s (var a) %s)" % (rng.choice(["==", "!=", "<=", ">=", "&&", "||", "+"]), gen(rng, max(1, size - 1), allow_assign=False))
    return gen_stmt_expr(rng, size)

def gen_block(rng, depth, n=None):
    n = rng.randint(0, 3) if n is None else n
    return "(block%s)" % "".join(" " + gen_stmt(rng, depth - 1) for _ in range(n))

def gen_stmt(rng, depth):
    r = rng.random()
    e = lambda k=6: gen(rng, rng.randint(1, k))
    opt = lambda: e() if rng.random() < 0.6 else "-"
    if depth <= 0:
        r = r * 0.62          # leaves only
    if r < 0.14:
        tracked = rng.random() < 0.2
        return "(decl %d %d %s %s %s)" % (rng.random() < 0.25, tracked, gen_ty(rng), rng.choice(["v", "w", "tmp"]), opt())
    if r < 0.22:
        return "(return %s)" % opt()
    if r < 0.30:
        return "(echo %s)" % e()
    if r < 0.35:
        return "(reset %s)" % e(3)
    if r < 0.40:
        return "(smeasure %s)" % e(3)
    if r < 0.44:
        return "(destroy %s)" % e(3)
    if r < 0.52:
        return "(sassign %s %s)" % (rng.choice(["x", "y"]), e())
    if r < 0.62:
        return "(sexpr %s)" % gen_stmt_expr(rng, 5)
    if r < 0.70:
        return gen_block(rng, depth)
    if r < 0.80:
        return "(if %s %s %s)" % (e(), gen_block(rng, depth), gen_block(rng, depth) if rng.random() < 0.5 else "-")
    if r < 0.86:
        return "(while %s %s)" % (e(), gen_block(rng, depth))
    if r < 0.94:
        k = rng.random()
        init = "(none)" if k < 0.25 else ("(fdecl %d %s i %s)" % (rng.random() < 0.2, gen_ty(rng), opt()) if k < 0.7 else "(fexpr %s)" % gen_stmt_expr(rng, 4))
        return "(for %s %s %s %s)" % (init, e(), e(), gen_block(rng, depth))
    return "(tern %s %s %s)" % (gen_cond(rng, 4), gen_stmt(rng, depth - 1), gen_stmt(rng, depth - 1))

def syntax_matrix():
    """statement, declaration and annotated-member forms of the documented grammar (docs/grammar.md, docs/bloch_class_system.md,
    docs/language/annotations.md), each type in each position: (name, source, expected output lines)"""
    out = []
    LIT = {"int": "3", "long": "4L", "float": "1.5f", "bit": "1b", "boolean": "true", "char": "'c'", "string": "\"s\""}
    BOX = ("class Box<T> { public T v; public constructor(T v) -> Box<T> { this.v = v; } public function get() -> T { return this.v; } }\n"
           "class Pair<A, B> { public A a; public B b; public constructor(A a, B b) -> Pair<A, B> { this.a = a; this.b = b; } }\n"
           "class K { public int id = 7; public constructor() -> K { } }\n")
    positions = [("function start", "function main() -> void { %s echo(\"m\"); }"),
                 ("after a statement", "function main() -> void { echo(\"a\"); %s echo(\"m\"); }"),
                 ("nested block", "function main() -> void { { %s } echo(\"m\"); }"),
                 ("if block", "function main() -> void { if (true) { %s } echo(\"m\"); }"),
                 ("for body", "function main() -> void { for (int i = 0; i < 1; i = i + 1) { %s } echo(\"m\"); }"),
                 ("while body", "function main() -> void { int n = 1; while (n > 0) { %s n = n - 1; } echo(\"m\"); }"),
                 ("method body", "class H { public constructor() -> H { } public function go() -> void { %s } }\nfunction main() -> void { H h = new H(); h.go(); echo(\"m\"); }"),
                 ("constructor body", "class H { public constructor() -> H { %s } }\nfunction main() -> void { H h = new H(); echo(\"m\"); }")]
    decls = []
    for t, lit in LIT.items():
        decls.append(("%s local" % t, "%s v = %s;" % (t, lit)))
        decls.append(("final %s local" % t, "final %s v = %s;" % (t, lit)))
        if t != "boolean":
            decls.append(("%s[] literal" % t, "%s[] v = {%s, %s};" % (t, lit, lit)))
            decls.append(("%s[2] sized" % t, "%s[2] v;" % t))
        decls.append(("Box<%s> local" % t, "Box<%s> v = new Box<%s>(%s);" % (t, t, lit)))
        decls.append(("Pair<int, %s> local" % t, "Pair<int, %s> v = new Pair<int, %s>(1, %s);" % (t, t, lit)))
        decls.append(("Pair<%s, K> local" % t, "Pair<%s, K> v = new Pair<%s, K>(%s, new K());" % (t, t, lit)))
        decls.append(("Box<Box<%s>> local" % t, "Box<Box<%s>> v = new Box<Box<%s>>(new Box<%s>(%s));" % (t, t, t, lit)))
    decls += [("class local", "K v = new K();"), ("null class local", "K v = null;"), ("Box<K> local", "Box<K> v = new Box<K>(new K());"),
              ("qubit local", "qubit v;"), ("qubit register", "qubit[2] v;"), ("qubit multi-declarator", "qubit v, w, u;"),
              ("tracked qubit", "@tracked qubit v;"), ("tracked register", "@tracked qubit[2] v;"), ("tracked multi-declarator", "@tracked qubit v, w;")]
    for dn, d in decls:
        for pn, pos in positions:
            if ("qubit" in d) and pn in ("method body", "constructor body"):
                continue
            marks = (["a"] if pn == "after a statement" else []) + ["m"]
            entry = ("%s / %s" % (dn, pn), BOX + pos % (d + " echo(\"d\");"), [marks[0]] + ["d"] + marks[1:] if pn == "after a statement" else ["d", "m"])
            if "@tracked" in d:
                # every declarator of an annotated declaration carries the annotation: each gets its outcome table
                names = [x.strip() for x in d.rstrip(";").split("]")[-1].replace("@tracked qubit", "").split(",")]
                entry = entry + (sorted(("qubit[] " if "[" in d else "qubit ") + x for x in names),)
            out.append(entry)
    # for-initialisers of the documented primitive types, final, expression initialiser, empty
    for t, lit in (("int", "0"), ("float", "0.5f"), ("char", "'a'"), ("string", "\"\""), ("bit", "0b")):
        out.append(("for (%s ...)" % t, "function main() -> void { int n = 0; for (%s v = %s; n < 2; n = n + 1) { echo(\"b\"); } echo(\"m\"); }" % (t, lit), ["b", "b", "m"]))
    out.append(("for (final int ...)", "function main() -> void { int n = 0; for (final int v = 1; n < 1; n = n + v) { echo(\"b\"); } echo(\"m\"); }", ["b", "m"]))
    out.append(("for (expression; ...)", "function main() -> void { int n = 5; for (n = 0; n < 1; n = n + 1) { echo(\"b\"); } echo(\"m\"); }", ["b", "m"]))
    out.append(("for (; ...)", "function main() -> void { int n = 0; for (; n < 1; n = n + 1) { echo(\"b\"); } echo(\"m\"); }", ["b", "m"]))
    for t, lit, cond, step in (("long", "0L", "v < 1L", "v = v + 1L"), ("boolean", "true", "v", "v = false")):
        out.append(("for (%s ...)" % t, "function main() -> void { for (%s v = %s; %s; %s) { echo(\"b\"); } echo(\"m\"); }" % (t, lit, cond, step), ["b", "m"]))
    for dn, d in (("-> void", "public destructor() -> void { echo(\"x\"); }"), ("-> void = default", "public destructor() -> void = default;"),
                  ("-> ClassName", "public destructor() -> Q { echo(\"x\"); }"), ("-> ClassName = default", "public destructor() -> Q = default;")):
        out.append(("destructor %s" % dn, "class Q { public constructor() -> Q { } %s }\nfunction main() -> void { Q o = new Q(); destroy o; echo(\"m\"); }" % d,
                    (["x"] if "echo" in d else []) + ["m"]))
    # a for-initialiser is a variableDeclaration as anywhere else: annotated, or of a class type
    out.append(("for (@tracked qubit ...)", "function main() -> void { int n = 0; for (@tracked qubit v; n < 1; n = n + 1) { echo(\"b\"); } echo(\"m\"); }", ["b", "m"]))
    out.append(("for (class-typed ...)", "class K { public int id = 0; public constructor() -> K { } }\nfunction main() -> void { for (K k = new K(); k.id < 1; k.id = k.id + 1) { echo(\"b\"); } echo(\"m\"); }", ["b", "m"]))
    out.append(("for (element assignment; ...)", "function main() -> void { int[] a = {5}; for (a[0] = 0; a[0] < 1; a[0] = a[0] + 1) { echo(\"b\"); } echo(\"m\"); }", ["b", "m"]))
    # field modifiers in both documented orders
    for order in ("final static", "static final"):
        out.append(("%s field" % order, "class K { public %s int A = 3; public constructor() -> K { } }\nfunction main() -> void { echo(K.A); echo(\"m\"); }" % order, ["3", "m"]))
    out.append(("for (qubit ...)", "function main() -> void { int n = 0; for (qubit v; n < 1; n = n + 1) { echo(\"b\"); } echo(\"m\"); }", ["b", "m"]))
    # the conditional statement on every kind of condition
    for cn, pre, cond in (("comparison", "int a = 1;", "a < 2"), ("parenthesised", "int a = 1;", "(a < 2)"), ("logical", "boolean a = true;", "a && !false || false"),
                          ("bit", "bit a = 1b;", "a"), ("call", "", "yes()"), ("measurement", "qubit q; x(q);", "measure q"),
                          ("parenthesised measurement", "qubit q; x(q);", "(measure q)"), ("equality of a parenthesised measurement", "qubit q; x(q);", "(measure q) == 1b")):
        out.append(("conditional statement on a %s" % cn,
                    "function yes() -> boolean { return true; }\nfunction main() -> void { %s %s ? echo(\"t\"); : echo(\"f\"); echo(\"m\"); }" % (pre, cond), ["t", "m"]))
    out.append(("nested conditional statements", "function main() -> void { int a = 1; a < 2 ? a < 1 ? echo(\"x\"); : echo(\"t\"); : echo(\"f\"); echo(\"m\"); }", ["t", "m"]))
    out.append(("measure statement then conditional", "function main() -> void { qubit q; measure q; qubit r; x(r); measure r ? echo(\"t\"); : echo(\"f\"); echo(\"m\"); }", ["t", "m"]))
    # annotated class members
    for mn, mem, call in (("@quantum method", "@quantum public function m() -> bit { qubit a; x(a); return measure a; }", "echo(o.m());"),
                          ("public @quantum method (annotation after the modifiers)", "public @quantum function m() -> bit { qubit a; x(a); return measure a; }", "echo(o.m());"),
                          ("@quantum static method", "@quantum public static function m() -> bit { qubit a; x(a); return measure a; }", "echo(Q.m());"),
                          ("@quantum void method", "@quantum public function m() -> void { qubit a; x(a); echo(1b); }", "o.m();"),
                          ("@quantum bit[] method", "@quantum public function m() -> bit[] { bit[] r = {1b}; return r; }", "bit[] r = o.m(); echo(r[0]);"),
                          ("@tracked field", "@tracked public qubit f; public function m() -> bit { x(this.f); return measure this.f; }", "echo(o.m());"),
                          ("@tracked register field", "@tracked public qubit[2] f; public function m() -> bit { x(this.f[1]); return measure this.f[1]; }", "echo(o.m());")):
        out.append((mn, "class Q { public constructor() -> Q { } %s }\nfunction main() -> void { Q o = new Q(); %s echo(\"m\"); }" % (mem, call), ["1", "m"]))
    out.append(("@quantum function", "@quantum function m() -> bit { qubit a; x(a); return measure a; }\nfunction main() -> void { echo(m()); echo(\"m\"); }", ["1", "m"]))
    out.append(("@shots on main", "@shots(1) function main() -> void { echo(\"m\"); }", ["m"]))
    return out


def strip_parens(sx):
    prev = None
    while prev != sx:
        prev = sx
        sx = re.sub(r"\(paren ((?:[^()]|\((?:[^()]|\((?:[^()]|\((?:[^()]|\([^()]*\))*\))*\))*\))*)\)", r"\1", sx)
    return sx

def run(chk):
    quick = chk.tier == "quick"
    chk.proofs()
    rng = chk.rng
    exe_m = vlib.ocaml_engine("parse")
    vlib.repo_build("hooked")
    drv = vlib.cpp_driver("drv_front")
    trees = exhaustive_small()
    n_ex = len(trees)
    for _ in range(1500 if quick else 25000):
        trees.append(gen(rng, rng.randint(2, 12)))
    tmp = os.path.join(vlib.BUILD, "tmp", "c14-%d" % os.getpid())
    os.makedirs(tmp, exist_ok=True)
    try:
        f1 = os.path.join(tmp, "trees.txt")
        open(f1, "w").write("".join("tree %s\n" % t for t in trees))
        rc, om = vlib.sh([exe_m, f1], timeout=3000)
        lm = om.splitlines()
        if rc != 0 or len(lm) != len(trees):
            raise RuntimeError("parse model driver failed rc=%d %d/%d: %s" % (rc, len(lm), len(trees), om[-400:]))
        recs = []
        for t, l in zip(trees, lm):
            m = re.match(r"^SRC (\S+) TREE (.*) STRIP (.*) MODEL (.*)$", l)
            recs.append({"tree": t, "src_hex": m.group(1), "expect": m.group(2), "strip": m.group(3), "model": m.group(4)})
        f2 = os.path.join(tmp, "exprs.txt")
        open(f2, "w").write("".join("expr %s\n" % r["src_hex"] for r in recs))
        rc, oc = vlib.sh([drv, f2], timeout=3000)
        lc = oc.splitlines()
    finally:
        shutil.rmtree(tmp, ignore_errors=True)
    if len(lc) < len(recs):
        chk.violation("c14-crash", {"source": bytes.fromhex(recs[len(lc)]["src_hex"]).decode("latin-1")}, "parser driver died")
        lc += ["EXC -"] * (len(recs) - len(lc))
    bad = model_bad = 0
    for r, c in zip(recs, lc):
        src = bytes.fromhex(r["src_hex"]).decode("latin-1") if r["src_hex"] != "-" else ""
        if r["model"] != "ok":
            # the tree is outside the round-trip theorem's domain only for constant negative indices
            if r["model"] == "model-none" and c.startswith("ERR Parse") and re.search(r"\(un - \(lit int", r["tree"]):
                continue
            model_bad += 1
            chk.violation("c14-model", {"theorem": "pratt_roundtrip (model parse of render (add_parens e))", "tree": r["tree"], "source": src, "model": r["model"]},
                          "the model parser does not round-trip its own rendering: %s" % r["model"], no_input=True)
            continue
        if c != r["expect"]:
            bad += 1
            payload = {"tree": r["tree"], "source": "echo(%s);" % src, "expected_tree": r["expect"], "parsed": c,
                       "how": "parse `function main() -> void { echo(<source>); }` and dump the echo argument (drv_front: expr <hex>)"}
            chk.report("c14-roundtrip", payload, "render-then-parse gives a different tree for `%s`" % src[:80])
    # statement trees: the model renders each, parses its own rendering, and the real parser's tree must be the model's
    strees = [gen_stmt(rng, rng.randint(0, 3)) for _ in range(1200 if quick else 20000)]
    tmp = os.path.join(vlib.BUILD, "tmp", "c14s-%d" % os.getpid())
    os.makedirs(tmp, exist_ok=True)
    try:
        f1 = os.path.join(tmp, "strees.txt")
        open(f1, "w").write("".join("stree %s\n" % t for t in strees))
        rc, om = vlib.sh([exe_m, f1], timeout=3000)
        lms = om.splitlines()
        if rc != 0 or len(lms) != len(strees):
            raise RuntimeError("parse model driver failed on statements rc=%d %d/%d: %s" % (rc, len(lms), len(strees), om[-400:]))
        srecs = []
        for t, l in zip(strees, lms):
            m = re.match(r"^SSRC (\S+) TREE (.*) MPARSE (.*)$", l)
            srecs.append({"tree": t, "src_hex": m.group(1), "expect": m.group(2), "mparse": m.group(3)})
        f2 = os.path.join(tmp, "stmts.txt")
        open(f2, "w").write("".join("stmt %s\n" % r["src_hex"] for r in srecs))
        rc, oc = vlib.sh([drv, f2], timeout=3000)
        lcs = oc.splitlines()
    finally:
        shutil.rmtree(tmp, ignore_errors=True)
    if len(lcs) < len(srecs):
        chk.violation("c14-crash", {"source": bytes.fromhex(srecs[len(lcs)]["src_hex"]).decode("latin-1")}, "parser driver died on a statement")
        lcs += ["EXC -"] * (len(srecs) - len(lcs))
    st_round = st_bad = st_outside = 0
    for r, c in zip(srecs, lcs):
        src = bytes.fromhex(r["src_hex"]).decode("latin-1")
        if r["mparse"] == r["expect"]:
            st_round += 1
        else:
            st_outside += 1          # outside the round-trip theorem's hypotheses (e.g. a negative constant index): still compared with the model's parse
        want = r["mparse"] if not r["mparse"].startswith("model-") else None
        ok = (c == want) if want is not None else c.startswith("ERR Parse")
        if not ok:
            st_bad += 1
            chk.report("c14-statement", {"tree": r["tree"], "source": src, "model_parse": r["mparse"], "parsed": c, "rendered_tree": r["expect"],
                                         "how": "parse `function main() -> void { <source> }` and dump the body's statement (drv_front: stmt <hex>)"},
                       "the statement `%s` parses to a different tree than the parser model gives" % src[:80])
    chk.cov.update({"statement_trees": len(srecs), "statement_trees_round_tripping": st_round, "statement_trees_outside_the_theorem": st_outside,
                    "statement_tree_failures": st_bad})
    chk.sample({"statement_tree": srecs[0]["tree"], "source": bytes.fromhex(srecs[0]["src_hex"]).decode("latin-1"), "parsed": lcs[0][:400]})
    # ... and on every single-token deletion of a sample of them the two must agree on whether one statement is there at all
    # (a change that makes the parser accept more than the grammar does shows here)
    msample = [t for t in strees if len(t) < 260][:(150 if quick else 2500)]
    tmp = os.path.join(vlib.BUILD, "tmp", "c14m-%d" % os.getpid())
    os.makedirs(tmp, exist_ok=True)
    try:
        f1 = os.path.join(tmp, "smut.txt")
        open(f1, "w").write("".join("smut %s\n" % t for t in msample))
        rc, om = vlib.sh([exe_m, f1], timeout=3000)
        muts = [l.split() for l in om.splitlines() if l.startswith("SMUT ")]
        if rc != 0:
            raise RuntimeError("parse model driver failed on statement mutations: %s" % om[-300:])
        f2 = os.path.join(tmp, "smutc.txt")
        open(f2, "w").write("".join("stmt %s\n" % m[1] for m in muts))
        rc, oc = vlib.sh([drv, f2], timeout=3000)
        lcm2 = oc.splitlines()
    finally:
        shutil.rmtree(tmp, ignore_errors=True)
    mut_bad = 0
    if len(lcm2) != len(muts):
        chk.violation("c14-crash", {"count": [len(lcm2), len(muts)]}, "parser driver died on a mutated statement")
    mut_generic = 0
    for m, c in zip(muts, lcm2):
        impl = "reject" if c.startswith(("ERR", "EXC")) else "accept"
        msrc = bytes.fromhex(m[1]).decode("latin-1") if m[1] != "-" else ""
        if impl == "accept" and m[2] == "reject" and re.search(r"[A-Za-z_]\w* < [^;?]* > [A-Za-z_]\w*", msrc):
            mut_generic += 1          # `name < ... > name` read as a declaration of a generic type: type arguments are not modelled
            continue
        if impl != m[2]:
            mut_bad += 1
            chk.report("c14-statement-mutant", {"source": bytes.fromhex(m[1]).decode("latin-1") if m[1] != "-" else "", "model": m[2], "implementation": c[:300],
                                                "how": "parse `function main() -> void { <source> }`: one statement, or a parse error?"},
                       "the parser and the statement model disagree on whether `%s` is a statement (model: %s)" % (bytes.fromhex(m[1]).decode("latin-1")[:70] if m[1] != "-" else "", m[2]))
    chk.cov.update({"statement_mutants": len(muts), "statement_mutants_accepted_by_both": sum(1 for m, c in zip(muts, lcm2) if m[2] == "accept" and not c.startswith(("ERR", "EXC"))),
                    "statement_mutant_failures": mut_bad, "statement_mutants_skipped_generic_type": mut_generic})
    # statements, declarations and annotated members: accepted, and run to the expected marks
    from checks import langcommon as lcm
    sm = syntax_matrix()
    sres = lcm.run_impl([x[1] for x in sm], opts="draws=0.5,0.5,0.5,0.5,0.5,0.5")
    sbad = 0
    for entry, r in zip(sm, sres):
        name, src, want = entry[:3]
        got = (r.get("stdout") or "").split("\n")[:-1] if r.get("stdout") else []
        tracked_ok = len(entry) < 4 or sorted((r.get("tracked") or {}).keys()) == entry[3]
        if r.get("status") == "ok" and got == want and not tracked_ok:
            sbad += 1
            chk.report("c14-form", {"form": name, "source": src, "expected_tracked_tables": entry[3], "tracked_tables": sorted((r.get("tracked") or {}).keys()),
                                    "how": "run /repo's bloch on the source; list the @tracked tables"},
                       "annotated declaration `%s`: tracked tables %s, expected %s" % (name, sorted((r.get("tracked") or {}).keys()), entry[3]))
            continue
        if r.get("status") != "ok" or got != want:
            sbad += 1
            chk.report("c14-form", {"form": name, "source": src, "expected_output": want,
                                    "implementation": {k: r.get(k) for k in ("status", "cat", "line", "col", "msg", "stdout")},
                                    "how": "run /repo's bloch on the source"},
                       "documented form `%s` is not accepted as written (or does not run to its marks): %s %s"
                       % (name, r.get("status"), (r.get("msg") or r.get("stdout") or "")[:100]))
    chk.cov["statement_and_member_forms"] = len(sm)
    chk.cov["statement_and_member_form_failures"] = sbad
    chk.sample({"tree": recs[3]["tree"], "source": bytes.fromhex(recs[3]["src_hex"]).decode("latin-1"), "parsed": lc[3]})
    chk.sample({"tree": recs[-1]["tree"], "source": bytes.fromhex(recs[-1]["src_hex"]).decode("latin-1"), "parsed": lc[-1][:400]})
    chk.cov.update({"traces_validated_against_impl": len(recs), "exhaustive_small_trees": n_ex, "roundtrip_failures": bad,
                    "disagreements": bad + model_bad + sbad,
                    "rule": "every ordered pair of binary operators in both nestings, every prefix/postfix/cast/measure/call/index/member/assignment "
                            "combination at size 3, plus random trees up to size 12 over all expression forms (with and without redundant parentheses); "
                            "each tree gets the minimal parentheses from the extracted add_parens, is rendered by the extracted render, parsed by the "
                            "real parser inside echo(...), dumped, and compared node for node. Statement level: a matrix of declaration forms (every primitive, "
                            "array, class, generic and nested generic type, final, qubit registers, multi-declarators, @tracked) x positions (function start, after a "
                            "statement, nested block, if / for / while body, method and constructor body), for-initialisers of every documented type, the conditional "
                            "statement on every kind of condition (incl. a measurement), annotated class members (@quantum methods in every modifier order, @tracked "
                            "fields): each must be accepted and run to its expected marks"})
