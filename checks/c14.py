"""C14 - render-then-parse round trip of the expression grammar."""
import itertools, os, re, shutil
import vlib

TRUSTED_BASE = [
    "Coq 8.16.1 kernel (coqc)",
    "axioms: none",
    "extraction ExtrOcamlBasic+ExtrOcamlString; extract/driver_parse.ml (s-expression glue, token spelling), harness/cpp/drv_front.cpp (AST dump through the public Lexer/Parser API)",
    "statements, functions and class members are exercised by generated programs against a Python renderer/expected-tree, not covered by a Coq theorem (partial)",
]
BINOPS = ["||", "&&", "|", "^", "&", "==", "!=", ">", "<", ">=", "<=", "+", "-", "*", "/", "%"]
PREOPS = ["-", "!", "~"]

def hx(s):
    return s.encode("latin-1").hex() if s else "-"

def lit(rng):
    k = rng.choice(["int", "int", "float", "bit", "string", "char", "boolean", "long"])
    t = {"int": rng.choice(["0", "1", "42", "7"]), "float": rng.choice(["1.5f", "0.25f", "3f"]), "bit": rng.choice(["0b", "1b"]),
         "string": rng.choice(['"s"', '"a b"', '"(x)"']), "char": rng.choice(["'c'", "'+'"]), "boolean": rng.choice(["true", "false"]),
         "long": rng.choice(["5L", "100L"])}[k]
    return "(lit %s %s)" % (k, hx(t))

def atom(rng):
    r = rng.random()
    if r < 0.45:
        return "(var %s)" % rng.choice(["a", "b", "c", "x", "foo", "q"])
    if r < 0.85:
        return lit(rng)
    return rng.choice(["(null)", "(this)", "(super)"])

def gen(rng, size, allow_assign=True):
    if size <= 1:
        return atom(rng)
    r = rng.random()
    def sub(n, **kw):
        return gen(rng, max(1, n), **kw)
    if r < 0.38:
        k = rng.randint(1, size - 1)
        return "(bin %s %s %s)" % (rng.choice(BINOPS), sub(k, allow_assign=False), sub(size - 1 - k, allow_assign=False))
    if r < 0.48:
        return "(un %s %s)" % (rng.choice(PREOPS), sub(size - 1, allow_assign=False))
    if r < 0.54:
        return "(post %s %s)" % (rng.choice(["++", "--"]), sub(size - 1, allow_assign=False))
    if r < 0.62:
        n = rng.randint(0, 3)
        return "(call %s%s)" % (sub(size // 2, allow_assign=False), "".join(" " + sub(size // 3) for _ in range(n)))
    if r < 0.69:
        idx = sub(size // 2)
        if re.fullmatch(r"\(un - \(lit int [0-9a-f]+\)\)", idx):
            idx = "(var i)"
        return "(index %s %s)" % (sub(size // 2, allow_assign=False), idx)
    if r < 0.75:
        return "(member %s %s)" % (sub(size - 1, allow_assign=False), rng.choice(["f", "g", "len"]))
    if r < 0.80:
        return "(cast %s %s)" % (rng.choice(["int", "float", "bit"]), sub(size - 1, allow_assign=False))
    if r < 0.84:
        return "(measure %s)" % sub(size - 1)
    if r < 0.88:
        n = rng.randint(0, 3)
        return "(arr%s)" % "".join(" " + sub(size // 3) for _ in range(n))
    if r < 0.91:
        n = rng.randint(0, 2)
        return "(new %s%s)" % (rng.choice(["Foo", "Box"]), "".join(" " + sub(size // 3) for _ in range(n)))
    if r < 0.94:
        return "(paren %s)" % sub(size - 1)
    if allow_assign:
        k = rng.random()
        if k < 0.4:
            return "(assign %s %s)" % (rng.choice(["x", "y"]), sub(size - 1))
        if k < 0.7:
            return "(arrassign %s %s %s)" % (sub(size // 3, allow_assign=False), sub(size // 3), sub(size // 3))
        return "(memassign %s %s %s)" % (sub(size // 3, allow_assign=False), rng.choice(["f", "g"]), sub(size // 3))
    return atom(rng)

def exhaustive_small():
    out = []
    a, b, c = "(var a)", "(var b)", "(var c)"
    for o1, o2 in itertools.product(BINOPS, repeat=2):
        out.append("(bin %s (bin %s %s %s) %s)" % (o1, o2, a, b, c))
        out.append("(bin %s %s (bin %s %s %s))" % (o1, a, o2, b, c))
    for p in PREOPS:
        for o in BINOPS:
            out.append("(un %s (bin %s %s %s))" % (p, o, a, b))
            out.append("(bin %s (un %s %s) %s)" % (o, p, a, b))
            out.append("(bin %s %s (un %s %s))" % (o, a, p, b))
        for p2 in PREOPS:
            out.append("(un %s (un %s %s))" % (p, p2, a))
        out.append("(post ++ (un %s %s))" % (p, a)); out.append("(un %s (post -- %s))" % (p, a))
        out.append("(cast int (un %s %s))" % (p, a)); out.append("(un %s (cast float %s))" % (p, a))
        out.append("(call (un %s %s) %s)" % (p, a, b)); out.append("(index (un %s %s) %s)" % (p, a, b)); out.append("(member (un %s %s) f)" % (p, a))
    for o in BINOPS:
        out.append("(post ++ (bin %s %s %s))" % (o, a, b)); out.append("(bin %s (post ++ %s) %s)" % (o, a, b))
        out.append("(cast int (bin %s %s %s))" % (o, a, b)); out.append("(bin %s (cast int %s) %s)" % (o, a, b))
        out.append("(bin %s (measure %s) %s)" % (o, a, b)); out.append("(bin %s %s (measure %s))" % (o, a, b))
        out.append("(measure (bin %s %s %s))" % (o, a, b))
        out.append("(call (bin %s %s %s) %s)" % (o, a, b, c)); out.append("(index (bin %s %s %s) %s)" % (o, a, b, c)); out.append("(member (bin %s %s %s) f)" % (o, a, b))
        out.append("(bin %s (assign x %s) %s)" % (o, a, b)); out.append("(bin %s %s (assign x %s))" % (o, a, b)); out.append("(assign x (bin %s %s %s))" % (o, a, b))
        out.append("(bin %s (bin < %s %s) (bin > %s (var d)))" % (o, a, b, c))
        out.append("(paren (bin %s (bin < %s %s) (bin > %s (var d))))" % (o, a, b, c))
    out += ["(cast int (cast float %s))" % a, "(cast int (index %s %s))" % (a, b), "(cast bit (measure %s))" % a, "(cast int (call %s))" % a,
            "(assign x (assign y %s))" % a, "(arrassign %s %s (assign y %s))" % (a, b, c), "(memassign (call %s) f %s)" % (a, b),
            "(index %s (assign x %s))" % (a, b), "(call %s (measure %s) (measure %s))" % (a, b, c), "(arr (measure %s) %s)" % (a, b),
            "(measure (measure %s))" % a, "(un - (measure %s))" % a, "(post ++ (measure %s))" % a, "(member (measure %s) f)" % a,
            "(bin < (bin < %s %s) %s)" % (a, b, c), "(paren (bin > (bin < %s %s) %s))" % (a, b, c), "(un ! (paren (bin == (bin < %s (lit int 33)) (bin > %s %s))))" % (a, b, c),
            "(bin && (paren (bin < %s %s)) (paren (bin > %s (var d))))" % (a, b, c), "(new Foo (bin < %s %s) (bin > %s (var d)))" % (a, b, c)]
    return out

def strip_parens(sx):
    prev = None
    while prev != sx:
        prev = sx
        sx = re.sub(r"\(paren ((?:[^()]|\((?:[^()]|\((?:[^()]|\((?:[^()]|\([^()]*\))*\))*\))*\))*)\)", r"\1", sx)
    return sx

def run(chk):
    quick = chk.tier == "quick"
    chk.proofs()
    rng = chk.rng
    exe_m = vlib.ocaml_engine("parse")
    vlib.repo_build("hooked")
    drv = vlib.cpp_driver("drv_front")
    trees = exhaustive_small()
    n_ex = len(trees)
    for _ in range(1500 if quick else 25000):
        trees.append(gen(rng, rng.randint(2, 12)))
    tmp = os.path.join(vlib.BUILD, "tmp", "c14-%d" % os.getpid())
    os.makedirs(tmp, exist_ok=True)
    try:
        f1 = os.path.join(tmp, "trees.txt")
        open(f1, "w").write("".join("tree %s\n" % t for t in trees))
        rc, om = vlib.sh([exe_m, f1], timeout=3000)
        lm = om.splitlines()
        if rc != 0 or len(lm) != len(trees):
            raise RuntimeError("parse model driver failed rc=%d %d/%d: %s" % (rc, len(lm), len(trees), om[-400:]))
        recs = []
        for t, l in zip(trees, lm):
            m = re.match(r"^SRC (\S+) TREE (.*) STRIP (.*) MODEL (.*)$", l)
            recs.append({"tree": t, "src_hex": m.group(1), "expect": m.group(2), "strip": m.group(3), "model": m.group(4)})
        f2 = os.path.join(tmp, "exprs.txt")
        open(f2, "w").write("".join("expr %s\n" % r["src_hex"] for r in recs))
        rc, oc = vlib.sh([drv, f2], timeout=3000)
        lc = oc.splitlines()
    finally:
        shutil.rmtree(tmp, ignore_errors=True)
    if len(lc) < len(recs):
        chk.violation("c14-crash", {"source": bytes.fromhex(recs[len(lc)]["src_hex"]).decode("latin-1")}, "parser driver died")
        lc += ["EXC -"] * (len(recs) - len(lc))
    bad = model_bad = 0
    for r, c in zip(recs, lc):
        src = bytes.fromhex(r["src_hex"]).decode("latin-1") if r["src_hex"] != "-" else ""
        if r["model"] != "ok":
            # the tree is outside the round-trip theorem's domain only for constant negative indices
            if r["model"] == "model-none" and c.startswith("ERR Parse") and re.search(r"\(un - \(lit int", r["tree"]):
                continue
            model_bad += 1
            chk.violation("c14-model", {"theorem": "pratt_roundtrip (model parse of render (add_parens e))", "tree": r["tree"], "source": src, "model": r["model"]},
                          "the model parser does not round-trip its own rendering: %s" % r["model"], no_input=True)
            continue
        if c != r["expect"]:
            bad += 1
            payload = {"tree": r["tree"], "source": "echo(%s);" % src, "expected_tree": r["expect"], "parsed": c,
                       "how": "parse `function main() -> void { echo(<source>); }` and dump the echo argument (drv_front: expr <hex>)"}
            chk.report("c14-roundtrip", payload, "render-then-parse gives a different tree for `%s`" % src[:80])
    chk.sample({"tree": recs[3]["tree"], "source": bytes.fromhex(recs[3]["src_hex"]).decode("latin-1"), "parsed": lc[3]})
    chk.sample({"tree": recs[-1]["tree"], "source": bytes.fromhex(recs[-1]["src_hex"]).decode("latin-1"), "parsed": lc[-1][:400]})
    chk.cov.update({"traces_validated_against_impl": len(recs), "exhaustive_small_trees": n_ex, "roundtrip_failures": bad,
                    "disagreements": bad + model_bad,
                    "rule": "every ordered pair of binary operators in both nestings, every prefix/postfix/cast/measure/call/index/member/assignment "
                            "combination at size 3, plus random trees up to size 12 over all expression forms (with and without redundant parentheses); "
                            "each tree gets the minimal parentheses from the extracted add_parens, is rendered by the extracted render, parsed by the "
                            "real parser inside echo(...), dumped, and compared node for node"})
