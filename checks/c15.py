"""C15 - the lexer is lossless and token positions are exact."""
import itertools, os, re, shutil
import vlib

TRUSTED_BASE = [
    "Coq 8.16.1 kernel (coqc); vm_compute only in the Example",
    "axioms: none",
    "extraction ExtrOcamlBasic+ExtrOcamlString (string -> char list); extract/driver_lex.ml, harness/cpp/drv_front.cpp (public Lexer API), checks/c15.py",
    "std::isspace/isdigit/isalpha/isalnum are modelled for the C locale (bytes >= 128 are not letters)",
]

ATOMS = ["=", "==", "!", "!=", "+", "++", "-", "--", "->", "*", "/", "%", ">", ">=", "<", "<=", "&", "&&", "|", "||", "^", "~", "?", ":", ".",
         ";", ",", "@", "(", ")", "{", "}", "[", "]",
         "x", "_a1", "int", "intx", "measure", "qubit", "true", "null", "echo", "shots", "classy", "destroy",
         "0", "7", "42", "1.5f", "3f", "12L", "0b", "1b", "10", "007",
         "\"s\"", "\"\"", "\"a b\"", "\"a\nb\"", "\"\nab\"", "\"ab\n\"", "\"\n\"", "\"\n\n\"", "\"a\n\nb\n\"", "\"\r\n\"", "\"//x\"", "\"'\"", "'c'", "'\n'", "'\"'", "' '",
         "// c\n", "//\n", "// a // b\n", " ", "\t", "\n", "\r\n", "\x0b", "\x0c", "  \n  ", "#", "$", "\\", "`", "\x80", "\xff"]
BAD = ["\"abc", "'a", "'", "1.5", "1.", "2b", "12b", "1.5e3", "\"a\nb", "'ab'", "''"]

def hx(s):
    return s.encode("latin-1").hex() if s else "-"

def gen(rng, quick):
    cases = []
    for a, b in itertools.product(ATOMS, repeat=2):
        cases.append(a + b)
    if not quick:
        core = ATOMS[:34:3] + ATOMS[34:46:2] + ATOMS[46:56:2] + ATOMS[56:66] + ATOMS[66:72]
        for t in itertools.product(core, repeat=3):
            cases.append("".join(t))
    for _ in range(600 if quick else 8000):
        n = rng.randint(1, 40)
        parts = []
        for _ in range(n):
            r = rng.random()
            if r < 0.75:
                parts.append(rng.choice(ATOMS))
            elif r < 0.9:
                parts.append(rng.choice([" ", "\n", "\t", "  ", "\n\n"]))
            elif r < 0.96:
                parts.append(rng.choice(BAD))
            else:
                parts.append("".join(chr(rng.randrange(1, 256)) for _ in range(rng.randint(1, 4))))
        s = "".join(parts)[:200]
        cases.append(s)
    for b in BAD:
        cases.append(b); cases.append("x " + b); cases.append("\n\n  " + b + " y")
    cases.append("")
    seen, out = set(), []
    for c in cases:
        if c not in seen and "\x00" not in c:
            seen.add(c); out.append(c)
    return out

def parse_tokens(line):
    if line.startswith("ERR") or line.startswith("EXC") or line == "FUEL":
        return None
    toks = []
    for t in line.split():
        ty, tx, ln, col = t.split(":")
        toks.append((ty, bytes.fromhex(tx).decode("latin-1") if tx != "-" else "", int(ln), int(col)))
    return toks

def oracle(src, toks):
    """the property itself, on the implementation's output: texts at their reported positions rebuild the source
    except for whitespace and // comments"""
    starts = [0]
    for i, ch in enumerate(src):
        if ch == "\n":
            starts.append(i + 1)
    pos = 0
    for ty, tx, ln, col in toks:
        if ln < 1 or ln > len(starts) or col < 1:
            return "token %r reports line %d col %d outside the source" % (tx, ln, col)
        off = starts[ln - 1] + col - 1
        if ty == "Eof":
            off = min(off, len(src))
        if src[off:off + len(tx)] != tx:
            return "token %r is not at its reported position %d:%d" % (tx, ln, col)
        if off < pos:
            return "token %r overlaps the previous one" % tx
        gap = src[pos:off]
        if not re.fullmatch(r"(?:[ \t\n\r\x0b\x0c]|//[^\n]*(?=\n|\Z))*", gap):
            return "text %r between tokens is neither whitespace nor a // comment" % gap
        pos = off + len(tx)
    if not re.fullmatch(r"(?:[ \t\n\r\x0b\x0c]|//[^\n]*(?=\n|\Z))*", src[pos:]):
        return "trailing text %r lost" % src[pos:]
    return None

def run(chk):
    quick = chk.tier == "quick"
    chk.proofs()
    rng = chk.rng
    exe_m = vlib.ocaml_engine("lex")
    vlib.repo_build("hooked")
    drv = vlib.cpp_driver("drv_front")
    cases = gen(rng, quick)
    tmp = os.path.join(vlib.BUILD, "tmp", "c15-%d" % os.getpid())
    os.makedirs(tmp, exist_ok=True)
    try:
        cf = os.path.join(tmp, "c.txt")
        open(cf, "w").write("".join("lex %s\n" % hx(c) for c in cases))
        rc1, om = vlib.sh([exe_m, cf], timeout=3000)
        rc2, oc = vlib.sh([drv, cf], timeout=3000)
    finally:
        shutil.rmtree(tmp, ignore_errors=True)
    lm, lc = om.splitlines(), oc.splitlines()
    if rc1 != 0 or len(lm) != len(cases):
        raise RuntimeError("lex model driver failed: rc=%d %d/%d %s" % (rc1, len(lm), len(cases), om[-300:]))
    if len(lc) < len(cases):
        chk.violation("c15-crash", {"source": cases[len(lc)], "how": "drv_front on 'lex <hex>'"}, "lexer driver died on %r" % cases[len(lc)][:60])
        lc += ["EXC -"] * (len(cases) - len(lc))
    dis = errs = 0
    unexplained = []
    for src, m, c in zip(cases, lm, lc):
        toks = parse_tokens(c)
        if toks is None:
            errs += 1
        why = oracle(src, toks) if toks is not None else None
        if c.startswith("EXC"):
            why = "raw exception instead of a Lexical diagnostic"
        if m == "FUEL":
            chk.violation("c15-model-fuel", {"source": src}, "model ran out of fuel (contradicts C15_lexer_is_total)", no_input=True)
        payload = {"source": src, "source_hex": hx(src), "model": m[:1500], "impl": c[:1500], "why": why,
                   "how": "echo 'lex <source_hex>' > f; build/drivers/hooked/drv_front f"}
        if why:
            chk.report("c15-position", payload, "lexer output violates the property on %r: %s" % (src[:50], why))
        elif m != c:
            dis += 1
            unexplained.append(payload)
    if unexplained:
        chk.violation("c15-correspondence", {"theorem": "correspondence lex_model <-> Lexer::tokenize (relation: same token list / same error position)",
                                             "count": len(unexplained), "first": unexplained[:4]},
                      "model and lexer disagree on %d sources where positions and losslessness still hold" % len(unexplained), no_input=True)
    chk.sample({"source": cases[57], "impl": lc[57][:300]})
    chk.sample({"source": cases[-40], "impl": lc[-40][:300]})
    chk.cov.update({"traces_validated_against_impl": len(cases), "lexical_errors_among_cases": errs, "disagreements": dis + 0,
                    "exhaustive": False,
                    "rule": "all ordered pairs%s of %d atoms (every operator, keywords and look-alikes, identifiers, int/float/long/bit literals, strings "
                            "and chars incl. ones containing newlines, quotes and comment markers, comments, every whitespace byte, bytes the lexer "
                            "does not know) concatenated without separators; random sequences up to 200 bytes incl. malformed literals. Token lists "
                            "(type, text, line, column) or the error position are compared with the model; independently every token of the "
                            "implementation must be found at its reported line/column and the gaps must be whitespace or // comments."
                            % ("" if quick else " and triples of a core subset", len(ATOMS))})
