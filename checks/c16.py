"""C16 - static rules are enforced in every syntactic position, and only there."""
import copy
import subprocess
import vlib
from checks import langgen as lg
from checks import langcommon as lc

TRUSTED_BASE = [
    "Coq 8.16.1 kernel (coqc)",
    "axioms: none",
    "extraction ExtrOcamlBasic+ExtrOcamlString; extract/driver_lang.ml ('check' runs the extracted check_program, 'ccheck' the extracted "
    "ccheck_program); harness/cpp/drv_prog.cpp (noexec)",
    "the reference checker (Lang/Typing.v) covers the classical core: declared-type compatibility in initialisers, assignments, element assignments, arguments "
    "and returns (same type or int->long), final variables, void misuse, return rules, use before declaration, redeclaration, condition types; its soundness "
    "against the reference interpreter is a theorem (Soundness.checked_programs_never_get_stuck). The class-level checker (Lang/ClassTyping.v: subclass "
    "assignability, null, member access control by declaring class, overload choice by least conversion cost on static types, constructors and super(...), "
    "final fields once per constructor, static context, abstract/static classes) is compared with the analyser on mutated class programs; proved about it "
    "(Lang/ClassRules.v): acceptance of a program is acceptance of every body in the context of its position, and the rule for each expression form holds "
    "at every position of an accepted body (statement nesting, loop headers and steps, any expression depth). Its soundness against the object-layer "
    "interpreter is not proved (partial). @quantum/@shots rules and the rules in positions the generators do not reach are checked by violating/repaired "
    "program pairs only",
]

SCALARS = lg.SCALARS


# ----------------------------------------------------------------------------- tree access
def stmt_children(s):
    k = s[0]
    if k == "if":
        return [("s", 2)] + ([("s", 3)] if s[3] is not None else [])
    if k == "tern":
        return [("s", 2), ("s", 3)]
    if k == "while":
        return [("s", 2)]
    if k == "for":
        return ([("s", 1)] if s[1] is not None else []) + [("s", 3), ("s", 4)]
    if k == "block":
        return [("l", 1)]
    return []


def stmt_exprs(s):
    """indices of expression slots of a statement"""
    k = s[0]
    return {"decl": [4], "declarr": [3, 4], "set": [2], "aset": [2, 3], "if": [1], "tern": [1], "while": [1], "for": [2],
            "echo": [1], "ret": [1], "expr": [1]}.get(k, [])


def walk_stmts(body, path=()):
    """yield (path, stmt) for every statement; path indexes into nested lists/tuples"""
    for i, s in enumerate(body):
        p = path + (i,)
        yield p, s
        for kind, idx in stmt_children(s):
            if kind == "s":
                sub = s[idx]
                if sub[0] == "block":
                    yield p + (idx,), sub
                    yield from walk_stmts(sub[1], p + (idx, 1))
                else:
                    yield from walk_stmts([sub], p + (idx,))      # single statement: index 0 is dropped below
            else:
                yield from walk_stmts(s[idx], p + (idx,))


def get(node, path):
    for i in path:
        node = node[i]
    return node


def put(node, path, val):
    """functional update of nested tuples/lists"""
    if not path:
        return val
    i = path[0]
    if isinstance(node, tuple):
        l = list(node)
        l[i] = put(node[i], path[1:], val)
        return tuple(l)
    l = list(node)
    l[i] = put(node[i], path[1:], val)
    return l


def expr_paths(e, path=()):
    yield path, e
    k = e[0]
    if k == "bin":
        yield from expr_paths(e[2], path + (2,))
        yield from expr_paths(e[3], path + (3,))
    elif k in ("un", "cast"):
        yield from expr_paths(e[2], path + (2,))
    elif k == "idx":
        yield from expr_paths(e[1], path + (1,))
        yield from expr_paths(e[2], path + (2,))
    elif k == "call":
        for i, a in enumerate(e[2]):
            yield from expr_paths(a, path + (2, i))
    elif k == "asg":
        yield from expr_paths(e[2], path + (2,))
    elif k == "arr":
        for i, a in enumerate(e[1]):
            yield from expr_paths(a, path + (1, i))


def flat_stmts(body, path=()):
    """(path, stmt) for every statement, descending into blocks, branches and loop parts"""
    out = []
    for i, s in enumerate(body):
        p = path + (i,)
        out.append((p, s))
        k = s[0]
        subs = []
        if k == "if":
            subs = [2] + ([3] if s[3] is not None else [])
        elif k == "tern":
            subs = [2, 3]
        elif k == "while":
            subs = [2]
        elif k == "for":
            subs = ([1] if s[1] is not None else []) + [3, 4]
        elif k == "block":
            out += flat_stmts(s[1], p + (1,))
        for idx in subs:
            sub = s[idx]
            if sub[0] == "block":
                out.append((p + (idx,), sub))
                out += flat_stmts(sub[1], p + (idx, 1))
            else:
                out.append((p + (idx,), sub))
    return out


# ----------------------------------------------------------------------------- mutations
def mutate(rng, fns):
    """one random, rule-directed edit of a valid program; returns (fns', description) or None"""
    fns = copy.deepcopy(fns)
    fi = rng.randrange(len(fns))
    name, ret, params, body = fns[fi]
    stmts = flat_stmts(body)
    g = lg.Gen(rng, nfuncs=0)
    kind = rng.choice(["retype-expr", "retype-expr", "retype-expr", "rename-var", "rename-var", "toggle-final", "retype-decl", "ret-shape",
                       "fn-ret", "redeclare", "void-use", "move-decl", "assign-final", "assign-final"])
    declared = [s for _, s in stmts if s[0] in ("decl", "declarr")]
    names = [s[3] if s[0] == "decl" else s[2] for s in declared] + [pn for _, pn in params]
    if kind == "retype-expr":
        cands = [(p, s, i) for p, s in stmts for i in stmt_exprs(s) if s[i] is not None and not (s[0] == "for")
                 and not (s[0] == "declarr" and i == 3)]      # sizes are constant-folded by the analyser (negative sizes rejected): not modelled
        if not cands:
            return None
        p, s, i = rng.choice(cands)
        eps = [(ep, sub) for ep, sub in expr_paths(s[i])
               if not (ep and get(s[i], ep[:-1])[0] == "idx")]      # index expressions: "index must be numeric" is enforced at run time
        if not eps:
            return None
        ep, sub = rng.choice(eps)
        env = {n: (rng.choice(SCALARS), False, False) for n in []}
        newt = rng.choice(SCALARS)
        new = g.expr(newt, {}, 1, 10 ** 6)
        s2 = put(s, (i,) + ep, new)
        body2 = put(body, p, s2)
        fns[fi] = (name, ret, params, body2)
        return fns, "expression at %s slot %d%s replaced by a %s expression" % (s[0], i, " (nested)" if ep else "", newt)
    if kind == "rename-var" and names:
        cands = [(p, s, i) for p, s in stmts for i in stmt_exprs(s) if s[i] is not None]
        if not cands:
            return None
        p, s, i = rng.choice(cands)
        vs = [(ep, e) for ep, e in expr_paths(s[i]) if e[0] == "v"
              and not (ep and get(s[i], ep[:-1])[0] == "idx" and ep[-1] == 1)       # indexing a non-array is not one of the listed rules
              and not (ep and get(s[i], ep[:-1])[0] == "cast")]                     # nor is the operand type of a cast
        if not vs:
            return None
        ep, e = rng.choice(vs)
        new = rng.choice(names + ["undeclared_q"])
        if (s[0] == "decl" and new == s[3]) or (s[0] == "declarr" and new == s[2]):
            return None      # a variable inside its own initialiser: the documentation does not say whether it is in scope yet
        body2 = put(body, p, put(s, (i,) + ep, ("v", new)))
        fns[fi] = (name, ret, params, body2)
        return fns, "variable %s replaced by %s in a %s" % (e[1], new, s[0])
    if kind == "toggle-final":
        ds = [(p, s) for p, s in stmts if s[0] == "decl"]
        if not ds:
            return None
        p, s = rng.choice(ds)
        body2 = put(body, p, ("decl", not s[1], s[2], s[3], s[4] if rng.random() < 0.7 else None))
        fns[fi] = (name, ret, params, body2)
        return fns, "final toggled on %s" % s[3]
    if kind == "retype-decl":
        ds = [(p, s) for p, s in stmts if s[0] == "decl"]
        if not ds:
            return None
        p, s = rng.choice(ds)
        nt = rng.choice(SCALARS + ["void"])
        body2 = put(body, p, ("decl", s[1], nt, s[3], s[4]))
        fns[fi] = (name, ret, params, body2)
        return fns, "declared type of %s changed from %s to %s" % (s[3], s[2], nt)
    if kind == "ret-shape":
        rs = [(p, s) for p, s in stmts if s[0] == "ret"]
        if not rs:
            # add a return to a void function / into a branch
            if not stmts:
                return None
            p, s = rng.choice(stmts)
            if s[0] != "echo":
                return None
            body2 = put(body, p, ("ret", g.expr(rng.choice(SCALARS), {}, 1, 10 ** 6)))
            fns[fi] = (name, ret, params, body2)
            return fns, "echo replaced by return <value> in a %s function" % lg.ty_src(ret)
        p, s = rng.choice(rs)
        new = ("ret", None) if s[1] is not None else ("ret", g.expr(rng.choice(SCALARS), {}, 1, 10 ** 6))
        body2 = put(body, p, new)
        fns[fi] = (name, ret, params, body2)
        return fns, "return shape flipped in a %s function" % lg.ty_src(ret)
    if kind == "fn-ret" and name != "main":
        nt = rng.choice(SCALARS + ["void"])
        fns[fi] = (name, nt, params, body)
        return fns, "return type of %s changed from %s to %s" % (name, lg.ty_src(ret), nt)
    if kind == "redeclare" and declared:
        d = rng.choice(declared)
        blocks = [(p, s) for p, s in stmts if s[0] == "block"]
        if blocks and rng.random() < 0.7:
            p, b = rng.choice(blocks)
            body2 = put(body, p, ("block", [d] + list(b[1])))
            where = "a nested block"
        else:
            body2 = list(body) + [d]
            where = "the function body"
        fns[fi] = (name, ret, params, body2)
        return fns, "declaration of %s repeated in %s" % (d[3] if d[0] == "decl" else d[2], where)
    if kind == "void-use":
        voids = [f for f in fns if f[1] == "void" and f[0] != "main" and not f[2]]
        if not voids:
            fns.append(("vf", "void", [], [("echo", ("i", 1))]))
            voids = [fns[-1]]
        call = ("call", rng.choice(voids)[0], [])
        pos = rng.choice(["init", "operand", "arg", "assign", "cond", "ret", "stmt"])
        if pos == "init":
            new = ("decl", False, "int", "vx", call)
        elif pos == "operand":
            new = ("echo", ("bin", "+", ("i", 1), call))
        elif pos == "arg":
            tgt = [f for f in fns if len(f[2]) == 1 and not lg.is_arr(f[2][0][0])]
            if not tgt:
                return None
            new = ("expr", ("call", tgt[0][0], [call]))
        elif pos == "assign":
            if not names:
                return None
            new = ("set", rng.choice(names), call)
        elif pos == "cond":
            new = ("if", call, ("block", []), None)
        elif pos == "ret":
            new = ("ret", call)
        else:
            new = ("expr", call)          # a plain call statement is fine
        k = rng.randint(0, len(body))
        fns[fi] = (name, ret, params, list(body[:k]) + [new] + list(body[k:]))
        return fns, "void call used as %s" % pos
    if kind == "move-decl":
        top = [(i, s) for i, s in enumerate(body) if s[0] == "decl"]
        if not top:
            return None
        i, s = rng.choice(top)
        b2 = list(body)
        b2.pop(i)
        k = rng.randint(i, len(b2))
        b2.insert(k, s)
        fns[fi] = (name, ret, params, b2)
        return fns, "declaration of %s moved %d statements later" % (s[3], k - i)
    if kind == "assign-final":
        ds = [(p, s) for p, s in stmts if s[0] == "decl" and s[4] is not None]
        if not ds:
            return None
        p, s = rng.choice(ds)
        x, t = s[3], s[2]
        body2 = put(body, p, ("decl", True, t, x, s[4]))
        val = g.expr(t, {}, 1, 10 ** 6)
        pos = rng.choice(["stmt", "nested-asg", "postfix", "for-step", "chained", "arg"])
        if pos == "stmt":
            new = ("set", x, val)
        elif pos == "nested-asg":
            new = ("echo", ("asg", x, val))
        elif pos == "postfix":
            new = ("expr", ("post", x, "++"))
        elif pos == "for-step":
            new = ("for", ("decl", False, "int", "fz", ("i", 0)), ("bin", "<", ("v", "fz"), ("i", 1)), ("expr", ("asg", x, val)),
                   ("block", [("set", "fz", ("bin", "+", ("v", "fz"), ("i", 1)))]))
        elif pos == "chained":
            new = ("decl", False, t, "cz", ("asg", x, val))
        else:
            tgt = [f for f in fns if len(f[2]) == 1 and f[2][0][0] == t]
            if not tgt:
                return None
            new = ("expr", ("call", tgt[0][0], [("asg", x, val)]))
        # only meaningful after the declaration, at the same nesting level: append to the enclosing list
        if len(p) == 1:
            body2 = list(body2)
            body2.insert(rng.randint(p[0] + 1, len(body2)), new)
        else:
            parent = get(body2, p[:-1])
            parent2 = list(parent)
            parent2.insert(rng.randint(p[-1] + 1, len(parent2)), new)
            body2 = put(body2, p[:-1], parent2)
        fns[fi] = (name, ret, params, body2)
        return fns, "final %s assigned via %s" % (x, pos)
    return None


# ----------------------------------------------------------------------------- class-rule pairs (rule text is the oracle)
def class_pairs():
    """(rule, position, violating source, repaired source)"""
    P = []
    base = "class A { public int f = 1; private int p = 2; protected int q = 3; public final int k = 4; public constructor() -> A { } %s }\n"
    # final field written after initialisation, by several routes
    for pos, stmt in [("method statement", "this.k = 5;"), ("bare name", "k = 5;"), ("nested expression", "echo(this.k = 5);"),
                      ("postfix", "k++;"), ("loop header", "for (int i = 0; i < 1; this.k = 2) { i = i + 1; }")]:
        bad = (base % ("public function m() -> void { %s }" % stmt)) + "function main() -> void { A a = new A(); a.m(); }"
        good = (base % ("public function m() -> void { %s }" % stmt.replace("k", "f"))) + "function main() -> void { A a = new A(); a.m(); }"
        P.append(("final field assigned after initialisation", pos, bad, good))
    P.append(("final field assigned from outside", "main", base % "" + "function main() -> void { A a = new A(); a.k = 9; }",
              base % "" + "function main() -> void { A a = new A(); a.f = 9; }"))
    # access control by several routes
    for pos, use in [("field read", "echo(a.p);"), ("field write", "a.p = 1;"), ("nested", "int z = 1 + a.p;"), ("argument", "echo(\"\" + a.p);"),
                     ("protected read", "echo(a.q);")]:
        bad = base % "" + "function main() -> void { A a = new A(); %s }" % use
        good = base % "" + "function main() -> void { A a = new A(); %s }" % use.replace("a.p", "a.f").replace("a.q", "a.f")
        P.append(("private/protected member used outside its class", pos, bad, good))
    # a private field of the base, used in a subclass: every route (read / write, this. / bare / another receiver / postfix) x every member kind
    # (method, constructor, static method, loop header); the repaired twin uses the protected field
    routes = [("this.f read", "int z = this.%s;"), ("this.f write", "this.%s = 42;"), ("this.f nested write", "echo(this.%s = 42);"),
              ("bare read", "int z = %s;"), ("bare write", "%s = 42;"), ("bare nested write", "echo(%s = 42);"), ("bare postfix", "%s++;"),
              ("other.f read", "int z = o.%s;"), ("other.f write", "o.%s = 42;"), ("other.f nested write", "echo(o.%s = 42);"),
              ("this.f write in loop step", "for (int i = 0; i < 1; this.%s = 2) { i = i + 1; }"),
              ("other.f write in loop step", "for (int i = 0; i < 1; o.%s = 2) { i = i + 1; }")]
    for rname, tmpl in routes:
        members = [("method", "public function g(B o) -> void { %s }")]
        if "this" not in tmpl and not tmpl.startswith(("int z = %s", "%s", "echo(%s")):
            members.append(("static method", "public static function g(B o) -> void { %s }"))
        members.append(("constructor", "public constructor(B o) -> B { super(); %s }"))
        for mname, mt in members:
            subc = "class B extends A { public constructor() -> B { super(); } %s }\n"
            bad = base % "" + subc % (mt % (tmpl % "p")) + "function main() -> void { }"
            good = base % "" + subc % (mt % (tmpl % "q")) + "function main() -> void { }"
            P.append(("private field used in a subclass", "%s / %s" % (rname, mname), bad, good))
        # the same routes from an unrelated class: private and protected both forbidden, public fine
        if rname.startswith("other"):
            unrel = "class U { public constructor() -> U { } public function g(A o) -> void { %s } }\n"
            for fld in ("p", "q"):
                P.append(("private/protected field used in an unrelated class", "%s / %s" % (rname, fld),
                          base % "" + unrel % (tmpl % fld) + "function main() -> void { }", base % "" + unrel % (tmpl % "f") + "function main() -> void { }"))
    # a class may use its own private field through a receiver of a subclass type
    P.append(("private field used outside its class", "own private field through a subclass-typed receiver",
              base % "" + "class U { public constructor() -> U { } public function g(A o) -> void { o.p = 1; } }\nfunction main() -> void { }",
              "class B extends A { public constructor() -> B { super(); } }\n" + base % "public function viaSub(B b) -> void { b.p = 5; int z = b.p; this.p = b.p; }"
              + "function main() -> void { }"))
    # private / protected METHODS, by every route and in several positions
    mbase = "class A { public constructor() -> A { } private function secret() -> int { return 7; } protected function prot() -> int { return 8; } " \
            "public function open() -> int { return 9; } %s }\n"
    sub = "class B extends A { public constructor() -> B { super(); } %s }\n"
    for pos, body in [("this.m() in a subclass", "public function g() -> int { return this.secret(); }"),
                      ("other.m() in a subclass", "public function g(B o) -> int { return o.secret(); }"),
                      ("bare m() in a subclass", "public function g() -> int { return secret(); }"),
                      ("nested argument in a loop header", "public function g() -> int { int t = 0; for (int i = 0; i < this.secret(); i = i + 1) { t = t + 1; } return t; }"),
                      ("operand", "public function g() -> int { return 1 + this.secret(); }")]:
        bad = mbase % "" + sub % body + "function main() -> void { B b = new B(); }"
        good = mbase % "" + sub % body.replace("secret", "prot") + "function main() -> void { B b = new B(); }"
        P.append(("private method used in a subclass", pos, bad, good))
    for pos, use in [("statement", "a.secret();"), ("initialiser", "int v = a.secret();"), ("argument", "echo(a.secret());"), ("protected", "int v = a.prot();")]:
        bad = mbase % "" + "function main() -> void { A a = new A(); %s }" % use
        good = mbase % "" + "function main() -> void { A a = new A(); %s }" % use.replace("secret", "open").replace("prot", "open")
        P.append(("private/protected method called outside its class", pos, bad, good))
    # a class may use its own private members on any receiver of its hierarchy
    P.append(("private method used outside its class", "through an unrelated class",
              mbase % "" + "class C { public constructor() -> C { } public function g(A a) -> int { return a.secret(); } }\nfunction main() -> void { }",
              mbase % "public function viaSub(B b) -> int { return b.secret() + this.secret(); }" + sub % "" + "function main() -> void { }"))
    # static / abstract instantiation, this/super in static context
    P.append(("instantiating a static class", "initialiser", "static class S { public static int n = 0; }\nfunction main() -> void { S s = new S(); }",
              "static class S { public static int n = 0; }\nfunction main() -> void { echo(S.n); }"))
    P.append(("instantiating an abstract class", "argument",
              "abstract class S { public constructor() -> S { } }\nfunction use(S s) -> void { }\nfunction main() -> void { use(new S()); }",
              "class S { public constructor() -> S { } }\nfunction use(S s) -> void { }\nfunction main() -> void { use(new S()); }"))
    for pos, body in [("statement", "echo(this.f);"), ("nested", "int z = 1 + this.f;"), ("super call", "super.m();")]:
        bad = "class A { public int f = 1; public constructor() -> A { } public virtual function m() -> void { } }\n" \
              "class B extends A { public constructor() -> B { super(); } public static function s() -> void { %s } }\nfunction main() -> void { B.s(); }" % body
        good = bad.replace("public static function s", "public function s").replace("B.s();", "B b = new B(); b.s();")
        P.append(("this/super in a static context", pos, bad, good))
    # null only for class references
    for pos, stmt in [("initialiser", "int x = null;"), ("assignment", "int x = 0; x = null;"), ("argument", "f(null);"), ("array", "int[] a = null;")]:
        bad = "class A { public constructor() -> A { } }\nfunction f(int v) -> void { }\nfunction main() -> void { %s }" % stmt
        good = "class A { public constructor() -> A { } }\nfunction f(A v) -> void { }\nfunction main() -> void { %s }" % \
               stmt.replace("int x", "A x").replace("int[] a = null", "A a = null").replace("x = 0", "x = new A()")
        P.append(("null for a non-class type", pos, bad, good))
    P.append(("return null from an int function", "return", "function f() -> int { return null; }\nfunction main() -> void { echo(f()); }",
              "class A { public constructor() -> A { } }\nfunction f() -> A { return null; }\nfunction main() -> void { A a = f(); }"))
    # @quantum return types, @shots only on main
    P.append(("@quantum return type", "function", "@quantum function q() -> int { return 1; }\nfunction main() -> void { echo(q()); }",
              "@quantum function q() -> bit { qubit a; return measure a; }\nfunction main() -> void { echo(q()); }"))
    P.append(("@shots off main", "function", "@shots(3) function g() -> void { }\nfunction main() -> void { g(); }",
              "function g() -> void { }\n@shots(3) function main() -> void { g(); }"))
    # subclass compatibility of declared class types, in several positions
    hier = "class A { public constructor() -> A { } }\nclass B extends A { public constructor() -> B { super(); } }\nclass C { public constructor() -> C { } }\n"
    for pos, bad_s, good_s in [("initialiser", "B b = new A();", "A b = new B();"), ("assignment", "B b = new B(); b = new A();", "A b = new A(); b = new B();"),
                               ("argument", "useb(new A());", "usea(new B());"), ("unrelated", "A a = new C();", "A a = new B();"),
                               ("nested assignment", "B b = new B(); A a = new A(); echo(1); a = b = a;", "B b = new B(); A a = new A(); echo(1); a = b = b;"),
                               ("loop header", "B b = new B(); A a = new A(); for (int i = 0; i < 1; b = a) { i = i + 1; }",
                                "B b = new B(); A a = new A(); for (int i = 0; i < 1; a = b) { i = i + 1; }")]:
        fn = "function usea(A x) -> void { }\nfunction useb(B x) -> void { }\n"
        P.append(("class compatibility", pos, hier + fn + "function main() -> void { %s }" % bad_s, hier + fn + "function main() -> void { %s }" % good_s))
    P.append(("class compatibility", "return", hier + "function f() -> B { return new A(); }\nfunction main() -> void { B b = f(); }",
              hier + "function f() -> A { return new B(); }\nfunction main() -> void { A b = f(); }"))
    # final fields: exactly once per constructor, top level only
    ff = "class F { public final int k; public constructor(int v) -> F { %s } }\nfunction main() -> void { F f = new F(1); }"
    P.append(("final field assigned exactly once per constructor", "twice", ff % "this.k = v; this.k = v;", ff % "this.k = v;"))
    P.append(("final field assigned exactly once per constructor", "never", ff % "", ff % "this.k = v;"))
    P.append(("final field assigned exactly once per constructor", "conditional", ff % "if (v > 0) { this.k = v; }", ff % "this.k = v;"))
    P.append(("final field assigned exactly once per constructor", "in a loop", ff % "while (v > 5) { this.k = v; }", ff % "this.k = v;"))
    # ---- rules in positions first reached by exploring the analyser by hand (each was accepted before its repair, DESIGN s.7)
    fld = "class A { public int x; public string s; public constructor() -> A { } %s }\nfunction main() -> void { A a = new A(); %s }"
    for pos, mem, mainst, good_mem, good_main in [
            ("bare field <- array", "public function m() -> void { int[] r = {1}; x = r; }", "a.m();", "public function m() -> void { int r = 1; x = r; }", "a.m();"),
            ("this.field <- object", "public function m() -> void { this.s = new A(); }", "a.m();", "public function m() -> void { this.s = \"q\"; }", "a.m();"),
            ("obj.field <- object, from outside", "", "a.x = new A();", "", "a.x = 5;"),
            ("nested (field = object)", "public function m() -> void { echo(x = new A()); }", "a.m();", "public function m() -> void { echo(x = 4); }", "a.m();")]:
        P.append(("class or array value into a primitive field", pos, fld % (mem, mainst), fld % (good_mem, good_main)))
    ctor = "abstract class Abs { public constructor() -> Abs = default; }\nclass A { public int x; public constructor() -> A { this.x = 0; return this; %s } }\nfunction main() -> void { A a = new A(); echo(a.x); }"
    for pos, bad_s, good_s in [("type mismatch", "int y = \"str\";", "int y = 1;"), ("undeclared name", "nowhere = 3;", "this.x = 3;"),
                               ("final written", "final int z = 1; z = 2;", "final int z = 1; int w = z;"), ("abstract instantiated", "Abs q = new Abs();", "A q = new A();")]:
        P.append(("violation written after 'return' in a constructor", pos, ctor % bad_s, ctor % good_s))
    for pos, bad_m, good_m in [("method", "public function m(void q) -> void { }", "public function m(int q) -> void { }"),
                               ("static method", "public static function m(void q) -> void { }", "public static function m(int q) -> void { }"),
                               ("constructor", "public constructor(void q) -> A { }", "public constructor(int q) -> A { }")]:
        P.append(("void parameter", pos, "class A { public constructor() -> A { } %s }\nfunction main() -> void { }" % bad_m,
                  "class A { public constructor() -> A { } %s }\nfunction main() -> void { }" % good_m))
    dt = "class A { public constructor() -> A { } public destructor() -> void { echo(\"bye\"); %s } }\nfunction main() -> void { A a = new A(); destroy a; }"
    P.append(("'return value' in a void member", "destructor", dt % "return 5;", dt % "return;"))
    P.append(("use before declaration", "a variable in its own initialiser", "function main() -> void { int w = w; echo(w); }", "function main() -> void { int v = 2; int w = v; echo(w); }"))
    P.append(("use before declaration", "a class variable in its own initialiser", "class F { public constructor() -> F { } }\nfunction main() -> void { F f = f; }",
              "class F { public constructor() -> F { } }\nfunction main() -> void { F g = new F(); F f = g; }"))
    P.append(("use before declaration", "declared only in a branch of a conditional statement", "function main() -> void { false ? int z = 1; : echo(\"n\"); echo(z); }",
              "function main() -> void { int z = 0; false ? z = 1; : echo(\"n\"); echo(z); }"))
    vd = "class A { public constructor() -> A { } public function m() -> void { } public function n() -> int { return 2; } }\nfunction v() -> void { }\nfunction w() -> int { return 1; }\nfunction main() -> void { A a = new A(); %s }"
    for pos, bad_s, good_s in [("string + method result", "string s = \"r=\" + a.m();", "string s = \"r=\" + a.n();"), ("function result + string", "string s = v() + \"x\";", "string s = w() + \"x\";"),
                               ("echo of a function result", "echo(v());", "echo(w());"), ("echo of a method result", "echo(a.m());", "echo(a.n());"),
                               ("echo of a concatenation", "echo(\"g=\" + v());", "echo(\"g=\" + w());")]:
        P.append(("result of a void call used as an operand", pos, vd % bad_s, vd % good_s))
    sh = ("class A { public constructor() -> A { } private function hid() -> int { return 7; } protected function pro() -> int { return 8; } public function inst() -> int { return 1; } }\n"
          "class B extends A { public constructor() -> B { super(); } %s }\nfunction main() -> void { B b = new B(); }")
    P.append(("private method used in a subclass", "bare call with a local of the same name", sh % "public function g() -> int { int hid = 1; return hid(); }",
              sh % "public function g() -> int { int pro = 1; return pro(); }"))
    P.append(("this/super in a static context", "bare instance call from a static method, with a local of the same name",
              sh % "public static function s() -> int { int inst = 1; return inst(); }", sh % "public function s() -> int { int inst = 1; return inst(); }"))
    ix = "class A { public constructor() -> A { } }\nfunction v() -> void { }\nfunction main() -> void { int[] a = {1, 2}; %s }"
    for pos, bad_s, good_s in [("null index", "echo(a[null]);", "echo(a[0]);"), ("void call index", "echo(a[v()]);", "echo(a[1]);"),
                               ("string index", "int z = 1 + a[\"k\"];", "int z = 1 + a[1L];"), ("object index", "echo(a[new A()]);", "echo(a[1b]);")]:
        P.append(("array index of a non-numeric type", pos, ix % bad_s, ix % good_s))
    fa = "class A { public final int[] a = {1, 2}; public int[] b = {3}; public constructor() -> A { } public function m() -> void { %s } }\nfunction main() -> void { A o = new A(); o.m(); }"
    P.append(("final field modified after initialisation", "element of a final array field", fa % "a[0] = 9;", fa % "b[0] = 9;"))
    P.append(("final field modified after initialisation", "element of a final array field, nested", fa % "echo(a[1] = 9);", fa % "echo(b[0] = 9);"))
    for pos, bad_s, good_s in [("int initialiser", "int x = {1, 2};", "int[] x = {1, 2};"), ("class initialiser", "A f = {1, 2};", "A f = new A();"),
                               ("assignment", "int x = 0; x = {1};", "int[] x = {0}; x = {1};"), ("string initialiser", "string t = {\"a\"};", "string[] t = {\"a\"};")]:
        P.append(("array literal where no array is declared", pos, "class A { public constructor() -> A { } }\nfunction main() -> void { %s }" % bad_s,
                  "class A { public constructor() -> A { } }\nfunction main() -> void { %s }" % good_s))
    # null only for class references: every position a value can be handed over in, for array, primitive and string targets
    nl = ("class Box { public int[] v; public int n = 0; public Box other = null; public constructor(int[] a) -> Box { this.v = a; }\n"
          " public constructor(Box o, int k) -> Box { this.other = o; this.v = {k}; } public function m(int[] a) -> int { return 1; } public function p(int k) -> int { return k; }\n"
          " public function s(string t) -> int { return 2; } public function o(Box b) -> int { return 3; } }\n"
          "class Sub extends Box { public constructor() -> Sub { super(%s); } }\n"
          "function f(int[] a) -> int { return 4; }\nfunction g() -> int[] { int[] r = {1}; %s }\n"
          "function main() -> void { int[] arr = {1, 2}; Box b = new Box(arr); %s }")
    def nlp(sup="null, 1", ret="return r;", body=""):
        return nl % (sup, ret, body)
    for pos, bad, good in [("constructor argument for an array parameter", nlp(body="Box c = new Box(null);"), nlp(body="Box c = new Box(null, 1);")),
                           ("super(...) argument for an array parameter", nlp(sup="null"), nlp(sup="null, 1")),
                           ("method argument for an array parameter", nlp(body="echo(b.m(null));"), nlp(body="echo(b.o(null));")),
                           ("function argument for an array parameter", nlp(body="echo(f(null));"), nlp(body="echo(f(arr));")),
                           ("method argument for an int parameter", nlp(body="echo(b.p(null));"), nlp(body="echo(b.p(1));")),
                           ("method argument for a string parameter", nlp(body="echo(b.s(null));"), nlp(body="echo(b.s(\"x\"));")),
                           ("array local initialiser", nlp(body="int[] z = null;"), nlp(body="Box z = null;")),
                           ("array local assignment", nlp(body="arr = null;"), nlp(body="b = null;")),
                           ("array field assignment", nlp(body="b.v = null;"), nlp(body="b.other = null;")),
                           ("int field assignment", nlp(body="b.n = null;"), nlp(body="b.other = null;")),
                           ("return from a function returning an array", nlp(ret="return null;"), nlp()),
                           ("array element", nlp(body="arr[0] = null;"), nlp(body="arr[0] = 0;"))]:
        P.append(("null where no class reference is expected", pos, bad, good))
    # an array literal is never an argument for a primitive or class parameter; only a name, a member or super can be called
    al = ("class B { public float w = 0.0f; public constructor(float t) -> B { this.w = t; } public function m(float t) -> int { return 1; } "
          "public static function s(float t) -> int { return 2; } }\nclass C extends B { public constructor() -> C { super(%s); } }\n"
          "function f(float t) -> int { return 3; }\nfunction main() -> void { qubit q; B b = new B(1.0f); %s }")
    for pos, sup, bad_s, good_s in [("function argument", "1.0f", "echo(f({3.0f}));", "echo(f(3.0f));"), ("method argument", "1.0f", "echo(b.m({3.0f}));", "echo(b.m(3.0f));"),
                                    ("static method argument", "1.0f", "echo(B.s({3.0f}));", "echo(B.s(3.0f));"), ("constructor argument", "1.0f", "B c = new B({3.0f});", "B c = new B(3.0f);"),
                                    ("gate angle", "1.0f", "rx(q, {3.0f});", "rx(q, 3.0f);")]:
        P.append(("an array literal where a primitive is expected", pos, al % (sup, bad_s), al % (sup, good_s)))
    P.append(("an array literal where a primitive is expected", "super(...) argument", al % ("{1.0f}", ""), al % ("1.0f", "")))
    for pos, bad_s, good_s in [("parenthesised gate name", "(x)(q);", "x(q);"), ("call of a call", "h(q)(q);", "h(q); h(q);"), ("parenthesised function name", "echo((f)(1.0f));", "echo(f(1.0f));")]:
        P.append(("a call through something that is not a name", pos, al % ("1.0f", bad_s), al % ("1.0f", good_s)))
    # a class extending a specialisation of a generic class: the type arguments decide what fits its inherited members
    gbx = ("class Animal { public constructor() -> Animal = default; }\nclass Dog extends Animal { public constructor() -> Dog = default; }\nclass Cat extends Animal { public constructor() -> Cat = default; }\n"
           "class Box<T> { public T v; public constructor(T v) -> Box<T> { this.v = v; return this; } public function get() -> T { return this.v; } public function set(T x) -> void { this.v = x; } }\n"
           "class DogBox extends Box<Dog> { public constructor(Dog d) -> DogBox { super(%s); return this; } }\n"
           "function main() -> void { DogBox b = new DogBox(new Dog()); %s }")
    for pos, sup, bad_s, good_s in [("argument of an inherited method", "d", "b.set(new Cat());", "b.set(new Dog());"), ("result of an inherited method", "d", "Cat c = b.get();", "Dog c = b.get();"),
                                    ("inherited field", "d", "b.v = new Cat();", "b.v = new Dog();"), ("upcast to another specialisation", "d", "Box<Cat> w = b;", "Box<Dog> w = b;")]:
        P.append(("a value of the wrong type through a generic base class", pos, gbx % (sup, bad_s), gbx % (sup, good_s)))
    P.append(("a value of the wrong type through a generic base class", "super(...) argument", gbx % ("new Cat()", ""), gbx % ("d", "")))
    # a final field without initialiser: the constructor's one permitted write is an assignment, never an increment
    ff = "class A { public final int n; public int seen = 0; public constructor(int start) -> A { %s return this; } }\nfunction main() -> void { A a = new A(3); echo(a.seen); }"
    for pos, bad_s, good_s in [("bare postfix as the only write", "this.seen = start; n++;", "this.seen = start; n = 1;"), ("bare postfix decrement", "n--;", "n = 0;"),
                               ("postfix after the initialising assignment", "n = start; n++;", "n = start; seen++;"),
                               ("this.n postfix", "this.n++;", "this.n = 1;")]:
        P.append(("final field incremented", pos, ff % bad_s, ff % good_s))
    # array element types are primitives
    ae = "class Q { public constructor() -> Q { } }\nfunction main() -> void { %s echo(1); }"
    for pos, bad_s, good_s in [("local array of class references", "Q[] a;", "Q a = null;"), ("array of class references with a literal", "Q[] a = {new Q(), new Q()};", "int[] a = {1, 2};"),
                               ("sized array of class references", "Q[2] a;", "int[2] a;")]:
        P.append(("an array whose element type is a class", pos, ae % bad_s, ae % good_s))
    P.append(("an array whose element type is a class", "field", "class Q { public constructor() -> Q { } }\nclass H { public Q[] qs; public constructor() -> H { } }\nfunction main() -> void { echo(1); }",
              "class Q { public constructor() -> Q { } }\nclass H { public Q qs = null; public constructor() -> H { } }\nfunction main() -> void { echo(1); }"))
    P.append(("an array whose element type is a class", "parameter", "class Q { public constructor() -> Q { } }\nfunction f(Q[] a) -> void { }\nfunction main() -> void { echo(1); }",
              "class Q { public constructor() -> Q { } }\nfunction f(Q a) -> void { }\nfunction main() -> void { echo(1); }"))
    # generic classes: a T-typed value is no primitive; a '= default' parameter has its field's whole type
    gt = ("class Box<T> { public T v; public constructor(T v) -> Box<T> { this.v = v; return this; } public function get() -> T { return this.v; } %s }\n"
          "function main() -> void { Box<string> b = new Box<string>(\"text\"); echo(b.get()); }")
    for pos, bad_m, good_m in [("T into an int initialiser", "public function f() -> void { int k = this.v; }", "public function f() -> void { T k = this.v; }"),
                               ("T returned as int", "public function f() -> int { return this.v; }", "public function f() -> T { return this.v; }"),
                               ("T assigned to an int local", "public function f() -> void { int k = 0; k = v; }", "public function f() -> void { T k = v; k = this.v; }")]:
        P.append(("a value typed by a type parameter where a primitive is expected", pos, gt % bad_m, gt % good_m))
    dc = ("class Box<T> { public T v; public constructor(T v) -> Box<T> { this.v = v; return this; } }\n"
          "class H { public Box<int> b; public constructor(Box<%s> b) -> H = default; }\nfunction main() -> void { H h = new H(new Box<%s>(%s)); echo(1); }")
    P.append(("a '= default' constructor parameter of another type", "type arguments differ", dc % ("string", "string", "\"t\""), dc % ("int", "int", "7")))
    # 'override' is required to replace a virtual base method (docs/bloch_class_system.md)
    ov = ("class Shape { public constructor() -> Shape { } public virtual function area() -> int { return 0; } public function twice() -> int { return 2 * this.area(); } }\n"
          "class Sq extends Shape { public constructor() -> Sq { super(); } public %s function area() -> int { return 4; } }\n"
          "function main() -> void { Shape s = new Sq(); echo(s.area()); echo(s.twice()); }")
    P.append(("a virtual method replaced without 'override'", "subclass method of the same signature", ov % "", ov % "override"))
    ab = ("abstract class Shape { public constructor() -> Shape { } public virtual function area() -> int; }\n"
          "class Sq extends Shape { public constructor() -> Sq { super(); } public %s function area() -> int { return 4; } }\n"
          "function main() -> void { Shape s = new Sq(); echo(s.area()); }")
    P.append(("a virtual method replaced without 'override'", "implementation of a bodyless virtual method", ab % "", ab % "override"))
    # a non-void function returns along every path (docs/language/syntax.md, semantics.md)
    ap = "function f(int a) -> int { %s }\nfunction main() -> void { echo(f(0)); }"
    for pos, bad_s, good_s in [("if without else", "if (a > 0) { return 1; }", "if (a > 0) { return 1; } return 2;"),
                               ("else branch without return", "if (a > 0) { return 1; } else { echo(a); }", "if (a > 0) { return 1; } else { return 2; }"),
                               ("return only inside a loop", "while (a < 3) { return a; }", "while (a < 3) { a = a + 1; } return a;"),
                               ("conditional statement with one returning branch", "a > 0 ? return 1; : echo(a);", "a > 0 ? return 1; : return 2;"),
                               ("nested if, inner else missing", "if (a > 0) { if (a > 1) { return 1; } } else { return 2; }", "if (a > 0) { if (a > 1) { return 1; } else { return 3; } } else { return 2; }")]:
        P.append(("a non-void function that can fall off its end", pos, ap % bad_s, ap % good_s))
    # a function, gate, class or method name is not a value
    nv = ("class D { public static int n = 1; public int g = 2; public constructor() -> D { } public function m() -> int { return 3; } }\n"
          "function helper() -> void { }\nfunction main() -> void { D d = new D(); qubit q; %s }")
    for pos, bad_s, good_s in [("gate name read before a later declaration", "int a = x; int x = 5;", "int x = 5; int a = x;"), ("function name as a string", "string s = helper;", "string s = \"helper\";"),
                               ("class name as an object", "D o = D;", "D o = d;"), ("class name as an argument", "echo(D);", "echo(D.n);"),
                               ("method name read as a field", "int v = d.m;", "int v = d.m();"), ("gate name as an operand", "int a = 1 + h;", "int a = 1 + d.g;")]:
        P.append(("a function, gate, class or method name used as a value", pos, nv % bad_s, nv % good_s))
    # array literals are checked wherever they are handed over
    alp = ("class B { public int n = 0; public int[] v = {0}; public constructor() -> B { } }\nfunction takes(int[] xs) -> void { echo(xs); }\n"
           "function main() -> void { int[] a = {1, 2, 3}; B b = new B(); %s }")
    for pos, bad_s, good_s in [("assignment, string elements into int[]", "a = {\"x\", \"y\"};", "a = {7, 8};"), ("argument, string elements into int[]", "takes({\"p\"});", "takes({9});"),
                               ("parenthesised initialiser", "int[] c = ({\"r\"});", "int[] c = ({1});"), ("literal into an int field", "b.n = {1, 2};", "b.v = {1, 2};"),
                               ("literal into an element", "a[0] = {4, 5};", "a[0] = 4;"), ("float element into int[] by assignment", "a = {2.5f, 1};", "a = {2, 1};"),
                               ("float element into an int[] field", "b.v = {1.5f};", "b.v = {1};")]:
        P.append(("an array literal with elements of another type", pos, alp % bad_s, alp % good_s))
    # reset, and measure as an expression, act on one qubit
    rq = "class K { public qubit q; public constructor() -> K { } }\nfunction main() -> void { qubit[2] qs; int[] xs = {1}; K k = new K(); %s }"
    for pos, bad_s, good_s in [("reset of a register", "reset qs;", "reset qs[0];"), ("reset of an int array", "reset xs;", "reset qs[1];"), ("reset of an object", "reset k;", "reset k.q;"),
                               ("measure expression on a register", "bit b = measure qs;", "bit b = measure qs[0];"),
                               ("measure expression on an object", "bit b = measure k;", "bit b = measure k.q;"),
                               ("measure expression on a register, as an argument", "echo(measure qs);", "echo(measure qs[1]);")]:
        P.append(("reset / measure target that is not a qubit", pos, rq % bad_s, rq % good_s))
    # a field may not reuse the name of a field it inherits (bare name, this.f and x.f would be resolved against different classes)
    hd = "class O { %s public constructor() -> O { } public function f() -> void { } }\nclass M extends O { public constructor() -> M { super(); } }\nclass D extends %s { %s public constructor() -> D { super(); } }\nfunction main() -> void { D d = new D(); d.f(); }"
    for pos, basef, via, bad_f, good_f in [("private qubit hidden by a private qubit", "private qubit q;", "O", "private qubit q;", "private qubit r;"),
                                           ("public int hidden by a public register", "public int q = 1;", "O", "public qubit[2] q;", "public qubit[2] r;"),
                                           ("two levels up", "protected int n = 0;", "M", "public int n = 1;", "public int k = 1;"),
                                           ("instance field hidden by a static field", "public int n = 0;", "O", "public static int n = 1;", "public static int k = 1;"),
                                           ("static field hidden by an instance field", "public static int n = 0;", "M", "public int n = 1;", "public int k = 1;")]:
        P.append(("a field hides an inherited field", pos, hd % (basef, via, bad_f), hd % (basef, via, good_f)))
    # an assignment used as a value carries the type of the assigned value into the position it is written in
    av = "class A { public int f = 1; public constructor() -> A { } }\nfunction g(string s) -> void { echo(s); }\nfunction main() -> void { qubit q; int i = 0; A a = new A(); int[] v = {1}; %s }"
    for pos, bad_s, good_s in [("initialiser", "string s = (i = 3);", "long s = (i = 3);"), ("argument", "g(i = 3);", "g(\"\" + (i = 3));"),
                               ("gate angle", "rx(q, (i = 3));", "rx(q, 3.0f);"), ("initialiser, bit", "bit b = (i = 3);", "int b = (i = 3);"),
                               ("member assignment as a value", "string s = (a.f = 3);", "int s = (a.f = 3);"),
                               ("element assignment as a value", "boolean s = (v[0] = 3);", "int s = (v[0] = 3);"),
                               ("return", "return (i = 3);", "i = 3; return;"), ("chained", "string s = \"\"; s = i = 3;", "long s = 0L; s = i = 3;")]:
        P.append(("a value of the wrong type through an assignment expression", pos, av % bad_s, av % good_s))
    # an array literal takes its type from where it is assigned; its elements have the type of its elements
    al = ("class A { public int[] xs = {1}; public constructor() -> A { } }\nfunction t(int k) -> void { echo(k); }\n"
          "function r() -> %s { int[] y = {0}; return (y = {7, 8}); }\nfunction main() -> void { int[] y = {0}; A a = new A(); %s echo(r()); }")
    for pos, rt, bad_s, good_s in [("int initialiser", "int[]", "int x = (y = {1, 2});", "int[] x = (y = {1, 2});"),
                                   ("string initialiser", "int[]", "string s = (y = {3, 4});", "int[] s = (y = {3, 4});"),
                                   ("int argument", "int[]", "t(y = {5, 6});", "t((y = {5, 6})[0]);"),
                                   ("int return", "int", "", None),
                                   ("member assignment", "int[]", "string s = (a.xs = {1, 2});", "int[] s = (a.xs = {1, 2});"),
                                   ("element of a literal", "int[]", "string s = {1, 2}[0];", "int s = {1, 2}[0];")]:
        good = (al % ("int[]", good_s)) if good_s is not None else (al % ("int[]", ""))
        P.append(("an array literal's type taken for any type", pos, al % (rt, bad_s), good))
    # the base constructor an implicit super() reaches must be accessible, like one named by super(...) or new
    isup = ("class Vault { public int n; %s constructor() -> Vault { this.n = 7; return this; } public constructor(int k) -> Vault { this.n = k; return this; } }\n"
            "class Sub extends Vault { public constructor() -> Sub { %s return this; } }\nfunction main() -> void { Sub s = new Sub(); echo(s.n); }")
    P.append(("private base constructor reached from a subclass", "implicit super()", isup % ("private", ""), isup % ("protected", "")))
    P.append(("private base constructor reached from a subclass", "explicit super()", isup % ("private", "super();"), isup % ("public", "super();")))
    # a method that declares a result returns one along every path, like a function
    mr = ("class C { public constructor() -> C = default;\n  public %sfunction g(int k) -> int { %s } }\n"
          "function main() -> void { C c = new C(); int r = %s; echo(r + 1); }")
    for pos, st, call, bad_s, good_s in [("instance method, no return at all", "", "c.g(1)", "int z = k;", "return k;"),
                                         ("instance method, one branch falls off the end", "", "c.g(1)", "if (k > 0) { return 1; }", "if (k > 0) { return 1; } return 0;"),
                                         ("static method, no return at all", "static ", "C.g(1)", "int z = k;", "return k;"),
                                         ("static method, loop body only", "static ", "C.g(1)", "while (k > 0) { return 1; }", "while (k > 0) { return 1; } return 0;")]:
        P.append(("a non-void method that does not return along every path", pos, mr % (st, bad_s, call), mr % (st, good_s, call)))
    # super.m() runs the base version: a body-less (abstract) method has none
    sm = ("abstract class S { public constructor() -> S = default; public virtual function m() -> int%s }\n"
          "class D extends S { public constructor() -> D = default; public override function m() -> int { return %s + 10; } }\n"
          "function main() -> void { S s = new D(); echo(s.m()); }")
    P.append(("super call of a method without a body", "override", sm % (";", "super.m()"), sm % (" { return 1; }", "super.m()")))
    P.append(("super call of a method without a body", "nested in an argument", sm % (";", "(0 * super.m())"), sm % (";", "0")))
    # inside a generic class only a value of type T is a T (T may stand for string, or for a subclass of its bound)
    tp = ("class Foo { public constructor() -> Foo = default; }\nclass Sub extends Foo { public constructor() -> Sub = default; }\n"
          "class Box<T%s> { public T v; public constructor(T v) -> Box<T> { this.v = v; return this; }\n"
          "  public function m(T other) -> T { %s return this.v; } }\nfunction main() -> void { Box<%s> b = new Box<%s>(%s); echo(\"ok\"); }")
    for pos, bound, arg, val, bad_s, good_s in [("local initialiser, unbounded", "", "string", "\"a\"", "T t = new Foo();", "T t = other;"),
                                                 ("field assignment, unbounded", "", "string", "\"a\"", "this.v = new Foo();", "this.v = other;"),
                                                 ("return, unbounded", "", "string", "\"a\"", "return new Foo();", "return other;"),
                                                 ("local initialiser, bounded by the value's class", " extends Foo", "Sub", "new Sub()", "T t = new Foo();", "T t = other;"),
                                                 ("field assignment, bounded", " extends Foo", "Sub", "new Sub()", "this.v = new Foo();", "this.v = other;")]:
        P.append(("a class value where a type parameter is expected", pos, tp % (bound, bad_s, arg, arg, val), tp % (bound, good_s, arg, arg, val)))
    tpa = ("class Foo { public constructor() -> Foo = default; }\n"
           "class Box<T%s> { public T v; public constructor(T v) -> Box<T> { this.v = v; return this; }\n  public function set(T x) -> void { this.v = x; }\n"
           "  public function m(T other) -> void { %s } }\nfunction main() -> void { Box<%s> b = new Box<%s>(%s); echo(\"ok\"); }")
    for pos, bound, arg, val, bad_s, good_s in [("bare method call", "", "int", "1", "set(new Foo());", "set(other);"),
                                                 ("method call through this", "", "int", "1", "this.set(new Foo());", "this.set(other);"),
                                                 ("constructor argument", "", "int", "1", "Box<T> c = new Box<T>(new Foo());", "Box<T> c = new Box<T>(other);"),
                                                 ("bare method call, bounded", " extends Foo", "Foo", "new Foo()", "set(new Foo());", "set(other);")]:
        P.append(("a class value where a type parameter is expected", pos, tpa % (bound, bad_s, arg, arg, val), tpa % (bound, good_s, arg, arg, val)))
    return P


def run_checker(sxs, cmd="check"):
    exe = vlib.ocaml_engine("lang")
    inp = "".join("%s %s\n" % (cmd, s) for s in sxs)
    out = subprocess.run([exe], input=inp, capture_output=True, text=True, timeout=900).stdout.split("\n")
    out = [l for l in out if l]
    if len(out) != len(sxs):
        raise RuntimeError("checker produced %d/%d lines" % (len(out), len(sxs)))
    return out


def run(chk):
    quick = chk.tier == "quick"
    chk.proofs()
    rng = chk.rng
    n = 600 if quick else 10000
    cases = []
    kinds = {}
    tries = 0
    while len(cases) < n and tries < 20 * n:
        tries += 1
        fns = lg.Gen(rng, nfuncs=rng.randint(1, 3)).program()
        m = mutate(rng, fns)
        if m is None:
            continue
        try:
            lg.prog_src(m[0]); lg.prog_sx(m[0])
        except Exception:
            continue
        cases.append(m)
    sxs = [lg.prog_sx(f) for f, _ in cases]
    srcs = [lg.prog_src(f) for f, _ in cases]
    verdicts = run_checker(sxs)
    impl = lc.run_impl(srcs, opts="noexec")
    acc = rej = dis = folded = 0
    for (fns, desc), sx, src, v, c in zip(cases, sxs, srcs, verdicts, impl):
        st = c.get("status")
        if st in ("signal", "exit", "exception", "unparsable", "timeout"):
            chk.report("c16-crash", {"source": src, "implementation": c}, "analyser crashed on a mutated program")
            continue
        if st == "error" and c.get("cat") in ("Parse", "Lexical"):
            continue                       # not expressible in the surface syntax (e.g. a declaration as a branch)
        impl_accept = st == "ok"
        if not impl_accept and "constant integer expression" in (c.get("msg") or ""):
            folded += 1
            continue                       # the analyser folds final int initialisers and array sizes and rejects x / 0 there: not modelled
        if v == "accept":
            acc += 1
        elif v == "reject":
            rej += 1
        k = desc.split(" ")[0]
        kinds[k] = kinds.get(k, 0) + 1
        if (v == "accept") != impl_accept:
            dis += 1
            tag = "c16-accepted-violation" if impl_accept else "c16-rejected-valid"
            chk.report(tag, {"mutation": desc, "source": src, "model_input": sx, "reference_checker": v,
                             "implementation": {k2: c.get(k2) for k2 in ("status", "cat", "line", "col", "msg")},
                             "how": "echo 'check <model_input>' | build/ml/lang/lang.exe   vs   /repo's bloch on the source"},
                       "%s: reference checker %ss, analyser %s (%s)" % (desc[:80], v, "accepts" if impl_accept else "rejects", (c.get("msg") or "")[:80]))
    # class programs with one class-rule-directed edit: accept/reject against the class-level reference checker
    from checks import classmut as cmut, objgen as og
    ccases = []
    tries = 0
    ncm = 300 if quick else 5000
    while len(ccases) < ncm and tries < 10 * ncm:
        tries += 1
        cf, cc = og.ObjGen(rng).program()
        if rng.random() < 0.08:
            ccases.append((cf, cc, "unchanged"))
            continue
        m = cmut.class_mutate(rng, cf, cc)
        if m is not None:
            ccases.append(m)
    csx = [lg.prog_sx(f, c) for f, c, _ in ccases]
    csrc = [lg.prog_src(f, c) for f, c, _ in ccases]
    cver = run_checker(csx, "ccheck")
    cimpl = lc.run_impl(csrc, opts="noexec")
    ckinds = {}
    cacc = crej = cdis = 0
    for (cf, cc, desc), sx, src, v, c in zip(ccases, csx, csrc, cver, cimpl):
        st = c.get("status")
        if st in ("signal", "exit", "exception", "unparsable", "timeout"):
            chk.report("c16-crash", {"source": src, "implementation": c}, "analyser crashed on a mutated class program")
            continue
        if st == "error" and c.get("cat") in ("Parse", "Lexical"):
            continue                       # e.g. 'static class' with instance members is refused by the parser
        impl_accept = st == "ok"
        k = desc.split(" ")[0] + ("/accept" if v == "accept" else "/reject")
        ckinds[k] = ckinds.get(k, 0) + 1
        cacc += v == "accept"
        crej += v != "accept"
        if (v == "accept") != impl_accept:
            cdis += 1
            tag = "c16-class-accepted-violation" if impl_accept else "c16-class-rejected-valid"
            chk.report(tag, {"mutation": desc, "source": src, "model_input": sx, "reference_checker": v,
                             "implementation": {k2: c.get(k2) for k2 in ("status", "cat", "line", "col", "msg")},
                             "how": "echo 'ccheck <model_input>' | build/ml/lang/lang.exe   vs   /repo's bloch on the source"},
                       "%s: class-level reference checker %ss, analyser %s (%s)" % (desc[:80], v, "accepts" if impl_accept else "rejects", (c.get("msg") or "")[:80]))
    # class-related rules: violating / repaired pairs
    pairs = class_pairs()
    bad_res = lc.run_impl([p[2] for p in pairs], opts="noexec")
    good_res = lc.run_impl([p[3] for p in pairs], opts="noexec")
    npairs = 0
    for (rule, pos, bad, good), b, g in zip(pairs, bad_res, good_res):
        npairs += 1
        if not (b.get("status") == "error" and b.get("cat") == "Semantic"):
            chk.report("c16-rule-accepted", {"rule": rule, "position": pos, "source": bad, "implementation": {k: b.get(k) for k in ("status", "cat", "msg")}},
                       "violation of '%s' written as %s is not rejected with a Semantic error" % (rule, pos))
        if g.get("status") != "ok":
            chk.report("c16-rule-overreach", {"rule": rule, "position": pos, "source": good, "implementation": {k: g.get(k) for k in ("status", "cat", "msg")}},
                       "the repaired twin for '%s' (%s) is rejected: %s" % (rule, pos, (g.get("msg") or "")[:100]))
    chk.cov.update({"class_programs_mutated": len(ccases), "class_reference_accepts": cacc, "class_reference_rejects": crej,
                    "class_mutation_kinds": ckinds, "class_disagreements": cdis,
                    "programs": len(cases) + 2 * npairs + len(ccases), "mutated_programs": len(cases), "reference_accepts": acc, "reference_rejects": rej,
                    "mutation_kinds": kinds, "skipped_constant_folding_rejections": folded, "disagreements_checked": dis + cdis, "class_rule_pairs": npairs,
                    "rule": "valid classical programs with one rule-directed edit: an expression of another type in any expression slot (initialiser, assignment, "
                            "element assignment, condition, echo, return, argument, nested operand), a variable swapped for another / an undeclared one, final toggled, "
                            "declared or return type changed (incl. void), return shape flipped, a declaration repeated in the body or a nested block or moved later, "
                            "a void call used as initialiser/operand/argument/assignment/condition/return, a final variable written by statement, nested assignment, "
                            "postfix, for-step, chained declaration or argument. Accept/reject compared with the extracted Coq checker. Class programs (hierarchies, overloads, statics, destructors) with one class-rule edit (field / method / constructor visibility, final, static method, "
                            "class kind abstract/static, declared class swapped for a relative, extends dropped, parameter or return type changed): accept/reject compared with "
                            "the extracted class-level checker (ClassTyping.v). Class rules: 40+ violating/"
                            "repaired pairs across positions (method statement, bare name, nested expression, postfix, loop header, argument, return, subclass)."})
    chk.sample({"mutation": cases[0][1], "program": srcs[0], "reference_checker": verdicts[0]})
