"""C17 - @tracked / @shots reporting."""
import os, re, shutil
import vlib
from checks import simcommon as sc

TRUSTED_BASE = [
    "Coq 8.16.1 kernel (coqc); vm_compute only in the Example",
    "axioms: none",
    "extraction ExtrOcamlBasic+ExtrOcamlString; extract/driver_sim.ml; the real CLI binary driven with BLOCH_VERIF_DRAWS (hook H2)",
    "printed probabilities are compared to count/total with the 3-decimal rounding of the CLI (tolerance 0.00051)",
    "--echo=none is read as documented (always suppress); explicit --echo=auto must equal the default",
]

def hx(s):
    return s.encode("latin-1").hex() if s else "-"

class TProg:
    """tracked program: source text + model token list (one shot) + number of echo lines per shot"""
    def __init__(self, rng):
        self.src_classes, self.src_helpers, self.body = [], [], []
        self.toks = []
        self.nh = 0          # next handle id
        self.echoes = 0
        self.draws_per_shot = 0
        self.keys = set()
        self.rng = rng
        self.exits_at_end = []
        self.kept = []
        self.nq = 0

    def gate(self, ref, h, el):
        g = self.rng.choice(["H", "X", "RY", "Z"])
        if g == "RY":
            a = self.rng.choice([0.5, 1.0, 2.0, 3.0])
            self.toks += ["G", "RY", str(h), str(el), sc.fnum(a)]
            return "ry(%s, %sf);" % (ref, sc.fnum(a))
        self.toks += ["G", g, str(h), str(el)]
        return "%s(%s);" % (g.lower(), ref)

    def measure(self, ref, h, el, echo=False):
        self.toks += ["M", str(h), str(el)]
        self.draws_per_shot += 1
        if echo:
            self.echoes += 1
            if self.rng.random() < 0.5:
                # the measurement happens inside the echo argument: it must happen whether or not echo output is shown
                return "echo(measure %s);" % ref
            return "bit e%d = measure %s; echo(e%d);" % (self.echoes, ref, self.echoes)
        return "measure %s;" % ref

    def block(self, indent, tracked, name, kind, k):
        """declare a (tracked) qubit / qubit[k], operate, maybe measure; returns lines and (handle, key)"""
        h = self.nh; self.nh += 1
        if kind == "var":
            k = 1
        self.nq += k
        self.toks += ["D", str(k)]
        lines = []
        ann = "@tracked " if tracked else ""
        if kind == "var":
            lines.append("%s%squbit %s;" % (indent, ann, name)); key = "qubit " + name
            refs = [(name, 0)]
        else:
            lines.append("%s%squbit[%d] %s;" % (indent, ann, k, name)); key = "qubit[] " + name
            refs = [("%s[%d]" % (name, i), i) for i in range(k)]
        for ref, el in refs:
            for _ in range(self.rng.randint(0, 2)):
                lines.append(indent + self.gate(ref, h, el))
        mode = self.rng.choice(["all", "all", "some", "some", "none", "reset-after", "last-only", "first-only", "whole", "whole"])
        if mode == "whole" and kind != "var":
            # the whole register in one statement
            lines.append("%smeasure %s;" % (indent, name))
            self.toks += ["MA", str(h)]
            self.draws_per_shot += k
        elif mode == "whole":
            mode = "all"
        for n_el, (ref, el) in enumerate(refs):
            if (mode == "all" or (mode == "some" and self.rng.random() < 0.5) or mode == "reset-after"
                    or (mode == "last-only" and n_el == len(refs) - 1) or (mode == "first-only" and n_el == 0)):
                lines.append(indent + self.measure(ref, h, el, echo=(self.rng.random() < 0.3)))
        if mode == "reset-after":
            ref, el = self.rng.choice(refs)
            lines.append("%sreset %s;" % (indent, ref)); self.toks += ["R", str(h), str(el)]; self.draws_per_shot += 1
            if self.rng.random() < 0.5:
                lines.append(indent + self.measure(ref, h, el))
        return lines, h, (key if tracked else None)

def gen(rng):
    p = TProg(rng)
    main = []
    nblocks = rng.randint(1, 4)
    for b in range(nblocks):
        kind = rng.choice(["main", "loop", "helper", "object", "main", "multi"])
        if p.nq >= 7:
            break
        if kind == "multi":
            # one declaration statement, several declarators: every name is tracked
            names = ["d%d%s" % (b, c) for c in "abc"[: rng.randint(2, 3)]]
            main.append("    @tracked qubit %s;" % ", ".join(names))
            hs = []
            for nm in names:          # the statement allocates every declarator before anything else runs
                hs.append(p.nh); p.nh += 1
                p.nq += 1
                p.toks += ["D", "1"]
            for nm, h in zip(names, hs):
                if rng.random() < 0.7:
                    main.append("    " + p.gate(nm, h, 0))
                if rng.random() < 0.8:
                    main.append("    " + p.measure(nm, h, 0, echo=(rng.random() < 0.3)))
                p.exits_at_end.append((h, "qubit " + nm))
            continue
        if kind == "main":
            lines, h, key = p.block("    ", rng.random() < 0.8, "m%d" % b, rng.choice(["var", "arr", "arr"]), rng.randint(2, 3))
            main += lines
            if key:
                p.exits_at_end.append((h, key))
        elif kind == "loop":
            it = rng.randint(1, 3) if p.nq <= 3 else 1
            # the loop body is generated once and replayed `it` times in the model
            start = len(p.toks); h0 = p.nh; e0 = p.echoes; d0 = p.draws_per_shot; nq0 = p.nq
            lines, h, key = p.block("        ", True, "t%d" % b, rng.choice(["var", "arr"]), rng.randint(1, 3))
            body_toks = p.toks[start:] + (["E", str(h), hx(key)] if key else [])
            p.toks = p.toks[:start]
            ne, nd = p.echoes - e0, p.draws_per_shot - d0
            p.echoes, p.draws_per_shot, p.nh = e0, d0, h0
            for i in range(it):
                # handles are renumbered per iteration
                p.toks += [str(int(t) + i) if False else t for t in renumber(body_toks, h, h0 + i)]
                p.nh += 1
            p.echoes += ne * it; p.draws_per_shot += nd * it; p.nq += (p.nq - nq0) * (it - 1)
            main.append("    for (int i%d = 0; i%d < %d; i%d = i%d + 1) {" % (b, b, it, b, b))
            main += lines
            main.append("    }")
        elif kind == "helper":
            calls = rng.randint(1, 3) if p.nq <= 3 else 1
            start = len(p.toks); h0 = p.nh; e0 = p.echoes; d0 = p.draws_per_shot; nq0 = p.nq
            lines, h, key = p.block("    ", True, "w%d" % b, rng.choice(["var", "arr"]), rng.randint(1, 3))
            body_toks = p.toks[start:] + (["E", str(h), hx(key)] if key else [])
            p.toks = p.toks[:start]
            ne, nd = p.echoes - e0, p.draws_per_shot - d0
            p.echoes, p.draws_per_shot, p.nh = e0, d0, h0
            p.src_helpers.append("function hf%d() -> void {\n%s\n}" % (b, "\n".join(lines)))
            for i in range(calls):
                p.toks += renumber(body_toks, h, h0 + i); p.nh += 1
                main.append("    hf%d();" % b)
            p.echoes += ne * calls; p.draws_per_shot += nd * calls; p.nq += (p.nq - nq0) * (calls - 1)
        elif rng.random() < 0.5:
            # an object owning a tracked register: reported as one entry when the object dies - all elements measured, or '?'
            k = rng.randint(2, 3)
            cname = "TA%d" % b
            p.src_classes.append("class %s {\n    @tracked public qubit[%d] fa;\n    public constructor() -> %s = default;\n}" % (cname, k, cname))
            h = p.nh; p.nh += 1
            p.nq += k
            p.toks += ["D", str(k)]
            main.append("    %s o%d = new %s();" % (cname, b, cname))
            mode = rng.choice(["all", "some", "last-only", "first-only", "none", "all-then-reset-first"])
            for i in range(k):
                if rng.random() < 0.6:
                    main.append("    " + p.gate("o%d.fa[%d]" % (b, i), h, i))
                if mode in ("all", "all-then-reset-first") or (mode == "some" and rng.random() < 0.5) or (mode == "last-only" and i == k - 1) \
                        or (mode == "first-only" and i == 0):
                    main.append("    " + p.measure("o%d.fa[%d]" % (b, i), h, i, echo=(rng.random() < 0.3)))
            if mode == "all-then-reset-first":
                main.append("    reset o%d.fa[0];" % b); p.toks += ["R", str(h), "0"]; p.draws_per_shot += 1
            main.append("    destroy o%d;" % b)
            p.toks += ["E", str(h), hx("%s.fa" % cname)]
            p.toks += ["K", str(h)]; p.draws_per_shot += k
        else:
            k = rng.randint(1, 2)
            cname = "TQ%d" % b
            p.src_classes.append("class %s {\n%s\n    public constructor() -> %s = default;\n}" % (
                cname, "\n".join("    @tracked public qubit f%d;" % i for i in range(k)), cname))
            h = p.nh; p.nh += 1
            p.toks += ["D", str(k)]
            main.append("    %s o%d = new %s();" % (cname, b, cname))
            for i in range(k):
                if rng.random() < 0.7:
                    main.append("    " + p.gate("o%d.f%d" % (b, i), h, i))
                if rng.random() < 0.7:
                    main.append("    " + p.measure("o%d.f%d" % (b, i), h, i, echo=(rng.random() < 0.3)))
            # each tracked field is reported on its own when the object dies (before its qubits are reset)
            if rng.random() < 0.3 and not p.kept:
                # ... or when the run ends, for an object still held by a static field
                p.src_classes[-1] = p.src_classes[-1].replace("    public constructor()", "    public static %s keep = null;\n    public constructor()" % cname, 1)
                main.append("    %s.keep = o%d;" % (cname, b))
                p.kept.append((h, k, cname))
            else:
                main.append("    destroy o%d;" % b)
                for i in range(k):
                    p.toks += ["EF", str(h), str(i), hx("%s.f%d" % (cname, i))]
                p.toks += ["K", str(h)]; p.draws_per_shot += k
    for h, key in p.exits_at_end:
        p.toks += ["E", str(h), hx(key)]
    for h, k, cname in p.kept:
        for i in range(k):
            p.toks += ["EF", str(h), str(i), hx("%s.f%d" % (cname, i))]
        p.toks += ["K", str(h)]; p.draws_per_shot += k      # released (and reset) when the evaluator is torn down after the shot
    p.body = main
    return p

def renumber(toks, old, new):
    """rewrite handle `old` to `new` in a token list produced for one block"""
    out, i = [], 0
    while i < len(toks):
        t = toks[i]
        if t == "D":
            out += toks[i:i + 2]; i += 2
        elif t == "G":
            n = 5 if toks[i + 1] in ("RX", "RY", "RZ") else 4
            seg = list(toks[i:i + n]); seg[2] = str(new) if seg[2] == str(old) else seg[2]; out += seg; i += n
        elif t == "MA":
            seg = list(toks[i:i + 2]); seg[1] = str(new) if seg[1] == str(old) else seg[1]; out += seg; i += 2
        elif t in ("M", "R"):
            seg = list(toks[i:i + 3]); seg[1] = str(new) if seg[1] == str(old) else seg[1]; out += seg; i += 3
        elif t == "E":
            seg = list(toks[i:i + 3]); seg[1] = str(new) if seg[1] == str(old) else seg[1]; out += seg; i += 3
        else:
            out.append(t); i += 1
    return out

def source(p, annot):
    s = "\n".join(p.src_classes + p.src_helpers)
    s += ("\n" if s else "") + ("@shots(%d)\n" % annot if annot else "") + "function main() -> void {\n" + "\n".join(p.body) + "\n}\n"
    return s

def parse_cli(out):
    m = re.search(r"^Shots: (\d+)", out, flags=re.M)
    shots = int(m.group(1)) if m else None
    tables = {}
    cur = None
    for line in out.splitlines():
        if re.match(r"^(qubit(\[\])? \S+|[\w<>,\[\] ]+\.\w+)$", line.strip()) and "|" not in line:
            cur = line.strip(); tables[cur] = []
        elif cur and re.match(r"^\S+\s*\|\s*\d+\s*\|\s*[\d.]+$", line.strip()):
            o, c, pr = [x.strip() for x in line.split("|")]
            tables[cur].append((o, int(c), float(pr)))
        elif line.strip() == "":
            cur = None
    return shots, tables

def cli_corpus():
    """deterministic programs (outcomes forced by x gates): (name, source, extra CLI args, expected) where expected is a dict of
    tables, or ('reject', category) / ('exit', status)"""
    return [
        ("a @tracked static field is reported when the run ends",
         "class S { @tracked public static qubit sq; public constructor() -> S { } }\nfunction main() -> void { x(S.sq); measure S.sq; }", ["--shots=3"],
         {"S.sq": {"1": 3}}),
        ("an object kept in a static field is reported when the run ends",
         "class Q { @tracked public qubit q; public static Q keep; public constructor() -> Q { } }\n"
         "function main() -> void { for (int i = 0; i < 3; i = i + 1) { Q a = new Q(); x(a.q); measure a.q; Q.keep = a; } }", ["--shots=4"], {"Q.q": {"1": 12}}),
        ("objects referring to each other are reported when the run ends",
         "class N { @tracked public qubit q; public N other = null; public constructor() -> N { } }\n"
         "function main() -> void { N a = new N(); N b = new N(); a.other = b; b.other = a; x(a.q); measure a.q; measure b.q; }", ["--shots=2"], {"N.q": {"0": 2, "1": 2}}),
        ("objects of a class that only inherits its tracked field, referring to each other, are reported",
         "class B { @tracked public qubit q; public constructor() -> B { } }\nclass D extends B { public D other = null; public constructor() -> D { super(); } }\n"
         "function main() -> void { for (int i = 0; i < 2; i = i + 1) { D a = new D(); D b = new D(); a.other = b; b.other = a; x(a.q); measure a.q; measure b.q; } "
         "int s = 0; for (int k = 0; k < 2000; k = k + 1) { s = s + k; } }", ["--shots=3"], {"D.q": {"0": 6, "1": 6}}),
        ("a self-referring object of a class that only inherits its tracked field",
         "class B { @tracked public qubit q; public constructor() -> B { } }\nclass D extends B { public D me = null; public constructor() -> D { super(); this.me = this; } }\n"
         "function main() -> void { D a = new D(); x(a.q); measure a.q; a = null; for (int k = 0; k < 40; k = k + 1) { B t = new B(); measure t.q; } }", ["--shots=2"],
         {"D.q": {"1": 2}, "B.q": {"0": 80}}),
        ("objects of a generic class that inherits its tracked field, referring to each other",
         "class Probe { @tracked public qubit q; public constructor() -> Probe { } }\nclass Link<T> extends Probe { public Link<T> peer = null; public constructor() -> Link<T> { super(); } }\n"
         "function main() -> void { Link<int> a = new Link<int>(); Link<int> b = new Link<int>(); a.peer = b; b.peer = a; x(a.q); measure a.q; measure b.q; a = null; b = null; "
         "int s = 0; for (int k = 0; k < 40; k = k + 1) { Probe t = new Probe(); s = s + k; } }", ["--shots=5"], {"Link<int>.q": {"0": 5, "1": 5}, "Probe.q": {"?": 200}}),
        ("a class derived from a generic specialisation that inherits its tracked field, self-referring",
         "class Probe { @tracked public qubit q; public constructor() -> Probe { } }\nclass Link<T> extends Probe { public Probe peer = null; public constructor() -> Link<T> { super(); } }\n"
         "class IntLink extends Link<int> { public constructor() -> IntLink { super(); this.peer = this; } }\n"
         "function main() -> void { IntLink a = new IntLink(); x(a.q); measure a.q; a = null; for (int k = 0; k < 40; k = k + 1) { Probe t = new Probe(); measure t.q; } }", ["--shots=2"],
         {"IntLink.q": {"1": 2}, "Probe.q": {"0": 80}}),
        ("every declarator of a tracked declaration", "function main() -> void { @tracked qubit a, b; x(b); measure a; measure b; }", ["--shots=3"],
         {"qubit a": {"0": 3}, "qubit b": {"1": 3}}),
        ("destroy of a tracked register is refused", "function main() -> void { @tracked qubit[2] r; measure r; destroy r; }", ["--shots=2"], ("reject", "Semantic")),
        ("@shots(0) is refused", "@shots(0) function main() -> void { @tracked qubit q; measure q; }", [], ("reject", "Parse")),
        ("--shots=abc is refused without aborting", "function main() -> void { @tracked qubit q; measure q; }", ["--shots=abc"], ("exit", 1)),
        ("--shots= is refused without aborting", "function main() -> void { @tracked qubit q; measure q; }", ["--shots="], ("exit", 1)),
        ("--shots=99999999999 is refused without aborting", "function main() -> void { @tracked qubit q; measure q; }", ["--shots=99999999999"], ("exit", 1)),
        ("--shots=3x is refused", "function main() -> void { @tracked qubit q; measure q; }", ["--shots=3x"], ("exit", 1)),
        ("@shots wins over --shots", "@shots(2) function main() -> void { @tracked qubit q; x(q); measure q; }", ["--shots=5"], {"qubit q": {"1": 2}}),
    ]


def run(chk):
    quick = chk.tier == "quick"
    chk.proofs()
    rng = chk.rng
    exe_m = vlib.ocaml_engine("sim")
    exe = os.path.join(vlib.repo_build("hooked"), "bin", "bloch")
    tmp = os.path.join(vlib.BUILD, "tmp", "c17-%d" % os.getpid())
    os.makedirs(tmp, exist_ok=True)
    n_cases = 120 if quick else 1500
    stats = {"programs": 0, "tables": 0, "multi_exit_vars": 0, "echo_checks": 0}
    try:
        for ci in range(n_cases):
            p = gen(rng)
            cli = rng.choice([None, 1, 2, 3, 5])
            annot = rng.choice([None, None, 1, 2, 4])
            echo = rng.choice([None, "auto", "all", "none"])
            provided, shots = (True, annot) if annot else ((True, cli) if cli else (False, 1))
            ndraw = (2 * p.draws_per_shot + 12) * shots
            draws = [rng.choice([0.1, 0.3, 0.45, 0.55, 0.7, 0.9]) for _ in range(ndraw)]
            src = source(p, annot)
            path = os.path.join(tmp, "p%d.bloch" % ci)
            open(path, "w").write(src)
            dfile = os.path.join(tmp, "d%d.txt" % ci)
            open(dfile, "w").write("\n".join(sc.fnum(d) for d in draws) + "\n")
            args = [exe] + (["--shots=%d" % cli] if cli else []) + (["--echo=%s" % echo] if echo else []) + [path]
            rc, out = vlib.sh(args, env={"BLOCH_NO_UPDATE_CHECK": "1", "BLOCH_VERIF_DRAWS": dfile}, timeout=60)
            out = re.sub(r"\x1b\[[0-9;]*m", "", out)
            # model
            toks = p.toks
            mf = os.path.join(tmp, "m.txt")
            open(mf, "w").write("tshots %d %s %s\n" % (shots, ",".join(sc.fnum(d) for d in draws), " ".join(toks)))
            rcm, om = vlib.sh([exe_m, mf], timeout=60)
            mm = re.match(r"^agg (\S*) \| consumed (\d+)", om.strip())
            if rcm != 0 or not mm:
                raise RuntimeError("tracked model failed: %s" % om[-300:])
            expect = {}
            if mm.group(1):
                for ent in mm.group(1).split(","):
                    v, o, c = ent.split("|")
                    expect.setdefault(bytes.fromhex(v).decode(), {})[bytes.fromhex(o).decode()] = int(c)
            stats["programs"] += 1
            payload = {"source": src, "args": args[1:], "draws": draws, "stdout": out[-3000:], "expected_aggregate": expect,
                       "how": "BLOCH_VERIF_DRAWS=<file with the draws one per line> bloch <args>"}
            if rc != 0:
                chk.report("c17-run", payload, "CLI failed on a tracked program (rc=%d)" % rc); continue
            got_shots, tables = parse_cli(out)
            if provided:
                if got_shots != shots:
                    chk.report("c17-shots", payload, "ran %s shots, expected %d (flag=%s annotation=%s)" % (got_shots, shots, cli, annot))
                got = {v: {o: c for o, c, _ in rows} for v, rows in tables.items()}
                if got != expect:
                    chk.report("c17-counts", payload, "aggregate table differs from the sum of per-shot tables: got %s" % got)
                for v, rows in tables.items():
                    stats["tables"] += 1
                    tot = sum(c for _, c, _ in rows)
                    if tot > shots:
                        stats["multi_exit_vars"] += 1
                    for o, c, pr in rows:
                        if not (0 <= pr <= 1) or abs(pr - c / tot) > 0.00051:
                            chk.report("c17-prob", payload, "probability %.3f printed for count %d of total %d (%s)" % (pr, c, tot, v))
                    if abs(sum(pr for _, _, pr in rows) - 1) > 0.0006 * len(rows) + 1e-9:
                        chk.report("c17-prob", payload, "probabilities of %s do not sum to 1" % v)
            elif tables:
                chk.report("c17-shots", payload, "a table was printed although neither --shots nor @shots was given")
            # echo policy
            want_echo = (echo == "all") or (echo in (None, "auto") and (not provided or shots == 1))
            echo_lines = len(re.findall(r"^[01]$", out.split("Shots:")[0], flags=re.M))
            stats["echo_checks"] += 1
            if echo_lines != (p.echoes * shots if want_echo else 0):
                chk.report("c17-echo", payload, "%d echo lines, expected %d (echo=%s shots=%d provided=%s)" %
                           (echo_lines, p.echoes * shots if want_echo else 0, echo, shots, provided))
            if ci < 2:
                chk.sample({"source": src, "args": args[1:], "expected_aggregate": expect})
        # fixed programs with forced outcomes, through the real CLI
        for ci, (name, src, extra, want) in enumerate(cli_corpus()):
            path = os.path.join(tmp, "k%d.bloch" % ci)
            open(path, "w").write(src)
            rc, out = vlib.sh([exe] + extra + [path], env={"BLOCH_NO_UPDATE_CHECK": "1"}, timeout=60)
            out = re.sub(r"\x1b\[[0-9;]*m", "", out)
            payload = {"case": name, "source": src, "args": extra, "exit_status": rc, "stdout": out[-2000:], "expected": want if isinstance(want, dict) else list(want)}
            stats["cli_corpus"] = stats.get("cli_corpus", 0) + 1
            if isinstance(want, tuple) and want[0] == "reject":
                if rc != 1 or ("%s error" % want[1]) not in out:
                    chk.report("c17-corpus", payload, "%s: expected a %s error, got status %d" % (name, want[1], rc))
            elif isinstance(want, tuple):
                if rc != want[1] or "terminate called" in out:
                    chk.report("c17-corpus", payload, "%s: expected exit status %d without an abort, got %d" % (name, want[1], rc))
            else:
                _, tables = parse_cli(out)
                got = {v: {o: c for o, c, _ in rows} for v, rows in tables.items()}
                if rc != 0 or got != want:
                    chk.report("c17-corpus", payload, "%s: expected tables %s, got %s (status %d)" % (name, want, got, rc))
        # the order of the tables follows the execution, not the spelling of the names: renaming one tracked local leaves the others in place
        tmpl = ("function g() -> void { @tracked qubit %s; x(%s); measure %s; }\n"
                "function main() -> void { @tracked qubit %s; @tracked qubit %s; @tracked qubit[2] %s; measure %s; x(%s); measure %s; measure %s; g(); }")
        seqs = []
        for names in (("w", "a", "b", "c"), ("w", "o", "b", "c"), ("w", "k2", "b", "c"), ("zz", "a", "b9", "c"), ("w", "a", "b", "aa")):
            w, a, b, c = names
            src = tmpl % (w, w, w, a, b, c, a, b, b, c)
            path = os.path.join(tmp, "ord.bloch")
            open(path, "w").write(src)
            rc, out = vlib.sh([exe, "--shots=2", path], env={"BLOCH_NO_UPDATE_CHECK": "1"}, timeout=60)
            out = re.sub(r"\x1b\[[0-9;]*m", "", out)
            heads = [l for l in out.splitlines() if l.startswith(("qubit ", "qubit[] "))]
            back = {"qubit " + w: "W", "qubit " + a: "A", "qubit " + b: "B", "qubit[] " + c: "C"}
            seqs.append(([back.get(h, h) for h in heads], src))
        stats["table_order_programs"] = len(seqs)
        for sq, src in seqs[1:]:
            if sq != seqs[0][0] or sorted(sq) != ["A", "B", "C", "W"]:
                chk.report("c17-order", {"source": src, "tables_in_order": sq, "reference_order": seqs[0][0], "reference_source": seqs[0][1],
                                         "how": "bloch --shots=2 <source>; list the table headers in the order printed"},
                           "renaming a tracked local changed the order of the other variables' tables: %s vs %s" % (sq, seqs[0][0]))
    finally:
        shutil.rmtree(tmp, ignore_errors=True)
    chk.cov.update({"traces_validated_against_impl": stats["programs"], **stats,
                    "rule": "generated programs with tracked locals in main, loop-scoped and helper-scoped tracked qubits/registers (several exits per "
                            "shot), tracked object fields released by destroy, measured / partly measured / reset-then-remeasured histories; every "
                            "combination of --shots, @shots and --echo; the real CLI runs with injected draws and its table is compared with the "
                            "extracted model's aggregate (sum of per-shot tables); counts, probabilities (count/total, in [0,1], summing to 1), the "
                            "shot count and the number of echo lines are checked"})

