"""C18 - shots are isolated: an N-shot run equals N independent fresh runs."""
import vlib
from checks import langgen as lg
from checks import langcommon as lc
from checks import objgen as og
from checks import gcgen
from checks import gengen
from checks import simcommon as sc

TRUSTED_BASE = [
    "Coq 8.16.1 kernel (coqc)",
    "axioms: none",
    "extraction ExtrOcamlBasic+ExtrOcamlString; extract/driver_lang.ml; harness/cpp/drv_prog.cpp (shots=N executes one parsed and analysed tree N times "
    "with a fresh RuntimeEvaluator each, as cli.cpp does, and marks the boundary between shots in the captured output); hook H2 (injected draws)",
    "modelled, not verified: the implementation's shared syntax tree, per-run tables and process-global state; they are checked directly: every shot's output, "
    "consumed draws and final state must equal those of a fresh process given the same draws",
]

SEP = "\x1f--shot--\n"

GENERIC_CORPUS = [
    """class Box<T> { public T v; public static int made = 0; public constructor(T v) -> Box<T> { this.v = v; Box.made = Box.made + 1; }
  public function get() -> T { return this.v; } }
function main() -> void { Box<int> a = new Box<int>(3); Box<string> b = new Box<string>("s"); Box<int> c = new Box<>(4);
  echo(a.get()); echo(b.get()); echo(c.get()); }""",
    """class Cell<T> { public T v; public constructor(T v) -> Cell<T> { this.v = v; } }
class Pairc<T> extends Cell<T> { public T w; public constructor(T a, T b) -> Pairc<T> { super(a); this.w = b; } }
function main() -> void { Pairc<float> p = new Pairc<float>(1.5f, 2.0f); echo(p.v); echo(p.w); Cell<float> c = p; echo(c.v); }""",
    """function main() -> void { final int n = 3; float[n] w; echo(w); int[n + 1] z; echo(z); echo(2.0f); float[] q = {0.25f, 0.125f}; echo(q); echo(q[0] + q[1]); }""",
    """class Counter { public static int hits = 0; public static function bump() -> int { Counter.hits = Counter.hits + 1; return Counter.hits; } }
function main() -> void { echo(Counter.bump()); echo(Counter.bump()); final int k = 2; string[k] names; names[1] = "x"; echo(names); }""",
]


def format_prog(rng):
    """echo sequences over whole / fractional floats, float arrays and concatenations: anything that formats numbers
    through shared stream state shows up when the sequence is replayed in the same process"""
    body = [("declarr", "float", "fa", None, ("arr", [("f", rng.choice([1, 3, 5]), rng.choice([1, 2, 3])) for _ in range(rng.randint(1, 3))])),
            ("declarr", "float", "fz", ("i", rng.randint(1, 3)), None),
            ("decl", False, "float", "w", ("f", rng.choice([0, 2, 7, 100]), 0)),
            ("decl", False, "float", "x", ("f", rng.choice([1, 3, 9]), rng.choice([1, 2, 3])))]
    menu = [("echo", ("v", "fa")), ("echo", ("v", "fz")), ("echo", ("v", "w")), ("echo", ("v", "x")),
            ("echo", ("bin", "+", ("s", "v="), ("v", "w"))), ("echo", ("bin", "+", ("s", "v="), ("v", "x"))),
            ("echo", ("bin", "+", ("s", "a="), ("v", "fa"))), ("echo", ("bin", "/", ("i", 1), ("i", rng.choice([2, 3, 4])))),
            ("echo", ("bin", "*", ("v", "w"), ("v", "x"))), ("echo", ("i", rng.randint(0, 9)))]
    for _ in range(rng.randint(3, 8)):
        body.append(rng.choice(menu))
    return [("main", "void", [], body)], None


def split_shots(stdout, n):
    parts = (stdout or "").split(SEP)
    if parts and parts[-1] == "":
        parts = parts[:-1]
    return parts


def run(chk):
    quick = chk.tier == "quick"
    chk.proofs()
    rng = chk.rng
    N = 3
    n = 150 if quick else 2500
    progs = []
    for i in range(n):
        k = i % 4
        if k == 0:
            progs.append(og.ObjGen(rng).program())
        elif k == 1:
            progs.append(gcgen.gen(rng))
        elif k == 2:
            progs.append(format_prog(rng))
        else:
            progs.append((lg.Gen(rng, nfuncs=rng.randint(0, 3)).program(), None))
    gens = [gengen.gen(rng) for _ in range(n // 4)]
    srcs = [lg.prog_src(*p) for p in progs] + [g[0] for g in gens] + GENERIC_CORPUS
    sxs = [lg.prog_sx(*p) for p in progs] + [lg.prog_sx(g[1], g[2]) for g in gens]
    models = lc.run_model(sxs, fuel=6000)
    fresh = lc.run_impl(srcs)
    multi = lc.run_impl(srcs, opts="shots=%d" % N)
    twice = lc.run_impl(srcs, opts="twice shots=2")       # analysed twice, then two shots
    counts = {}
    ndiff = 0
    nontriv = set()
    for i, src in enumerate(srcs):
        f, m, t = fresh[i], multi[i], twice[i]
        if i < len(models):
            v, d = lc.classify(models[i], f)
            counts[v] = counts.get(v, 0) + 1
            if v not in ("agree", "rejected") and not v.startswith("skip"):
                chk.report("c18-fresh-%s" % v, {"source": src, "model_input": sxs[i], "reference": models[i],
                                               "implementation": {k: f.get(k) for k in ("status", "cat", "msg", "stdout")}},
                           "a fresh run already disagrees with the reference interpreter: %s" % d[:140])
                continue
        if f.get("status") != "ok":
            # a failing program fails in the first shot the same way
            same = (m.get("status"), m.get("cat"), lc.impl_err_kind(m.get("msg"))) == (f.get("status"), f.get("cat"), lc.impl_err_kind(f.get("msg")))
            if not same:
                ndiff += 1
                chk.report("c18-error", {"source": src, "fresh": {k: f.get(k) for k in ("status", "cat", "msg")},
                                         "multi_shot": {k: m.get(k) for k in ("status", "cat", "msg")},
                                         "how": "drv_prog: 'run p.bloch' vs 'run p.bloch shots=3'"},
                           "a program that fails fresh ends differently in multi-shot mode")
            continue
        for tag, res, shots in (("shots", m, N), ("reanalysed", t, 2)):
            parts = split_shots(res.get("stdout"), shots) if res.get("status") == "ok" else None
            if parts is None or len(parts) != shots or any(p != f.get("stdout") for p in parts):
                ndiff += 1
                bad = None if parts is None else next((k for k, p in enumerate(parts) if p != f.get("stdout")), None)
                chk.report("c18-%s" % tag, {"source": src, "fresh_stdout": f.get("stdout"), "shot_outputs": parts,
                                            "first_differing_shot": None if bad is None else bad + 1,
                                            "multi_status": {k: res.get(k) for k in ("status", "cat", "msg", "signal")},
                                            "how": "drv_prog: 'run p.bloch' (fresh process) vs 'run p.bloch %s' (one parsed tree, several executions)" % ("shots=3" if tag == "shots" else "twice shots=2")},
                           "shot %s differs from a fresh run (%s)" % (None if bad is None else bad + 1, tag))
                break
        else:
            if len((f.get("stdout") or "").splitlines()) >= 3:
                nontriv.add(src)
    # quantum programs: per-shot draws, qubit indices, measurement flags, final state
    nq = 60 if quick else 800
    qprogs = []
    for _ in range(nq):
        ops, draws = sc.gen_prog(rng, max_q=4, n_ops=rng.randint(4, 10), allow_reset=True, allow_release=(rng.random() < 0.4))
        qprogs.append(sc.Prog(ops, draws + [rng.random() for _ in range(40)]))
    rendered = [p.render(rng, ("direct", "func", "arrparam", "method"), False) for p in qprogs]
    qsrc = [r[0] for r in rendered]
    all_draws = [p.draws for p in qprogs]
    dstr = lambda d: ",".join(sc.fnum(x) for x in d)
    multi_q = lc.run_impl(qsrc, opts=["shots=%d draws=%s" % (N, dstr(d)) for d in all_draws])
    # the CLI suppresses echo in multi-shot runs: that may change what is printed, nothing else
    quiet_q = lc.run_impl(qsrc, opts=["shots=%d quiet draws=%s" % (N, dstr(d)) for d in all_draws])
    offs = [0] * len(qsrc)
    fresh_q = []
    for k in range(N):
        res = lc.run_impl(qsrc, opts=["draws=%s" % dstr(d[o:]) for d, o in zip(all_draws, offs)])
        fresh_q.append(res)
        offs = [o + len(r.get("draws", [])) for o, r in zip(offs, res)]
    nqdiff = 0
    for i, src in enumerate(qsrc):
        m = multi_q[i]
        fr = [fresh_q[k][i] for k in range(N)]
        if any(x.get("status") != "ok" for x in fr) or m.get("status") != "ok":
            if m.get("status") != fr[0].get("status"):
                nqdiff += 1
                chk.report("c18-quantum-status", {"source": src, "multi": {k: m.get(k) for k in ("status", "cat", "msg")},
                                                  "fresh": {k: fr[0].get(k) for k in ("status", "cat", "msg")}}, "quantum program ends differently in multi-shot mode")
            continue
        parts = split_shots(m.get("stdout"), N)
        exp_out = [x.get("stdout") for x in fr]
        exp_draws = [d for x in fr for d in x.get("draws", [])]
        last = fr[-1]
        keys = ("nq", "sim_meas", "ev_meas", "free", "last", "qasm", "tracked")
        bad = None
        if parts != exp_out:
            bad = "per-shot output"
        elif m.get("draws") != exp_draws:
            bad = "measurement/reset draws and outcomes"
        elif any(m.get(k) != last.get(k) for k in keys):
            bad = "final bookkeeping (" + ",".join(k for k in keys if m.get(k) != last.get(k)) + ")"
        elif not sc.amps_close([tuple(a) for a in last.get("amps", [])], m.get("amps", [])):
            bad = "final amplitudes"
        qm = quiet_q[i]
        if not bad:
            if qm.get("status") != "ok":
                bad = "status with echo suppressed (%s)" % qm.get("status")
            elif qm.get("draws") != m.get("draws"):
                bad = "draws and outcomes when echo is suppressed (an echo argument with a side effect was not evaluated)"
            elif any(qm.get(k) != m.get(k) for k in keys):
                bad = "final bookkeeping when echo is suppressed (" + ",".join(k for k in keys if qm.get(k) != m.get(k)) + ")"
            elif not sc.amps_close([tuple(a) for a in m.get("amps", [])], qm.get("amps", [])):
                bad = "final amplitudes when echo is suppressed"
        if bad:
            nqdiff += 1
            chk.report("c18-quantum", {"source": src, "draws": all_draws[i][:20], "differs_in": bad,
                                       "multi": {k: m.get(k) for k in ("stdout", "draws") + keys},
                                       "fresh": [{k: x.get(k) for k in ("stdout", "draws") + keys} for x in fr],
                                       "how": "drv_prog 'run p.bloch shots=3 draws=<d>' vs three fresh 'run p.bloch draws=<remaining d>' (and 'shots=3 quiet': echo suppressed as the CLI does)"},
                       "shots of a quantum program differ from fresh runs with the same draws: %s" % bad)
    chk.cov.update({"programs": len(srcs) + len(qsrc), "classical_and_object_programs": len(srcs), "quantum_programs": len(qsrc), "shots_per_program": N,
                    "fresh_vs_reference": counts, "shot_disagreements": ndiff, "quantum_shot_disagreements": nqdiff,
                    "distinct_nontrivial_programs": len(nontriv),
                    "disagreements_checked": ndiff + nqdiff,
                    "rule": "class programs with static counters, destructors and dispatch; object-graph programs; classical programs with const-sized and float arrays, "
                            "whole and fractional floats; hand-written generic/diamond/const-size programs; quantum programs (variables, arrays, objects, resets, releases) "
                            "with injected draws. Each is executed 3 times on one parsed+analysed tree (and twice after a second analysis) and as fresh processes; per-shot "
                            "output, consumed draws with outcomes, final amplitudes, flags, free list, QASM and tracked counts must coincide. Non-trivial = at least 3 output lines."})
    chk.sample({"program": srcs[0], "fresh_stdout": fresh[0].get("stdout")})
