"""C19 - imports resolve deterministically, load once, detect cycles, check packages."""
import os, shutil
import vlib

TRUSTED_BASE = [
    "Coq 8.16.1 kernel (coqc)",
    "axioms: none",
    "extraction ExtrOcamlBasic+ExtrOcamlString; extract/driver_loader.ml, harness/cpp/drv_loader.cpp (public ModuleLoader API), checks/c19.py (tree builder)",
    "the file system is modelled as a finite map from canonical component lists to files: std::filesystem canonicalisation, symlinks, '..', "
    "permissions and directory-iteration order (the code sorts) are not modelled; generated trees are already canonical",
]

PKGS = [["a"], ["a", "b"], ["util"], ["bloch", "lang"], ["bloch", "x"]]
SYMS = ["C", "D", "E", "Object"]

def gen_case(rng, idx):
    roots = ["proj", "lib1", "lib2", "work"]
    files = {}     # path(str) -> dict(pkg, imports, mains, id)
    nid = [0]
    def add(root, pkg, sym, pkgline=None, imports=(), mains=0):
        p = "/".join([root] + pkg + [sym + ".bloch"])
        nid[0] += 1
        files[p] = {"pkg": pkg if pkgline is None else pkgline, "imports": list(imports), "mains": mains, "id": nid[0]}
        return p
    known = []
    for pkg in PKGS:
        for sym in rng.sample(SYMS, rng.randint(0, 3)):
            if pkg == ["bloch", "lang"] and sym != "Object" and rng.random() < 0.7:
                continue
            known.append((pkg, sym))
    placed = []
    for pkg, sym in known:
        for root in rng.sample(roots[:3] + (["work"] if rng.random() < 0.3 else []), rng.randint(1, 3)):
            r = rng.random()
            pkgline = None if r < 0.94 else ([] if r < 0.97 else ["wrong"])
            placed.append(add(root, pkg, sym, pkgline, mains=(1 if rng.random() < 0.08 else 0)))
    def rand_import():
        r = rng.random()
        if r < 0.68 and known:
            pkg, sym = rng.choice(known)
            return "S:" + ".".join(pkg + [sym])
        if r < 0.95 and known:
            return "W:" + ".".join(rng.choice([k for k in known if k[0]] or [(["a"], "")])[0])
        if r < 0.975:
            return "W:" + ".".join(rng.choice(PKGS))
        return "S:" + ".".join(rng.choice(PKGS) + [rng.choice(["Missing", "C"])])
    # a module of the default package that happens to be called bloch: 'import bloch;' is not a bloch.* import
    if rng.random() < 0.15:
        for root in rng.sample(["proj", "proj/a", "lib1", "lib2", "work"], rng.randint(1, 3)):
            placed.append(add(root, [], "bloch"))
        known.append(([], "bloch"))
    for p in placed:
        files[p]["imports"] = [rand_import() for _ in range(rng.choice([0, 0, 0, 1, 1, 2]))]
    entry_dir = rng.choice(["proj", "proj/a", "work"])
    entry = entry_dir + "/Main.bloch"
    nid[0] += 1
    files[entry] = {"pkg": [] if entry_dir != "proj/a" or rng.random() < 0.5 else ["a"], "imports": [rand_import() for _ in range(rng.randint(1, 3))],
                    "mains": rng.choice([1, 1, 1, 1, 0, 2]), "id": nid[0]}
    if files[entry]["mains"] == 2:
        files[entry]["mains"] = 1
        # a second main elsewhere, only observable if that file gets loaded
        if placed:
            files[rng.choice(placed)]["mains"] = 1
    search = rng.sample(["lib1", "lib2"], rng.choice([0, 1, 1, 2, 2, 2]))
    cwd = rng.choice(["work", "proj", "lib2"])
    return {"files": files, "entry": entry, "search": search, "cwd": cwd}

def write_tree(root, case):
    for d in ("proj", "lib1", "lib2", "work"):
        os.makedirs(os.path.join(root, d), exist_ok=True)
    for p, f in case["files"].items():
        full = os.path.join(root, p)
        os.makedirs(os.path.dirname(full), exist_ok=True)
        lines = []
        if f["pkg"] and not f.get("late_package"):
            lines.append("package %s;" % ".".join(f["pkg"]))
        for i in f["imports"]:
            kind, q = i.split(":")
            lines.append("import %s%s;" % (q, ".*" if kind == "W" else ""))
        if f["pkg"] and f.get("late_package"):
            lines.append("package %s;" % ".".join(f["pkg"]))
        lines.append("function f%d() -> void { }" % f["id"])
        for _ in range(f["mains"]):
            lines.append("function main() -> void { }")
        open(full, "w").write("\n".join(lines) + "\n")
    # entries that are not modules: the loader must look past them (they are not part of the modelled file system)
    for d, kind in case.get("noise", []):
        full = os.path.join(root, d)
        os.makedirs(full, exist_ok=True)
        if kind == "dangling":
            for name in (".#C.bloch", "0lock", "Zz.bloch", "m"):
                if not os.path.lexists(os.path.join(full, name)):
                    os.symlink("nowhere/at/all", os.path.join(full, name))
        elif kind == "text":
            open(os.path.join(full, "notes.txt"), "w").write("import a.C;\n")
            open(os.path.join(full, "C.bloch.bak"), "w").write("function main() -> void { }\n")
        elif kind == "dir":
            os.makedirs(os.path.join(full, "Sub.bloch"), exist_ok=True)

def add_noise(rng, case):
    dirs = sorted({os.path.dirname(p) for p in case["files"]})
    case["noise"] = [(d, rng.choice(["dangling", "dangling", "text", "dir"])) for d in dirs if rng.random() < 0.5]
    return case

def model_line(case):
    fs = " ".join("%s@%s@%d@%s" % (p, ".".join(f["pkg"]) or "-", f["mains"], ",".join(f["imports"]) or "-") for p, f in sorted(case["files"].items()))
    return "load %s %s %s %s" % (case["cwd"], case["entry"], ";".join(case["search"]) or "-", fs)

def run(chk):
    quick = chk.tier == "quick"
    chk.proofs()
    rng = chk.rng
    exe_m = vlib.ocaml_engine("loader")
    vlib.repo_build("hooked")
    drv = vlib.cpp_driver("drv_loader")
    n = 250 if quick else 4000
    tmp = os.path.join(vlib.BUILD, "tmp", "c19-%d" % os.getpid())
    os.makedirs(tmp, exist_ok=True)
    kinds = {}
    dis = 0
    try:
        cases = [gen_case(rng, i) for i in range(n)]
        cases = [add_noise(rng, c) if i % 3 == 0 else c for i, c in enumerate(cases)]
        cases += fixed_cases()
        cases += dual_route_cases(rng, 40 if quick else 600)
        late = late_package_cases()
        literal = {len(cases) + k: exp for k, (c, exp) in enumerate(late) if exp}
        cases += [c for c, _ in late]
        with open(os.path.join(tmp, "m.txt"), "w") as fm, open(os.path.join(tmp, "c.txt"), "w") as fc:
            for i, c in enumerate(cases):
                root = os.path.join(tmp, "t%d" % i)
                write_tree(root, c)
                fm.write(model_line(c) + "\n")
                fc.write("load %s %s %s %s\n" % (root, c["cwd"], c["entry"], ";".join(c["search"]) or "-"))
        kinds["working directory removed"] = removed_cwd_runs(chk, tmp)
        rc, om = vlib.sh([exe_m, os.path.join(tmp, "m.txt")], timeout=1800)
        rc2, oc = vlib.sh([drv, os.path.join(tmp, "c.txt")], timeout=1800)
        lm, lc = om.splitlines(), oc.splitlines()
        if rc != 0 or len(lm) != len(cases):
            raise RuntimeError("loader model failed: %s" % om[-300:])
        if len(lc) != len(cases):
            raise RuntimeError("drv_loader produced %d/%d lines" % (len(lc), len(cases)))
        for k, (c, m, x) in enumerate(zip(cases, lm, lc)):
            ids = {p: f["id"] for p, f in c["files"].items()}
            if k in literal:
                expect = literal[k]
                kinds["late package"] = kinds.get("late package", 0) + 1
            elif m.startswith("ok"):
                exp_funcs = []
                for p in m.split()[1:]:
                    exp_funcs.append("f%d" % ids[p])
                    exp_funcs += ["main"] * c["files"][p]["mains"]
                expect = "ok " + " ".join(exp_funcs)
                kinds["ok"] = kinds.get("ok", 0) + 1
            else:
                cls = m.split()[1]
                kinds[cls] = kinds.get(cls, 0) + 1
                expect = "err %s Semantic" % cls if cls != "open" else "err open Parse"
            if x != expect:
                dis += 1
                payload = {"files": {p: {"package": ".".join(f["pkg"]), "imports": f["imports"], "mains": f["mains"], "function": "f%d" % f["id"],
                                         "package_line_after_imports": bool(f.get("late_package"))} for p, f in c["files"].items()},
                           "other_directory_entries": c.get("noise", []),
                           "entry": c["entry"], "search_paths": c["search"], "cwd": c["cwd"], "expected": expect, "impl": x,
                           "how": "build the tree (each file: package line, imports, `function f<id>() -> void {}`, mains), chdir to cwd, ModuleLoader(search).load(entry)"}
                chk.report("c19-load", payload, "loader result differs: expected `%s`, got `%s`" % (expect[:80], x[:80]))
        chk.sample({"entry": cases[0]["entry"], "search": cases[0]["search"], "cwd": cases[0]["cwd"], "files": sorted(cases[0]["files"])[:8], "model": lm[0], "impl": lc[0]})
        chk.sample({"entry": cases[-1]["entry"], "model": lm[-1], "impl": lc[-1]})
    finally:
        shutil.rmtree(tmp, ignore_errors=True)
    chk.cov.update({"traces_validated_against_impl": len(cases), "outcome_kinds": kinds, "disagreements": dis,
                    "rule": "random directory trees over four roots (importer's directory tree, two search paths, working directory) with packages a, a.b, util, "
                            "bloch.lang, bloch.x, the same module shadowed in several roots, symbol and wildcard imports, diamonds and cycles, wrong/missing "
                            "package lines, 0/1/2 mains, random entry, search-path list and cwd; plus hand-written diamond / cycle / shadowing / wildcard cases. "
                            "Merged function order or the diagnostic class+category is compared with the extracted model"})

def dual_route_cases(rng, n):
    """one file reached under two package names: importer-relative resolution makes proj/x/y/C.bloch the target of `y.C` (from a file in
    proj/x) and of `x.y.C` / `x.y.*` (from proj); it can declare only one of the two packages, so one of the imports must be refused - whichever
    comes first, and also when the file is already loaded"""
    out = []
    for i in range(n):
        ids = [0]
        def f(pkg, imports=(), mains=0):
            ids[0] += 1
            return {"pkg": pkg, "imports": list(imports), "mains": mains, "id": 2000 + ids[0]}
        decl = rng.choice([["y"], ["x", "y"], ["x", "y"], []])
        second = rng.choice(["W:x.y", "W:x.y", "S:x.y.C"])
        first = "S:x.A"
        imports = [first, second] if rng.random() < 0.6 else [second, first]
        files = {"proj/Main.bloch": f([], imports, 1), "proj/x/A.bloch": f(["x"], [rng.choice(["S:y.C", "W:y"])]), "proj/x/y/C.bloch": f(decl)}
        if rng.random() < 0.5:
            files["proj/x/y/D.bloch"] = f(rng.choice([["x", "y"], ["y"]]))
        if rng.random() < 0.3:
            files["lib1/x/y/C.bloch"] = f(["x", "y"])
        out.append({"files": files, "entry": "proj/Main.bloch", "search": rng.choice([[], ["lib1"]]), "cwd": rng.choice(["proj", "work"])})
    return out


def fixed_cases():
    def f(pkg, imports=(), mains=0, i=[0]):
        i[0] += 1
        return {"pkg": pkg, "imports": list(imports), "mains": mains, "id": 1000 + i[0]}
    out = []
    # diamond: Main -> C, D ; C -> E ; D -> E : E loaded once, before C and D
    out.append({"files": {"proj/Main.bloch": f([], ["S:a.C", "S:a.D"], 1), "proj/a/C.bloch": f(["a"], ["S:a.E"]), "proj/a/D.bloch": f(["a"], ["S:a.E"]),
                          "proj/a/E.bloch": f(["a"])}, "entry": "proj/Main.bloch", "search": [], "cwd": "proj"})
    # cycle through three files
    out.append({"files": {"proj/Main.bloch": f([], ["S:a.C"], 1), "proj/a/C.bloch": f(["a"], ["S:a.D"]), "proj/a/D.bloch": f(["a"], ["S:a.E"]),
                          "proj/a/E.bloch": f(["a"], ["S:a.C"])}, "entry": "proj/Main.bloch", "search": [], "cwd": "proj"})
    # importer's directory wins over search path and cwd; bloch.* prefers the search path
    out.append({"files": {"proj/Main.bloch": f([], ["S:util.C", "S:bloch.x.C"], 1), "proj/util/C.bloch": f(["util"]), "lib1/util/C.bloch": f(["util"]),
                          "work/util/C.bloch": f(["util"]), "proj/bloch/x/C.bloch": f(["bloch", "x"]), "lib1/bloch/x/C.bloch": f(["bloch", "x"])},
                "entry": "proj/Main.bloch", "search": ["lib1"], "cwd": "work"})
    # wildcard: first root with any module wins; sorted; importer itself skipped
    out.append({"files": {"proj/a/Main.bloch": f(["a"], ["W:a"], 1), "proj/a/D.bloch": f(["a"]), "proj/a/C.bloch": f(["a"]), "lib1/a/E.bloch": f(["a"])},
                "entry": "proj/a/Main.bloch", "search": ["lib1"], "cwd": "work"})
    out.append({"files": {"proj/Main.bloch": f([], ["W:a"], 1), "lib1/a/E.bloch": f(["a"]), "lib2/a/C.bloch": f(["a"]), "work/a/D.bloch": f(["a"])},
                "entry": "proj/Main.bloch", "search": ["lib2", "lib1"], "cwd": "work"})
    # mismatched package; missing import; two mains; implicit Object loaded first
    out.append({"files": {"proj/Main.bloch": f([], ["S:a.C"], 1), "proj/a/C.bloch": f(["a", "b"])}, "entry": "proj/Main.bloch", "search": [], "cwd": "proj"})
    out.append({"files": {"proj/Main.bloch": f([], ["S:a.Nope"], 1)}, "entry": "proj/Main.bloch", "search": [], "cwd": "proj"})
    out.append({"files": {"proj/Main.bloch": f([], ["S:a.C"], 1), "proj/a/C.bloch": f(["a"], [], 1)}, "entry": "proj/Main.bloch", "search": [], "cwd": "proj"})
    out.append({"files": {"proj/Main.bloch": f([], ["S:a.C"], 1), "proj/a/C.bloch": f(["a"]), "lib1/bloch/lang/Object.bloch": f(["bloch", "lang"])},
                "entry": "proj/Main.bloch", "search": ["lib1"], "cwd": "work"})
    # the implicitly loaded root module with a wrong / missing package line, imported by nobody: refused like an import of it
    out.append({"files": {"proj/Main.bloch": f([], [], 1), "lib1/bloch/lang/Object.bloch": f(["wrong", "pkg"])},
                "entry": "proj/Main.bloch", "search": ["lib1"], "cwd": "work"})
    out.append({"files": {"proj/Main.bloch": f([], [], 1), "proj/bloch/lang/Object.bloch": f([])},
                "entry": "proj/Main.bloch", "search": [], "cwd": "work"})
    out.append({"files": {"proj/Main.bloch": f([], [], 1), "lib1/bloch/lang/Object.bloch": f(["bloch"]), "lib2/bloch/lang/Object.bloch": f(["bloch", "lang"])},
                "entry": "proj/Main.bloch", "search": ["lib1", "lib2"], "cwd": "work"})
    # 'import bloch;' is the module bloch.bloch of the default package: importer's directory first, like any other name
    out.append({"files": {"proj/Main.bloch": f([], ["S:bloch"], 1), "proj/bloch.bloch": f([]), "lib1/bloch.bloch": f([])},
                "entry": "proj/Main.bloch", "search": ["lib1"], "cwd": "work"})
    # a wildcard directory with entries that cannot be examined or are not modules
    out.append({"files": {"proj/Main.bloch": f([], ["W:a"], 1), "proj/a/A.bloch": f(["a"]), "proj/a/C.bloch": f(["a"]), "proj/a/Z.bloch": f(["a"])},
                "entry": "proj/Main.bloch", "search": [], "cwd": "proj", "noise": [("proj/a", "dangling"), ("proj/a", "text"), ("proj/a", "dir")]})
    return out


def removed_cwd_runs(chk, tmp):
    """the working directory is the last root tried: when it has been removed under the process, an import that resolves from the
    importing file's directory (or a search path) still loads, and one that resolves nowhere is still a Semantic diagnostic"""
    exe = os.path.join(vlib.BUILD, "hooked", "bin", "bloch")
    base = os.path.join(tmp, "rmcwd")
    os.makedirs(base, exist_ok=True)
    open(os.path.join(base, "Util.bloch"), "w").write("function seven() -> int { return 7; }\n")
    open(os.path.join(base, "main.bloch"), "w").write("import Util;\nfunction main() -> void { echo(seven()); }\n")
    open(os.path.join(base, "bad.bloch"), "w").write("import Nowhere;\nfunction main() -> void { echo(1); }\n")
    n = 0
    for src, want in (("main.bloch", "7"), ("bad.bloch", "Semantic error")):
        gone = os.path.join(base, "gone%d" % n)
        os.makedirs(gone, exist_ok=True)
        rc, out = vlib.sh("cd %s && rmdir %s && BLOCH_NO_UPDATE_CHECK=1 exec %s %s 2>&1" % (gone, gone, exe, os.path.join(base, src)), timeout=60)
        n += 1
        if want not in out or "filesystem error" in out:
            chk.report("c19-removed-cwd", {"entry": src, "files": {"Util.bloch": "function seven", "main.bloch": "import Util;", "bad.bloch": "import Nowhere;"},
                                           "output": out[-400:], "how": "cd D && rmdir D && bloch /abs/%s" % src},
                       "with the working directory removed, %s: expected %r, got %r" % (src, want, out.strip()[-120:]))
    return n


def late_package_cases():
    """the package line written after an import: docs/grammar.md puts packageDecl first, so the file is refused (Parse) wherever it is reached"""
    def f(pkg, imports=(), mains=0, late=False, i=[0]):
        i[0] += 1
        return {"pkg": pkg, "imports": list(imports), "mains": mains, "id": 3000 + i[0], "late_package": late}
    out = []
    out.append(({"files": {"proj/Main.bloch": f([], ["S:a.C"], 1), "proj/a/C.bloch": f(["a"], ["S:a.D"], 0, True), "proj/a/D.bloch": f(["a"])},
                 "entry": "proj/Main.bloch", "search": [], "cwd": "proj"}, "err other Parse"))
    out.append(({"files": {"proj/a/Main.bloch": f(["a"], ["S:a.D"], 1, True), "proj/a/D.bloch": f(["a"])},
                 "entry": "proj/a/Main.bloch", "search": [], "cwd": "proj"}, "err other Parse"))
    out.append(({"files": {"proj/Main.bloch": f([], ["W:a"], 1), "proj/a/C.bloch": f(["a"]), "proj/a/D.bloch": f(["a"], ["S:a.C"], 0, True)},
                 "entry": "proj/Main.bloch", "search": [], "cwd": "proj"}, "err other Parse"))
    # the same files with the package line first load
    for c, _ in list(out):
        import copy
        g = copy.deepcopy(c)
        for v in g["files"].values():
            v["late_package"] = False
        out.append((g, None))
    return out
