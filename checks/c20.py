"""C20 - self-update decisions: proofs (Properties_C20.v) + correspondence of the extracted model
with update_manager.cpp's helpers and public entry points (harness TU, hooks for clock/fetch)."""
import os, re, shutil, itertools
import vlib

TRUSTED_BASE = [
    "Coq 8.16.1 kernel (coqc); vm_compute used only in Examples",
    "axioms: none (all C20 theorems are closed under the global context)",
    "extraction: ExtrOcamlBasic + ExtrOcamlString, no Extract Constant of our own; OCaml 4.13.1",
    "extract/driver_update.ml, harness/cpp/drv_update.cpp, checks/c20.py (glue)",
    "hook H5 (BLOCH_VERIF_NOW, BLOCH_VERIF_LATEST_TAG) in update_manager.cpp",
    "modelled not verified: network/TLS, tar, file installation; of cache-file I/O failures only 'cannot be written / does not keep what is written'; the model's clock is in whole seconds (sub-second histories are run against the statement, hook H5 <s>.<ms>)",
]
INT_MAX = 2147483647

def hx(s):
    return s.encode("latin-1").hex() if s else "-"

# ---- independent statement-level oracle (written from the property text, not from the model)
def spec_parse(v):
    # a version is [v]MAJOR[.MINOR[.PATCH]], optionally a '-'/'+' suffix of letters, digits, '.', '-', '+', optionally
    # trailing white space - the whole string, not a prefix of it ("37b3341", "2.x", "1.2.3.4" are not versions)
    m = re.match(r"^v?([0-9]+)(?:\.([0-9]+))?(?:\.([0-9]+))?(?:[-+][0-9A-Za-z.+-]*)?[ \t\n\r\f\v]*\Z", v)
    if not m:
        return None
    t = tuple(int(x) if x is not None else 0 for x in m.groups())
    if any(x > INT_MAX for x in t):
        return None
    # a 2nd/3rd digit run that is present but oversized also makes the string unparsable
    return t

def spec_action_ok(cur, lat, act):
    c, l = spec_parse(cur), spec_parse(lat)
    if act.startswith("EXC") or act == "Unknown" or act == "CRASH":
        return False
    if act in ("Install", "PromptMajor"):
        return c is not None and l is not None and c < l
    if act == "AlreadyLatest":
        return c is not None and l is not None and not (c < l)
    if act == "Refuse":
        return c is None or l is None
    return False

SP = " \t\n\v\f\r"
def spec_entry(line):
    """(digest, name) of a checksums.txt line: the name is everything after the digest, the blanks and an optional '*'"""
    t = line.lstrip(SP)
    i = 0
    while i < len(t) and t[i] not in SP:
        i += 1
    h, rest = t[:i], t[i:]
    if not h or not rest:
        return None
    n = rest.lstrip(SP)
    if n.startswith("*"):
        n = n[1:]
    n = n.rstrip(SP)
    return (h, n) if n else None

def spec_listed(content, asset):
    for line in content.split("\n"):
        e = spec_entry(line)
        if e and e[1] == asset:
            return e[0]
    return None

def spec_checksum_ok(content, asset, res):
    exp = spec_listed(content, asset)
    if res.startswith("EXC"):
        return False
    if exp is None:
        return res == "none"
    return res == "some " + hx(exp)

def spec_verdict_ok(content, asset, actual, res):
    """an archive goes on to installation only when the digest listed for exactly that asset name is the archive's"""
    listed = spec_listed(content, asset) if content is not None else None
    if res.startswith("EXC") or res == "CRASH":
        return False
    good = listed is not None and listed.lower() == actual
    return (res == "Verified") == good

def gen_verdicts(rng, checks):
    out = []
    for content, asset in checks:
        listed = spec_listed(content, asset)
        if listed is None:        # the digest a look-alike line lists for a differently named file: must not verify
            for line in content.split("\n"):
                f = line.split()
                if len(f) >= 2 and f[1].lstrip("*") == asset and rng.random() < 0.7:
                    out.append((content, asset, f[0].lower()))
                    break
        wrong = "".join(rng.choice("0123456789abcdef") for _ in range(64))
        r = rng.random()
        if r < 0.1:
            out.append((None, asset, listed or wrong))                       # checksums.txt could not be downloaded
        elif listed and r < 0.45:
            out.append((content, asset, listed))                               # intact download
        elif listed and r < 0.65:
            out.append((content.replace(listed, listed.upper()), asset, listed))   # digest listed in upper case
        elif listed and r < 0.75:
            out.append((content, asset, listed[:-1] + ("0" if listed[-1] != "0" else "1")))
        else:
            out.append((content, asset, wrong))
    return out

def gen_versions(rng, n_random):
    comps = ["0", "1", "2", "3", "9", "10", "11", "99", "100", "007", "00", "2147483647", "2147483648",
             "4294967296", "99999999999", "18446744073709551616"]
    sufs = ["", "-rc1", "+build5", "x", " ", ".x", "..", ".", "-modified", "-3-gabc123"]
    garbage = ["", "v", "nightly", "latest", "v.", ".1", "-1", "1e3", " 1.2", "unknown", "vv1.2.3", "V1.2.3", "1..2", "1.x",
               "v1", "1", "1.2", "1.2.3.4", "14f7c2c", "37b3341", "2024-nightly", "7zip", "2.x", "2..1", "v9.9.9$(touch x)", "1.2.3\r", "1.2.3 \t",
               "1.2.3-rc1 x", "1.2.3 x", "1.2.", "1.2.3.", "1.2.3-", "1.2.3+", "1.2.3-rc.1+build-7", "1.2.3_4", "1.2.3/4", "3.1-4", "v1.0.2-14-g37b3341", "v2.0.0", "2.0.0", "1.10.0", "1.9.0", "1.2.10", "1.2.9"]
    out = list(garbage)
    small = ["0", "1", "2", "9", "10"]
    for a in small:
        for b in small[:4]:
            for c in small[:3]:
                out.append("%s.%s.%s" % (a, b, c))
    for _ in range(n_random):
        k = rng.choice([1, 2, 3, 3, 3, 4])
        v = ("v" if rng.random() < 0.4 else "") + ".".join(rng.choice(comps) for _ in range(k)) + rng.choice(sufs)
        out.append(v)
    seen, res = set(), []
    for v in out:
        if v not in seen and "\n" not in v:
            seen.add(v); res.append(v)
    return res

def gen_checksums(rng, n):
    cases = []
    names = ["bloch-v1.2.3-Linux-X64.tar.gz", "bloch-v1.2.3-Linux-ARM64.tar.gz", "bloch-v1.2.3-macOS-ARM64.tar.gz",
             "bloch-v1.2.3-Linux-X64.tar.gz.sig", "bloch-v1.2.3-Linux-X64.tar.gz.asc", "xbloch-v1.2.3-Linux-X64.tar.gz",
             "bloch-v1.2.3-Linux-X64.tar", "checksums.txt", "bloch-v11.2.3-Linux-X64.tar.gz"]
    hexd = "0123456789abcdef"
    for _ in range(n):
        k = rng.randint(0, 6)
        ls = []
        for nm in rng.sample(names, min(k, len(names))):
            h = "".join(rng.choice(hexd) for _ in range(rng.choice([8, 64])))
            style = rng.choice(["  ", " *", "\t", " "])
            r = rng.random()
            if r < 0.08:
                ls.append(nm)                      # malformed: name only
            elif r < 0.14:
                ls.append(h)                       # malformed: hash only
            elif r < 0.2:
                ls.append("# " + nm + " " + h)     # comment-like line mentioning the asset
            elif r < 0.26:
                ls.append(nm + style + h)          # reversed fields
            elif r < 0.40:
                # an entry for a differently named file that begins like the asset; or the asset's, with trailing blanks / CR
                ls.append(h + style + nm + rng.choice([" (1)", " old", " .sig", "\t2", "\r", " ", " \t", "  copy.tar.gz"]))
            else:
                ls.append(h + style + nm)
        if rng.random() < 0.2:
            ls.insert(rng.randint(0, len(ls)), "")
        content = "\n".join(ls) + ("\n" if rng.random() < 0.7 and ls else "")
        asset = rng.choice(names[:4] + [names[0]] * 3)
        cases.append((content, asset))
    # the recorded defect witness first
    cases.insert(0, ("aaa  bloch-v1.2.3-Linux-X64.tar.gz.sig\nbbb  bloch-v1.2.3-Linux-X64.tar.gz\n", names[0]))
    cases.insert(0, ("aaa  bloch-v1.2.3-Linux-X64.tar.gz (1)\nbbb  bloch-v1.2.3-Linux-X64.tar.gz\n", names[0]))
    cases.insert(0, ("aaa  bloch-v1.2.3-Linux-X64.tar.gz old\n", names[0]))
    return cases

H = 3600
def gen_seqs(rng, n):
    cases = []
    vers = ["1.0.0", "1.1.0", "v1.1.0", "2.0.0", "0.9.0", "nightly", "1.0.1", ""]
    for _ in range(n):
        t = 1700000000 + rng.randint(0, 10**6)
        if rng.random() < 0.4:
            disk = "none"
        else:
            disk = "%d:%s:%d" % (t - rng.choice([0, 10, 71 * H, 72 * H, 73 * H, 500 * H]), hx(rng.choice(vers)),
                                 rng.choice([0, t - 73 * H, t - 72 * H, t - 72 * H + 1, t - 10, t + 5]))
        cur = rng.choice(["1.0.0", "1.0.0", "v1.0.0", "0.9.0", "unknown", "1.1.0"])
        invs = []
        for _ in range(rng.randint(1, 8)):
            t += rng.choice([0, 1, 60, H, 24 * H, 71 * H, 72 * H - 1, 72 * H, 72 * H + 1, 100 * H, -5])
            f = rng.choice(vers[:-1] + ["!", "v1.1.0\n", " 2.0.0", "1.0.1\r\n", "v9.9.9\n0", "2.0.0\r\n1700000000\n", "1.1.0\n\n2.0.0"])   # a tag may arrive with white space around it
            r = rng.random()
            mode = 1 if r < 0.12 else (2 if r < 0.22 else (3 if r < 0.28 else (4 if r < 0.34 else 0)))   # 1 disabled by environment, 2/3/4 cache cannot be written
            invs.append("%d %d %s %s" % (t, mode, hx(cur), "!" if f == "!" else hx(f)))
        cases.append("seq %s %s" % (disk, " ".join(invs)))
    # a cache that holds a newer release and cannot be rewritten, three runs within seconds (then writable again)
    t = 1700000000
    # a tag with a line break inside: never parsable as a whole, must not come back from the cache as its first line
    cases.insert(0, "seq none " + " ".join("%d 0 %s %s" % (t + k * 71 * H, hx("1.0.0"), hx("v9.9.9\n0")) for k in range(3)))
    for mode in (2, 3, 4):
        cases.insert(0, "seq %d:%s:0 " % (t, hx("v2.0.0")) + " ".join("%d %d %s %s" % (t + k, m, hx("1.0.0"), hx("v2.0.0"))
                                                                   for k, m in enumerate([mode, mode, mode, 0, 0])))
    return cases

def spec_seq_ok(case, out):
    """notices at most one per 72 h window, none when disabled, only for strictly newer releases"""
    toks = case.split()
    disk = toks[1]
    invs = [toks[i:i + 4] for i in range(2, len(toks), 4)]
    out, _, ann = out.partition(" ||")
    m = re.match(r"^((?:\d+ )+)\| (\S+)$", out)
    if not m:
        return False
    # every announced release must be strictly newer than the running version
    curs = {int(i[0]): bytes.fromhex(i[2]).decode("latin-1") if i[2] != "-" else "" for i in invs}
    for a in ann.split():
        t, _, vh = a.partition(":")
        v = bytes.fromhex(vh).decode("latin-1") if vh != "-" else ""
        c = curs.get(int(t), "")
        pc, pv = spec_parse(c), spec_parse(v)
        if pc is None or pv is None or not (pc < pv):
            return False
    counts = [int(x) for x in m.group(1).split()]
    if len(counts) != len(invs):
        return False
    last = None
    for (n, sk, cur, f), c in zip(invs, counts):
        n = int(n)
        if c > 1:
            return False
        if c == 1:
            if sk == "1":
                return False
            if last is not None and n - last < 72 * H:
                return False
            last = n
    return True

def subsecond_runs(chk, drv, rng, n, drv_ml=None):
    """the clock has sub-second resolution, the cache file has whole seconds: two notices must still be 72 hours apart in real
    time (implementation against the statement; the model's clock is in whole seconds).  Hook H5 takes <seconds>.<ms>."""
    tmp = os.path.join(vlib.BUILD, "tmp", "c20sub-%d" % os.getpid())
    os.makedirs(tmp, exist_ok=True)
    lines, times = [], []
    for k in range(n):
        t0 = 1700000000 + rng.randint(0, 10**6)
        ms0 = rng.choice([0, 1, 500, 900, 999]) if k else 900
        ts = [(t0, ms0)]
        for _ in range(rng.randint(1, 3)):
            t, ms = ts[-1]
            d = rng.choice([72 * H - 1, 72 * H, 72 * H, 72 * H + 1, 10]) if k else 72 * H
            ts.append((t + d, rng.choice([0, 1, 100, 499, 999]) if k else 100))
        times.append([t + ms / 1000.0 for t, ms in ts])
        lines.append("seq none " + " ".join("%d.%03d 0 %s %s" % (t, ms, hx("1.0.0"), hx("v1.1.0")) for t, ms in ts))
    try:
        cf = os.path.join(tmp, "cases.txt")
        open(cf, "w").write("\n".join(lines) + "\n")
        rc, out = vlib.sh([drv, cf, os.path.join(tmp, "cache")], timeout=600, env={"HOME": tmp})
    finally:
        shutil.rmtree(tmp, ignore_errors=True)
    res = out.splitlines()
    second = 0
    stored_checked = 0
    for line, ts, r in zip(lines, times, res + ["CRASH"] * (len(lines) - len(res))):
        m = re.match(r"^((?:\d+ )+)\|", r)
        counts = [int(x) for x in m.group(1).split()] if m else None
        bad = None
        if counts is None or len(counts) != len(ts):
            bad = "no result: %r" % r[:120]
        else:
            last = None
            for t, c in zip(ts, counts):
                if c > 1 or (c == 1 and last is not None and t - last < 72 * H):
                    bad = "notices %.3f s apart, less than 72 hours (%d s)" % (t - last if last is not None else 0, 72 * H)
                if c >= 1:
                    second += last is not None
                    last = t
            if counts[0] != 1:
                bad = bad or "no notice on the first run with an empty cache"
            # the time of the last notice as the cache file keeps it: the model's stored_up (whole seconds, rounded up)
            md = re.search(r"\| (\d+):\S*:(\d+) \|\|", r)
            if not bad and md and drv_ml and last is not None:
                ms = int(round(last * 1000))
                tmpf = os.path.join(vlib.BUILD, "tmp", "c20st-%d.txt" % os.getpid())
                open(tmpf, "w").write("stored %d\n" % ms)
                rcm, outm = vlib.sh([drv_ml, tmpf], timeout=60)
                os.remove(tmpf)
                stored_checked += 1
                if rcm != 0 or outm.strip() != md.group(2):
                    bad = "the cache file keeps %s s for a notice at %d ms; the model's stored_up gives %s" % (md.group(2), ms, outm.strip())
        if bad:
            chk.report("c20-subsecond", {"case_line": line, "times": ts, "impl": r,
                                         "how": "drv_update cases.txt cachedir (seq: BLOCH_VERIF_NOW=<s>.<ms> per invocation; prints notices per invocation)"}, bad)
    return {"histories": len(lines), "second_notices_seen": second, "stored_times_compared_with_model": stored_checked}


def run(chk):
    quick = chk.tier == "quick"
    ok = chk.proofs()
    drv_ml = vlib.ocaml_engine("update")
    # C20 needs no library from the repo build: the driver TU includes update_manager.cpp itself
    um = os.path.join(vlib.REPO, "src/bloch/update/update_manager.cpp")
    drv = vlib.cpp_driver("drv_update", extra_flags="-DCPPHTTPLIB_OPENSSL_SUPPORT", link_flags="-lssl -lcrypto", libs=(),
                          deps=(um, os.path.join(vlib.REPO, "src/third_party/cpp-httplib/httplib.h")))
    rng = chk.rng
    vers = gen_versions(rng, 150 if quick else 1500)
    cases = []
    for v in vers:
        cases.append(("semver", "semver %s" % hx(v), (v,)))
    pairs = []
    core = vers[:60]
    for a in core:
        for b in core:
            pairs.append((a, b))
    for _ in range(1500 if quick else 40000):
        pairs.append((rng.choice(vers), rng.choice(vers)))
    pairs = list(dict.fromkeys(pairs))
    for a, b in pairs:
        cases.append(("action", "action %s %s" % (hx(a), hx(b)), (a, b)))
    checks = gen_checksums(rng, 400 if quick else 6000)
    for content, asset in checks:
        cases.append(("checksum", "checksum %s %s" % (hx(content), hx(asset)), (content, asset)))
    for content, asset, actual in gen_verdicts(rng, checks):
        cases.append(("verdict", "verdict %s %s %s" % ("!" if content is None else hx(content), hx(asset), hx(actual)), (content, asset, actual)))
    for s in gen_seqs(rng, 400 if quick else 6000):
        cases.append(("seq", s, (s,)))
    tmp = os.path.join(vlib.BUILD, "tmp", "c20-%d" % os.getpid())
    os.makedirs(tmp, exist_ok=True)
    try:
        cf = os.path.join(tmp, "cases.txt")
        with open(cf, "w") as f:
            for _, line, _ in cases:
                f.write(line + "\n")
        rc1, out_m = vlib.sh([drv_ml, cf], timeout=1200)
        env = {k: v for k, v in os.environ.items()}
        rc2, out_c = vlib.sh([drv, cf, os.path.join(tmp, "cache")], timeout=1800, env={"HOME": tmp})
    finally:
        shutil.rmtree(tmp, ignore_errors=True)
    lm, lc = out_m.splitlines(), out_c.splitlines()
    if rc1 != 0 or len(lm) != len(cases):
        raise RuntimeError("model driver failed rc=%d lines=%d/%d: %s" % (rc1, len(lm), len(cases), out_m[-500:]))
    kinds = {}
    disagreements = 0
    unexplained = []
    crashed_at = None
    if len(lc) < len(cases):
        crashed_at = len(lc)
        lc = lc + ["CRASH"] * (len(cases) - len(lc))
    for i, ((kind, line, args), m, c) in enumerate(zip(cases, lm, lc)):
        kinds[kind] = kinds.get(kind, 0) + 1
        spec_ok = True
        if kind == "action":
            spec_ok = spec_action_ok(args[0], args[1], c)
        elif kind == "checksum":
            spec_ok = spec_checksum_ok(args[0], args[1], c)
        elif kind == "verdict":
            spec_ok = spec_verdict_ok(args[0], args[1], args[2], c)
        elif kind == "seq":
            spec_ok = spec_seq_ok(args[0], c)
        elif kind == "semver":
            spec_ok = not c.startswith("EXC") and c != "CRASH"
        if i < 3 or (kind in ("checksum", "verdict", "seq") and kinds[kind] <= 1):
            chk.sample({"case": line if len(line) < 300 else line[:300] + "...", "decoded": [(a[:120] if a is not None else None) for a in args], "model": m, "impl": c})
        if kind == "seq":
            c_full, c = c, c.partition(" ||")[0]
        else:
            c_full = c
        if m != c:
            disagreements += 1
            payload = {"kind": kind, "case_line": line, "decoded": args, "model": m, "impl": c,
                       "how": "build/drivers/hooked/drv_update <file with case_line> <scratch cache dir>"}
            if not spec_ok:
                chk.report("c20-" + kind, payload, "updater %s decision wrong on %r: impl=%s expected=%s" % (kind, args, c, m))
            else:
                unexplained.append(payload)
        elif not spec_ok:
            chk.violation("c20-spec-" + kind, {"kind": kind, "case_line": line, "decoded": args, "impl": c},
                          "impl and model agree but the statement-level oracle rejects %r -> %s" % (args, c))
        if crashed_at is not None and i == crashed_at:
            break
    if unexplained:
        chk.violation("c20-correspondence", {"theorem": "correspondence update_model <-> update_manager.cpp (relation: equal output per case)",
                                             "first": unexplained[:5], "count": len(unexplained)},
                      "model and implementation disagree on %d cases where the statement-level oracle finds no fault" % len(unexplained),
                      no_input=True)
    sub = subsecond_runs(chk, drv, rng, 60 if quick else 1500, drv_ml)
    chk.cov.update({
        "traces_validated_against_impl": len(cases), "disagreements": disagreements, "subsecond_histories": sub,
        "case_kinds": kinds, "distinct_version_strings": len(vers), "version_pairs": len(pairs),
        "rule": "structured version strings (v-prefix, 1-4 components incl. INT_MAX+-1 and 11/20-digit runs, suffixes, garbage); "
                "all pairs of a 60-string core plus random pairs; generated checksums.txt (reordered, similarly named assets, "
                "malformed/reversed lines); verification verdicts for those files with the listed digest (lower / upper case), a wrong one, a one-digit "
                "difference, and no checksums.txt; invocation histories over a scratch cache with stubbed clock and lookup, a tenth of the invocations "
                "disabled by environment and a fifth with a cache that cannot be written (hook, directory blocked, file linked to /dev/null); entries for files whose "
                "name only begins like the asset's (\"<asset> (1)\", \"<asset> old\"), trailing blanks and CR; histories with millisecond clocks around the 72-hour edge",
    })
    chk.assumptions += ["the release lookup returns an arbitrary tag (stubbed)", "the model's clock is in whole seconds; sub-second histories are checked against the statement directly"]
