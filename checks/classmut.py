"""One rule-directed edit of a valid class program (C16, class rules): visibility of a field / method / constructor,
`final` and `static` toggles, class kind, a declared class type swapped for a relative, a `new` retargeted, `extends`
dropped.  The edit keeps the program expressible in both renderings; whether it is still valid is decided by the
reference checker (ClassTyping.v) and by the analyser, independently."""
import copy
from checks import langgen as lg


def _walk_body_decl_types(body, fn):
    """apply fn to every ("decl", final, ty, name, init) in a statement list (in place, nested)"""
    for i, s in enumerate(body):
        if s[0] == "decl":
            r = fn(s)
            if r is not None:
                body[i] = r
                return True
        for sub in [x for x in s[1:] if isinstance(x, list)]:
            if sub and isinstance(sub[0], tuple) and isinstance(sub[0][0], str) and _walk_body_decl_types(sub, fn):
                return True
    return False


def class_mutate(rng, fns, classes):
    fns = copy.deepcopy(fns)
    classes = copy.deepcopy(classes)
    names = [c["name"] for c in classes]
    for _ in range(20):
        c = rng.choice(classes)
        k = rng.choice(["fvis", "mvis", "cvis", "ffinal", "mstatic", "ckind", "decl-class", "new-class", "drop-base", "param-type", "ret-type"])
        if k == "fvis" and c["fields"]:
            i = rng.randrange(len(c["fields"]))
            v = rng.choice(["priv", "prot"])
            c["fields"][i] = lg._f(c["fields"][i])[:5] + (v,)
            return fns, classes, "field-visibility %s.%s -> %s" % (c["name"], c["fields"][i][3], v)
        if k == "mvis" and c["meths"]:
            i = rng.randrange(len(c["meths"]))
            v = rng.choice(["priv", "prot"])
            if c["meths"][i][5]:
                continue            # visibility of virtual/override members has consistency rules of its own
            c["meths"][i] = lg._m(c["meths"][i])[:6] + (v,)
            return fns, classes, "method-visibility %s.%s -> %s" % (c["name"], c["meths"][i][0], v)
        if k == "cvis" and c["ctors"]:
            i = rng.randrange(len(c["ctors"]))
            v = rng.choice(["priv", "prot"])
            c["ctors"][i] = lg._c(c["ctors"][i])[:4] + (v,)
            return fns, classes, "constructor-visibility %s/%d -> %s" % (c["name"], len(c["ctors"][i][0]), v)
        if k == "ffinal" and c["fields"]:
            i = rng.randrange(len(c["fields"]))
            f = lg._f(c["fields"][i])
            c["fields"][i] = (f[0], not f[1]) + f[2:]
            return fns, classes, "field-final %s.%s" % (c["name"], f[3])
        if k == "fstatic" and c["fields"]:
            i = rng.randrange(len(c["fields"]))
            f = lg._f(c["fields"][i])
            c["fields"][i] = (not f[0],) + f[1:]
            return fns, classes, "field-static %s.%s" % (c["name"], f[3])
        if k == "mstatic" and c["meths"]:
            i = rng.randrange(len(c["meths"]))
            m = lg._m(c["meths"][i])
            if m[5]:
                continue
            c["meths"][i] = m[:4] + (not m[4],) + m[5:]
            return fns, classes, "method-static %s.%s" % (c["name"], m[0])
        if k == "ckind":
            c["kind"] = rng.choice(["abstract", "static"])
            return fns, classes, "class-kind %s -> %s" % (c["name"], c["kind"])
        if k == "decl-class" and len(names) > 1:
            tgt = rng.choice(names)
            def f(s, tgt=tgt):
                if lg.is_cls(s[2]) and s[2][1] != tgt and rng.random() < 0.5:
                    return (s[0], s[1], ("cls", tgt)) + tuple(s[3:])
                return None
            for fn_ in fns:
                if _walk_body_decl_types(fn_[3], f):
                    return fns, classes, "declared-class -> %s" % tgt
        if k == "drop-base" and c.get("base"):
            b = c["base"]
            c["base"] = None
            return fns, classes, "extends-dropped %s (was %s)" % (c["name"], b)
        if k == "param-type" and c["meths"]:
            i = rng.randrange(len(c["meths"]))
            m = lg._m(c["meths"][i])
            if m[1] and not m[5]:
                j = rng.randrange(len(m[1]))
                nt = rng.choice(["int", "str", "bool", "float"])
                ps = list(m[1]); ps[j] = (nt, ps[j][1])
                c["meths"][i] = (m[0], ps) + m[2:]
                return fns, classes, "parameter-type %s.%s #%d -> %s" % (c["name"], m[0], j, nt)
        if k == "ret-type" and c["meths"]:
            i = rng.randrange(len(c["meths"]))
            m = lg._m(c["meths"][i])
            # (a non-void method whose body has no return is accepted by the analyser; that rule is documented for
            #  functions but is not among the rules C16 lists, so the edit is not made there - DESIGN s.13)
            if not m[5] and any(x[0] == "ret" for x in m[3]):
                nt = rng.choice(["int", "str", "bool", "void", "float"])
                c["meths"][i] = m[:2] + (nt,) + m[3:]
                return fns, classes, "return-type %s.%s -> %s" % (c["name"], m[0], nt)
    return None
