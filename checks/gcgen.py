"""Programs for C11: object graphs held by variables, fields, statics, pending arguments and return values,
with allocation bursts at the points where a collection could be triggered."""
from checks import langgen as lg

S = lambda x: ("s", x)
I = lambda x: ("i", x)
V = lambda x: ("v", x)
T = ("this",)


def classes(with_pair_dtor, leaf_dtor=True, node_dtor=True):
    leaf = dict(name="Leaf", base=None, fields=[(False, False, "int", "v", None)],
                ctors=[([("int", "v")], None, [("expr", ("fset", T, "v", V("v")))], False)],
                meths=[("plus", [("int", "k")], "int", [("ret", ("bin", "+", ("fld", T, "v"), V("k")))], False, "")],
                dtor=[("echo", ("bin", "+", S("~Leaf "), ("fld", T, "v"))), ("echo", S("~Leaf done"))] if leaf_dtor else None)
    node = dict(name="Node", base=None, fields=[(False, False, "int", "v", None), (False, False, ("cls", "Node"), "next", None)],
                ctors=[([("int", "v")], None, [("expr", ("fset", T, "v", V("v")))], False)],
                meths=[("sum", [], "int", [("if", ("bin", "==", ("fld", T, "next"), ("null",)), ("block", [("ret", ("fld", T, "v"))]), None),
                                           ("ret", ("bin", "+", ("fld", T, "v"), ("mcall", ("fld", T, "next"), "sum", [])))], False, "")],
                dtor=[("echo", ("bin", "+", S("~Node "), ("fld", T, "v")))] if node_dtor else None)
    pair = dict(name="Pair", base=None, fields=[(False, False, ("cls", "Leaf"), "left", None), (False, False, ("cls", "Leaf"), "right", None)],
                ctors=[([(("cls", "Leaf"), "l"), (("cls", "Leaf"), "r")], None,
                        [("expr", ("fset", T, "left", V("l"))), ("expr", ("fset", T, "right", V("r")))], False)],
                meths=[("total", [], "int", [("ret", ("bin", "+", ("fld", ("fld", T, "left"), "v"), ("fld", ("fld", T, "right"), "v")))], False, "")],
                dtor=[("echo", S("~Pair"))] if with_pair_dtor else None)
    junk = dict(name="Junk", base=None, fields=[(False, False, "int", "n", None)],
                ctors=[([("int", "n")], None, [("expr", ("fset", T, "n", V("n")))], False)], meths=[], dtor=None)
    holder = dict(name="Holder", base=None, fields=[(True, False, ("cls", "Node"), "keep", None), (True, False, "int", "hits", I(0))],
                  ctors=[([], None, [], False)], meths=[], dtor=None)
    return [leaf, node, pair, junk, holder]


def functions():
    churn = ("churn", "int", [("int", "n")],
             [("decl", False, "int", "total", I(0)),
              ("for", ("decl", False, "int", "i", I(0)), ("bin", "<", V("i"), V("n")), ("expr", ("asg", "i", ("bin", "+", V("i"), I(1)))),
               ("block", [("decl", False, ("cls", "Junk"), "j", ("new", "Junk", [V("i")])),
                          ("set", "total", ("bin", "+", V("total"), ("fld", V("j"), "n")))])),
              ("ret", V("total"))])
    mk = ("mk", ("cls", "Leaf"), [("int", "v"), ("int", "burst")],
          [("decl", False, ("cls", "Leaf"), "x", ("new", "Leaf", [V("v")])),
           ("decl", False, "int", "c", ("call", "churn", [V("burst")])),
           ("ret", V("x"))])
    show = ("show", "void", [(("cls", "Pair"), "p"), ("int", "extra")],
            [("echo", ("mcall", V("p"), "total", [])), ("echo", V("extra"))])
    chainf = ("chain", ("cls", "Node"), [("int", "n"), ("int", "burst")],
              [("decl", False, ("cls", "Node"), "head", ("new", "Node", [V("n")])),
               ("if", ("bin", ">", V("n"), I(1)), ("block", [("expr", ("fset", V("head"), "next", ("call", "chain", [("bin", "-", V("n"), I(1)), V("burst")])))]), None),
               ("decl", False, "int", "c", ("call", "churn", [V("burst")])),
               ("ret", V("head"))])
    peek = ("peek", "int", [("int", "v"), ("int", "burst")],
            [("decl", False, ("cls", "Leaf"), "x", ("new", "Leaf", [V("v")])),
             ("decl", False, "int", "c", ("call", "churn", [V("burst")])),
             ("ret", ("bin", "+", ("fld", V("x"), "v"), I(1)))])
    return [churn, mk, show, chainf, peek]


def gen(rng):
    # plain classes too: an object without a destructor is protected by marking alone, not by the rule for observable releases
    cl = classes(rng.random() < 0.5, rng.random() < 0.6, rng.random() < 0.6)
    fns = functions()
    body = []
    nv = [0]
    def burst():
        return I(rng.choice([0, 3, 17, 20, 40]))
    def fresh(p):
        nv[0] += 1
        return "%s%d" % (p, nv[0])
    live = []      # (var, class) objects with destructors still held by main
    for _ in range(rng.randint(3, 7)):
        k = rng.random()
        if k < 0.2:
            a, b = rng.randint(1, 9), rng.randint(1, 9)
            body.append(("expr", ("call", "show", [("new", "Pair", [("new", "Leaf", [I(a)]), ("new", "Leaf", [I(b)])]), ("call", "churn", [burst()])])))
        elif k < 0.35:
            x = fresh("t")
            body.append(("decl", False, ("cls", "Leaf"), x, ("call", "mk", [I(rng.randint(1, 9)), burst()])))
            body.append(("echo", ("fld", V(x), "v")))
            live.append(x)
        elif k < 0.5:
            x = fresh("h")
            body.append(("decl", False, ("cls", "Node"), x, ("call", "chain", [I(rng.randint(1, 4)), burst()])))
            body.append(("expr", ("call", "churn", [burst()])))
            body.append(("echo", ("mcall", V(x), "sum", [])))
            live.append(x)
        elif k < 0.65:
            # a cycle that becomes garbage: only the cycle collector can reclaim it, silently
            a, b = fresh("a"), fresh("b")
            body += [("decl", False, ("cls", "Node"), a, ("new", "Node", [I(rng.randint(10, 19))])),
                     ("decl", False, ("cls", "Node"), b, ("new", "Node", [I(rng.randint(20, 29))])),
                     ("expr", ("fset", V(a), "next", V(b))), ("expr", ("fset", V(b), "next", V(a))),
                     ("echo", ("fld", ("fld", V(a), "next"), "v")),
                     ("set", a, ("null",)), ("set", b, ("null",)),
                     ("expr", ("call", "churn", [burst()])), ("echo", S("cycle dropped"))]
        elif k < 0.8:
            body += [("expr", ("sfset", "Holder", "keep", ("call", "chain", [I(rng.randint(1, 3)), burst()]))),
                     ("expr", ("call", "churn", [burst()])),
                     ("echo", ("mcall", ("sfld", "Holder", "keep"), "sum", [])),
                     ("expr", ("sfset", "Holder", "keep", ("null",))),
                     ("echo", S("static dropped"))]
        elif k < 0.86:
            body.append(("echo", ("mcall", ("new", "Leaf", [I(rng.randint(1, 9))]), "plus", [("call", "churn", [burst()])])))
        elif k < 0.92:
            body.append(("echo", ("call", "peek", [I(rng.randint(1, 9)), burst()])))
        else:
            x = fresh("p")
            body += [("decl", False, ("cls", "Pair"), x, ("new", "Pair", [("call", "mk", [I(rng.randint(1, 9)), burst()]), ("new", "Leaf", [I(rng.randint(1, 9))])])),
                     ("expr", ("call", "churn", [burst()])),
                     ("echo", ("mcall", V(x), "total", []))]
            live.append(x)
        if live and rng.random() < 0.3:
            x = live.pop(rng.randrange(len(live)))
            body.append(("set", x, ("null",)))
            body.append(("echo", S("dropped " + x)))
    rng.shuffle(live)
    for x in live:
        body.append(("set", x, ("null",)))
    body.append(("echo", S("end")))
    return fns + [("main", "void", [], body)], cl
