"""Generic-class programs (C08: each instantiation gets its own specialisation; C12: no crash; C18: shots).

The source declares generic templates once; the reference interpreter receives one monomorphic class per
instantiation that the program reaches (named like the source type, e.g. `Cell<string>`), which is what
"runtime monomorphisation" in docs/bloch_class_system.md means."""
from checks import langgen as lg

S = lambda x: ("s", x)
I = lambda x: ("i", x)
V = lambda x: ("v", x)
T_ = ("this",)

SRC_TY = {"int": "int", "long": "long", "float": "float", "str": "string", "bool": "boolean"}


def tname(t):
    return SRC_TY[t]


def cls(name, *args):
    return "%s<%s>" % (name, ",".join(tname(a) for a in args))


def lit(rng, t):
    if t == "int":
        return I(rng.choice([0, 3, 7, 12]))
    if t == "long":
        return ("l", rng.choice([1, 5, 9000000000]))
    if t == "float":
        return ("f", rng.choice([1, 3, 5]), rng.choice([0, 1, 2]))
    if t == "str":
        return S(rng.choice(["a", "seven", "xy", ""]))
    return ("B", rng.randint(0, 1))


# ---------------------------------------------------------------------------- templates: source text
CELL_SRC = """class Cell<T> {
  public T v;
  public int hits = 0;
  public constructor() -> Cell<T> { echo("Cell()"); }
  public constructor(T v) -> Cell<T> { this.v = v; echo("Cell(T)"); }
  public function get() -> T { return this.v; }
  public function set(T x) -> void { this.v = x; hits = hits + 1; }
  public virtual function describe() -> string { return "cell " + this.v; }
  public virtual function describe(int pad) -> string { return "cell/" + pad + " " + this.v; }
  public virtual function describe(int pad, int more) -> string { return "cell/" + (pad + more) + " " + describe(); }
}
"""
LABELED_SRC = """class Labeled<T> extends Cell<T> {
  public string label;
  public constructor(string l, T v) -> Labeled<T> { super(v); this.label = l; echo("Labeled"); }
  public override function describe() -> string { return label + ":" + super.describe(); }
  public override function describe(int pad) -> string { return label + "/" + pad; }
}
"""
ENTRY_SRC = """class Entry<T, U> {
  public T key;
  public Cell<U> inner;
  public constructor(T k, U v) -> Entry<T, U> { this.key = k; this.inner = new Cell<U>(v); echo("Entry"); }
  public function show() -> string { return "" + this.key + "=" + this.inner.describe(); }
  public function fresh() -> Cell<U> { Cell<U> c = new Cell<U>(); return c; }
}
"""
WRAP_SRC = """class Wrap<T> {
  public Cell<T> c;
  public constructor(T v) -> Wrap<T> { this.c = new Cell<T>(v); }
  public function twice() -> string { return this.c.describe(1) + "|" + this.c.describe(1, 2); }
}
"""


# ---------------------------------------------------------------------------- templates: monomorphic model classes
def cell_m(t):
    n = cls("Cell", t)
    tv = ("fld", T_, "v")
    return dict(name=n, base=None,
                fields=[(False, False, t, "v", None), (False, False, "int", "hits", I(0))],
                ctors=[([], None, [("echo", S("Cell()"))], False),
                       ([(t, "v")], None, [("expr", ("fset", T_, "v", V("v"))), ("echo", S("Cell(T)"))], False)],
                meths=[("get", [], t, [("ret", tv)], False, ""),
                       ("set", [(t, "x")], "void", [("expr", ("fset", T_, "v", V("x"))), ("set", "hits", ("bin", "+", V("hits"), I(1)))], False, ""),
                       ("describe", [], "str", [("ret", ("bin", "+", S("cell "), tv))], False, "virtual"),
                       ("describe", [("int", "pad")], "str", [("ret", ("bin", "+", ("bin", "+", ("bin", "+", S("cell/"), V("pad")), S(" ")), tv))], False, "virtual"),
                       ("describe", [("int", "pad"), ("int", "more")], "str",
                        [("ret", ("bin", "+", ("bin", "+", ("bin", "+", S("cell/"), ("bin", "+", V("pad"), V("more"))), S(" ")), ("call", "describe", [])))], False, "virtual")],
                dtor=None)


def labeled_m(t):
    n = cls("Labeled", t)
    return dict(name=n, base=cls("Cell", t),
                fields=[(False, False, "str", "label", None)],
                ctors=[([("str", "l"), (t, "v")], [V("v")], [("expr", ("fset", T_, "label", V("l"))), ("echo", S("Labeled"))], False)],
                meths=[("describe", [], "str", [("ret", ("bin", "+", ("bin", "+", V("label"), S(":")), ("super", "describe", [])))], False, "override"),
                       ("describe", [("int", "pad")], "str", [("ret", ("bin", "+", ("bin", "+", V("label"), S("/")), V("pad")))], False, "override")],
                dtor=None)


def entry_m(t, u):
    n = cls("Entry", t, u)
    cu = cls("Cell", u)
    return dict(name=n, base=None,
                fields=[(False, False, t, "key", None), (False, False, ("cls", cu), "inner", None)],
                ctors=[([(t, "k"), (u, "v")], None, [("expr", ("fset", T_, "key", V("k"))), ("expr", ("fset", T_, "inner", ("new", cu, [V("v")]))), ("echo", S("Entry"))], False)],
                meths=[("show", [], "str", [("ret", ("bin", "+", ("bin", "+", ("bin", "+", S(""), ("fld", T_, "key")), S("=")), ("mcall", ("fld", T_, "inner"), "describe", [])))], False, ""),
                       ("fresh", [], ("cls", cu), [("decl", False, ("cls", cu), "c", ("new", cu, [])), ("ret", V("c"))], False, "")],
                dtor=None)


def wrap_m(t):
    n = cls("Wrap", t)
    ct = cls("Cell", t)
    return dict(name=n, base=None, fields=[(False, False, ("cls", ct), "c", None)],
                ctors=[([(t, "v")], None, [("expr", ("fset", T_, "c", ("new", ct, [V("v")])))], False)],
                meths=[("twice", [], "str", [("ret", ("bin", "+", ("bin", "+", ("mcall", ("fld", T_, "c"), "describe", [I(1)]), S("|")),
                                                     ("mcall", ("fld", T_, "c"), "describe", [I(1), I(2)])))], False, "")],
                dtor=None)


KEY_SRC = """class Key {
  public int id;
  public constructor(int id) -> Key { this.id = id; }
  public function show() -> string { return "key#" + this.id; }
}
"""
HOLDER_SRC = """class Holder {
  public Key current;
  public constructor(Key k) -> Holder { this.current = k; }
  public function getKey() -> Key { return this.current; }
  public function describe() -> string { return "holding " + this.current.show(); }
}
"""


def key_m():
    return dict(name="Key", base=None, fields=[(False, False, "int", "id", None)],
                ctors=[([("int", "id")], None, [("expr", ("fset", T_, "id", V("id")))], False)],
                meths=[("show", [], "str", [("ret", ("bin", "+", S("key#"), ("fld", T_, "id")))], False, "")], dtor=None)


def holder_m():
    return dict(name="Holder", base=None, fields=[(False, False, ("cls", "Key"), "current", None)],
                ctors=[([(("cls", "Key"), "k")], None, [("expr", ("fset", T_, "current", V("k")))], False)],
                meths=[("getKey", [], ("cls", "Key"), [("ret", ("fld", T_, "current"))], False, ""),
                       ("describe", [], "str", [("ret", ("bin", "+", S("holding "), ("mcall", ("fld", T_, "current"), "show", [])))], False, "")],
                dtor=None)


# a generic class in the middle of a hierarchy: virtual dispatch through a specialisation that inherits its overrides
HIER_SRC = """class Root0 {
  public constructor() -> Root0 { }
  public virtual function who() -> string { return "Root0"; }
  public virtual function rank() -> int { return 0; }
  public function intro() -> string { return "I am " + who() + "/" + rank(); }
}
class Mid0 extends Root0 {
  public constructor() -> Mid0 { super(); }
  public override function who() -> string { return "Mid0"; }
}
class GLeaf<T> extends Mid0 {
  public int tag = 1;
  public constructor() -> GLeaf<T> { super(); }
  public override function rank() -> int { return 2 + this.tag; }
}
class IntLeaf0 extends GLeaf<int> {
  public constructor() -> IntLeaf0 { super(); }
}
"""


def hier_m(types):
    who = lambda n: ("who", [], "str", [("ret", S(n))], False, "virtual" if n == "Root0" else "override")
    out = [dict(name="Root0", base=None, fields=[], ctors=[([], None, [], False)],
                meths=[who("Root0"), ("rank", [], "int", [("ret", I(0))], False, "virtual"),
                       ("intro", [], "str", [("ret", ("bin", "+", ("bin", "+", ("bin", "+", S("I am "), ("call", "who", [])), S("/")), ("call", "rank", [])))], False, "")],
                dtor=None),
           dict(name="Mid0", base="Root0", fields=[], ctors=[([], [], [], False)], meths=[who("Mid0")], dtor=None)]
    for t in types:
        out.append(dict(name=cls("GLeaf", t), base="Mid0", fields=[(False, False, "int", "tag", I(1))], ctors=[([], [], [], False)],
                        meths=[("rank", [], "int", [("ret", ("bin", "+", I(2), ("fld", T_, "tag")))], False, "override")], dtor=None))
    out.append(dict(name="IntLeaf0", base=cls("GLeaf", "int"), fields=[], ctors=[([], [], [], False)], meths=[], dtor=None))
    return out


def gen(rng, chunks=False):
    """-> (source text, fns, classes-for-the-model); chunks=True returns the source as a list of top-level declarations"""
    types = ["int", "long", "float", "str", "bool"]
    need = {}          # model classes by name

    def want_cell(t):
        need.setdefault(cls("Cell", t), cell_m(t))

    body = []
    nv = [0]

    def fresh(p):
        nv[0] += 1
        return "%s%d" % (p, nv[0])

    steps = rng.randint(3, 7)
    for _ in range(steps):
        k = rng.random()
        if k < 0.3:
            t = rng.choice(types)
            want_cell(t)
            x = fresh("c")
            ctor_args = [lit(rng, t)] if rng.random() < 0.7 else []
            body.append(("decl", False, ("cls", cls("Cell", t)), x, ("new", cls("Cell", t), ctor_args)))
            body.append(("echo", ("mcall", V(x), "describe", [])))
            if rng.random() < 0.6:
                body.append(("expr", ("mcall", V(x), "set", [lit(rng, t)])))
                body.append(("echo", ("mcall", V(x), "get", [])))
            if rng.random() < 0.6:
                body.append(("echo", ("mcall", V(x), "describe", [I(rng.randint(1, 4))])))
            if rng.random() < 0.5:
                body.append(("echo", ("mcall", V(x), "describe", [I(1), I(rng.randint(1, 4))])))
            body.append(("echo", ("fld", V(x), "hits")))
        elif k < 0.55:
            # the inner specialisation Cell<U> is first reached from inside Entry<T,U>, T <> U
            t, u = rng.sample(types, 2)
            want_cell(u)
            need.setdefault(cls("Entry", t, u), entry_m(t, u))
            x = fresh("e")
            body.append(("decl", False, ("cls", cls("Entry", t, u)), x, ("new", cls("Entry", t, u), [lit(rng, t), lit(rng, u)])))
            body.append(("echo", ("mcall", V(x), "show", [])))
            if rng.random() < 0.7:
                y = fresh("f")
                body.append(("decl", False, ("cls", cls("Cell", u)), y, ("mcall", V(x), "fresh", [])))
                body.append(("echo", ("mcall", V(y), "describe", [])))
                body.append(("expr", ("mcall", V(y), "set", [lit(rng, u)])))
                body.append(("echo", ("mcall", V(y), "get", [])))
        elif k < 0.8:
            t = rng.choice(types)
            want_cell(t)
            need.setdefault(cls("Labeled", t), labeled_m(t))
            x = fresh("l")
            st = cls("Labeled", t)      # (the analyser does not accept Labeled<int> where Cell<int> is declared; not claimed either way)
            body.append(("decl", False, ("cls", st), x, ("new", cls("Labeled", t), [S(rng.choice(["tag", "L"])), lit(rng, t)])))
            body.append(("echo", ("mcall", V(x), "describe", [])))
            body.append(("echo", ("mcall", V(x), "describe", [I(rng.randint(1, 3))])))
            body.append(("echo", ("mcall", V(x), "describe", [I(1), I(2)])))
        else:
            t = rng.choice(types)
            want_cell(t)
            need.setdefault(cls("Wrap", t), wrap_m(t))
            x = fresh("w")
            body.append(("decl", False, ("cls", cls("Wrap", t)), x, ("new", cls("Wrap", t), [lit(rng, t)])))
            body.append(("echo", ("mcall", V(x), "twice", [])))
    # ordinary classes next to the templates; sometimes a template's type parameter is spelled like one of them
    # (it shadows the class inside the template only)
    body.insert(0, ("decl", False, ("cls", "Key"), "k0", ("new", "Key", [I(rng.randint(1, 9))])))
    body.insert(1, ("decl", False, ("cls", "Holder"), "hd", ("new", "Holder", [V("k0")])))
    body.insert(2, ("echo", ("mcall", V("hd"), "describe", [])))
    body.insert(3, ("echo", ("mcall", ("mcall", V("hd"), "getKey", []), "show", [])))
    need["Key"] = key_m()
    need["Holder"] = holder_m()
    # the hierarchy with a generic class in the middle
    hier_types = ["int"] + rng.sample(["long", "str", "bool", "float"], rng.randint(0, 2))
    show = ("show", "void", [(("cls", "Root0"), "r")], [("echo", ("mcall", V("r"), "who", [])), ("echo", ("mcall", V("r"), "intro", []))])
    for t in hier_types:
        x = fresh("g")
        body.append(("decl", False, ("cls", cls("GLeaf", t)), x, ("new", cls("GLeaf", t), [])))
        body.append(("echo", ("mcall", V(x), "who", [])))
        body.append(("echo", ("mcall", V(x), "intro", [])))
        body.append(("echo", ("mcall", V(x), "rank", [])))
    body.append(("decl", False, ("cls", "IntLeaf0"), "il", ("new", "IntLeaf0", [])))
    body.append(("echo", ("mcall", V("il"), "intro", [])))
    body.append(("decl", False, ("cls", "Root0"), "up", V("il")))
    body.append(("echo", ("mcall", V("up"), "who", [])))
    body.append(("echo", ("mcall", V("up"), "rank", [])))
    body.append(("expr", ("call", "show", [V("il")])))
    body.append(("decl", False, ("cls", "Mid0"), "md", ("new", "Mid0", [])))
    body.append(("expr", ("call", "show", [V("md")])))
    for c in hier_m(hier_types):
        need[c["name"]] = c
    body.append(("echo", S("end")))
    fns = [show, ("main", "void", [], body)]
    classes = list(need.values())
    wrap_src = WRAP_SRC
    if rng.random() < 0.5:
        wrap_src = WRAP_SRC.replace("Wrap<T>", "Wrap<Key>").replace("Cell<T>", "Cell<Key>").replace("(T v)", "(Key v)")
    parts = [CELL_SRC, LABELED_SRC, ENTRY_SRC, wrap_src, KEY_SRC, HOLDER_SRC] + \
            [c + "\n}\n" for c in HIER_SRC.split("\n}\n") if c.strip()] + [lg.fn_src(f) for f in fns]
    if chunks:
        return parts, fns, classes
    return "\n".join(parts), fns, classes
