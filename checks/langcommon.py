"""Shared machinery for the checks that use the Lang reference interpreter (C07, C09, C10, C12, C18):
run programs on the extracted Coq interpreter and on the implementation, canonicalise, compare."""
import json
import os
import re
import shutil
import vlib
from checks import langgen as lg

FUEL = 3000
_RUN_NO = 0


def unhex(h):
    return "" if h == "-" else bytes.fromhex(h).decode("latin-1")


def parse_model(line):
    """'ok | hex hex'  /  'err kind |' / 'fuel |' / 'bad ...'"""
    head, _, tail = line.partition("|")
    w = head.split()
    if not w:
        return {"status": "bad", "raw": line}
    if w[0] == "ok":
        return {"status": "ok", "lines": [unhex(x) for x in tail.split()]}
    if w[0] == "err":
        k = w[1]
        if k.startswith("undoc:"):
            return {"status": "undoc", "why": unhex(k[6:])}
        if k.startswith("stuck:"):
            return {"status": "stuck", "why": unhex(k[6:])}
        return {"status": "err", "kind": k}
    if w[0] == "fuel":
        return {"status": "fuel"}
    return {"status": "bad", "raw": line}


ERR_PATTERNS = [
    (re.compile(r"null reference"), lambda m: "null"),
    (re.compile(r"division by zero"), lambda m: "divzero"),
    (re.compile(r"modulo by zero"), lambda m: "modzero"),
    (re.compile(r"index (-?\d+) out of bounds for length (\d+)"), lambda m: "index:%s:%s" % (m.group(1), m.group(2))),
    (re.compile(r"bit arrays must be same length"), lambda m: "bitlen"),
    (re.compile(r"array size must be non-negative"), lambda m: "negsize"),
    (re.compile(r"array initialiser length does not match"), lambda m: "initlen"),
]


def impl_err_kind(msg):
    for rx, f in ERR_PATTERNS:
        m = rx.search(msg or "")
        if m:
            return f(m)
    return "other:" + (msg or "")[:80]


def run_model(sx_lines, fuel=FUEL, timeout=1800):
    exe = vlib.ocaml_engine("lang")
    tmp = os.path.join(vlib.BUILD, "tmp", "langm-%d" % os.getpid())
    os.makedirs(tmp, exist_ok=True)
    try:
        p = os.path.join(tmp, "in.txt")
        with open(p, "w") as f:
            for s in sx_lines:
                f.write("run %d %s\n" % (fuel, s))
        rc, out = vlib.sh("ulimit -s 1000000 2>/dev/null; %s < %s" % (exe, p), timeout=timeout)
        ls = out.splitlines()
        if rc != 0 or len(ls) != len(sx_lines):
            raise RuntimeError("lang model driver failed rc=%d (%d/%d lines): %s" % (rc, len(ls), len(sx_lines), out[-400:]))
        return [parse_model(l) for l in ls]
    finally:
        shutil.rmtree(tmp, ignore_errors=True)


def run_impl(sources, kind="hooked", opts="", timeout=3600, per_case=20, env=""):
    """sources: list of Bloch source texts; returns the drv_prog JSON per case"""
    vlib.repo_build(kind)
    drv = vlib.cpp_driver("drv_prog", kind=kind) if kind != "hooked" else vlib.cpp_driver("drv_prog")
    global _RUN_NO
    _RUN_NO += 1
    tmp = os.path.join(vlib.BUILD, "tmp", "langi-%s-%d-%d" % (kind, os.getpid(), _RUN_NO))
    os.makedirs(tmp, exist_ok=True)
    try:
        with open(os.path.join(tmp, "cases.txt"), "w") as fc:
            for i, src in enumerate(sources):
                path = os.path.join(tmp, "p%05d.bloch" % i)
                open(path, "w").write(src)
                o = opts[i] if isinstance(opts, list) else opts
                fc.write("run %s %s\n" % (path, o))
        errp = os.path.join(tmp, "stderr.txt")
        rc, oc = vlib.sh("%s %s %s %d 2> %s" % (env, drv, os.path.join(tmp, "cases.txt"), per_case, errp), timeout=timeout)
        lc = oc.splitlines()
        errtxt = open(errp, errors="replace").read() if os.path.exists(errp) else ""
        if len(lc) != len(sources):
            raise RuntimeError("drv_prog produced %d/%d lines: %s" % (len(lc), len(sources), oc[-400:]))
        res = []
        for c in lc:
            try:
                res.append(json.loads(c))
            except Exception:
                res.append({"status": "unparsable", "raw": c[:500]})
        if errtxt.strip():
            # sanitizer reports of crashed children; attach to the cases that did not end normally
            for r in res:
                if r.get("status") in ("signal", "exit", "unparsable"):
                    r["sanitizer_log"] = errtxt[-6000:]
        return res
    finally:
        shutil.rmtree(tmp, ignore_errors=True)


def classify(model, impl):
    """-> (verdict, detail).  verdict: agree | skip:<why> | rejected | DISAGREE kinds"""
    st = impl.get("status")
    if st in ("signal", "exit", "timeout", "unparsable", "exception"):
        return "crash", "implementation ended with %s %s" % (st, impl.get("signal", impl.get("msg", "")))
    if st == "error" and impl.get("cat") in ("Semantic", "Parse", "Lexical"):
        return "rejected", "%s: %s" % (impl.get("cat"), impl.get("msg"))
    ms = model["status"]
    if ms in ("undoc", "fuel", "bad"):
        return "skip:" + ms, model.get("why", "")
    if ms == "stuck":
        return "skip:stuck", model.get("why", "")
    if ms == "ok":
        if st != "ok":
            return "error-unexpected", "model finishes, implementation: %s %s" % (impl.get("cat"), impl.get("msg"))
        exp = "".join(l + "\n" for l in model["lines"])
        if impl.get("stdout") != exp:
            a, b = exp.splitlines(), (impl.get("stdout") or "").splitlines()
            i = 0
            while i < len(a) and i < len(b) and a[i] == b[i]:
                i += 1
            return "output", "line %d: reference %r, implementation %r" % (
                i + 1, a[i] if i < len(a) else "<end>", b[i] if i < len(b) else "<end>")
        return "agree", ""
    if ms == "err":
        if st == "ok":
            return "error-missing", "reference raises %s, implementation finishes" % model["kind"]
        if impl.get("cat") != "Runtime":
            return "error-category", "reference raises %s, implementation: %s %s" % (model["kind"], impl.get("cat"), impl.get("msg"))
        k = impl_err_kind(impl.get("msg"))
        if k != model["kind"]:
            return "error-kind", "reference raises %s, implementation: %s" % (model["kind"], impl.get("msg"))
        if impl.get("line", 0) <= 0:
            return "error-unlocated", "runtime error without a source position: %s" % impl.get("msg")
        return "agree", ""
    return "skip:?", ""


def differential(chk, fns_list, tag, kind="hooked", fuel=FUEL):
    """run every program on both sides; report disagreements; returns (records, counts)"""
    def split(p):
        return (p, None) if isinstance(p, list) else p
    # a program is a function list, (functions, classes), or (functions, classes, source) when the source is not
    # a rendering of the model's classes (generic templates are declared once, the model gets one class per instantiation)
    sxs = [lg.prog_sx(*split(f)[:2]) for f in fns_list]
    srcs = [split(f)[2] if len(split(f)) == 3 else lg.prog_src(*split(f)) for f in fns_list]
    models = run_model(sxs, fuel)
    impls = run_impl(srcs, kind)
    counts = {}
    recs = []
    for f, sx, src, m, c in zip(fns_list, sxs, srcs, models, impls):
        v, detail = classify(m, c)
        counts[v] = counts.get(v, 0) + 1
        recs.append({"fns": f, "src": src, "sx": sx, "model": m, "impl": c, "verdict": v})
        if v in ("agree", "rejected") or v.startswith("skip:"):
            continue
        payload = {"source": src, "model_input": sx, "reference": m,
                   "implementation": {k: c.get(k) for k in ("status", "cat", "line", "col", "msg", "stdout", "signal", "code")},
                   "disagreement": [v, detail],
                   "how": "save source as p.bloch; run /repo's bloch on it (BLOCH_NO_UPDATE_CHECK=1); "
                          "reference: echo 'run %d <model_input>' | /verif/build/ml/lang/lang.exe" % fuel}
        chk.report("%s-%s" % (tag, v), payload, "%s: %s" % (v, detail[:160]))
    return recs, counts
