"""Type-directed generator of programs over the documented classical core, rendered both as Bloch
source (for the implementation) and as the s-expression the extracted Coq interpreter reads.

Every random choice comes from the one random.Random passed in.  Programs are well typed by the
analyser's rules by construction and terminate by construction (counted loops, recursion on a
decreasing depth parameter, calls only to later functions or to self)."""
import random
from fractions import Fraction

SCALARS = ["int", "long", "float", "bit", "bool", "char", "str"]
ARR_ELTS = ["int", "long", "float", "bit", "char", "str"]
# h, x, y, z, rx, ry, rz, cx are built-in gate names: a bare gate name is accepted as an expression, so they are kept out of the pool
NAMES = ["a", "b", "c", "n", "xa", "yb", "t", "k", "acc", "m", "p", "q0", "r", "s", "u", "w", "zc"]
BLOCH_TY = {"int": "int", "long": "long", "float": "float", "bit": "bit", "bool": "boolean",
            "char": "char", "str": "string", "void": "void"}


def is_arr(t):
    return isinstance(t, tuple) and t[0] == "arr"


def is_cls(t):
    return isinstance(t, tuple) and t[0] == "cls"


def ty_src(t):
    if is_cls(t):
        return t[1]
    return BLOCH_TY[t[1]] + "[]" if is_arr(t) else BLOCH_TY[t]


def ty_sx(t):
    if is_cls(t):
        return "(cls %s)" % t[1]
    return "(arr %s)" % t[1] if is_arr(t) else t


def hexs(s):
    return "".join("%02x" % ord(c) for c in s) if s else "-"


def float_src(num, pw):
    fr = Fraction(num, 2 ** pw)
    # exact finite decimal expansion of a dyadic rational
    n, d = fr.numerator, fr.denominator
    k = 0
    while d % 2 == 0:
        d //= 2
        k += 1
    assert d == 1
    scaled = n * (5 ** k)            # fr = scaled / 10^k
    s = str(abs(scaled)).rjust(k + 1, "0")
    txt = s[:len(s) - k] + "." + (s[len(s) - k:] if k else "0")
    return txt + "f"


# ----------------------------------------------------------------------------- rendering

# "full": every operator application parenthesised (the tree is unambiguous whatever the parser's table says);
# "min": only the parentheses docs/grammar.md requires (precedence and left associativity carry the rest)
PAREN_MODE = "full"
PREC = {"||": 1, "&&": 2, "|": 3, "^": 4, "&": 5, "==": 6, "!=": 6, "<": 7, ">": 7, "<=": 7, ">=": 7, "+": 8, "-": 8, "*": 9, "/": 9, "%": 9}


def _prec(e):
    if e[0] == "bin":
        return PREC[e[1]]
    if e[0] in ("un", "cast"):
        return 10
    if e[0] in ("asg", "fset", "sfset"):
        return 0
    if e[0] in ("i", "l", "f") and str(e[1]).startswith("-"):
        return 10
    return 11


def _min(e, need, right=False):
    """render e where the context needs binding power `need` (right operand of a left-associative operator: strictly more)"""
    t = e_src(e)
    pr = _prec(e)
    if pr < need or (right and pr == need) or (need == 10 and pr == 10):
        return "(%s)" % t
    return t


def e_src(e):
    k = e[0]
    if PAREN_MODE == "min" and k == "bin":
        return "%s %s %s" % (_min(e[2], PREC[e[1]]), e[1], _min(e[3], PREC[e[1]], True))
    if PAREN_MODE == "min" and k == "un":
        return "%s%s" % (e[1], _min(e[2], 10))
    if k == "i":
        return str(e[1])
    if k == "l":
        return "%dL" % e[1]
    if k == "f":
        return float_src(e[1], e[2])
    if k == "b":
        return "%db" % e[1]
    if k == "B":
        return "true" if e[1] else "false"
    if k == "c":
        return "'%s'" % e[1]
    if k == "s":
        return '"%s"' % e[1]
    if k == "v":
        return e[1]
    if k == "bin":
        return "(%s %s %s)" % (e_src(e[2]), e[1], e_src(e[3]))
    if k == "un":
        return "(%s%s)" % (e[1], e_src(e[2]))
    if k == "cast":
        return "((%s) (%s))" % (ty_src(e[1]), e_src(e[2]))
    if k == "idx":
        return "%s[%s]" % (e_src(e[1]), e_src(e[2]))
    if k == "arr":
        return "{%s}" % ", ".join(e_src(x) for x in e[1])
    if k == "call":
        return "%s(%s)" % (e[1], ", ".join(e_src(x) for x in e[2]))
    if k == "post":
        return "%s%s" % (e[1], e[2])
    if k == "asg":
        return "%s = %s" % (e[1], e_src(e[2]))
    if k == "new":
        return "new %s(%s)" % (e[1], ", ".join(e_src(x) for x in e[2]))
    if k == "fld":
        return "%s.%s" % (e_src(e[1]), e[2])
    if k == "this":
        return "this"
    if k == "null":
        return "null"
    if k == "mcall":
        return "%s.%s(%s)" % (e_src(e[1]), e[2], ", ".join(e_src(x) for x in e[3]))
    if k == "super":
        return "super.%s(%s)" % (e[1], ", ".join(e_src(x) for x in e[2]))
    if k == "scall":
        return "%s.%s(%s)" % (e[1], e[2], ", ".join(e_src(x) for x in e[3]))
    if k == "sfld":
        return "%s.%s" % (e[1], e[2])
    if k == "fset":
        return "%s.%s = %s" % (e_src(e[1]), e[2], e_src(e[3]))
    if k == "sfset":
        return "%s.%s = %s" % (e[1], e[2], e_src(e[3]))
    raise ValueError(k)


def e_sx(e):
    k = e[0]
    if k in ("i", "l", "b", "B"):
        return "(%s %d)" % (k, e[1])
    if k == "f":
        return "(f %d %d)" % (e[1], e[2])
    if k == "c":
        return "(c %s)" % hexs(e[1])
    if k == "s":
        return "(s %s)" % hexs(e[1])
    if k == "v":
        return "(v %s)" % e[1]
    if k == "bin":
        return "(bin %s %s %s)" % (e[1], e_sx(e[2]), e_sx(e[3]))
    if k == "un":
        return "(un %s %s)" % (e[1], e_sx(e[2]))
    if k == "cast":
        return "(cast %s %s)" % (ty_sx(e[1]), e_sx(e[2]))
    if k == "idx":
        return "(idx %s %s)" % (e_sx(e[1]), e_sx(e[2]))
    if k == "arr":
        return "(arr%s)" % "".join(" " + e_sx(x) for x in e[1])
    if k == "call":
        return "(call %s%s)" % (e[1], "".join(" " + e_sx(x) for x in e[2]))
    if k == "post":
        return "(post %s %s)" % (e[1], e[2])
    if k == "asg":
        return "(asg %s %s)" % (e[1], e_sx(e[2]))
    if k == "new":
        return "(new %s%s)" % (e[1], "".join(" " + e_sx(x) for x in e[2]))
    if k == "fld":
        return "(fld %s %s)" % (e_sx(e[1]), e[2])
    if k == "this":
        return "(this)"
    if k == "null":
        return "(null)"
    if k == "mcall":
        return "(mcall %s %s%s)" % (e_sx(e[1]), e[2], "".join(" " + e_sx(x) for x in e[3]))
    if k == "super":
        return "(super %s%s)" % (e[1], "".join(" " + e_sx(x) for x in e[2]))
    if k == "scall":
        return "(scall %s %s%s)" % (e[1], e[2], "".join(" " + e_sx(x) for x in e[3]))
    if k == "sfld":
        return "(sfld %s %s)" % (e[1], e[2])
    if k == "fset":
        return "(fset %s %s %s)" % (e_sx(e[1]), e[2], e_sx(e[3]))
    if k == "sfset":
        return "(sfset %s %s %s)" % (e[1], e[2], e_sx(e[3]))
    raise ValueError(k)


def s_src(s, ind):
    p = "  " * ind
    k = s[0]
    if k == "decl":
        return "%s%s%s %s%s;\n" % (p, "final " if s[1] else "", ty_src(s[2]), s[3],
                                  " = " + e_src(s[4]) if s[4] is not None else "")
    if k == "declarr":
        size = "[%s]" % e_src(s[3]) if s[3] is not None else "[]"
        return "%s%s%s %s%s;\n" % (p, BLOCH_TY[s[1]], size, s[2],
                                  " = " + e_src(s[4]) if s[4] is not None else "")
    if k == "set":
        return "%s%s = %s;\n" % (p, s[1], e_src(s[2]))
    if k == "aset":
        return "%s%s[%s] = %s;\n" % (p, s[1], e_src(s[2]), e_src(s[3]))
    if k == "if":
        r = "%sif (%s) %s" % (p, e_src(s[1]), blk_src(s[2], ind))
        if s[3] is not None:
            r = r.rstrip("\n") + " else " + blk_src(s[3], ind)
        return r
    if k == "tern":
        return "%s%s ? %s : %s" % (p, e_src(s[1]), s_src(s[2], 0).rstrip("\n") + " ", s_src(s[3], 0))
    if k == "while":
        return "%swhile (%s) %s" % (p, e_src(s[1]), blk_src(s[2], ind))
    if k == "for":
        init = s_src(s[1], 0).strip() if s[1] is not None else ";"
        step = e_src(s[3][1])
        return "%sfor (%s %s; %s) %s" % (p, init, e_src(s[2]), step, blk_src(s[4], ind))
    if k == "echo":
        return "%secho(%s);\n" % (p, e_src(s[1]))
    if k == "ret":
        return "%sreturn%s;\n" % (p, " " + e_src(s[1]) if s[1] is not None else "")
    if k == "expr":
        return "%s%s;\n" % (p, e_src(s[1]))
    if k == "block":
        return p + blk_src(s, ind)
    if k == "destroy":
        return "%sdestroy %s;\n" % (p, e_src(s[1]))
    raise ValueError(k)


def blk_src(s, ind):
    assert s[0] == "block"
    return "{\n" + "".join(s_src(x, ind + 1) for x in s[1]) + "  " * ind + "}\n"


def opt_sx(f, x):
    return "-" if x is None else f(x)


def s_sx(s):
    k = s[0]
    if k == "decl":
        return "(decl %d %s %s %s)" % (1 if s[1] else 0, ty_sx(s[2]), s[3], opt_sx(e_sx, s[4]))
    if k == "declarr":
        return "(declarr %s %s %s %s)" % (s[1], s[2], opt_sx(e_sx, s[3]), opt_sx(e_sx, s[4]))
    if k == "set":
        return "(set %s %s)" % (s[1], e_sx(s[2]))
    if k == "aset":
        return "(aset %s %s %s)" % (s[1], e_sx(s[2]), e_sx(s[3]))
    if k == "if":
        return "(if %s %s %s)" % (e_sx(s[1]), s_sx(s[2]), opt_sx(s_sx, s[3]))
    if k == "tern":
        return "(tern %s %s %s)" % (e_sx(s[1]), s_sx(s[2]), s_sx(s[3]))
    if k == "while":
        return "(while %s %s)" % (e_sx(s[1]), s_sx(s[2]))
    if k == "for":
        return "(for %s %s %s %s)" % (opt_sx(s_sx, s[1]), e_sx(s[2]), s_sx(s[3]), s_sx(s[4]))
    if k == "echo":
        return "(echo %s)" % e_sx(s[1])
    if k == "ret":
        return "(ret %s)" % opt_sx(e_sx, s[1])
    if k == "expr":
        return "(expr %s)" % e_sx(s[1])
    if k == "block":
        return "(block%s)" % "".join(" " + s_sx(x) for x in s[1])
    if k == "destroy":
        return "(destroy %s)" % e_sx(s[1])
    raise ValueError(k)


def fn_src(f):
    name, ret, params, body = f
    return "function %s(%s) -> %s {\n%s}\n" % (
        name, ", ".join("%s %s" % (ty_src(t), n) for t, n in params), ty_src(ret),
        "".join(s_src(s, 1) for s in body))


def fn_sx(f):
    name, ret, params, body = f
    return "(fn %s %s (%s) (%s))" % (name, ty_sx(ret), " ".join("(%s %s)" % (ty_sx(t), n) for t, n in params),
                                     " ".join(s_sx(s) for s in body))


# a class: dict(name, base, fields=[(static, final, ty, name, init)], ctors=[(params, super_args|None, body, default)],
#               meths=[(name, params, ret, body, static, kind)], dtor=body|None)   kind: "" | "virtual" | "override"
VIS = {"pub": "public", "prot": "protected", "priv": "private"}


def _f(fd):
    return tuple(fd) + ("pub",) * (6 - len(fd))


def _c(ct):
    return tuple(ct) + ("pub",) * (5 - len(ct))


def _m(md):
    return tuple(md) + ("pub",) * (7 - len(md))


def class_src(c):
    kind = c.get("kind", "normal")
    out = "%sclass %s%s {\n" % ({"normal": "", "abstract": "abstract ", "static": "static "}[kind], c["name"],
                                " extends " + c["base"] if c.get("base") else "")
    for fd in c["fields"]:
        (st, fin, t, n, init, vis) = _f(fd)
        out += "  %s %s%s%s %s%s;\n" % (VIS[vis], "static " if st else "", "final " if fin else "", ty_src(t), n,
                                        " = " + e_src(init) if init is not None else "")
    for ct in c["ctors"]:
        (ps, sup, body, dflt, vis) = _c(ct)
        hdr = "  %s constructor(%s) -> %s" % (VIS[vis], ", ".join("%s %s" % (ty_src(t), n) for t, n in ps), c["name"])
        if dflt:
            out += hdr + " = default;\n"
            continue
        out += hdr + " {\n"
        if sup is not None:
            out += "    super(%s);\n" % ", ".join(e_src(a) for a in sup)
        out += "".join(s_src(x, 2) for x in body) + "  }\n"
    for md in c["meths"]:
        (n, ps, ret, body, st, kind_, vis) = _m(md)
        out += "  %s %s%sfunction %s(%s) -> %s {\n%s  }\n" % (
            VIS[vis], "static " if st else "", kind_ + " " if kind_ else "", n,
            ", ".join("%s %s" % (ty_src(t), pn) for t, pn in ps), ty_src(ret), "".join(s_src(x, 2) for x in body))
    if c.get("dtor") is not None:
        out += "  public destructor() -> void {\n%s  }\n" % "".join(s_src(x, 2) for x in c["dtor"])
    return out + "}\n"


def class_sx(c):
    fs = "".join(" (field %d %d %s %s %s %s)" % (1 if st else 0, 1 if fin else 0, ty_sx(t), n, opt_sx(e_sx, init), vis)
                 for (st, fin, t, n, init, vis) in map(_f, c["fields"]))
    cts = "".join(" (ctor (%s) %s (%s) %d %s)" % (" ".join("(%s %s)" % (ty_sx(t), n) for t, n in ps),
                                                 "-" if sup is None else "(sup%s)" % "".join(" " + e_sx(a) for a in sup),
                                                 " ".join(s_sx(x) for x in body), 1 if dflt else 0, vis)
                  for (ps, sup, body, dflt, vis) in map(_c, c["ctors"]))
    ms = "".join(" (meth %s (%s) %s (%s) %d %d %s)" % (n, " ".join("(%s %s)" % (ty_sx(t), pn) for t, pn in ps), ty_sx(ret),
                                                      " ".join(s_sx(x) for x in body), 1 if st else 0, 1 if kind_ else 0, vis)
                 for (n, ps, ret, body, st, kind_, vis) in map(_m, c["meths"]))
    dt = "-" if c.get("dtor") is None else "(dtor%s)" % "".join(" " + s_sx(x) for x in c["dtor"])
    return "(class %s %s (fields%s) (ctors%s) (meths%s) %s %s)" % (c["name"], c.get("base") or "-", fs, cts, ms, dt, c.get("kind", "normal"))


def prog_src(fns, classes=None, order=None):
    """order: optional permutation of the top-level declarations (classes then functions)"""
    decls = [class_src(c) for c in (classes or [])] + [fn_src(f) for f in fns]
    if order is not None:
        decls = [decls[i] for i in order]
    return "\n".join(decls)


def prog_sx(fns, classes=None):
    if not classes:
        return "(prog %s)" % " ".join(fn_sx(f) for f in fns)
    return "(prog (classes%s) (fns%s))" % ("".join(" " + class_sx(c) for c in classes), "".join(" " + fn_sx(f) for f in fns))


# ----------------------------------------------------------------------------- generation

class Gen:
    def __init__(self, rng, nfuncs=3, edge=False):
        self.r = rng
        self.edge = edge          # C12: extreme literals
        self.nfuncs = nfuncs
        self.sigs = []            # (name, ret, params, recursive)
        self.stats = {}
        self.need_nx = False

    def note(self, k):
        self.stats[k] = self.stats.get(k, 0) + 1

    # --- literals
    def lit(self, t):
        r = self.r
        if t == "int":
            if self.edge and r.random() < 0.3:
                v = r.choice([2147483647, 2147483646, 65536, 46341, 1073741824])
                return ("i", v)
            v = r.choice([0, 1, 2, 3, 4, 5, 7, 10, 12, 100, 255])
            return ("i", v)
        if t == "long":
            if self.edge and r.random() < 0.3:
                return ("l", r.choice([9223372036854775807, 4294967296, 2147483648, 3037000500]))
            return ("l", r.choice([0, 1, 2, 3, 9, 50, 1000, 4000000000, 9000000000]))
        if t == "float":
            return ("f", r.choice([0, 1, 2, 3, 5, 7, 9, 13, 25, 100]), r.choice([0, 0, 1, 2, 3]))
        if t == "bit":
            return ("b", r.randint(0, 1))
        if t == "bool":
            return ("B", r.randint(0, 1))
        if t == "char":
            return ("c", r.choice("abcxyzQZ09_+ "))
        if t == "str":
            return ("s", r.choice(["", "a", "xy", "v=", "hello", "1", " ", "A b", "n:"]))
        raise ValueError(t)

    def vars_of(self, env, t, writable=False):
        return [n for n, (vt, fin, locked) in env.items() if vt == t and not (writable and (fin or locked))]

    def leaf(self, t, env):
        vs = self.vars_of(env, t)
        if vs and self.r.random() < 0.65:
            return ("v", self.r.choice(vs))
        if is_arr(t):
            return None
        l = self.lit(t)
        if t in ("int", "long", "float") and self.r.random() < 0.15:
            return ("un", "-", l)
        return l

    def num_operand_types(self, t):
        """pairs of operand types whose promotion is t"""
        if t == "int":
            return [("int", "int")]
        if t == "long":
            return [("long", "long"), ("long", "int"), ("int", "long")]
        return [("float", "float"), ("float", "int"), ("int", "float"), ("float", "long"), ("long", "float")]

    def expr(self, t, env, d, fidx):
        r = self.r
        if is_arr(t):
            return self.arr_expr(t, env, d, fidx)
        if d <= 0 or r.random() < 0.25:
            return self.leaf(t, env)
        c = r.random()
        # function call of the right return type
        cands = [s for i, s in enumerate(self.sigs) if s[1] == t and (i > fidx or (i == fidx and s[3]))]
        if cands and c < 0.15:
            return self.call(r.choice(cands), env, d, fidx)
        # array element
        avs = self.vars_of(env, ("arr", t))
        if avs and c < 0.3:
            return ("idx", ("v", r.choice(avs)), self.index_expr(env, d - 1, fidx))
        if t in ("int", "long", "float"):
            k = r.random()
            if k < 0.55:
                lt, rt = r.choice(self.num_operand_types(t))
                op = r.choice(["+", "-", "*"])
                self.note("arith:%s:%s%s%s" % (t, lt, op, rt))
                return ("bin", op, self.expr(lt, env, d - 1, fidx), self.expr(rt, env, d - 1, fidx))
            if k < 0.7 and t != "float":
                lt, rt = r.choice(self.num_operand_types(t))
                self.note("mod:%s%%%s" % (lt, rt))
                return ("bin", "%", self.expr(lt, env, d - 1, fidx), self.divisor(rt, env, d - 1, fidx))
            if k < 0.7 and t == "float":
                lt = r.choice(["int", "long", "float"])
                rt = r.choice(["int", "long", "float"])
                self.note("div:%s/%s" % (lt, rt))
                return ("bin", "/", self.expr(lt, env, d - 1, fidx), self.divisor(rt, env, d - 1, fidx))
            if k < 0.85:
                st = r.choice([x for x in ("int", "long", "float", "bit")])
                self.note("cast:%s<-%s" % (t, st))
                return ("cast", t, self.expr(st, env, d - 1, fidx))
            return ("un", "-", self.expr(t, env, d - 1, fidx))
        if t == "bool":
            k = r.random()
            if r.random() < 0.25:
                # a chain mixing && and || (and comparisons) over leaves, in a random tree shape: with minimal
                # parentheses its value depends on the documented precedence and associativity
                self.note("logic-chain")
                leaves = [self.leaf(r.choice(["bool", "bool", "bit"]), env) if r.random() < 0.7 else
                          ("bin", r.choice(["<", ">=", "=="]), self.leaf("int", env), self.leaf("int", env)) for _ in range(r.randint(3, 4))]
                while len(leaves) > 1:
                    j = r.randrange(len(leaves) - 1)
                    leaves[j:j + 2] = [("bin", r.choice(["&&", "||"]), leaves[j], leaves[j + 1])]
                return leaves[0]
            if k < 0.4:
                lt = r.choice(["int", "long", "float"])
                rt = r.choice(["int", "long", "float"])
                op = r.choice(["<", "<=", ">", ">=", "==", "!="])
                self.note("cmp:%s%s%s" % (lt, op, rt))
                return ("bin", op, self.expr(lt, env, d - 1, fidx), self.expr(rt, env, d - 1, fidx))
            if k < 0.6:
                op = r.choice(["&&", "||"])
                lt, rt = r.choice(["bool", "bit"]), r.choice(["bool", "bit"])
                self.note("logic:%s%s%s" % (lt, op, rt))
                return ("bin", op, self.expr(lt, env, d - 1, fidx), self.expr(rt, env, d - 1, fidx))
            if k < 0.8:
                op = r.choice(["==", "!="])
                kind = r.choice(["boolish", "str", "char"])
                if kind == "boolish":
                    lt, rt = r.choice(["bool", "bit"]), r.choice(["bool", "bit"])
                else:
                    lt = rt = kind
                self.note("eq:%s%s%s" % (lt, op, rt))
                return ("bin", op, self.expr(lt, env, d - 1, fidx), self.expr(rt, env, d - 1, fidx))
            return ("un", "!", self.expr(r.choice(["bool", "bit"]), env, d - 1, fidx))
        if t == "bit":
            k = r.random()
            if k < 0.5:
                op = r.choice(["&", "|", "^"])
                return ("bin", op, self.expr("bit", env, d - 1, fidx), self.expr("bit", env, d - 1, fidx))
            if k < 0.7:
                return ("un", "~", self.expr("bit", env, d - 1, fidx))
            st = r.choice(["int", "long", "float", "bit"])
            self.note("cast:bit<-%s" % st)
            return ("cast", "bit", self.expr(st, env, d - 1, fidx))
        if t == "str":
            ot = r.choice(SCALARS + [("arr", x) for x in ARR_ELTS])
            o = self.expr(ot, env, d - 1, fidx)
            if o is None:
                ot = "int"
                o = self.expr("int", env, d - 1, fidx)
            self.note("concat:%s" % (ty_src(ot)))
            s = self.expr("str", env, d - 1, fidx)
            return ("bin", "+", s, o) if r.random() < 0.6 else ("bin", "+", o, s)
        if t == "char":
            return self.leaf(t, env)
        raise ValueError(t)

    def divisor(self, t, env, d, fidx):
        if self.r.random() < 0.75:
            l = self.lit(t)
            while l[1] == 0:
                l = self.lit(t)
            if self.edge and t != "float" and self.r.random() < 0.3:
                return ("un", "-", (l[0], 1))
            return l
        return self.expr(t, env, d, fidx)

    def index_expr(self, env, d, fidx):
        r = self.r
        k = r.random()
        if k < 0.6:
            return ("i", r.choice([0, 0, 1, 1, 2, 2, 3]))
        if k < 0.7:
            return ("l", r.choice([0, 1, 2]))
        if k < 0.8:
            return ("un", "-", ("i", r.choice([1, 2])))
        it = r.choice(["int", "int", "long"])
        return ("bin", "%", self.expr(it, env, d, fidx), ("i", r.choice([2, 3])))

    def arr_expr(self, t, env, d, fidx, ops=False):
        r = self.r
        vs = self.vars_of(env, t)
        if ops and t == ("arr", "bit") and vs and d > 0 and r.random() < 0.5:
            k = r.random()
            if k < 0.3:
                return ("un", "~", ("v", r.choice(vs)))
            op = r.choice(["&", "|", "^"])
            other = ("v", r.choice(vs)) if r.random() < 0.5 else self.expr("bit", env, d - 1, fidx)
            a = ("v", r.choice(vs))
            return ("bin", op, a, other) if r.random() < 0.5 else ("bin", op, other, a)
        cands = [s for i, s in enumerate(self.sigs) if s[1] == t and i > fidx]
        if cands and r.random() < 0.3:
            return self.call(r.choice(cands), env, d, fidx)
        if vs:
            return ("v", r.choice(vs))
        return None

    def arr_literal(self, elt, env, d, fidx, n=None):
        r = self.r
        n = n if n is not None else r.choice([1, 2, 3, 3, 4, 5])
        es = []
        for _ in range(n):
            st = elt
            # documented permissive conversions
            if elt == "int" and r.random() < 0.2:
                st = r.choice(["bit", "float"])
            elif elt == "float" and r.random() < 0.3:
                st = r.choice(["int", "bit"])
            elif elt == "long" and r.random() < 0.3:
                st = "int"
            if st != elt:
                self.note("arrlit:%s<-%s" % (elt, st))
            es.append(self.expr(st, env, d, fidx))
        return ("arr", es)

    def call(self, sig, env, d, fidx, depth_arg=None):
        name, ret, params, rec = sig
        args = []
        for i, (pt, pn) in enumerate(params):
            if rec and i == 0:
                if depth_arg is None and fidx >= 0 and fidx < len(self.sigs) and self.sigs[fidx][0] == name:
                    depth_arg = ("bin", "-", ("v", "d"), ("i", 1))      # a self-call always decreases the depth
                args.append(depth_arg if depth_arg is not None else ("i", self.r.choice([0, 1, 2, 3])))
                continue
            at = pt
            if pt == "long" and self.r.random() < 0.4:
                at = "int"
                self.note("widen:arg")
            a = self.expr(at, env, d - 1, fidx)
            if a is None:
                a = None
            args.append(a)
        if any(a is None for a in args):
            return self.lit(ret) if not is_arr(ret) and ret != "void" else None
        self.note("call")
        return ("call", name, args)

    # --- statements
    def fresh(self, env, used):
        pool = [n for n in NAMES if n not in used]
        if not pool or self.r.random() < 0.1:
            n = "v%d" % len(used)
            while n in used:
                n += "_"
            return n
        return self.r.choice(pool)

    def block(self, env, used, depth, fidx, ret, n_stmts, in_loop=False):
        """returns ('block', [...]); env is copied (block scope), used is shared (no shadowing in a function)"""
        env = dict(env)
        out = []
        for _ in range(n_stmts):
            out.extend(self.stmt(env, used, depth, fidx, ret))
        return ("block", out)

    def echo_state(self, env):
        vs = [n for n in env]
        if not vs:
            return []
        n = self.r.choice(vs)
        return [("echo", ("v", n))]

    def stmt(self, env, used, depth, fidx, ret):
        r = self.r
        k = r.random()
        d = r.choice([1, 2, 2, 3])
        if k < 0.2:
            # scalar declaration
            t = r.choice(SCALARS)
            x = self.fresh(env, used)
            used.add(x)
            fin = r.random() < 0.15
            init = None
            if fin or r.random() < 0.85:
                it = t
                if t == "long" and r.random() < 0.4:
                    it = "int"
                    self.note("widen:init")
                init = self.expr(it, env, d, fidx)
            else:
                self.note("default-init:%s" % t)
            env[x] = (t, fin, False)
            return [("decl", fin, t, x, init)]
        if k < 0.3:
            elt = r.choice(ARR_ELTS)
            x = self.fresh(env, used)
            used.add(x)
            mode = r.random()
            if mode < 0.55:
                st = ("declarr", elt, x, None, self.arr_literal(elt, env, 1, fidx))
            elif mode < 0.7:
                n = r.choice([0, 1, 2, 3, 4])
                st = ("declarr", elt, x, ("i", n), None)
                self.note("fixed-default")
            elif mode < 0.8:
                n = r.choice([2, 3])
                st = ("declarr", elt, x, ("i", n), self.arr_literal(elt, env, 1, fidx, n=n if r.random() < 0.9 else n + 1))
                self.note("fixed-literal")
            else:
                src = self.arr_expr(("arr", elt), env, 1, fidx, ops=True)
                if src is None:
                    st = ("declarr", elt, x, None, self.arr_literal(elt, env, 1, fidx))
                else:
                    st = ("declarr", elt, x, None, src)
                    self.note("array-copy-init")
            env[x] = (("arr", elt), False, False)
            return [st]
        if k < 0.42:
            # assignment
            ws = [n for n, (vt, fin, locked) in env.items() if not fin and not locked]
            if not ws:
                return self.echo_state(env)
            x = r.choice(ws)
            t = env[x][0]
            if is_arr(t):
                if r.random() < 0.7:
                    elt = t[1]
                    vt = elt
                    if elt == "long" and r.random() < 0.3:
                        vt = "int"
                    if vt != elt:
                        self.note("aset:%s<-%s" % (elt, vt))
                    return [("aset", x, self.index_expr(env, 1, fidx), self.expr(vt, env, d, fidx))]
                src = self.arr_expr(t, env, 1, fidx)
                if src is None:
                    return self.echo_state(env)
                self.note("array-assign")
                return [("set", x, src)]
            it = t
            if t == "long" and r.random() < 0.4:
                it = "int"
                self.note("widen:assign")
            if t in ("int", "long") and r.random() < 0.2:
                self.note("postfix")
                return [("expr", ("post", x, r.choice(["++", "--"])))]
            e = self.expr(it, env, d, fidx)
            if r.random() < 0.1:
                # chained assignment a = b = e
                others = [n for n in ws if n != x and env[n][0] == it]
                if others:
                    self.note("chained-assign")
                    return [("set", x, ("asg", r.choice(others), e))]
            return [("set", x, e)]
        if k < 0.6:
            vs = list(env)
            if vs and r.random() < 0.5:
                return [("echo", ("v", r.choice(vs)))]
            t = r.choice(SCALARS + [("arr", "bit")])
            e = self.arr_expr(t, env, d, fidx, ops=True) if is_arr(t) else self.expr(t, env, d, fidx)
            if e is None:
                e = self.expr("int", env, d, fidx)
            return [("echo", e)]
        if depth <= 0:
            return self.echo_state(env)
        if k < 0.7:
            c = self.expr(r.choice(["bool", "bool", "bit"]), env, 2, fidx)
            a = self.block(env, used, depth - 1, fidx, ret, r.randint(1, 3))
            b = self.block(env, used, depth - 1, fidx, ret, r.randint(1, 2)) if r.random() < 0.5 else None
            return [("if", c, a, b)]
        if k < 0.75:
            c = self.expr(r.choice(["bool", "bit"]), env, 2, fidx)
            a = self.simple_stmt(env, fidx)
            b = self.simple_stmt(env, fidx)
            self.note("ternary")
            return [("tern", c, a, b)]
        if ret != "void" and not is_arr(ret) and k < 0.78 and depth >= 1:
            # a search loop: the step is a call, the body may return from inside the loop
            x = self.fresh(env, used)
            used.add(x)
            self.need_nx = True
            n = r.choice([1, 2, 3, 4])
            env2 = dict(env)
            env2[x] = ("int", False, True)
            e = self.ret_expr(ret, env2, fidx)
            if e is not None:
                cond = ("bin", r.choice(["==", ">=", ">"]), ("v", x), ("i", r.randint(0, 3)))
                body = ("block", [("echo", ("v", x)), ("if", cond, ("block", [("ret", e)]), None)])
                self.note("for-call-step-return")
                return [("for", ("decl", False, "int", x, ("i", 0)), ("bin", "<", ("v", x), ("i", n)),
                         ("expr", ("asg", x, ("call", "nx", [("v", x)]))), body)]
        if k < 0.85:
            # counted for loop
            x = self.fresh(env, used)
            used.add(x)
            n = r.choice([0, 1, 2, 3, 4])
            env2 = dict(env)
            env2[x] = ("int", False, True)
            body = self.block(env2, used, depth - 1, fidx, ret, r.randint(1, 3))
            step = ("expr", ("asg", x, ("bin", "+", ("v", x), ("i", 1)))) if r.random() < 0.6 else ("expr", ("post", x, "++"))
            self.note("for")
            return [("for", ("decl", False, "int", x, ("i", 0)), ("bin", "<", ("v", x), ("i", n)), step, body)]
        if k < 0.92:
            x = self.fresh(env, used)
            used.add(x)
            n = r.choice([1, 2, 3])
            env[x] = ("int", False, True)
            body = self.block(env, used, depth - 1, fidx, ret, r.randint(1, 2))
            body[1].append(("set", x, ("bin", "-", ("v", x), ("i", 1))))
            self.note("while")
            return [("decl", False, "int", x, ("i", n)), ("while", ("bin", ">", ("v", x), ("i", 0)), body)]
        if k < 0.96:
            # call statement
            cands = [s for i, s in enumerate(self.sigs) if i > fidx]
            if cands:
                c = self.call(r.choice(cands), env, 2, fidx)
                if c is not None and c[0] == "call":
                    return [("expr", c)]
            return self.echo_state(env)
        # early return
        if ret == "void":
            self.note("early-return")
            return [("if", self.expr("bool", env, 2, fidx), ("block", [("ret", None)]), None)]
        e = self.ret_expr(ret, env, fidx)
        if e is None:
            return self.echo_state(env)
        self.note("early-return")
        return [("if", self.expr("bool", env, 2, fidx), ("block", [("ret", e)]), None)]

    def simple_stmt(self, env, fidx):
        r = self.r
        ws = [n for n, (vt, fin, locked) in env.items() if not fin and not locked and not is_arr(vt)]
        if ws and r.random() < 0.5:
            x = r.choice(ws)
            return ("set", x, self.expr(env[x][0], env, 1, fidx))
        return ("echo", self.expr(r.choice(SCALARS), env, 1, fidx))

    def ret_expr(self, ret, env, fidx):
        rt = ret
        if ret == "long" and self.r.random() < 0.4:
            rt = "int"
            self.note("widen:return")
        return self.expr(rt, env, 2, fidx)

    def program(self):
        r = self.r
        n = self.nfuncs
        self.sigs = []
        for i in range(n):
            rec = r.random() < 0.35
            nparams = r.randint(0, 3)
            params = []
            used = set()
            if rec:
                params.append(("int", "d"))
                used.add("d")
            for _ in range(nparams):
                t = r.choice(SCALARS + [("arr", r.choice(ARR_ELTS))] * 2)
                pn = r.choice([x for x in NAMES if x not in used])
                used.add(pn)
                params.append((t, pn))
            ret = r.choice(["int", "long", "float", "bool", "bit", "str", "void", "char", ("arr", r.choice(ARR_ELTS))])
            self.sigs.append(("f%d" % i, ret, params, rec))
        fns = []
        for i, (name, ret, params, rec) in enumerate(self.sigs):
            env = {pn: (pt, False, pn == "d" and rec) for pt, pn in params}
            used = set(env)
            body = []
            if rec:
                # base case first: recursion only below with d - 1
                base = [("ret", None)] if ret == "void" else None
                if ret != "void":
                    e = self.ret_expr(ret, env, i + 10 ** 6) if not is_arr(ret) else self.arr_expr(ret, env, 1, 10 ** 6)
                    if e is None:
                        x = "base"
                        used.add(x)
                        body.append(("declarr", ret[1], x, None, self.arr_literal(ret[1], env, 0, 10 ** 6)))
                        env[x] = (ret, False, False)
                        e = ("v", x)
                    base = [("ret", e)]
                body.append(("if", ("bin", "<=", ("v", "d"), ("i", 0)), ("block", base), None))
            blk = self.block(env, used, 2, i, ret, r.randint(2, 5))
            body.extend(blk[1])
            # environment after the block's own declarations is not visible here; final statement
            if rec and r.random() < 0.8:
                c = self.call(self.sigs[i], env, 2, i, depth_arg=("bin", "-", ("v", "d"), ("i", 1)))
                if c is not None and c[0] == "call":
                    self.note("recursion")
                    if ret == "void":
                        body.append(("expr", c))
                    else:
                        body.append(("ret", c))
            if ret != "void":
                if is_arr(ret):
                    e = self.arr_expr(ret, env, 1, i)
                    if e is None:
                        x = "res"
                        body.append(("declarr", ret[1], x, None, self.arr_literal(ret[1], env, 1, i)))
                        e = ("v", x)
                else:
                    e = self.ret_expr(ret, env, i)
                body.append(("ret", e))
            fns.append((name, ret, params, body))
        # main
        env = {}
        used = set()
        blk = self.block(env, used, 2, -1, "void", r.randint(4, 9))
        fns.append(("main", "void", [], blk[1]))
        if self.need_nx:
            fns.append(("nx", "int", [("int", "v")], [("ret", ("bin", "+", ("v", "v"), ("i", 1)))]))
        if r.random() < 0.5:
            r.shuffle(fns)          # declaration order must not matter
        return fns
