"""Generator of class-based programs for the object-model checks (C08, C09, C10, C11, C18).
Hierarchies of depth up to 4 with overriding patterns, overload sets over primitive and reference
parameters, static and instance members, field initialisers, constructor chains with super(...),
destructors, and a main that builds, calls, reassigns, scopes and destroys objects.

Programs keep out of what the documentation leaves open: an object with a destructor is always
released alone (the order in which one scope exit releases several objects is unspecified), receivers
are side-effect free, objects are bound to variables before they are passed on."""
from checks import langgen as lg

PRIMS = ["int", "long", "float", "str", "bool"]


class ObjGen(lg.Gen):
    def __init__(self, rng, nclasses=None, with_dtors=True, name_pool=None, die_together=False):
        super().__init__(rng, nfuncs=0)
        self.die_together = die_together     # leave the objects to the end of main's scope (several destructors at one scope exit)
        self.nclasses = nclasses if nclasses is not None else rng.randint(2, 5)
        self.with_dtors = with_dtors
        self.classes = []          # dicts as rendered by langgen.class_src plus bookkeeping
        self.pool = list(name_pool or lg.NAMES)
        self.callers = set()       # method names whose bodies call other methods
        self.callees = set()       # method names that are called from method bodies (they never call on)

    # ------------------------------------------------------------------ class table helpers
    def chain(self, cname):
        out = []
        while cname:
            c = next(x for x in self.classes if x["name"] == cname)
            out.append(c)
            cname = c.get("base")
        return out

    def is_sub(self, c, d):
        return any(x["name"] == d for x in self.chain(c))

    def all_fields(self, cname):
        fs = []
        for c in reversed(self.chain(cname)):
            fs += [f for f in c["fields"] if not f[0]]
        return fs

    def visible_methods(self, cname):
        """nearest declaration per (name, param types)"""
        seen = {}
        for c in self.chain(cname):
            for m in c["meths"]:
                key = (m[0], tuple(lg.ty_src(t) for t, _ in m[1]))
                if key not in seen:
                    seen[key] = (c, m)
        return seen

    def has_dtor(self, cname):
        return any(c.get("dtor") is not None for c in self.chain(cname))

    # ------------------------------------------------------------------ generation
    def prim_expr(self, t, env, d=2):
        e = self.expr(t, env, d, 10 ** 6)
        return e if e is not None else self.lit(t)

    def gen_classes(self):
        r = self.r
        used_field_names = {}
        for i in range(self.nclasses):
            name = "K%d" % i
            base = None
            if i > 0 and r.random() < 0.75:
                # prefer chains so that depth 3-4 occurs
                base = "K%d" % (i - 1) if r.random() < 0.6 else "K%d" % r.randrange(i)
            c = dict(name=name, base=base, fields=[], ctors=[], meths=[], dtor=None)
            self.classes.append(c)
            inherited = {f[3] for f in self.all_fields(base)} if base else set()
            # fields
            fenv = {f[3]: (f[2], False, False) for f in (self.all_fields(base) if base else [])}
            for _ in range(r.randint(0, 2)):
                t = r.choice(PRIMS)
                pool = [n for n in self.pool if n not in inherited and n not in {f[3] for f in c["fields"]} and n != "d"]
                if not pool:
                    break
                fn = r.choice(pool)
                init = None
                k = r.random()
                prev = [n for n, (ft, _, _) in fenv.items() if ft == t and t in ("int", "long", "float", "str")]
                if prev and k < 0.45:
                    # an initialiser that reads an earlier field by its bare name
                    init = ("bin", "+", ("v", r.choice(prev)), self.lit(t))
                elif k < 0.7:
                    init = self.lit(t)
                elif k < 0.9:
                    init = self.prim_expr(t, fenv, 1)       # may mention earlier fields by bare name
                c["fields"].append((False, False, t, fn, init))
                fenv[fn] = (t, False, False)
            if r.random() < 0.5:
                c["fields"].append((True, False, "int", "cnt" + name, ("i", r.choice([0, 1, 10]))))   # a field may not reuse an inherited name
            # constructors: 1-2 overloads by arity
            nct = r.choice([1, 1, 2])
            arities = r.sample([0, 1, 2], nct)
            for ar in arities:
                params = []
                used = set()
                for _ in range(ar):
                    t = r.choice(["int", "long", "float", "str"])
                    # constructor parameters deliberately reuse field names (a bare name in an
                    # initialiser must still mean the field)
                    cands = [f[3] for f in self.all_fields(name) if f[3] not in used] if r.random() < 0.6 else []
                    pn = r.choice(cands) if cands else r.choice([n for n in self.pool if n not in used])
                    used.add(pn)
                    params.append((t, pn))
                penv = {pn: (t, False, False) for t, pn in params}
                sup = None
                if base:
                    bc = next(x for x in self.classes if x["name"] == base)
                    bct = r.choice(bc["ctors"])
                    if bct[0] or r.random() < 0.7:
                        sup = []
                        for (pt, _) in bct[0]:
                            at = "int" if (pt == "long" and r.random() < 0.4) else pt
                            sup.append(self.prim_expr(at, penv, 1))
                    # else: implicit super() - the chosen base ctor has no parameters
                    if sup is None and not any(len(x[0]) == 0 for x in bc["ctors"]):
                        sup = [self.prim_expr(pt, penv, 1) for pt, _ in bct[0]]
                body = [("echo", ("bin", "+", ("s", "%s.ctor/%d " % (name, ar)),
                                  params and ("v", params[0][1]) or ("s", "")))]
                for f in [f for f in c["fields"] if not f[0]]:
                    if r.random() < 0.5:
                        src = [pn for t, pn in params if t == f[2] or (f[2] == "long" and t == "int")]
                        val = ("v", r.choice(src)) if src and r.random() < 0.7 else self.prim_expr(f[2], penv, 1)
                        body.append(("expr", ("fset", ("this",), f[3], val)))
                if c["fields"] and c["fields"][-1][0] and r.random() < 0.7:
                    body.append(("expr", ("sfset", name, "cnt" + name, ("bin", "+", ("sfld", name, "cnt" + name), ("i", 1)))))
                c["ctors"].append((params, sup, body, False))
            # methods
            self.gen_methods(c)
            # every instance field is observable
            c["meths"].append(("dump" + name, [], "void", [("echo", ("bin", "+", ("s", f[3] + "="), ("fld", ("this",), f[3])))
                                                            for f in self.all_fields(name)], False, ""))
            if self.with_dtors and r.random() < 0.6:
                c["dtor"] = [("echo", ("s", "~" + name)), ("echo", ("s", "~" + name + " done"))]
                # destructors that make calls / touch statics while their owner may be unwinding from a return
                if r.random() < 0.5:
                    c["dtor"].insert(1, ("echo", ("bin", "+", ("s", "note "), ("call", "note", [("i", r.randint(0, 9))]))))
                if c["fields"] and c["fields"][-1][0] and r.random() < 0.5:
                    c["dtor"].insert(1, ("expr", ("sfset", name, "cnt" + name, ("bin", "-", ("sfld", name, "cnt" + name), ("i", 1)))))
                # the destructor reads its object's fields by bare name, and may declare a local that takes the name of a field (its own
                # or an inherited one): the local hides the field in this body only - not in the base's destructor that runs next
                inst = [f for f in self.all_fields(name) if not f[0] and f[2] in ("int", "long", "bit", "boolean", "float", "string", "char")]
                if inst and r.random() < 0.7:
                    for f in r.sample(inst, min(2, len(inst))):
                        c["dtor"].insert(1, ("echo", ("bin", "+", ("s", f[3] + "="), ("v", f[3]))))
                    if r.random() < 0.7:
                        f = r.choice(inst)
                        k = len(c["dtor"]) - 1
                        c["dtor"].insert(k, ("decl", False, "int", f[3], ("i", r.randint(100, 999))))
                        c["dtor"].insert(k + 1, ("echo", ("bin", "+", ("s", "local " + f[3] + "="), ("v", f[3]))))

    def gen_methods(self, c):
        r = self.r
        name = c["name"]
        base = c.get("base")
        fields = self.all_fields(name)
        vis = self.visible_methods(base) if base else {}
        # overrides of inherited virtual methods
        for (mn, pts), (oc, m) in list(vis.items()):
            if "virtual" in m[5] and not m[4] and r.random() < 0.6:
                kind = r.choice(["override", "virtual override", "virtual override"])
                c["meths"].append(self.method(c, mn, m[1], m[2], kind, allow_super=True))
        # new methods, possibly overloads of one name
        for _ in range(r.randint(1, 3)):
            existing = [m[0] for m in c["meths"]] + [k[0] for k in vis]
            if existing and r.random() < 0.45:
                mn = r.choice(existing)
            else:
                mn = r.choice(["get", "put", "mix", "tag", "calc"])
            taken = {tuple(lg.ty_src(t) for t, _ in m[1]) for m in c["meths"] if m[0] == mn}
            taken |= {k[1] for k in vis if k[0] == mn}
            params = None
            for _try in range(6):
                ar = r.choice([0, 1, 1, 2])
                cand = []
                usedn = set()
                for _i in range(ar):
                    if r.random() < 0.25 and self.classes:
                        t = ("cls", r.choice(self.classes)["name"])
                    else:
                        t = r.choice(["int", "long", "float", "str", "bool"])
                    pn = r.choice([n for n in self.pool if n not in usedn])
                    usedn.add(pn)
                    cand.append((t, pn))
                if tuple(lg.ty_src(t) for t, _ in cand) not in taken:
                    params = cand
                    break
            if params is None:
                continue
            ret = r.choice(["int", "str", "void", "long"])
            static = r.random() < 0.15
            kind = "" if static else r.choice(["", "", "virtual"])
            c["meths"].append(self.method(c, mn, params, ret, kind, static=static))

    def method(self, c, mn, params, ret, kind, static=False, allow_super=False):
        r = self.r
        name = c["name"]
        env = {pn: (t, False, False) for t, pn in params if not lg.is_cls(t)}
        fields = [] if static else self.all_fields(name)
        # fields are visible by bare name unless a parameter hides them
        benv = dict(env)
        hidden = {pn for _, pn in params}
        for f in fields:
            if f[3] not in hidden:
                benv[f[3]] = (f[2], False, False)
        body = []
        sig = "%s.%s(%s)" % (name, mn, ",".join(lg.ty_src(t) for t, _ in params))
        body.append(("echo", ("s", sig)))
        if not static and fields and r.random() < 0.5:
            f = r.choice(fields)
            if f[3] in hidden:
                body.append(("expr", ("fset", ("this",), f[3], self.prim_expr(f[2], benv, 1))))
            else:
                body.append(("set", f[3], self.prim_expr(f[2], benv, 1)))      # bare-name field write
        may_call = mn not in self.callees
        if not static and may_call and r.random() < 0.3:
            # call a sibling method through this or by bare name (call graph kept acyclic by name)
            own = [(k, v) for k, v in self.visible_methods(name).items()
                   if not v[1][1] and not v[1][4] and v[1][0] != mn and v[1][0] not in self.callers]
            if own:
                (k, (oc, m)) = r.choice(own)
                self.callers.add(mn)
                self.callees.add(m[0])
                call = ("mcall", ("this",), m[0], []) if r.random() < 0.5 else ("call", m[0], [])
                if m[2] == "void":
                    body.append(("expr", call))
                else:
                    body.append(("echo", call))
        for (t, pn) in params:
            if lg.is_cls(t) and may_call and r.random() < 0.7:
                pc = t[1]
                ms = [(k, v) for k, v in self.visible_methods(pc).items()
                      if not v[1][1] and not v[1][4] and v[1][0] != mn and v[1][0] not in self.callers]
                if ms:
                    (k, (oc, m)) = r.choice(ms)
                    self.callers.add(mn)
                    self.callees.add(m[0])
                    body.append(("if", ("bin", "!=", ("v", pn), ("null",)),
                                 ("block", [("expr" if m[2] == "void" else "echo", ("mcall", ("v", pn), m[0], []))]), None))
        if ret == "void":
            return (mn, params, ret, body, static, kind)
        if allow_super and r.random() < 0.6:
            sup = ("super", mn, [("v", pn) for _, pn in params])
            if ret == "str":
                e = ("bin", "+", ("s", name + ">"), sup)
            elif ret in ("int", "long"):
                e = ("bin", "+", sup, ("i", 1))
            else:
                e = sup
            body.append(("ret", e))
        else:
            body.append(("ret", self.prim_expr(ret if ret != "long" or r.random() < 0.6 else "int", benv, 2)))
        return (mn, params, ret, body, static, kind)

    # ------------------------------------------------------------------ main
    def arg_for(self, t, env, objs):
        r = self.r
        if lg.is_cls(t):
            cands = [n for n, c in objs.items() if self.is_sub(c["static"], t[1])]
            if cands and r.random() < 0.85:
                return ("v", r.choice(cands))
            return ("null",)
        at = "int" if (t == "long" and r.random() < 0.4) else t
        return self.prim_expr(at, env, 1)

    def new_expr(self, cname, env, objs):
        c = next(x for x in self.classes if x["name"] == cname)
        ct = self.r.choice(c["ctors"])
        return ("new", cname, [self.arg_for(t, env, objs) for t, _ in ct[0]])

    def call_stmt(self, var, static_cls, env, objs):
        r = self.r
        ms = list(self.visible_methods(static_cls).items())
        ms = [(k, v) for k, v in ms if not v[1][4] and not k[0].startswith("dump")]
        if not ms:
            return []
        (k, (oc, m)) = r.choice(ms)
        # arguments by the parameter types of this overload; a second overload of the same name may win
        # when the static argument types fit it better - the reference interpreter decides, not the generator
        args = [self.arg_for(t, env, objs) for t, _ in m[1]]
        if any(a == ("null",) for a in args) and sum(1 for kk in self.visible_methods(static_cls) if kk[0] == m[0] and len(kk[1]) == len(m[1])) > 1:
            return []        # a null literal argument with several overloads may be ambiguous
        call = ("mcall", ("v", var), m[0], args)
        rets = {v[1][2] == "void" for k, v in self.visible_methods(static_cls).items() if k[0] == m[0] and len(k[1]) == len(m[1])}
        if len(rets) > 1:
            return [("expr", call)]      # another overload may be chosen; do not depend on the result type
        return [("expr", call)] if m[2] == "void" else [("echo", call)]

    def gen_main(self):
        r = self.r
        env = {}
        objs = {}      # var -> dict(static=class name, dyn=class or None)
        body = []
        used = set()
        nvars = r.randint(2, 4)
        for i in range(nvars):
            dyn = r.choice(self.classes)["name"]
            st = r.choice([x["name"] for x in self.chain(dyn)])
            v = "o%d" % i
            used.add(v)
            body.append(("decl", False, ("cls", st), v, self.new_expr(dyn, env, objs)))
            objs[v] = dict(static=st)
            body.append(("expr", ("mcall", ("v", v), "dump" + st, [])))
            for _ in range(r.randint(1, 3)):
                body += self.call_stmt(v, st, env, objs)
            if r.random() < 0.5:
                body.append(("expr", ("mcall", ("v", v), "dump" + st, [])))
            if r.random() < 0.4:
                fs = self.all_fields(st)
                if fs:
                    f = r.choice(fs)
                    body.append(("echo", ("fld", ("v", v), f[3])))
        # helper function taking an ancestor-typed parameter
        helpers = [("note", "int", [("int", "v")], [("ret", ("bin", "+", ("v", "v"), ("i", 1)))])]
        if r.random() < 0.7:
            pc = r.choice(self.classes)["name"]
            hb = [("echo", ("s", "use " + pc))]
            hb += self.call_stmt("p", pc, {}, {})
            helpers.append(("use", "void", [(("cls", pc), "p")], hb))
            cands = [n for n, c in objs.items() if self.is_sub(c["static"], pc)]
            for n in cands[:2]:
                body.append(("expr", ("call", "use", [("v", n)])))
        # an object that dies while its function unwinds from a return
        if r.random() < 0.6:
            dyn = r.choice(self.classes)["name"]
            helpers.append(("scratch", "int", [("int", "v")],
                            [("decl", False, ("cls", dyn), "tmp", self.new_expr(dyn, {"v": ("int", False, False)}, {})),
                             ("if", ("bin", ">", ("v", "v"), ("i", 1)), ("block", [("ret", ("bin", "*", ("v", "v"), ("i", 2)))]), None),
                             ("ret", ("bin", "+", ("v", "v"), ("i", 1)))]))
            body.append(("echo", ("call", "scratch", [("i", r.choice([0, 1, 2, 3]))])))
        # ... and one that lives in the very block that returns (its destructor runs while the value is pending)
        if r.random() < 0.6:
            dyn = r.choice(self.classes)["name"]
            helpers.append(("inner", "int", [("int", "v")],
                            [("if", ("bin", ">", ("v", "v"), ("i", 1)),
                              ("block", [("decl", False, ("cls", dyn), "tmp", self.new_expr(dyn, {"v": ("int", False, False)}, {})),
                                         ("ret", ("bin", "*", ("v", "v"), ("i", 3)))]), None),
                             ("ret", ("bin", "+", ("v", "v"), ("i", 2)))]))
            body.append(("echo", ("bin", "+", ("call", "inner", [("i", r.choice([0, 2, 3]))]), ("i", 1))))
            body.append(("decl", False, "int", "keep", ("call", "inner", [("i", r.choice([2, 5]))])))
            body.append(("echo", ("v", "keep")))
        pairs = [(a, b) for a in objs for b in objs if a != b and self.is_sub(objs[b]["static"], objs[a]["static"])]
        if pairs and r.random() < 0.6:
            a, b = r.choice(pairs)
            # the object a referred to is released here if nothing else holds it
            body.append(("set", a, ("v", b)))
            body += self.call_stmt(a, objs[a]["static"], env, objs)
        # a scoped object
        if r.random() < 0.6:
            dyn = r.choice(self.classes)["name"]
            inner = [("decl", False, ("cls", dyn), "t0", self.new_expr(dyn, env, objs))]
            inner += self.call_stmt("t0", dyn, env, dict(objs, t0=dict(static=dyn)))
            body.append(("block", inner))
            body.append(("echo", ("s", "after block")))
        # statics
        for c in self.classes:
            if c["fields"] and c["fields"][-1][0] and r.random() < 0.6:
                body.append(("echo", ("sfld", c["name"], "cnt" + c["name"])))
        # a static field named through a subclass is the declaring class's one cell: written and read through either name
        for c in self.classes:
            for anc in self.chain(c["name"])[1:]:
                if anc["fields"] and anc["fields"][-1][0] and r.random() < 0.5:
                    f = "cnt" + anc["name"]
                    body.append(("expr", ("sfset", c["name"], f, ("bin", "+", ("sfld", anc["name"], f), ("i", r.choice([10, 40, 100]))))))
                    body.append(("echo", ("bin", "+", ("s", f + " "), ("sfld", anc["name"], f))))
                    body.append(("echo", ("sfld", c["name"], f)))
                    if c["fields"] and c["fields"][-1][0]:
                        body.append(("echo", ("sfld", c["name"], "cnt" + c["name"])))      # the subclass's own static is untouched
        # static methods
        for c in self.classes:
            for m in c["meths"]:
                if m[4] and r.random() < 0.7 and not any((not v[1][4]) for k, v in self.visible_methods(c["name"]).items() if k[0] == m[0]):
                    call = ("scall", c["name"], m[0], [self.arg_for(t, env, objs) for t, _ in m[1]])
                    body.append(("expr", call) if m[2] == "void" else ("echo", call))
        # explicit destroy of one, then release the rest one at a time
        names = list(objs)
        r.shuffle(names)
        if names and r.random() < 0.5:
            body.append(("destroy", ("v", names[0])))
            body.append(("echo", ("s", "destroyed")))
        if not self.die_together:
            for n in names:
                body.append(("set", n, ("null",)))
        body.append(("echo", ("s", "end")))
        return helpers + [("main", "void", [], body)]

    def program(self):
        self.gen_classes()
        fns = self.gen_main()
        return fns, self.classes
