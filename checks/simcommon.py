"""Shared generator / renderer / comparison for the simulator family (C01-C06, C17, C18).

Abstract quantum programs are lists of ops over *handles* (declarations):
  ('D', kind, k)            kind in var|arr|obj ; k qubits
  ('G', gate, h, el, theta) gate in H X Y Z RX RY RZ
  ('CX', h1, e1, h2, e2)
  ('M', h, el, form)        form in stmt|expr|func
  ('MA', h)                 measure a whole qubit[]
  ('R', h, el)
  ('K', h)                  destroy object h
They are (a) rendered to Bloch source, reaching every qubit through a chosen access path, and run by the
real front end + evaluator (drv_prog, hooks give the final state vector and the bookkeeping), and (b)
serialised for the extracted Coq model (ev_run), which predicts everything the C++ reports.
"""
import json, math, os, re
import vlib

GATES1 = ["H", "X", "Y", "Z", "RX", "RY", "RZ"]
# angles whose %f rendering is exact-ish and whose float literal (binary32) is exact: dyadic values
ANGLES = [0.5, 1.0, 1.5, 0.25, 2.0, 3.0, 0.75, 2.5, 0.125, 3.5, 6.0, 1.25, -0.5, -1.5, 4.0]


def fnum(x):
    return repr(float(x))


# an angle is a float (rendered as one float literal, so it must be binary32-exact) or a tuple
# ('sum', a, b): rendered as the expression `a f + b f`, evaluated by the interpreter in double
SUM_ANGLES = [('sum', 1048576.0, 0.0625), ('sum', 16777216.0, 1.0), ('sum', 0.5, 0.25), ('sum', 4194304.0, 0.375), ('sum', -2097152.0, 0.03125)]

def aval(t):
    return t[1] + t[2] if isinstance(t, tuple) else float(t)

def alit(t):
    return "%sf + %sf" % (fnum(t[1]), fnum(t[2])) if isinstance(t, tuple) else "%sf" % fnum(t)


class Prog:
    def __init__(self, ops, draws):
        ops = list(ops)
        self.kinds = []      # per handle: (kind, k)
        for o in ops:
            if o[0] == 'D':
                self.kinds.append((o[1], o[2]))
        # objects still alive when main ends would be destroyed in unordered_map order (not
        # observable in the language, but it decides free-list order and draw consumption):
        # destroy them explicitly, in creation order, so the run is deterministic.
        killed = set(o[1] for o in ops if o[0] == 'K')
        if not any(t.startswith("err") for t in []):
            for h, (kind, k) in enumerate(self.kinds):
                if kind == 'obj' and h not in killed:
                    ops.append(('K', h))
        self.ops = ops
        self.draws = list(draws) + [0.5] * 12

    def model_line(self):
        toks = []
        for o in self.ops:
            if o[0] == 'D':
                toks += ['D', str(o[2])]
            elif o[0] == 'G':
                toks += ['G', o[1], str(o[2]), str(o[3])]
                if o[1] in ('RX', 'RY', 'RZ'):
                    toks.append(fnum(aval(o[4])))
            elif o[0] == 'CX':
                toks += ['CX'] + [str(x) for x in o[1:5]]
            elif o[0] == 'M':
                toks += ['M', str(o[1]), str(o[2])]
            elif o[0] == 'MA':
                toks += ['MA', str(o[1])]
            elif o[0] == 'R':
                toks += ['R', str(o[1]), str(o[2])]
            elif o[0] == 'K':
                toks += ['K', str(o[1])]
        ds = ",".join(fnum(d) for d in self.draws) if self.draws else "-"
        return "eprog %s %s" % (ds, " ".join(toks))

    # ---------------------------------------------------------------- rendering
    def ref(self, h, el):
        kind, k = self.kinds[h]
        if kind == 'var':
            return "v%d" % h
        if kind == 'arr':
            return "r%d[%d]" % (h, el)
        return "o%d.f%d" % (h, el)

    def render(self, rng, styles=("direct", "func", "arrparam", "method"), control=False):
        """Returns (source, line_of_op) where line_of_op[i] is the 1-based line of op i in main."""
        helpers = {}
        classes = {}
        body = []
        lines_of = []
        nbit = [0]
        lv = [0]

        def helper(name, text):
            helpers[name] = text

        def cls(k):
            if k not in classes:
                classes[k] = {"k": k, "methods": {}}
            return classes[k]

        for o in self.ops:
            stmt = None
            if o[0] == 'D':
                kind, k = o[1], o[2]
                h = len([1 for x in lines_of if x[0] == 'D'])
                if kind == 'var':
                    stmt = "qubit v%d;" % h
                elif kind == 'arr':
                    stmt = "qubit[%d] r%d;" % (k, h)
                else:
                    cls(k)
                    stmt = "Q%d o%d = new Q%d();" % (k, h, k)
                lines_of.append(('D', None))
                body.append(stmt)
                continue
            if o[0] == 'G':
                g, h, el = o[1], o[2], o[3]
                gl = g.lower()
                ang = ", %s" % alit(o[4]) if g in ('RX', 'RY', 'RZ') else ""
                kind, k = self.kinds[h]
                avail = [s for s in styles if s in ("direct", "func") or (s == "arrparam" and kind == 'arr') or (s == "method" and kind == 'obj')]
                st = rng.choice(avail)
                if st == "direct":
                    stmt = "%s(%s%s);" % (gl, self.ref(h, el), ang)
                elif st == "func":
                    if ang:
                        helper("g_" + gl, "@quantum function g_%s(qubit a, float t) -> void { %s(a, t); }" % (gl, gl))
                    else:
                        helper("g_" + gl, "@quantum function g_%s(qubit a) -> void { %s(a); }" % (gl, gl))
                    stmt = "g_%s(%s%s);" % (gl, self.ref(h, el), ang)
                elif st == "arrparam":
                    if ang:
                        helper("ga_" + gl, "@quantum function ga_%s(qubit[] a, int i, float t) -> void { %s(a[i], t); }" % (gl, gl))
                    else:
                        helper("ga_" + gl, "@quantum function ga_%s(qubit[] a, int i) -> void { %s(a[i]); }" % (gl, gl))
                    stmt = "ga_%s(r%d, %d%s);" % (gl, h, el, ang)
                else:
                    c = cls(k)
                    mname = "m_%s%d" % (gl, el)
                    if ang:
                        c["methods"][mname] = "public function %s(float t) -> void { %s(this.f%d, t); }" % (mname, gl, el)
                        stmt = "o%d.%s(%s);" % (h, mname, alit(o[4]))
                    else:
                        c["methods"][mname] = "public function %s() -> void { %s(this.f%d); }" % (mname, gl, el)
                        stmt = "o%d.%s();" % (h, mname)
            elif o[0] == 'CX':
                h1, e1, h2, e2 = o[1:5]
                st = rng.choice([s for s in styles if s in ("direct", "func")])
                if st == "direct":
                    stmt = "cx(%s, %s);" % (self.ref(h1, e1), self.ref(h2, e2))
                else:
                    helper("g_cx", "@quantum function g_cx(qubit a, qubit b) -> void { cx(a, b); }")
                    stmt = "g_cx(%s, %s);" % (self.ref(h1, e1), self.ref(h2, e2))
            elif o[0] == 'M':
                h, el, form = o[1], o[2], o[3]
                if form == 'stmt':
                    stmt = "measure %s;" % self.ref(h, el)
                elif form == 'expr':
                    if rng.random() < 0.4:
                        stmt = "echo(measure %s);" % self.ref(h, el)      # the measurement is the echo argument (no bit variable)
                    else:
                        nbit[0] += 1
                        stmt = "bit b%d = measure %s; echo(b%d);" % (nbit[0], self.ref(h, el), nbit[0])
                else:
                    helper("g_m", "@quantum function g_m(qubit a) -> bit { bit r = measure a; return r; }")
                    stmt = "echo(g_m(%s));" % self.ref(h, el)
            elif o[0] == 'MA':
                stmt = "measure r%d;" % o[1]
            elif o[0] == 'R':
                h, el = o[1], o[2]
                if rng.random() < 0.5 or "func" not in styles:
                    stmt = "reset %s;" % self.ref(h, el)
                else:
                    helper("g_r", "@quantum function g_r(qubit a) -> void { reset a; }")
                    stmt = "g_r(%s);" % self.ref(h, el)
            elif o[0] == 'K':
                stmt = "destroy o%d;" % o[1]
            if control and o[0] in ('G', 'CX') and rng.random() < 0.3:
                if nbit[0] > 0 and rng.random() < 0.5:
                    b = rng.randint(1, nbit[0])
                    stmt = "if (b%d == 1b) { %s } else { %s }" % (b, stmt, stmt)
                else:
                    lv[0] += 1
                    stmt = "for (int i%d = 0; i%d < 1; i%d = i%d + 1) { %s }" % (lv[0], lv[0], lv[0], lv[0], stmt)
            lines_of.append((o[0], None))
            body.append(stmt)
        src = []
        for k in sorted(classes):
            c = classes[k]
            src.append("class Q%d {" % k)
            for i in range(k):
                src.append("    public qubit f%d;" % i)
            src.append("    public constructor() -> Q%d = default;" % k)
            for m in sorted(c["methods"]):
                src.append("    " + c["methods"][m])
            src.append("}")
        for hname in sorted(helpers):
            src.append(helpers[hname])
        src.append("function main() -> void {")
        first = len(src) + 1
        for s in body:
            src.append("    " + s)
        src.append("}")
        oplines = [first + i for i in range(len(body))]
        return "\n".join(src) + "\n", oplines


# ---------------------------------------------------------------- generation

def gen_prog(rng, max_q=5, n_ops=12, kinds=("var", "arr", "obj"), allow_measure=True, allow_reset=True,
             allow_release=False, allow_bad=False, decl_mid=True, gates=GATES1, p_cx=0.25, forms=("stmt", "expr", "func")):
    """Random abstract program.  allow_bad: may operate on measured qubits (C06)."""
    ops, handles = [], []     # handles: list of dict(kind,k,alive, measured flags)
    nq = 0
    draws = []

    def decl():
        nonlocal nq
        kind = rng.choice(kinds)
        k = 1 if kind == 'var' else rng.randint(1, 3)
        if nq + k > max_q:
            kind, k = 'var', 1
        if nq + k > max_q:
            return False
        ops.append(('D', kind, k))
        handles.append({"kind": kind, "k": k, "alive": True, "meas": [False] * k})
        nq += k
        return True

    decl()
    if rng.random() < 0.7:
        decl()
    steps = 0
    while steps < n_ops:
        steps += 1
        live = [(h, e) for h, hd in enumerate(handles) if hd["alive"] for e in range(hd["k"])]
        usable = [(h, e) for (h, e) in live if allow_bad or not handles[h]["meas"][e]]
        r = rng.random()
        if decl_mid and r < 0.12:
            if decl():
                continue
        if not usable:
            if not decl():
                break
            continue
        if r < 0.12 + p_cx and len(usable) >= 2:
            (h1, e1), (h2, e2) = rng.sample(usable, 2)
            ops.append(('CX', h1, e1, h2, e2))
        elif allow_measure and r < 0.5 and rng.random() < 0.35:
            h, e = rng.choice(usable)
            if handles[h]["kind"] == 'arr' and rng.random() < 0.3 and (allow_bad or not any(handles[h]["meas"])):
                ops.append(('MA', h))
                for i in range(handles[h]["k"]):
                    handles[h]["meas"][i] = True
                    draws.append(rng.choice([0.0, 0.25, 0.5, 0.75, 0.999, rng.random()]))
            else:
                ops.append(('M', h, e, rng.choice(forms)))
                handles[h]["meas"][e] = True
                draws.append(rng.choice([0.0, 0.25, 0.5, 0.75, 0.999, rng.random()]))
        elif allow_reset and r > 0.9:
            h, e = rng.choice(live)
            ops.append(('R', h, e))
            handles[h]["meas"][e] = False
            draws.append(rng.choice([0.0, 0.3, 0.5, 0.8, 0.999, rng.random()]))
        elif allow_release and r > 0.84:
            objs = [h for h, hd in enumerate(handles) if hd["alive"] and hd["kind"] == 'obj']
            if objs:
                h = rng.choice(objs)
                ops.append(('K', h))
                handles[h]["alive"] = False
                for _ in range(handles[h]["k"]):
                    draws.append(rng.choice([0.0, 0.3, 0.5, 0.8, 0.999, rng.random()]))
                nq -= 0   # indices are recycled, the register does not shrink
                # a later declaration may reuse: allow more declarations
                continue
            else:
                steps -= 1 if rng.random() < 0.5 else 0
        else:
            h, e = rng.choice(usable)
            g = rng.choice(gates)
            ops.append(('G', g, h, e, rng.choice(ANGLES) if rng.random() < 0.85 else rng.choice(SUM_ANGLES)))
    # reuse consumes draws at declaration time too (reset on reuse); give spare draws
    draws += [rng.choice([0.1, 0.6, 0.9]) for _ in range(6)]
    return ops, draws


def gen_reuse_prog(rng, n_ops=14):
    """Programs that release objects and re-declare, so indices are recycled (C03/C04)."""
    ops, draws = [], []
    handles = []
    def decl(kind, k):
        ops.append(('D', kind, k)); handles.append({"kind": kind, "k": k, "alive": True, "meas": [False] * k})
        draws.extend(rng.choice([0.1, 0.45, 0.55, 0.9]) for _ in range(k))   # possible reuse resets
    decl('obj', rng.randint(1, 2)); decl(rng.choice(['var', 'arr', 'obj']), rng.randint(1, 2) if True else 1)
    if handles[-1]["kind"] == 'var':
        handles[-1]["k"] = 1; ops[-1] = ('D', 'var', 1)
    for _ in range(n_ops):
        live = [(h, e) for h, hd in enumerate(handles) if hd["alive"] for e in range(hd["k"])]
        usable = [(h, e) for (h, e) in live if not handles[h]["meas"][e]]
        r = rng.random()
        objs = [h for h, hd in enumerate(handles) if hd["alive"] and hd["kind"] == 'obj']
        if r < 0.15 and objs:
            h = rng.choice(objs)
            ops.append(('K', h)); handles[h]["alive"] = False
            draws.extend(rng.choice([0.1, 0.45, 0.55, 0.9]) for _ in range(handles[h]["k"]))
        elif r < 0.3 and sum(hd["k"] for hd in handles if hd["alive"]) < 5:
            kind = rng.choice(['var', 'arr', 'obj'])
            decl(kind, 1 if kind == 'var' else rng.randint(1, 2))
        elif r < 0.45 and len(usable) >= 2:
            (h1, e1), (h2, e2) = rng.sample(usable, 2)
            ops.append(('CX', h1, e1, h2, e2))
        elif r < 0.55 and usable:
            h, e = rng.choice(usable)
            ops.append(('M', h, e, rng.choice(["stmt", "expr"]))); handles[h]["meas"][e] = True
            draws.append(rng.choice([0.0, 0.3, 0.5, 0.8, 0.999]))
        elif r < 0.62 and live:
            h, e = rng.choice(live)
            ops.append(('R', h, e)); handles[h]["meas"][e] = False
            draws.append(rng.choice([0.0, 0.3, 0.5, 0.8, 0.999]))
        elif usable:
            h, e = rng.choice(usable)
            ops.append(('G', rng.choice(["H", "X", "RY", "RX", "Z", "Y"]), h, e, rng.choice(ANGLES)))
    return ops, draws + [0.5] * 8


# ---------------------------------------------------------------- running

def parse_model_line(line):
    parts = [p.strip() for p in line.split("|")]
    d = {}
    for p in parts:
        k, _, v = p.partition(" ")
        d[k] = v.strip()
    nums = [float(x) for x in d["amps"].split()] if d.get("amps") else []
    d["amps"] = [(nums[i], nums[i + 1]) for i in range(0, len(nums), 2)]
    d["nq"] = int(d["nq"])
    d["trace"] = d["trace"].split(";") if d.get("trace") else []
    d["free"] = [int(x) for x in d["free"].split(",")] if d.get("free") else []
    d["last"] = [int(x) for x in d["last"].split(",")] if d.get("last") else []
    d["qasm"] = bytes.fromhex(d["qasm"]).decode("latin-1") if d.get("qasm", "-") != "-" else ""
    return d


def run_progs(progs, rng, tag, styles=("direct", "func", "arrparam", "method"), timeout=1800, control=False):
    """progs: list of Prog.  Returns list of dict(prog, src, oplines, model, impl)."""
    exe_m = vlib.ocaml_engine("sim")
    vlib.repo_build("hooked")
    drv = vlib.cpp_driver("drv_prog")
    tmp = os.path.join(vlib.BUILD, "tmp", "%s-%d" % (tag, os.getpid()))
    os.makedirs(tmp, exist_ok=True)
    out = []
    try:
        with open(os.path.join(tmp, "model.txt"), "w") as fm, open(os.path.join(tmp, "cases.txt"), "w") as fc:
            for i, p in enumerate(progs):
                src, oplines = p.render(rng, styles, control)
                path = os.path.join(tmp, "p%05d.bloch" % i)
                open(path, "w").write(src)
                fm.write(p.model_line() + "\n")
                fc.write("run %s draws=%s\n" % (path, ",".join(fnum(d) for d in p.draws)))
                out.append({"prog": p, "src": src, "oplines": oplines})
        rc, om = vlib.sh([exe_m, os.path.join(tmp, "model.txt")], timeout=timeout)
        lm = om.splitlines()
        if rc != 0 or len(lm) != len(progs):
            raise RuntimeError("sim model driver failed rc=%d (%d/%d lines): %s" % (rc, len(lm), len(progs), om[-400:]))
        rc, oc = vlib.sh([drv, os.path.join(tmp, "cases.txt"), "20"], timeout=timeout)
        lc = oc.splitlines()
        if len(lc) != len(progs):
            raise RuntimeError("drv_prog produced %d/%d lines: %s" % (len(lc), len(progs), oc[-400:]))
        for rec, m, c in zip(out, lm, lc):
            rec["model"] = parse_model_line(m)
            try:
                rec["impl"] = json.loads(c)
            except Exception:
                rec["impl"] = {"status": "unparsable", "raw": c[:500]}
    finally:
        import shutil
        shutil.rmtree(tmp, ignore_errors=True)
    return out


def amps_close(a, b, tol=1e-9):
    if len(a) != len(b):
        return False
    for (x1, y1), z in zip(a, b):
        if not isinstance(z, (list, tuple)):
            return False
        if abs(x1 - z[0]) > tol or abs(y1 - z[1]) > tol:
            return False
    return True


def expected_stdout(rec):
    """echo lines the program prints: measured bits of expr/func-form measurements in order."""
    p, m = rec["prog"], rec["model"]
    lines = []
    ti = 0
    for o, t in zip(p.ops, m["trace"]):
        if not t.startswith("ok"):
            break
        if o[0] == 'M' and o[3] in ("expr", "func"):
            lines.append(t[3:])
    return "".join(l + "\n" for l in lines)


def compare(rec):
    """Returns list of (aspect, detail) disagreements between model prediction and implementation."""
    m, c, p = rec["model"], rec["impl"], rec["prog"]
    dis = []
    st = c.get("status")
    if st in ("signal", "exit", "exception", "unparsable"):
        return [("crash", "%s %s" % (st, str(c)[:200]))]
    err = [t for t in m["trace"] if t.startswith("err")]
    if err:
        if st != "error" or c.get("cat") != "Runtime":
            dis.append(("error-expected", "model %s, impl status=%s cat=%s msg=%s" % (err[0], st, c.get("cat"), c.get("msg", "")[:120])))
        else:
            # located, and on the line of the failing op
            idx = len(m["trace"]) - 1
            want = rec["oplines"][idx] if idx < len(rec["oplines"]) else None
            if c.get("line", 0) <= 0 or c.get("col", 0) <= 0:
                dis.append(("error-unlocated", "runtime error without position: %s" % c.get("msg", "")[:120]))
            kind = err[0]
            msg = c.get("msg", "")
            if kind == "err:measured" and "measured" not in msg:
                dis.append(("error-kind", "expected measured-qubit error, got %s" % msg[:120]))
            if kind == "err:same" and "distinct" not in msg:
                dis.append(("error-kind", "expected distinct-qubits error, got %s" % msg[:120]))
    else:
        if st != "ok":
            dis.append(("unexpected-error", "impl %s %s %s" % (st, c.get("cat"), c.get("msg", "")[:160])))
            return dis
    if "nq" not in c:
        dis.append(("no-state", "no evaluator dump"))
        return dis
    if c["nq"] != m["nq"]:
        dis.append(("nq", "model %d impl %d" % (m["nq"], c["nq"])))
    elif not amps_close(m["amps"], c["amps"]):
        dis.append(("amps", "state vectors differ"))
    if c["sim_meas"][:m["nq"]] != m["meas"][:m["nq"]]:
        dis.append(("sim-flags", "model %s impl %s" % (m["meas"], c["sim_meas"])))
    if c["ev_meas"] != m["ev"]:
        dis.append(("ev-flags", "model %s impl %s" % (m["ev"], c["ev_meas"])))
    if c["free"] != m["free"]:
        dis.append(("free-list", "model %s impl %s" % (m["free"], c["free"])))
    if c["last"] != m["last"]:
        dis.append(("last-measurement", "model %s impl %s" % (m["last"], c["last"])))
    if c["qasm"] != m["qasm"]:
        dis.append(("qasm", "emitted text differs"))
    if not err and c.get("stdout") != expected_stdout(rec):
        dis.append(("stdout", "model %r impl %r" % (expected_stdout(rec), c.get("stdout"))))
    return dis


# ---------------------------------------------------------------- reporting helper

def check_progs(chk, progs, tag, rng, aspects=None, styles=("direct", "func", "arrparam", "method"), extra=None, control=False):
    """Run programs on model and implementation; report disagreements (restricted to `aspects` when given).
    extra(rec) -> list of (aspect, detail) statement-level findings computed from the implementation alone."""
    res = run_progs(progs, rng, tag, styles, control=control)
    n_dis = 0
    for r in res:
        d = compare(r)
        if aspects is not None:
            d = [x for x in d if x[0] in aspects or x[0] in ("crash", "unexpected-error", "no-state", "error-expected")]
        if extra:
            d = d + list(extra(r))
        if not d:
            continue
        n_dis += 1
        payload = {"source": r["src"], "model_line": r["prog"].model_line(), "draws": r["prog"].draws[:12], "disagreements": d,
                   "impl": {k: v for k, v in r["impl"].items() if k in ("status", "cat", "line", "col", "msg", "stdout", "sim_meas", "ev_meas", "free", "last", "nq", "tracked", "draws")},
                   "model": {k: v for k, v in r["model"].items() if k in ("nq", "meas", "ev", "free", "last", "env", "trace")},
                   "how": "save source as p.bloch; echo 'run p.bloch draws=<draws comma separated>' > cases; build/drivers/hooked/drv_prog cases"}
        chk.report("%s-%s" % (tag, d[0][0]), payload, "%s: %s" % (d[0][0], d[0][1][:140]))
    if res:
        chk.sample({"program": res[0]["src"], "model_line": res[0]["prog"].model_line()})
        chk.sample({"program": res[-1]["src"], "model_line": res[-1]["prog"].model_line()})
    return res, n_dis


def impl_state_sane(rec, tol=1e-9):
    """statement-level check on the implementation's final state alone: 2^n finite amplitudes, unit norm"""
    c = rec["impl"]
    out = []
    if "amps" not in c:
        return out
    a = c["amps"]
    if len(a) != 2 ** c["nq"]:
        out.append(("state-size", "%d amplitudes for %d qubits" % (len(a), c["nq"])))
    if any(not isinstance(x, list) for x in a):
        out.append(("state-nonfinite", "non-finite amplitude"))
    else:
        n = sum(x[0] * x[0] + x[1] * x[1] for x in a)
        if abs(n - 1) > tol:
            out.append(("state-norm", "norm^2 = %.12g" % n))
    return out
