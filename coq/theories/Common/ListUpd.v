(* In-place vector update on lists and its basic lemmas *)
From Coq Require Import List Arith Lia PeanoNat Bool.
Import ListNotations.

Section Upd.
  Context {A : Type}.
  Fixpoint upd (i : nat) (x : A) (l : list A) : list A :=
    match l, i with
    | [], _ => []
    | _ :: t, 0 => x :: t
    | h :: t, S i' => h :: upd i' x t
    end.
  Lemma upd_length i x l : length (upd i x l) = length l.
  Proof. revert i; induction l as [|h t IH]; intros [|i]; simpl; auto. Qed.
  Lemma nth_upd_eq i x l d : i < length l -> nth i (upd i x l) d = x.
  Proof. revert i; induction l as [|h t IH]; intros [|i] H; simpl in *; try lia; auto. apply IH; lia. Qed.
  Lemma nth_upd_neq i j x l d : i <> j -> nth j (upd i x l) d = nth j l d.
  Proof. revert i j; induction l as [|h t IH]; intros [|i] [|j] H; simpl; auto; try lia. Qed.
End Upd.

Lemma nth_ext_len {A} (l1 l2 : list A) d :
  length l1 = length l2 -> (forall k, k < length l1 -> nth k l1 d = nth k l2 d) -> l1 = l2.
Proof. intros HL H. apply (nth_ext l1 l2 d d HL H). Qed.
