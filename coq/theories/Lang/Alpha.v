(* Alpha-renaming (C09) for the class-free fragment of the reference interpreter: renaming the locals and
   parameters of every function by an injective renaming of its own (in particular: of one function, the
   others by the identity) leaves every run unchanged.  The proof is a simulation: the renamed program
   runs in lock step with the original, its environment being the original's with renamed names. *)
From Coq Require Import List ZArith String Ascii Bool Arith.
From Bloch Require Import Lang.Syntax Lang.Eval Lang.ScopeProps.
Import ListNotations.

(* ------------------------------------------------------------------ renaming of syntax *)
Section Ren.
  Variable r : string -> string.

  Fixpoint ren_expr (e : expr) : expr :=
    match e with
    | ELit l => ELit l
    | EVar x => EVar (r x)
    | EBin o a b => EBin o (ren_expr a) (ren_expr b)
    | EUn o a => EUn o (ren_expr a)
    | ECast t a => ECast t (ren_expr a)
    | EIndex a i => EIndex (ren_expr a) (ren_expr i)
    | EArr es => EArr (map ren_expr es)
    | ECall f args => ECall f (map ren_expr args)
    | EPost x inc => EPost (r x) inc
    | EAssign x a => EAssign (r x) (ren_expr a)
    | ENew c args => ENew c (map ren_expr args)
    | EField a f => EField (ren_expr a) f
    | EThis => EThis
    | ENull => ENull
    | EMCall a m args => EMCall (ren_expr a) m (map ren_expr args)
    | ESuperCall m args => ESuperCall m (map ren_expr args)
    | ESCall c m args => ESCall c m (map ren_expr args)
    | ESField c f => ESField c f
    | EFieldSet a f v => EFieldSet (ren_expr a) f (ren_expr v)
    | ESFieldSet c f v => ESFieldSet c f (ren_expr v)
    end.

  Fixpoint ren_stmt (c : stmt) : stmt :=
    match c with
    | SDecl fin t x init => SDecl fin t (r x) (option_map ren_expr init)
    | SDeclArr elt x size init => SDeclArr elt (r x) (option_map ren_expr size) (option_map ren_expr init)
    | SAssign x e => SAssign (r x) (ren_expr e)
    | SArrAssign x i e => SArrAssign (r x) (ren_expr i) (ren_expr e)
    | SIf c a b => SIf (ren_expr c) (ren_stmt a) (option_map ren_stmt b)
    | STern c a b => STern (ren_expr c) (ren_stmt a) (ren_stmt b)
    | SWhile c body => SWhile (ren_expr c) (ren_stmt body)
    | SFor init c step body => SFor (option_map ren_stmt init) (option_map ren_expr c) (option_map ren_stmt step) (ren_stmt body)
    | SEcho e => SEcho (ren_expr e)
    | SReturn e => SReturn (option_map ren_expr e)
    | SExpr e => SExpr (ren_expr e)
    | SBlock ss => SBlock (map ren_stmt ss)
    | SDestroy e => SDestroy (ren_expr e)
    end.

  Definition ren_fn (fd : fdecl) : fdecl :=
    mkFn (fn_name fd) (map (fun p => (fst p, r (snd p))) (fn_params fd)) (fn_ret fd) (map ren_stmt (fn_body fd)).
End Ren.

(* the class-free fragment *)
Fixpoint plain_expr (e : expr) : bool :=
  match e with
  | ELit _ | EVar _ | EPost _ _ => true
  | EBin _ a b | EIndex a b => plain_expr a && plain_expr b
  | EUn _ a | ECast _ a | EAssign _ a => plain_expr a
  | EArr es | ECall _ es => forallb plain_expr es
  | _ => false
  end.
Definition plain_oexpr (o : option expr) : bool := match o with Some e => plain_expr e | None => true end.
Fixpoint plain_stmt (c : stmt) : bool :=
  match c with
  | SDecl _ _ _ init => plain_oexpr init
  | SDeclArr _ _ size init => plain_oexpr size && plain_oexpr init
  | SAssign _ e | SEcho e | SExpr e => plain_expr e
  | SArrAssign _ i e => plain_expr i && plain_expr e
  | SIf c a b => plain_expr c && plain_stmt a && match b with Some b' => plain_stmt b' | None => true end
  | STern c a b => plain_expr c && plain_stmt a && plain_stmt b
  | SWhile c body => plain_expr c && plain_stmt body
  | SFor init c step body =>
      match init with Some i => plain_stmt i | None => true end && plain_oexpr c &&
      match step with Some s' => plain_stmt s' | None => true end && plain_stmt body
  | SReturn e => plain_oexpr e
  | SBlock ss => forallb plain_stmt ss
  | SDestroy _ => false
  end.

Section Alpha.
  Context {F : Type} (O : fops F).
  Notation value := (value F).
  Notation st := (st (F:=F)).

  Definition good (r : string -> string) : Prop :=
    (forall a b, r a = r b -> a = b) /\ r "this"%string = "this"%string.

  Variable fns : string -> option fdecl.
  Variable rt : string -> string -> string.            (* one renaming per function *)
  Hypothesis rt_good : forall g, good (rt g).
  Hypothesis fns_plain : forall g fd, fns g = Some fd -> forallb plain_stmt (fn_body fd) = true.
  Definition fns' (g : string) : option fdecl := option_map (ren_fn (rt g)) (fns g).

  Definition cls0 : string -> option cdecl := fun _ => None.

  Definition srel (r : string -> string) (s s' : st) : Prop :=
    s_env s' = ren_env r (s_env s) /\ s_out s' = s_out s /\ s_temps s' = s_temps s /\
    s_heap s = [] /\ s_heap s' = [] /\ s_statics s' = s_statics s /\ s_ctx s' = s_ctx s.

  Definition rrel {A} (R : A -> A -> Prop) (m m' : res A) : Prop :=
    match m, m' with
    | Ok a, Ok a' => R a a'
    | Err e, Err e' => e = e'
    | OutOfFuel, OutOfFuel => True
    | _, _ => False
    end.

  Lemma rrel_bind {A B} (R : A -> A -> Prop) (Q : B -> B -> Prop) m m' k k' :
    rrel R m m' -> (forall a a', R a a' -> rrel Q (k a) (k' a')) -> rrel Q (bind m k) (bind m' k').
  Proof. destruct m, m'; cbn; intros H K; first [contradiction | apply K; exact H | exact H | exact I]. Qed.

  Lemma rrel_eq_bind {A B} (Q : B -> B -> Prop) (m : res A) k k' :
    (forall a, rrel Q (k a) (k' a)) -> rrel Q (bind m k) (bind m k').
  Proof. destruct m; cbn; auto. Qed.

  Lemma rrel_refl_eq {A} (m : res A) : rrel eq m m.
  Proof. destruct m; cbn; auto. Qed.

  Definition vrel (r : string -> string) (p p' : value * st) : Prop := fst p = fst p' /\ srel r (snd p) (snd p').
  Definition crel (r : string -> string) (p p' : ctl (F:=F) * st) : Prop := fst p = fst p' /\ srel r (snd p) (snd p').

  (* ---------------------------------------------------------------- state operations commute *)
  Lemma srel_temps r s s' t : srel r s s' -> srel r (with_temps s t) (with_temps s' t).
  Proof. intros [A [B [C [D [E [G H]]]]]]. repeat split; assumption. Qed.
  Lemma srel_temps_back r s s' z z' : srel r s s' -> s_temps z' = s_temps z -> srel r (with_temps s (s_temps z)) (with_temps s' (s_temps z')).
  Proof. intros [A [B [C [D [E [G H]]]]]] T. repeat split; try assumption; cbn; now rewrite T. Qed.
  Lemma srel_out r s s' l : srel r s s' -> srel r (with_out s (l :: s_out s)) (with_out s' (l :: s_out s')).
  Proof. intros [A [B [C [D [E [G H]]]]]]. repeat split; try assumption; cbn; now rewrite B. Qed.

  Lemma static_owner0 c f : static_owner cls0 0 c f = None.
  Proof. reflexivity. Qed.

  Lemma this_loc_rel r s s' : good r -> srel r s s' -> this_loc s' = this_loc s.
  Proof.
    intros [Hi Ht] [A _]. unfold this_loc. rewrite A. rewrite <- Ht at 1. now rewrite (lookup_ren r Hi).
  Qed.

  Lemma get_obj_nil (s : st) l : s_heap s = [] -> get_obj s l = None.
  Proof. intro H. unfold get_obj. rewrite H. destruct l; reflexivity. Qed.

  Lemma read_rel r s s' x : good r -> srel r s s' -> rrel eq (read_name cls0 0 x s) (read_name cls0 0 (r x) s').
  Proof.
    intros G S. pose proof S as [A [_ [_ [H0 [H0' _]]]]]. destruct G as [Hi Ht].
    unfold read_name. rewrite A, (lookup_ren r Hi).
    destruct (lookup x (s_env s)); [reflexivity|].
    rewrite (this_loc_rel r s s' (conj Hi Ht) S).
    destruct (this_loc s) as [l|]; [rewrite (get_obj_nil s l H0), (get_obj_nil s' l H0')|]; rewrite !static_owner0; reflexivity.
  Qed.

  Lemma write_rel r s s' x v : good r -> srel r s s' ->
    rrel (srel r) (write_name cls0 0 x v s) (write_name cls0 0 (r x) v s').
  Proof.
    intros G S. pose proof S as [A [B [C [H0 [H0' [D E]]]]]]. destruct G as [Hi Ht].
    unfold write_name. rewrite A, (lookup_ren r Hi).
    destruct (lookup x (s_env s)) as [old|].
    - cbn. repeat split; try assumption. change (update (r x) (widen (type_of old) v) (ren_env r (s_env s)) = ren_env r (update x (widen (type_of old) v) (s_env s))). now rewrite (update_ren r Hi).
    - rewrite (this_loc_rel r s s' (conj Hi Ht) S).
      destruct (this_loc s) as [l|]; [rewrite (get_obj_nil s l H0), (get_obj_nil s' l H0')|]; rewrite !static_owner0; reflexivity.
  Qed.

  Lemma sweep0 ex extra (s : st) : s_heap s = [] -> sweep_all cls0 0 ex extra s = Ok s.
  Proof. intro H. unfold sweep_all. rewrite H. cbn [List.length sweep]. unfold unreferenced. rewrite H. reflexivity. Qed.

  (* ---------------------------------------------------------------- lists *)
  Definition erel (ev ev' : st -> expr -> res (value * st)) : Prop :=
    forall r, good r -> forall s s' e, srel r s s' -> plain_expr e = true -> rrel (vrel r) (ev s e) (ev' s' (ren_expr r e)).
  Definition xrel (ex ex' : st -> stmt -> res (ctl (F:=F) * st)) : Prop :=
    forall r, good r -> forall s s' c, srel r s s' -> plain_stmt c = true -> rrel (crel r) (ex s c) (ex' s' (ren_stmt r c)).

  Lemma eval_list_rel ev ev' : erel ev ev' -> forall r, good r -> forall es s s',
    srel r s s' -> forallb plain_expr es = true ->
    rrel (fun p p' => fst p = fst p' /\ srel r (snd p) (snd p')) (eval_list ev s es) (eval_list ev' s' (map (ren_expr r) es)).
  Proof.
    intros E r G es. induction es as [|a t IH]; intros s s' S P; cbn [eval_list map forallb] in *.
    - cbn. split; [reflexivity | exact S].
    - apply andb_true_iff in P. destruct P as [Pa Pt].
      eapply rrel_bind; [apply (E r G s s' a S Pa)|]. intros [v s1] [v' s1'] [Hv S1]. cbn [fst snd] in *. subst v'.
      eapply rrel_bind; [apply IH; [|exact Pt]|].
      + destruct S1 as [A [B [C R]]]. repeat split; try tauto. cbn. now rewrite C.
      + intros [vs s2] [vs' s2'] [Hvs S2]. cbn [fst snd] in *. subst. cbn. split; [reflexivity | exact S2].
  Qed.

  Lemma evals_rel ev ev' : erel ev ev' -> forall r, good r -> forall es s s',
    srel r s s' -> forallb plain_expr es = true ->
    rrel (fun p p' => fst p = fst p' /\ srel r (snd p) (snd p')) (evals ev s es) (evals ev' s' (map (ren_expr r) es)).
  Proof.
    intros E r G es s s' S P. unfold evals.
    eapply rrel_bind; [apply (eval_list_rel ev ev' E r G es s s' S P)|].
    intros [vs s1] [vs' s1'] [Hv S1]. cbn [fst snd] in *. subst. cbn. split; [reflexivity|].
    apply srel_temps_back; [exact S1 | exact (proj1 (proj2 (proj2 S)))].
  Qed.

  Lemma exec_list_rel ex ex' : xrel ex ex' -> forall r, good r -> forall ss s s',
    srel r s s' -> forallb plain_stmt ss = true ->
    rrel (crel r) (exec_list ex (post_stmt cls0 0 ex) s ss) (exec_list ex' (post_stmt cls0 0 ex') s' (map (ren_stmt r) ss)).
  Proof.
    intros X r G ss. induction ss as [|a t IH]; intros s s' S P; cbn [exec_list map forallb] in *.
    - cbn. split; [reflexivity | exact S].
    - apply andb_true_iff in P. destruct P as [Pa Pt].
      eapply rrel_bind; [apply (X r G s s' a S Pa)|]. intros [c s1] [c' s1'] [Hc S1]. cbn [fst snd] in *. subst c'.
      unfold post_stmt. rewrite (sweep0 ex _ s1 (proj1 (proj2 (proj2 (proj2 S1))))), (sweep0 ex' _ s1' (proj1 (proj2 (proj2 (proj2 (proj2 S1)))))).
      cbn [bind]. destruct c; [apply IH; assumption | cbn; split; [reflexivity | exact S1]].
  Qed.

  Lemma bind_params_ren r ps (vs : list value) :
    bind_params (map (fun p => (fst p, r (snd p))) ps) vs = option_map (ren_scope r) (bind_params ps vs).
  Proof.
    revert vs. induction ps as [|[t x] ps IH]; intros vs; destruct vs as [|v vs]; cbn; try reflexivity.
    rewrite IH. destruct (bind_params ps vs); reflexivity.
  Qed.

  Ltac fin := cbn; unfold vrel, crel; cbn; first [split; [reflexivity | assumption] | assumption].

  (* ---------------------------------------------------------------- one step, expressions *)
  Lemma resolve0 c m (vs : list value) : resolve cls0 0 c m vs = None.
  Proof. reflexivity. Qed.

  Lemma srel_push r s s' : srel r s s' -> srel r (push s) (push s').
  Proof. intros [A [B [C [D [E [G H]]]]]]. repeat split; try assumption. cbn. now rewrite A. Qed.
  Lemma srel_pop r s s' : srel r s s' -> srel r (pop s) (pop s').
  Proof.
    intros [A [B [C [D [E [G H]]]]]]. repeat split; try assumption. cbn. rewrite A.
    destruct (s_env s); reflexivity.
  Qed.
  Lemma srel_declare r (Hg : good r) s s' x v : srel r s s' ->
    srel r (with_env s (declare x v (s_env s))) (with_env s' (declare (r x) v (s_env s'))).
  Proof.
    intros [A [B [C [D [E [G H]]]]]]. repeat split; try assumption. cbn. rewrite A. symmetry. apply declare_ren.
  Qed.

  Section Step.
    Variable ev ev' : st -> expr -> res (value * st).
    Variable ex ex' : st -> stmt -> res (ctl (F:=F) * st).
    Hypothesis EV : erel ev ev'.
    Hypothesis EX : xrel ex ex'.

    Lemma call_body_rel r (Hg : good r) rho (Hr : good rho) s s' sc ret vs body :
      srel r s s' -> forallb plain_stmt body = true ->
      rrel (vrel r) (call_body cls0 0 ex s sc EmptyString ret vs body)
                    (call_body cls0 0 ex' s' (ren_scope rho sc) EmptyString ret vs (map (ren_stmt rho) body)).
    Proof.
      intros S P. unfold call_body, execs.
      set (s0 := enter (with_temps s (vs ++ s_temps s)) sc EmptyString).
      set (s0' := enter (with_temps s' (vs ++ s_temps s')) (ren_scope rho sc) EmptyString).
      assert (srel rho s0 s0') as S0.
      { destruct S as [A [B [C [D [E [G H]]]]]]. unfold s0, s0'. repeat split; cbn; try assumption; try reflexivity. now rewrite C. }
      eapply rrel_bind; [apply (exec_list_rel ex ex' EX rho Hr body s0 s0' S0 P)|].
      intros [c s1] [c' s1'] [Hc S1]. cbn [fst snd] in *. subst c'.
      assert (srel r (leave s s1) (leave s' s1')) as SL.
      { destruct S as [A [B [C [D [E [G H]]]]]]. destruct S1 as [A1 [B1 [C1 [D1 [E1 [G1 H1]]]]]].
        repeat split; cbn; assumption. }
      rewrite (sweep0 ex _ (leave s s1) (proj1 (proj2 (proj2 (proj2 SL))))), (sweep0 ex' _ (leave s' s1') (proj1 (proj2 (proj2 (proj2 (proj2 SL)))))).
      cbn. split; [reflexivity | exact SL].
    Qed.

    Theorem eval_step_rel : erel (eval_step O fns cls0 0 ev ex) (eval_step O fns' cls0 0 ev' ex').
    Proof.
      intros r G s s' e S P.
      destruct e; cbn [plain_expr] in P; try discriminate; cbn [ren_expr eval_step].
      - (* literal *) cbn. split; [reflexivity | exact S].
      - (* variable *) eapply rrel_bind; [apply (read_rel r s s' x G S)|]. intros v v' ->. cbn. split; [reflexivity | exact S].
      - (* binary *) apply andb_true_iff in P. destruct P as [Pa Pb].
        eapply rrel_bind; [apply (EV r G s s' e1 S Pa)|]. intros [va s1] [va' s1'] [Hv S1]. cbn [fst snd] in *. subst va'.
        replace (s_temps s1') with (s_temps s1) by (symmetry; exact (proj1 (proj2 (proj2 S1)))).
        eapply rrel_bind; [apply (EV r G _ _ e2 (srel_temps r s1 s1' _ S1) Pb)|].
        intros [vb s2] [vb' s2'] [Hb S2]. cbn [fst snd] in *. subst vb'.
        apply rrel_eq_bind. intro v. cbn. split; [reflexivity|].
        apply srel_temps_back; [exact S2 | exact (proj1 (proj2 (proj2 S)))].
      - (* unary *) eapply rrel_bind; [apply (EV r G s s' e S P)|]. intros [va s1] [va' s1'] [Hv S1]. cbn [fst snd] in *. subst va'.
        apply rrel_eq_bind. intro v. fin.
      - (* cast *) eapply rrel_bind; [apply (EV r G s s' e S P)|]. intros [va s1] [va' s1'] [Hv S1]. cbn [fst snd] in *. subst va'.
        apply rrel_eq_bind. intro v. fin.
      - (* index *) apply andb_true_iff in P. destruct P as [Pa Pb].
        eapply rrel_bind; [apply (EV r G s s' e1 S Pa)|]. intros [va s1] [va' s1'] [Hv S1]. cbn [fst snd] in *. subst va'.
        eapply rrel_bind; [apply (EV r G s1 s1' e2 S1 Pb)|]. intros [vi s2] [vi' s2'] [Hi S2]. cbn [fst snd] in *. subst vi'.
        destruct va; try reflexivity. destruct (index_of O vi) as [k|]; [|reflexivity].
        destruct ((k <? 0)%Z || (Z.of_nat (List.length l) <=? k)%Z); [reflexivity|].
        destruct (nth_error l (Z.to_nat k)); [fin | reflexivity].
      - (* array literal *)
        eapply rrel_bind; [apply (evals_rel ev ev' EV r G es s s' S P)|]. intros [vs s1] [vs' s1'] [Hv S1]. cbn [fst snd] in *. subst vs'.
        destruct vs; fin.
      - (* call *)
        unfold fns'. destruct (fns f) as [fd|] eqn:Hf; cbn [option_map].
        + eapply rrel_bind; [apply (evals_rel ev ev' EV r G args s s' S P)|]. intros [vs s1] [vs' s1'] [Hv S1]. cbn [fst snd] in *. subst vs'.
          cbn [ren_fn fn_params fn_ret fn_body]. rewrite bind_params_ren.
          destruct (bind_params (fn_params fd) vs) as [sc|]; cbn [option_map]; [|reflexivity].
          apply (call_body_rel r G (rt f) (rt_good f)); [exact S1 | exact (fns_plain f fd Hf)].
        + eapply rrel_bind; [apply (evals_rel ev ev' EV r G args s s' S P)|]. intros [vs s1] [vs' s1'] [Hv S1]. cbn [fst snd] in *. subst vs'.
          rewrite (this_loc_rel r s1 s1' G S1).
          destruct (this_loc s1) as [l|].
          * rewrite (get_obj_nil s1 l (proj1 (proj2 (proj2 (proj2 S1))))), (get_obj_nil s1' l (proj1 (proj2 (proj2 (proj2 (proj2 S1)))))). reflexivity.
          * rewrite !resolve0. reflexivity.
      - (* postfix *)
        eapply rrel_bind; [apply (read_rel r s s' x G S)|]. intros old old' ->.
        destruct old'; try reflexivity.
        + eapply rrel_bind; [apply (write_rel r s s' x _ G S)|]. intros s1 s1' S1. fin.
        + apply rrel_eq_bind. intro nv. eapply rrel_bind; [apply (write_rel r s s' x _ G S)|]. intros s1 s1' S1. fin.
      - (* assignment expression *)
        eapply rrel_bind; [apply (EV r G s s' e S P)|]. intros [v s1] [v' s1'] [Hv S1]. cbn [fst snd] in *. subst v'.
        eapply rrel_bind; [apply (write_rel r s1 s1' x v G S1)|]. intros s2 s2' S2. fin.
    Qed.

    Lemma ren_not_arr r a : (forall es, a <> EArr es) -> forall es, ren_expr r a <> EArr es.
    Proof. intros H es. destruct a; cbn; try discriminate. exfalso. eapply H. reflexivity. Qed.

    Theorem exec_step_rel : xrel (exec_step O cls0 0 ev ex) (exec_step O cls0 0 ev' ex').
    Proof.
      intros r G s s' c S P.
      destruct c as [fin t x init | elt x size init | x e | x i e | c a b | c a b | c body | init c step body | e | e | e | ss | e];
        cbn [plain_stmt] in P; try discriminate; cbn [ren_stmt exec_step].
      - (* declaration *)
        destruct init as [a|]; cbn [option_map plain_oexpr] in *.
        + eapply rrel_bind; [apply (EV r G s s' a S P)|]. intros [v s1] [v' s1'] [Hv S1]. cbn [fst snd] in *. subst v'.
          cbn. split; [reflexivity | now apply srel_declare].
        + cbn. split; [reflexivity | now apply srel_declare].
      - (* array declaration *)
        apply andb_true_iff in P. destruct P as [Ps Pi].
        eapply rrel_bind with (R := fun p p' => fst p = fst p' /\ srel r (snd p) (snd p')).
        { destruct size as [a|]; cbn [option_map plain_oexpr] in *; [|cbn; auto].
          eapply rrel_bind; [apply (EV r G s s' a S Ps)|]. intros [v s1] [v' s1'] [Hv S1]. cbn [fst snd] in *. subst v'.
          destruct v; try reflexivity. destruct (z <? 0)%Z; [reflexivity | cbn; auto]. }
        intros [sz s1] [sz' s1'] [Hz S1]. cbn [fst snd] in *. subst sz'.
        destruct init as [a|]; cbn [option_map plain_oexpr] in *.
        + assert (forall a0, (forall es, a0 <> EArr es) -> plain_expr a0 = true ->
                    rrel (crel r) (do (v, s2) <- ev s1 a0; Ok (CNormal, with_env s2 (declare x v (s_env s2))))
                                  (do (v, s2) <- ev' s1' (ren_expr r a0); Ok (CNormal, with_env s2 (declare (r x) v (s_env s2))))) as Other.
          { intros a0 _ Pa. eapply rrel_bind; [apply (EV r G s1 s1' a0 S1 Pa)|]. intros [v s2] [v' s2'] [Hv S2]. cbn [fst snd] in *. subst v'.
            cbn. split; [reflexivity | now apply srel_declare]. }
          destruct a; try (apply Other; [intros ? ?; discriminate | exact Pi]).
          cbn [ren_expr plain_expr] in *. rewrite map_length.
          apply rrel_eq_bind. intros _.
          eapply rrel_bind; [apply (evals_rel ev ev' EV r G es s1 s1' S1 Pi)|]. intros [vs s2] [vs' s2'] [Hv S2]. cbn [fst snd] in *. subst vs'.
          apply rrel_eq_bind. intro cs. cbn. split; [reflexivity | now apply srel_declare].
        + cbn. split; [reflexivity | now apply srel_declare].
      - (* assignment *)
        eapply rrel_bind; [apply (EV r G s s' e S P)|]. intros [v s1] [v' s1'] [Hv S1]. cbn [fst snd] in *. subst v'.
        eapply rrel_bind; [apply (write_rel r s1 s1' x v G S1)|]. intros s2 s2' S2. fin.
      - (* element assignment *)
        apply andb_true_iff in P. destruct P as [Pi Pe].
        eapply rrel_bind; [apply (read_rel r s s' x G S)|]. intros arr arr' ->.
        destruct arr'; try reflexivity.
        eapply rrel_bind; [apply (EV r G s s' i S Pi)|]. intros [vi s1] [vi' s1'] [Hv S1]. cbn [fst snd] in *. subst vi'.
        destruct (index_of O vi) as [k|]; [|reflexivity].
        eapply rrel_bind; [apply (EV r G s1 s1' e S1 Pe)|]. intros [v s2] [v' s2'] [Hv S2]. cbn [fst snd] in *. subst v'.
        eapply rrel_bind; [apply (read_rel r s2 s2' x G S2)|]. intros arr2 arr2' ->.
        destruct arr2'; try reflexivity.
        destruct ((k <? 0)%Z || (Z.of_nat (List.length l0) <=? k)%Z); [reflexivity|].
        apply rrel_eq_bind. intro cv.
        eapply rrel_bind; [apply (write_rel r s2 s2' x _ G S2)|]. intros s3 s3' S3. fin.
      - (* if *)
        apply andb_true_iff in P. destruct P as [P Pb]. apply andb_true_iff in P. destruct P as [Pc Pa].
        eapply rrel_bind; [apply (EV r G s s' c S Pc)|]. intros [v s1] [v' s1'] [Hv S1]. cbn [fst snd] in *. subst v'.
        destruct (truthy O v); [apply (EX r G s1 s1' a S1 Pa)|].
        destruct b as [b'|]; cbn [option_map]; [apply (EX r G s1 s1' b' S1 Pb) | fin].
      - (* ternary statement *)
        apply andb_true_iff in P. destruct P as [P Pb]. apply andb_true_iff in P. destruct P as [Pc Pa].
        eapply rrel_bind; [apply (EV r G s s' c S Pc)|]. intros [v s1] [v' s1'] [Hv S1]. cbn [fst snd] in *. subst v'.
        destruct (truthy O v); [apply (EX r G s1 s1' a S1 Pa) | apply (EX r G s1 s1' b S1 Pb)].
      - (* while *)
        pose proof P as Pw. apply andb_true_iff in P. destruct P as [Pc Pb].
        eapply rrel_bind; [apply (EV r G s s' c S Pc)|]. intros [v s1] [v' s1'] [Hv S1]. cbn [fst snd] in *. subst v'.
        destruct (truthy O v); [|fin].
        eapply rrel_bind; [apply (EX r G s1 s1' body S1 Pb)|]. intros [k s2] [k' s2'] [Hk S2]. cbn [fst snd] in *. subst k'.
        destruct k; [|fin].
        apply (EX r G s2 s2' (SWhile c body) S2). exact Pw.
      - (* for *)
        apply andb_true_iff in P. destruct P as [P Pbody]. apply andb_true_iff in P. destruct P as [P Pstep].
        apply andb_true_iff in P. destruct P as [Pinit Pc].
        eapply rrel_bind with (R := crel r).
        { destruct init as [i0|]; cbn [option_map]; [apply (EX r G _ _ i0 (srel_push r s s' S) Pinit) | cbn; split; [reflexivity | now apply srel_push]]. }
        intros [k0 s1] [k0' s1'] [Hk S1]. cbn [fst snd] in *. subst k0'.
        eapply rrel_bind.
        { pose proof (EX r G s1 s1' (SWhile (match c with Some c' => c' | None => ELit (LBool true) end)
                                         (SBlock (body :: match step with Some st' => [st'] | None => [] end))) S1) as H.
          cbn [ren_stmt map] in H.
          assert (ren_expr r (match c with Some c' => c' | None => ELit (LBool true) end)
                  = match option_map (ren_expr r) c with Some c' => c' | None => ELit (LBool true) end) as Ec by (destruct c; reflexivity).
          assert (map (ren_stmt r) (match step with Some st' => [st'] | None => [] end)
                  = match option_map (ren_stmt r) step with Some st' => [st'] | None => [] end) as Es by (destruct step; reflexivity).
          rewrite Ec, Es in H. apply H.
          cbn [plain_stmt forallb]. destruct c, step; cbn in *; rewrite ?Pc, ?Pbody, ?Pstep; reflexivity. }
        intros [k s2] [k' s2'] [Hk S2]. cbn [fst snd] in *. subst k'.
        assert (srel r (pop s2) (pop s2')) as Sp by now apply srel_pop.
        unfold post_stmt.
        rewrite (sweep0 ex _ (pop s2) (proj1 (proj2 (proj2 (proj2 Sp))))), (sweep0 ex' _ (pop s2') (proj1 (proj2 (proj2 (proj2 (proj2 Sp)))))).
        fin.
      - (* echo *)
        eapply rrel_bind; [apply (EV r G s s' e S P)|]. intros [v s1] [v' s1'] [Hv S1]. cbn [fst snd] in *. subst v'.
        cbn. split; [reflexivity | now apply srel_out].
      - (* return *)
        destruct e as [a|]; cbn [option_map plain_oexpr] in *; [|fin].
        eapply rrel_bind; [apply (EV r G s s' a S P)|]. intros [v s1] [v' s1'] [Hv S1]. cbn [fst snd] in *. subst v'. fin.
      - (* expression statement *)
        eapply rrel_bind; [apply (EV r G s s' e S P)|]. intros [v s1] [v' s1'] [Hv S1]. cbn [fst snd] in *. fin.
      - (* block *)
        unfold execs.
        eapply rrel_bind; [apply (exec_list_rel ex ex' EX r G ss (push s) (push s') (srel_push r s s' S) P)|].
        intros [k s1] [k' s1'] [Hk S1]. cbn [fst snd] in *. subst k'.
        assert (srel r (pop s1) (pop s1')) as Sp by now apply srel_pop.
        unfold post_stmt.
        rewrite (sweep0 ex _ (pop s1) (proj1 (proj2 (proj2 (proj2 Sp))))), (sweep0 ex' _ (pop s1') (proj1 (proj2 (proj2 (proj2 (proj2 Sp)))))).
        fin.
    Qed.
  End Step.

  (* ---------------------------------------------------------------- all fuel *)
  Theorem alpha_all n :
    erel (eval O fns cls0 0 n) (eval O fns' cls0 0 n) /\ xrel (exec O fns cls0 0 n) (exec O fns' cls0 0 n).
  Proof.
    induction n as [|n [IE IX]].
    - split; intros r G s s' e S P; exact I.
    - split.
      + intros r G s s' e S P. rewrite !eval_S. now apply eval_step_rel.
      + intros r G s s' c S P. rewrite !exec_S. now apply exec_step_rel.
  Qed.
End Alpha.

(* ------------------------------------------------------------------ whole programs *)
From Coq Require Import FunctionalExtensionality.

Definition rename_program (rt : string -> string -> string) (p : program) : program :=
  mkProg (p_classes p) (map (fun d => ren_fn (rt (fn_name d)) d) (p_fns p)).

Lemma find_fn_rename rt p g :
  find_fn (rename_program rt p) g = option_map (ren_fn (rt g)) (find_fn p g).
Proof.
  unfold find_fn, rename_program. cbn [p_fns]. induction (p_fns p) as [|d l IH]; cbn; [reflexivity|].
  destruct (String.eqb (fn_name d) g) eqn:E; [|exact IH].
  apply String.eqb_eq in E. subst g. reflexivity.
Qed.

Theorem renaming_locals_preserves_every_run {F} (O : fops F) rt p fuel :
  p_classes p = [] ->
  (forall g, good (rt g)) ->
  (forall d, In d (p_fns p) -> forallb plain_stmt (fn_body d) = true) ->
  run O fuel (rename_program rt p) = run O fuel p.
Proof.
  intros Hc Hg Hp.
  assert (find_class p = cls0) as Ec.
  { apply functional_extensionality. intro c. unfold find_class, cls0. now rewrite Hc. }
  assert (find_class (rename_program rt p) = cls0) as Ec'.
  { apply functional_extensionality. intro c. unfold find_class, cls0, rename_program. cbn. now rewrite Hc. }
  assert (find_fn (rename_program rt p) = fns' (find_fn p) rt) as Ef.
  { apply functional_extensionality. intro g. apply find_fn_rename. }
  assert (forall g fd, find_fn p g = Some fd -> forallb plain_stmt (fn_body fd) = true) as Hpl.
  { intros g fd H. unfold find_fn in H. apply find_some in H. apply Hp. tauto. }
  unfold run, init_statics. rewrite Ec', Ec, Ef.
  replace (p_classes (rename_program rt p)) with (@nil cdecl) by (symmetry; exact Hc).
  rewrite Hc. cbn [fold_left bind List.length].
  destruct (alpha_all O (find_fn p) rt Hg Hpl fuel) as [IE _].
  assert (srel (rt "main"%string) (init_st (F:=F)) init_st) as S0 by (repeat split; reflexivity).
  pose proof (IE (rt "main"%string) (Hg _) init_st init_st (ECall "main" []) S0 eq_refl) as H.
  cbn [ren_expr map] in H.
  destruct (eval O (find_fn p) cls0 0 fuel init_st (ECall "main" [])) as [[v s]|e|];
    destruct (eval O (fns' (find_fn p) rt) cls0 0 fuel init_st (ECall "main" [])) as [[v' s']|e'|]; cbn in H; try contradiction.
  - destruct H as [_ [_ [Ho _]]]. cbn in Ho. now rewrite Ho.
  - now subst.
  - reflexivity.
Qed.

(* renamings one actually uses: the identity, and swapping two names *)
Definition swap (a b x : string) : string := if String.eqb x a then b else if String.eqb x b then a else x.

Lemma good_id : good (fun x => x).
Proof. split; auto. Qed.

Lemma good_swap a b : a <> "this"%string -> b <> "this"%string -> good (swap a b).
Proof.
  intros Ha Hb. split.
  - intros x y. unfold swap.
    destruct (String.eqb x a) eqn:Xa; destruct (String.eqb y a) eqn:Ya;
      destruct (String.eqb x b) eqn:Xb; destruct (String.eqb y b) eqn:Yb;
      repeat match goal with
             | H : String.eqb _ _ = true |- _ => apply String.eqb_eq in H
             | H : String.eqb _ _ = false |- _ => apply String.eqb_neq in H
             end; intros; subst; congruence.
  - unfold swap. destruct (String.eqb "this" a) eqn:E1; [apply String.eqb_eq in E1; congruence|].
    destruct (String.eqb "this" b) eqn:E2; [apply String.eqb_eq in E2; congruence | reflexivity].
Qed.
