(* What the class-level reference checker (ClassTyping.v) enforces, and where: the class rules C16 lists hold for
   every expression at any depth of every statement of an accepted body.  Two parts:
   - "every position": an accepted expression has only accepted sub-expressions (within), an accepted statement
     has only accepted statements and expressions inside it (inside), each in the environment of its position;
   - "the rule at the head": what acceptance of one expression form implies (no `new` of an abstract or static
     class and only through an accessible constructor; members only where their visibility allows; this / super
     never in a static context; a final field never written outside a constructor of its own class).
   Put together (rules_hold_in_every_position): the rules hold at every position of an accepted statement. *)
From Coq Require Import List ZArith String Ascii Bool Arith.
From Bloch Require Import Lang.Syntax Lang.Typing Lang.ClassTyping.
Import ListNotations.

Definition children (e : expr) : list expr :=
  match e with
  | ELit _ | EVar _ | EPost _ _ | EThis | ENull | ESField _ _ => []
  | EBin _ a b | EIndex a b => [a; b]
  | EUn _ a | ECast _ a | EAssign _ a | EField a _ | ESFieldSet _ _ a => [a]
  | EArr es | ECall _ es | ENew _ es | ESuperCall _ es | ESCall _ _ es => es
  | EMCall a _ es => a :: es
  | EFieldSet a _ v => [a; v]
  end.

(* e' occurs in e, at any depth *)
Inductive within : expr -> expr -> Prop :=
| within_refl e : within e e
| within_child e' c e : In c (children e) -> within e' c -> within e' e.

Section Rules.
  Variable fsigs : string -> option (list ty * ty).
  Variable cls : string -> option cdecl.
  Variable depth : nat.
  Notation ctype := (ctype fsigs cls depth).
  Notation ccheck := (ccheck fsigs cls depth).
  Notation cchecks := (cchecks fsigs cls depth).
  Notation accessible := (accessible cls depth).
  Notation subclass := (subclass cls depth).

  Definition typed (cx : cctx) (G : tenv) (e : expr) : Prop := exists t, ctype cx G e = Some t.

  (* the argument-list typing used inside ctype *)
  Definition ctypes (cx : cctx) (G : tenv) : list expr -> option (list ty) :=
    fix types (es : list expr) : option (list ty) :=
      match es with
      | [] => Some []
      | a :: r => match ctype cx G a, types r with Some t, Some ts => Some (t :: ts) | _, _ => None end
      end.

  Lemma ctypes_all cx G es ts : ctypes cx G es = Some ts -> forall c, In c es -> typed cx G c.
  Proof.
    revert ts. induction es as [|a r IH]; intros ts H c I; [destruct I|].
    cbn [ctypes] in H. fold (ctypes cx G) in H. destruct (ctype cx G a) as [t|] eqn:Ea; [|discriminate].
    destruct (ctypes cx G r) as [ts'|] eqn:Er; [|discriminate].
    destruct I as [<-|I]; [exists t; exact Ea | exact (IH ts' eq_refl c I)].
  Qed.

  Ltac inner_types cx G := fold (ctypes cx G) in *.

  (* one level: the direct sub-expressions of an accepted expression are accepted, in the same environment *)
  Lemma ctype_children cx G e t : ctype cx G e = Some t -> forall c, In c (children e) -> typed cx G c.
  Proof.
    intros H c I. destruct e; cbn [children] in I; cbn [ClassTyping.ctype] in H; inner_types cx G;
      try (destruct I; fail).
    - (* EBin *) destruct (ctype cx G e1) as [t1|] eqn:E1; [|discriminate].
      destruct (ctype cx G e2) as [t2|] eqn:E2; [|destruct t1; discriminate].
      destruct I as [<-|[<-|[]]]; [exists t1 | exists t2]; assumption.
    - (* EUn *) destruct (ctype cx G e) as [t1|] eqn:E1; [|discriminate]. destruct I as [<-|[]]. exists t1; assumption.
    - (* ECast *) destruct (ctype cx G e) as [t1|] eqn:E1; [|discriminate]. destruct I as [<-|[]]. exists t1; assumption.
    - (* EIndex *) destruct (ctype cx G e1) as [t1|] eqn:E1; [|discriminate].
      destruct (ctype cx G e2) as [t2|] eqn:E2; [|destruct t1; discriminate].
      destruct I as [<-|[<-|[]]]; [exists t1 | exists t2]; assumption.
    - (* EArr *) destruct (ctypes cx G es) as [ts|] eqn:E; [|discriminate]. exact (ctypes_all cx G es ts E c I).
    - (* ECall *) destruct (ctypes cx G args) as [ts|] eqn:E; [|discriminate]. exact (ctypes_all cx G args ts E c I).
    - (* EAssign *) destruct (name_ty cls depth cx G x) as [[[tx fx] ax]|]; [|discriminate].
      destruct (ctype cx G e) as [t1|] eqn:E1; [|destruct fx; discriminate]. destruct I as [<-|[]]. exists t1; assumption.
    - (* ENew *) destruct (cls c0); [|discriminate].
      destruct (ctypes cx G args) as [ts|] eqn:E; [|discriminate]. exact (ctypes_all cx G args ts E c I).
    - (* EField *) destruct (ctype cx G e) as [t1|] eqn:E1; [|discriminate]. destruct I as [<-|[]]. exists t1; assumption.
    - (* EMCall *) destruct (ctype cx G e) as [t1|] eqn:E1; [|discriminate].
      destruct (ctypes cx G args) as [ts|] eqn:E; [|destruct t1; discriminate].
      destruct I as [<-|I]; [exists t1; assumption | exact (ctypes_all cx G args ts E c I)].
    - (* ESuperCall *) destruct (cx_cls cx); [|discriminate].
      destruct (ctypes cx G args) as [ts|] eqn:E; [|discriminate]. exact (ctypes_all cx G args ts E c I).
    - (* ESCall *) destruct (cls c0); [|discriminate].
      destruct (ctypes cx G args) as [ts|] eqn:E; [|discriminate]. exact (ctypes_all cx G args ts E c I).
    - (* EFieldSet *) destruct (ctype cx G e1) as [t1|] eqn:E1; [|discriminate].
      destruct (ctype cx G e2) as [t2|] eqn:E2; [|destruct t1; discriminate].
      destruct I as [<-|[<-|[]]]; [exists t1 | exists t2]; assumption.
    - (* ESFieldSet *) destruct (find_sfield cls depth c0 f) as [[cd fd]|]; [|discriminate].
      destruct (ctype cx G e) as [t1|] eqn:E1; [|discriminate]. destruct I as [<-|[]]. exists t1; assumption.
  Qed.

  (* every depth *)
  Theorem ctype_every_position cx G e e' : typed cx G e -> within e' e -> typed cx G e'.
  Proof.
    intros T W. induction W as [e|e' c e I W IH]; [exact T|].
    destruct T as [t T]. exact (IH (ctype_children cx G e t T c I)).
  Qed.

  (* ---- the rules at the head of an accepted expression *)

  Lemma private_is_own_class o ctx : accessible VPriv o ctx = true -> ctx = Some o.
  Proof. unfold ClassTyping.accessible. destruct ctx as [c|]; [|discriminate]. intro H. apply String.eqb_eq in H. now subst. Qed.

  Lemma protected_is_hierarchy o ctx : accessible VProt o ctx = true -> exists c, ctx = Some c /\ subclass c o = true.
  Proof. unfold ClassTyping.accessible. destruct ctx as [c|]; [|discriminate]. intro H. exists c. auto. Qed.

  Lemma outside_every_class_only_public v o : accessible v o None = true -> v = VPub.
  Proof. destruct v; cbn; intro H; [reflexivity | discriminate | discriminate]. Qed.

  Definition rule_ok (cx : cctx) (G : tenv) (e : expr) : Prop :=
    match e with
    | ENew c args =>
        exists cd ts ct, cls c = Some cd /\ cd_kind cd = KNormal /\ ctypes cx G args = Some ts /\
                         resolve_c cls depth cd ts = Some ct /\ accessible (ct_vis ct) c (cx_cls cx) = true
    | EThis => cx_static cx = false /\ cx_cls cx <> None
    | ESuperCall m args =>
        cx_static cx = false /\
        exists c cd b bd md ts, cx_cls cx = Some c /\ cls c = Some cd /\ cd_base cd = Some b /\ ctypes cx G args = Some ts /\
                                resolve_m cls depth b m ts = Some (bd, md) /\ accessible (md_vis md) (cd_name bd) (cx_cls cx) = true
    | EField a f =>
        exists c cd fd, ctype cx G a = Some (TClass c) /\ find_ifield cls depth c f = Some (cd, fd) /\
                        accessible (fd_vis fd) (cd_name cd) (cx_cls cx) = true
    | ESField c f =>
        exists cd fd, find_sfield cls depth c f = Some (cd, fd) /\ accessible (fd_vis fd) (cd_name cd) (cx_cls cx) = true
    | EMCall a m args =>
        exists c cd md ts, ctype cx G a = Some (TClass c) /\ ctypes cx G args = Some ts /\
                           resolve_m cls depth c m ts = Some (cd, md) /\ accessible (md_vis md) (cd_name cd) (cx_cls cx) = true
    | ESCall c m args =>
        exists cd md ts, ctypes cx G args = Some ts /\ resolve_m cls depth c m ts = Some (cd, md) /\ md_static md = true /\
                         accessible (md_vis md) (cd_name cd) (cx_cls cx) = true
    | EFieldSet a f v =>
        exists c cd fd tv, ctype cx G a = Some (TClass c) /\ ctype cx G v = Some tv /\ find_ifield cls depth c f = Some (cd, fd) /\
                           accessible (fd_vis fd) (cd_name cd) (cx_cls cx) = true /\ c_assignable cls depth (fd_ty fd) tv = true /\
                           (fd_final fd = true -> cx_ctor cx = true /\ a = EThis /\ cx_cls cx = Some (cd_name cd) /\ fd_init fd = None)
    | ESFieldSet c f v =>
        exists cd fd tv, find_sfield cls depth c f = Some (cd, fd) /\ ctype cx G v = Some tv /\
                         accessible (fd_vis fd) (cd_name cd) (cx_cls cx) = true /\ c_assignable cls depth (fd_ty fd) tv = true /\
                         fd_final fd = false
    | EVar x =>
        exists t fin acc, name_ty cls depth cx G x = Some (t, fin, acc) /\
                          match acc with Some (o, v) => accessible v o (cx_cls cx) = true | None => True end
    | EAssign x a =>
        exists t acc ta, name_ty cls depth cx G x = Some (t, false, acc) /\ ctype cx G a = Some ta /\ c_assignable cls depth t ta = true /\
                         match acc with Some (o, v) => accessible v o (cx_cls cx) = true | None => True end
    | EPost x _ =>
        exists t acc, name_ty cls depth cx G x = Some (t, false, acc) /\ integral t = true /\
                      match acc with Some (o, v) => accessible v o (cx_cls cx) = true | None => True end
    | _ => True
    end.

  Lemma rule_at_head cx G e t : ctype cx G e = Some t -> rule_ok cx G e.
  Proof.
    intro H. destruct e; cbn [rule_ok]; try exact I; cbn [ClassTyping.ctype] in H; inner_types cx G.
    - (* EVar *) destruct (name_ty cls depth cx G x) as [[[tx fx] ax]|] eqn:N; [|discriminate].
      exists tx, fx, ax. split; [reflexivity|]. destruct ax as [[o v]|]; [|exact I].
      destruct (accessible v o (cx_cls cx)); [reflexivity | discriminate].
    - (* EPost *) destruct (name_ty cls depth cx G x) as [[[tx fx] ax]|] eqn:N; [|discriminate].
      destruct fx; [discriminate|]. destruct (integral tx) eqn:It; [|discriminate]. cbn [andb] in H.
      exists tx, ax. split; [reflexivity|]. split; [exact It|]. destruct ax as [[o v]|]; [|exact I].
      destruct (accessible v o (cx_cls cx)); [reflexivity | discriminate].
    - (* EAssign *) destruct (name_ty cls depth cx G x) as [[[tx fx] ax]|] eqn:N; [|discriminate].
      destruct (ctype cx G e) as [ta|] eqn:Ea; [|destruct fx; discriminate]. destruct fx; [discriminate|].
      destruct (c_assignable cls depth tx ta) eqn:A; [|discriminate]. cbn [andb] in H.
      exists tx, ax, ta. split; [reflexivity|]. split; [reflexivity|]. split; [exact A|]. destruct ax as [[o v]|]; [|exact I].
      destruct (accessible v o (cx_cls cx)); [reflexivity | discriminate].
    - (* ENew *) destruct (cls c) as [cd|] eqn:C; [|discriminate].
      destruct (ctypes cx G args) as [ts|] eqn:E; [|discriminate].
      destruct (cd_kind cd) eqn:K; try discriminate.
      destruct (resolve_c cls depth cd ts) as [ct|] eqn:R; [|discriminate].
      destruct (accessible (ct_vis ct) c (cx_cls cx)) eqn:A; [|discriminate].
      exists cd, ts, ct. auto.
    - (* EField *) destruct (ctype cx G e) as [[| | | | | | | |ta_|c]|] eqn:Ea; try discriminate.
      destruct (find_ifield cls depth c f) as [[cd fd]|] eqn:F; [|discriminate].
      destruct (accessible (fd_vis fd) (cd_name cd) (cx_cls cx)) eqn:A; [|discriminate].
      exists c, cd, fd. auto.
    - (* EThis *) destruct (cx_cls cx); [|discriminate]. destruct (cx_static cx); [discriminate|]. split; [reflexivity | discriminate].
    - (* EMCall *) destruct (ctype cx G e) as [[| | | | | | | |ta_|c]|] eqn:Ea; try discriminate;
        destruct (ctypes cx G args) as [ts|] eqn:E; try discriminate.
      destruct (resolve_m cls depth c m ts) as [[cd md]|] eqn:R; [|discriminate].
      destruct (accessible (md_vis md) (cd_name cd) (cx_cls cx)) eqn:A; [|discriminate].
      exists c, cd, md, ts. auto.
    - (* ESuperCall *) destruct (cx_cls cx) as [c|] eqn:C; [|discriminate].
      destruct (ctypes cx G args) as [ts|] eqn:E; [|discriminate].
      destruct (cx_static cx); [discriminate|]. split; [reflexivity|].
      destruct (cls c) as [cd|] eqn:Cd; [|discriminate]. destruct (cd_base cd) as [b|] eqn:B; [|discriminate].
      destruct (resolve_m cls depth b m ts) as [[bd md]|] eqn:R; [|discriminate].
      destruct (accessible (md_vis md) (cd_name bd) (Some c)) eqn:A; [|discriminate].
      exists c, cd, b, bd, md, ts. auto 10.
    - (* ESCall *) destruct (cls c) as [cd0|]; [|discriminate].
      destruct (ctypes cx G args) as [ts|] eqn:E; [|discriminate].
      destruct (resolve_m cls depth c m ts) as [[cd md]|] eqn:R; [|discriminate].
      destruct (md_static md) eqn:S; [|discriminate]. cbn [andb] in H.
      destruct (accessible (md_vis md) (cd_name cd) (cx_cls cx)) eqn:A; [|discriminate].
      exists cd, md, ts. auto.
    - (* ESField *) destruct (find_sfield cls depth c f) as [[cd fd]|] eqn:F; [|discriminate].
      destruct (accessible (fd_vis fd) (cd_name cd) (cx_cls cx)) eqn:A; [|discriminate].
      exists cd, fd. auto.
    - (* EFieldSet *) destruct (ctype cx G e1) as [[| | | | | | | |ta_|c]|] eqn:Ea; try discriminate;
        destruct (ctype cx G e2) as [tv|] eqn:Ev; try discriminate.
      destruct (find_ifield cls depth c f) as [[cd fd]|] eqn:F; [|discriminate].
      destruct (accessible (fd_vis fd) (cd_name cd) (cx_cls cx)) eqn:A; [|discriminate].
      destruct (c_assignable cls depth (fd_ty fd) tv) eqn:As; [|discriminate]. cbn [andb] in H.
      exists c, cd, fd, tv. split; [reflexivity|]. split; [reflexivity|]. split; [exact F|]. split; [exact A|]. split; [exact As|].
      intro Fin. rewrite Fin in H. cbn [negb orb] in H.
      destruct (cx_ctor cx); [|discriminate]. cbn [andb] in H. split; [reflexivity|].
      destruct e1; try discriminate. cbn [andb] in H. split; [reflexivity|].
      destruct (cx_cls cx) as [k|]; [|discriminate]. destruct (String.eqb k (cd_name cd)) eqn:Q; [|discriminate]. cbn [andb] in H.
      apply String.eqb_eq in Q. subst k. split; [reflexivity|].
      destruct (fd_init fd); [discriminate | reflexivity].
    - (* ESFieldSet *) destruct (find_sfield cls depth c f) as [[cd fd]|] eqn:F; [|discriminate].
      destruct (ctype cx G e) as [tv|] eqn:Ev; [|discriminate].
      destruct (accessible (fd_vis fd) (cd_name cd) (cx_cls cx)) eqn:A; [|discriminate].
      destruct (c_assignable cls depth (fd_ty fd) tv) eqn:As; [|discriminate]. cbn [andb] in H.
      destruct (fd_final fd) eqn:Fin; [discriminate|].
      exists cd, fd, tv. auto 10.
  Qed.

  (* the rules hold at every depth of an accepted expression *)
  Theorem rules_hold_within cx G e e' : typed cx G e -> within e' e -> rule_ok cx G e'.
  Proof.
    intros T W. destruct (ctype_every_position cx G e e' T W) as [t' H]. exact (rule_at_head cx G e' t' H).
  Qed.

  (* ---- statements: every expression written anywhere inside an accepted statement is accepted in the environment
          of its position *)

  Definition oexpr (o : option expr) : list expr := match o with Some e => [e] | None => [] end.

  (* expressions written directly in a statement form *)
  Definition stmt_exprs (c : stmt) : list expr :=
    match c with
    | SDecl _ _ _ init => oexpr init
    | SDeclArr _ _ size init => oexpr size ++ match init with Some (EArr es) => es | Some a => [a] | None => [] end
    | SAssign _ a | SEcho a | SExpr a | SDestroy a => [a]
    | SArrAssign _ i a => [i; a]
    | SIf c _ _ | STern c _ _ | SWhile c _ => [c]
    | SFor _ _ _ _ => []                   (* the condition lives in the scope opened by the initialiser: see inside *)
    | SReturn o => oexpr o
    | SBlock _ => []
    end.

  (* (G', e): the expression e stands inside the statement, in environment G' *)
  Inductive inside (cx : cctx) (ret : ty) : tenv -> stmt -> tenv -> expr -> Prop :=
  | in_here G c e : In e (stmt_exprs c) -> inside cx ret G c G e
  | in_if_then G c a b G' e : inside cx ret G a G' e -> inside cx ret G (SIf c a b) G' e
  | in_if_else G c a b G' e : inside cx ret G b G' e -> inside cx ret G (SIf c a (Some b)) G' e
  | in_tern_l G c a b G' e : inside cx ret G a G' e -> inside cx ret G (STern c a b) G' e
  | in_tern_r G c a b G' e : inside cx ret G b G' e -> inside cx ret G (STern c a b) G' e
  | in_while G c body G' e : inside cx ret G body G' e -> inside cx ret G (SWhile c body) G' e
  | in_for_init G i c s body G' e : inside cx ret ([] :: G) i G' e -> inside cx ret G (SFor (Some i) c s body) G' e
  | in_for_cond G i c s body G1 :
      match i with Some i' => ccheck cx ret ([] :: G) i' | None => Some ([] :: G) end = Some G1 ->
      inside cx ret G (SFor i (Some c) s body) G1 c
  | in_for_body G i c s body G1 G' e :
      match i with Some i' => ccheck cx ret ([] :: G) i' | None => Some ([] :: G) end = Some G1 ->
      inside cx ret ([] :: G1) body G' e -> inside cx ret G (SFor i c s body) G' e
  | in_for_step G i c s body G1 G2 G' e :
      match i with Some i' => ccheck cx ret ([] :: G) i' | None => Some ([] :: G) end = Some G1 ->
      ccheck cx ret ([] :: G1) body = Some G2 ->
      inside cx ret G2 s G' e -> inside cx ret G (SFor i c (Some s) body) G' e
  | in_block G ss G' e : inside_list cx ret ([] :: G) ss G' e -> inside cx ret G (SBlock ss) G' e
  with inside_list (cx : cctx) (ret : ty) : tenv -> list stmt -> tenv -> expr -> Prop :=
  | in_head G a r G' e : inside cx ret G a G' e -> inside_list cx ret G (a :: r) G' e
  | in_tail G a r G1 G' e : ccheck cx ret G a = Some G1 -> inside_list cx ret G1 r G' e -> inside_list cx ret G (a :: r) G' e.

  Scheme inside_min := Minimality for inside Sort Prop
    with inside_list_min := Minimality for inside_list Sort Prop.
  Combined Scheme inside_mutind_ from inside_min, inside_list_min.

  Lemma nonvoid_typed cx G a t : nonvoid (ctype cx G a) = Some t -> typed cx G a.
  Proof. unfold nonvoid. destruct (ctype cx G a) as [ta|] eqn:E; [|discriminate]. intros _. exists ta. exact E. Qed.

  Lemma checks_eq cx ret : forall ss G,
    (fix checks (G : tenv) (ss : list stmt) {struct ss} : option tenv :=
       match ss with
       | [] => Some G
       | a :: r => match ccheck cx ret G a with Some G' => checks G' r | None => None end
       end) G ss = cchecks cx ret G ss.
  Proof.
    induction ss as [|a r IH]; intro G; cbn [ClassTyping.cchecks]; [reflexivity|].
    destruct (ccheck cx ret G a) as [Ga|]; [apply IH | reflexivity].
  Qed.
  Ltac inner_checks cx ret := rewrite checks_eq in *.

  Lemma here_typed cx ret G c G1 : ccheck cx ret G c = Some G1 -> forall e, In e (stmt_exprs c) -> typed cx G e.
  Proof.
    intros H e I.
    destruct c as [fin t x init | elt x size init | x a | x i a | cnd s1 s2 | cnd s1 s2 | cnd body | init cnd step body | a | o | a | ss | a];
      cbn [stmt_exprs oexpr] in I; cbn [ClassTyping.ccheck] in H; try (destruct I; fail).
    - (* SDecl *) destruct init as [a|]; [|destruct I]. destruct I as [<-|[]].
      destruct (negb (known_ty cls t) || is_void t || match t with TArr _ => true | _ => false end || negb (fresh_name x G)); [discriminate|].
      destruct (nonvoid (ctype cx G a)) as [ta|] eqn:N; [|discriminate]. exact (nonvoid_typed cx G a ta N).
    - (* SDeclArr *) destruct (negb (scalar elt) || negb (fresh_name x G)); [discriminate|].
      match type of H with (if ?s && ?i then _ else _) = _ => destruct s eqn:Sz; [|discriminate]; destruct i eqn:In_; [|discriminate] end.
      apply in_app_or in I. destruct I as [I|I].
      + destruct size as [sz|]; [|destruct I]. destruct I as [<-|[]].
        destruct (ctype cx G sz) as [ts|] eqn:Es; [|discriminate]. exists ts; assumption.
      + destruct init as [a|]; [|destruct I].
        destruct a; try (destruct I as [<-|[]]; match type of In_ with match ?x with _ => _ end = true => destruct x as [ta|] eqn:Ea; [|discriminate] end;
                         exists ta; exact Ea).
        (* array literal: every element *)
        rewrite forallb_forall in In_. specialize (In_ e I). destruct (ctype cx G e) as [ta|] eqn:Ea; [|discriminate]. exists ta; assumption.
    - (* SAssign *) destruct I as [<-|[]]. destruct (name_ty cls depth cx G x) as [[[tx fx] ax]|]; [|discriminate].
      destruct (nonvoid (ctype cx G a)) as [ta|] eqn:N; [|destruct fx; discriminate]. exact (nonvoid_typed cx G a ta N).
    - (* SArrAssign *) destruct (name_ty cls depth cx G x) as [[[tx fx] ax]|]; [|discriminate].
      destruct tx; try discriminate; destruct fx; try discriminate.
      destruct (ctype cx G i) as [ti|] eqn:Ei; [|discriminate]. destruct (ctype cx G a) as [ta|] eqn:Ea; [|discriminate].
      destruct I as [<-|[<-|[]]]; [exists ti | exists ta]; assumption.
    - (* SIf *) destruct I as [<-|[]]. destruct (ctype cx G cnd) as [tc|] eqn:Ec; [|discriminate]. exists tc; assumption.
    - (* STern *) destruct I as [<-|[]]. destruct (ctype cx G cnd) as [tc|] eqn:Ec; [|discriminate]. exists tc; assumption.
    - (* SWhile *) destruct I as [<-|[]]. destruct (ctype cx G cnd) as [tc|] eqn:Ec; [|discriminate]. exists tc; assumption.
    - (* SEcho *) destruct I as [<-|[]]. destruct (nonvoid (ctype cx G a)) as [ta|] eqn:N; [|discriminate]. exact (nonvoid_typed cx G a ta N).
    - (* SReturn *) destruct o as [a|]; [|destruct I]. destruct I as [<-|[]]. destruct (is_void ret); [discriminate|].
      destruct (nonvoid (ctype cx G a)) as [ta|] eqn:N; [|discriminate]. exact (nonvoid_typed cx G a ta N).
    - (* SExpr *) destruct I as [<-|[]]. destruct (ctype cx G a) as [ta|] eqn:Ea; [|discriminate]. exists ta; assumption.
    - (* SDestroy *) destruct I as [<-|[]]. destruct (ctype cx G a) as [ta|] eqn:Ea; [|discriminate]. exists ta; assumption.
  Qed.

  Lemma scoped_accepts cx ret G c :
    negb (is_decl c) && match ccheck cx ret G c with Some _ => true | None => false end = true -> exists G1, ccheck cx ret G c = Some G1.
  Proof. intro H. apply andb_prop in H. destruct H as [_ H]. destruct (ccheck cx ret G c) as [G1|]; [exists G1; reflexivity | discriminate]. Qed.

  Theorem inside_typed cx ret :
    (forall G c G' e, inside cx ret G c G' e -> forall G1, ccheck cx ret G c = Some G1 -> typed cx G' e) /\
    (forall G ss G' e, inside_list cx ret G ss G' e -> forall G1, cchecks cx ret G ss = Some G1 -> typed cx G' e).
  Proof.
    apply inside_mutind_.
    - (* here *) intros G c e I G1 H. exact (here_typed cx ret G c G1 H e I).
    - (* if-then *) intros G c a b G' e _ IH G1 H.
      cbn [ClassTyping.ccheck] in H. destruct (ctype cx G c) as [tc|]; [|discriminate]. destruct (boolish tc); [|discriminate]. cbn [andb] in H.
      match type of H with (if ?p && ?q then _ else _) = _ => destruct p eqn:P; [|discriminate] end.
      destruct (scoped_accepts cx ret G a P) as [Ga Ea]. exact (IH Ga Ea).
    - (* if-else *) intros G c a b G' e _ IH G1 H.
      cbn [ClassTyping.ccheck] in H. destruct (ctype cx G c) as [tc|]; [|discriminate]. destruct (boolish tc); [|discriminate]. cbn [andb] in H.
      match type of H with (if ?p && ?q then _ else _) = _ => destruct p; [|discriminate]; destruct q eqn:Q; [|discriminate] end.
      destruct (scoped_accepts cx ret G b Q) as [Gb Eb]. exact (IH Gb Eb).
    - (* tern-l *) intros G c a b G' e _ IH G1 H.
      cbn [ClassTyping.ccheck] in H. destruct (ctype cx G c) as [tc|]; [|discriminate]. destruct (boolish tc); [|discriminate]. cbn [andb] in H.
      match type of H with (if ?p && ?q then _ else _) = _ => destruct p eqn:P; [|discriminate] end.
      destruct (scoped_accepts cx ret G a P) as [Ga Ea]. exact (IH Ga Ea).
    - (* tern-r *) intros G c a b G' e _ IH G1 H.
      cbn [ClassTyping.ccheck] in H. destruct (ctype cx G c) as [tc|]; [|discriminate]. destruct (boolish tc); [|discriminate]. cbn [andb] in H.
      match type of H with (if ?p && ?q then _ else _) = _ => destruct p; [|discriminate]; destruct q eqn:Q; [|discriminate] end.
      destruct (scoped_accepts cx ret G b Q) as [Gb Eb]. exact (IH Gb Eb).
    - (* while *) intros G c body G' e _ IH G1 H.
      cbn [ClassTyping.ccheck] in H. destruct (ctype cx G c) as [tc|]; [|discriminate]. destruct (boolish tc); [|discriminate]. cbn [andb] in H.
      match type of H with (if ?p then _ else _) = _ => destruct p eqn:P; [|discriminate] end.
      destruct (scoped_accepts cx ret G body P) as [Gb Eb]. exact (IH Gb Eb).
    - (* for-init *) intros G i c s body G' e _ IH G1 H.
      cbn [ClassTyping.ccheck] in H. destruct (ccheck cx ret ([] :: G) i) as [Gi|] eqn:Ei; [|discriminate]. exact (IH Gi eq_refl).
    - (* for-cond *) intros G i c s body G1 E G0 H.
      cbn [ClassTyping.ccheck] in H. rewrite E in H.
      destruct (ctype cx G1 c) as [tc|] eqn:Ec; [exists tc; assumption | discriminate].
    - (* for-body *) intros G i c s body G1 G' e E _ IH G0 H.
      cbn [ClassTyping.ccheck] in H. rewrite E in H.
      destruct (ccheck cx ret ([] :: G1) body) as [G2|] eqn:Eb; [exact (IH G2 eq_refl)|].
      rewrite andb_false_r in H. discriminate.
    - (* for-step *) intros G i c s body G1 G2 G' e E Eb _ IH G0 H.
      cbn [ClassTyping.ccheck] in H. rewrite E, Eb in H.
      destruct (ccheck cx ret G2 s) as [G3|] eqn:Es; [exact (IH G3 eq_refl)|].
      rewrite andb_false_r in H. discriminate.
    - (* block *) intros G ss G' e _ IH G1 H.
      cbn [ClassTyping.ccheck] in H. inner_checks cx ret.
      destruct (cchecks cx ret ([] :: G) ss) as [Gb|] eqn:Eb; [exact (IH Gb eq_refl) | discriminate].
    - (* head *) intros G a r G' e _ IH G1 H.
      cbn [ClassTyping.cchecks] in H. destruct (ccheck cx ret G a) as [Ga|] eqn:Ea; [exact (IH Ga eq_refl) | discriminate].
    - (* tail *) intros G a r G1 G' e E _ IH G0 H.
      cbn [ClassTyping.cchecks] in H. rewrite E in H. exact (IH G0 H).
  Qed.

  (* the rules hold at every position (statement nesting, loop headers, any expression depth) of an accepted body *)
  Theorem rules_hold_in_every_position cx ret G ss G1 G' e e' :
    cchecks cx ret G ss = Some G1 -> inside_list cx ret G ss G' e -> within e' e -> rule_ok cx G' e'.
  Proof.
    intros C I W. exact (rules_hold_within cx G' e e' (proj2 (inside_typed cx ret) G ss G' e I G1 C) W).
  Qed.
End Rules.

(* whole programs: acceptance of the program is acceptance of every body, in the context of its position
   (static or instance method, constructor, destructor, plain function) *)
Theorem accepted_program_bodies p :
  ccheck_program p = true ->
  let sg := sig_of p in let cl := find_class_t p in let n := List.length (p_classes p) in
  (forall f, In f (p_fns p) ->
     exists G1, cchecks sg cl n (mkCx None false false) (fn_ret f) (params_env (fn_params f)) (fn_body f) = Some G1) /\
  (forall cd, In cd (p_classes p) ->
     (forall md, In md (cd_meths cd) ->
        exists G1, cchecks sg cl n (mkCx (Some (cd_name cd)) (md_static md) false) (md_ret md) (params_env (md_params md)) (md_body md) = Some G1) /\
     (forall ct, In ct (cd_ctors cd) ->
        exists G1, cchecks sg cl n (mkCx (Some (cd_name cd)) false true) TVoid (params_env (ct_params ct)) (ct_body ct) = Some G1) /\
     (forall body, cd_dtor cd = Some body ->
        exists G1, cchecks sg cl n (mkCx (Some (cd_name cd)) false false) TVoid [] body = Some G1)).
Proof.
  intro H. cbv zeta. unfold ccheck_program in H.
  repeat match type of H with (_ && _) = true => apply andb_prop in H; destruct H as [H ?] end.
  split.
  - intros f I.
    match goal with Hf : forallb (ccheck_fn _ _ _) (p_fns p) = true |- _ => rewrite forallb_forall in Hf; specialize (Hf f I); unfold ccheck_fn in Hf end.
    repeat match goal with Hf : (_ && _) = true |- _ => apply andb_prop in Hf; destruct Hf as [Hf ?] end.
    match goal with Hc : match cchecks _ _ _ _ _ _ _ with _ => _ end = true |- _ =>
      destruct (cchecks (sig_of p) (find_class_t p) (Datatypes.length (p_classes p)) (mkCx None false false) (fn_ret f) (params_env (fn_params f)) (fn_body f)) as [G1|];
        [exists G1; reflexivity | discriminate] end.
  - intros cd I.
    match goal with Hc : forallb (ccheck_class _ _ _) (p_classes p) = true |- _ => rewrite forallb_forall in Hc; specialize (Hc cd I); unfold ccheck_class in Hc end.
    repeat match goal with Hc : (_ && _) = true |- _ => apply andb_prop in Hc; destruct Hc as [Hc ?] end.
    split; [|split].
    + intros md Im.
      match goal with Hm : forallb _ (cd_meths cd) = true |- _ => rewrite forallb_forall in Hm; specialize (Hm md Im); cbv beta zeta in Hm end.
      repeat match goal with Hm : (_ && _) = true |- _ => apply andb_prop in Hm; destruct Hm as [Hm ?] end.
      match goal with Hb : match cchecks _ _ _ ?cx ?r ?g ?b with _ => _ end = true |- _ =>
        destruct (cchecks (sig_of p) (find_class_t p) (Datatypes.length (p_classes p)) cx r g b) as [G1|]; [exists G1; reflexivity | discriminate] end.
    + intros ct Ic.
      match goal with Hk : forallb _ (cd_ctors cd) = true |- _ => rewrite forallb_forall in Hk; specialize (Hk ct Ic); cbv beta zeta in Hk end.
      repeat match goal with Hk : (_ && _) = true |- _ => apply andb_prop in Hk; destruct Hk as [Hk ?] end.
      match goal with Hb : match cchecks _ _ _ ?cx ?r ?g ?b with Some _ => true | None => false end = true |- _ =>
        destruct (cchecks (sig_of p) (find_class_t p) (Datatypes.length (p_classes p)) cx r g b) as [G1|]; [exists G1; reflexivity | discriminate] end.
    + intros body Ed.
      match goal with Hd : match cd_dtor cd with _ => _ end = true |- _ => rewrite Ed in Hd;
        match type of Hd with match cchecks _ _ _ ?cx ?r ?g ?b with _ => _ end = true =>
          destruct (cchecks (sig_of p) (find_class_t p) (Datatypes.length (p_classes p)) cx r g b) as [G1|]; [exists G1; reflexivity | discriminate] end end.
Qed.

(* the two halves together, for method bodies (constructor, destructor and function bodies are the same with their
   context): in a program the class-level checker accepts, the rule for every expression form holds at every position
   of every method of every class *)
Corollary accepted_program_method_rules p cd md G' e e' :
  ccheck_program p = true -> In cd (p_classes p) -> In md (cd_meths cd) ->
  let sg := sig_of p in let cl := find_class_t p in let n := List.length (p_classes p) in
  let cx := mkCx (Some (cd_name cd)) (md_static md) false in
  inside_list sg cl n cx (md_ret md) (params_env (md_params md)) (md_body md) G' e -> within e' e ->
  rule_ok sg cl n cx G' e'.
Proof.
  intros H Ic Im. cbv zeta. intros I W.
  destruct (accepted_program_bodies p H) as [_ Hc]. destruct (Hc cd Ic) as [Hm _]. destruct (Hm md Im) as [G1 E].
  exact (rules_hold_in_every_position (sig_of p) (find_class_t p) (Datatypes.length (p_classes p)) _ _ _ _ G1 G' e e' E I W).
Qed.
