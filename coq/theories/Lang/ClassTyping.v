(* The documented static rules with classes (C16): the reference checker for the whole language model -
   the classical rules of Typing.v plus: class references (an instance of a subclass, or null, where a class is
   declared), member access control (private / protected by any route), final fields (never after
   initialisation; without an initialiser exactly once per constructor, as a top-level statement),
   instantiating static or abstract classes, this / super in a static context, static members through the
   type, overload resolution by least conversion cost on static types.  Definitions only. *)
From Coq Require Import List ZArith String Ascii Bool Arith.
From Bloch Require Import Lang.Syntax Lang.Typing.
Import ListNotations.

Section CT.
  Variable fsigs : string -> option (list ty * ty).
  Variable cls : string -> option cdecl.
  Variable depth : nat.

  Fixpoint cchain (k : nat) (c : string) : list cdecl :=
    match k with
    | 0%nat => []
    | S k => match cls c with
             | None => []
             | Some cd => cd :: match cd_base cd with Some b => cchain k b | None => [] end
             end
    end.
  Definition chain (c : string) := cchain depth c.
  Definition subclass (c d : string) : bool := existsb (fun cd => String.eqb (cd_name cd) d) (chain c).
  Fixpoint index_where {A} (p : A -> bool) (l : list A) : option nat :=
    match l with
    | [] => None
    | a :: r => if p a then Some 0%nat else match index_where p r with Some k => Some (S k) | None => None end
    end.
  Definition cdist (c d : string) : option nat := index_where (fun cd => String.eqb (cd_name cd) d) (chain c).

  (* TClass "" is the type of the null literal *)
  Definition is_null_ty (t : ty) : bool := match t with TClass c => String.eqb c EmptyString | _ => false end.
  Definition known_ty (t : ty) : bool :=
    match t with
    | TClass c => match cls c with Some _ => true | None => false end
    | TArr (TClass _) | TArr (TArr _) | TArr TVoid => false
    | _ => true
    end.

  Definition c_assignable (t s : ty) : bool :=
    match t, s with
    | TClass c, TClass d => String.eqb d EmptyString || subclass d c
    | _, _ => assignable t s
    end.

  Definition accessible (v : vis) (owner : string) (ctx : option string) : bool :=
    match v with
    | VPub => true
    | VPriv => match ctx with Some c => String.eqb c owner | None => false end
    | VProt => match ctx with Some c => subclass c owner | None => false end
    end.

  (* the nearest declaration of that name decides; a static field hidden by an instance field of a subclass
     (or the other way round) is not reachable through that subclass *)
  Definition find_field (c f : string) : option (cdecl * field) :=
    let l := flat_map (fun cd => map (fun fd => (cd, fd)) (filter (fun fd => String.eqb (fd_name fd) f) (cd_fields cd))) (chain c) in
    hd_error l.
  Definition find_ifield (c f : string) : option (cdecl * field) :=
    match find_field c f with Some (cd, fd) => if fd_static fd then None else Some (cd, fd) | None => None end.
  Definition find_sfield (c f : string) : option (cdecl * field) :=
    match find_field c f with Some (cd, fd) => if fd_static fd then Some (cd, fd) else None | None => None end.

  (* overload resolution on static types *)
  Definition ty_cost (pt at_ : ty) : option nat :=
    match pt, at_ with
    | TClass c, TClass d => if String.eqb d EmptyString then Some 3%nat else cdist d c
    | _, TClass _ | TClass _, _ => None
    | _, _ => if ty_eqb pt at_ then Some 0%nat else match pt, at_ with TLong, TInt => Some 1%nat | _, _ => None end
    end.
  Fixpoint tys_cost (pts ats : list ty) : option nat :=
    match pts, ats with
    | [], [] => Some 0%nat
    | p :: pr, a :: ar => match ty_cost p a, tys_cost pr ar with Some x, Some y => Some (x + y)%nat | _, _ => None end
    | _, _ => None
    end.
  Fixpoint best {A} (l : list (A * nat)) : option (A * nat * bool) :=
    match l with
    | [] => None
    | (a, c) :: r =>
        match best r with
        | None => Some (a, c, false)
        | Some (b, d, tie) => if Nat.ltb c d then Some (a, c, false)
                              else if Nat.eqb c d then Some (b, d, true) else Some (b, d, tie)
        end
    end.
  Definition pick {A} (l : list (A * nat)) : option A := match best l with Some (a, _, false) => Some a | _ => None end.
  Fixpoint tys_eqb (a b : list ty) : bool :=
    match a, b with
    | [], [] => true
    | x :: a', y :: b' => ty_eqb x y && tys_eqb a' b'
    | _, _ => false
    end.
  Definition ptys (ps : list (ty * string)) : list ty := map fst ps.
  Fixpoint visible (ch : list cdecl) (m : string) (hidden : list (list ty)) : list (cdecl * meth) :=
    match ch with
    | [] => []
    | cd :: r =>
        let here := filter (fun md => String.eqb (md_name md) m && negb (existsb (tys_eqb (ptys (md_params md))) hidden)) (cd_meths cd) in
        map (fun md => (cd, md)) here ++ visible r m (map (fun md => ptys (md_params md)) here ++ hidden)
    end.
  Definition resolve_m (c m : string) (ats : list ty) : option (cdecl * meth) :=
    pick (flat_map (fun cm => match tys_cost (ptys (md_params (snd cm))) ats with Some k => [(cm, k)] | None => [] end)
                   (visible (chain c) m [])).
  Definition resolve_c (cd : cdecl) (ats : list ty) : option ctor :=
    pick (flat_map (fun ct => match tys_cost (ptys (ct_params ct)) ats with Some k => [(ct, k)] | None => [] end) (cd_ctors cd)).

  (* where an expression stands *)
  Record cctx := mkCx { cx_cls : option string; cx_static : bool; cx_ctor : bool }.

  Definition name_ty (cx : cctx) (G : tenv) (x : string) : option (ty * bool * option (string * vis)) :=
    (* type, final, (declaring class, visibility) when the name is a field *)
    match t_lookup x G with
    | Some (t, fin) => Some (t, fin, None)
    | None =>
        match cx_cls cx with
        | None => None
        | Some c =>
            match (if cx_static cx then None else find_ifield c x) with
            | Some (cd, fd) => Some (fd_ty fd, fd_final fd, Some (cd_name cd, fd_vis fd))
            | None => match find_sfield c x with
                      | Some (cd, fd) => Some (fd_ty fd, fd_final fd, Some (cd_name cd, fd_vis fd))
                      | None => None
                      end
            end
        end
    end.

  Fixpoint ctype (cx : cctx) (G : tenv) (e : expr) {struct e} : option ty :=
    let types := fix types (es : list expr) : option (list ty) :=
      match es with
      | [] => Some []
      | a :: r => match ctype cx G a, types r with Some t, Some ts => Some (t :: ts) | _, _ => None end
      end in
    match e with
    | ELit l => Some (lit_ty l)
    | EVar x => match name_ty cx G x with
                | Some (t, _, acc) => match acc with
                                      | Some (o, v) => if accessible v o (cx_cls cx) then Some t else None
                                      | None => Some t
                                      end
                | None => None
                end
    | EBin o a b =>
        match ctype cx G a, ctype cx G b with
        | Some (TClass _), Some (TClass _) => match o with OEq | ONe => Some TBool | _ => None end
        | Some ta, Some tb => bin_ty o ta tb
        | _, _ => None
        end
    | EUn o a => match ctype cx G a with Some ta => un_ty o ta | None => None end
    | ECast t a => match ctype cx G a with Some ta => cast_ty t ta | None => None end
    | EIndex a i =>
        match ctype cx G a, ctype cx G i with
        | Some (TArr t), Some ti => if numeric ti then Some t else None
        | _, _ => None
        end
    | EArr es =>
        match types es with
        | Some (t :: ts) => if scalar t && forallb (ty_eqb t) ts then Some (TArr t) else None
        | _ => None
        end
    | ECall f args =>
        match types args with
        | None => None
        | Some ts =>
            match fsigs f with
            | Some (ps, r) => if all2 c_assignable ps ts then Some r else None
            | None =>
                match cx_cls cx with
                | Some c => match resolve_m c f ts with
                            | Some (cd, md) =>
                                if accessible (md_vis md) (cd_name cd) (cx_cls cx) && (md_static md || negb (cx_static cx))
                                then Some (md_ret md) else None
                            | None => None
                            end
                | None => None
                end
            end
        end
    | EPost x _ =>
        match name_ty cx G x with
        | Some (t, false, acc) =>
            if integral t && match acc with Some (o, v) => accessible v o (cx_cls cx) | None => true end then Some t else None
        | _ => None
        end
    | EAssign x a =>
        match name_ty cx G x, ctype cx G a with
        | Some (t, false, acc), Some ta =>
            if c_assignable t ta && match acc with Some (o, v) => accessible v o (cx_cls cx) | None => true end then Some ta else None
        | _, _ => None
        end
    | ENew c args =>
        match cls c, types args with
        | Some cd, Some ts =>
            match cd_kind cd with
            | KNormal => match resolve_c cd ts with
                         | Some ct => if accessible (ct_vis ct) c (cx_cls cx) then Some (TClass c) else None
                         | None => None
                         end
            | _ => None                        (* static and abstract classes cannot be instantiated *)
            end
        | _, _ => None
        end
    | EField a f =>
        match ctype cx G a with
        | Some (TClass c) =>
            match find_ifield c f with
            | Some (cd, fd) => if accessible (fd_vis fd) (cd_name cd) (cx_cls cx) then Some (fd_ty fd) else None
            | None => None
            end
        | _ => None
        end
    | EThis => match cx_cls cx with Some c => if cx_static cx then None else Some (TClass c) | None => None end
    | ENull => Some (TClass EmptyString)
    | EMCall a m args =>
        match ctype cx G a, types args with
        | Some (TClass c), Some ts =>
            match resolve_m c m ts with
            | Some (cd, md) => if accessible (md_vis md) (cd_name cd) (cx_cls cx) then Some (md_ret md) else None
            | None => None
            end
        | _, _ => None
        end
    | ESuperCall m args =>
        match cx_cls cx, types args with
        | Some c, Some ts =>
            if cx_static cx then None else
            match cls c with
            | Some cd => match cd_base cd with
                         | Some b => match resolve_m b m ts with
                                     | Some (bd, md) => if accessible (md_vis md) (cd_name bd) (cx_cls cx) then Some (md_ret md) else None
                                     | None => None
                                     end
                         | None => None
                         end
            | None => None
            end
        | _, _ => None
        end
    | ESCall c m args =>
        match cls c, types args with
        | Some _, Some ts =>
            match resolve_m c m ts with
            | Some (cd, md) => if md_static md && accessible (md_vis md) (cd_name cd) (cx_cls cx) then Some (md_ret md) else None
            | None => None
            end
        | _, _ => None
        end
    | ESField c f =>
        match find_sfield c f with
        | Some (cd, fd) => if accessible (fd_vis fd) (cd_name cd) (cx_cls cx) then Some (fd_ty fd) else None
        | None => None
        end
    | EFieldSet a f v =>
        match ctype cx G a, ctype cx G v with
        | Some (TClass c), Some tv =>
            match find_ifield c f with
            | Some (cd, fd) =>
                let final_ok :=
                  negb (fd_final fd) ||
                  (* a final field without an initialiser may be set by a constructor of its own class, through this *)
                  (cx_ctor cx && match a with EThis => true | _ => false end &&
                   match cx_cls cx with Some k => String.eqb k (cd_name cd) | None => false end &&
                   match fd_init fd with None => true | Some _ => false end) in
                if accessible (fd_vis fd) (cd_name cd) (cx_cls cx) && c_assignable (fd_ty fd) tv && final_ok then Some tv else None
            | None => None
            end
        | _, _ => None
        end
    | ESFieldSet c f v =>
        match find_sfield c f, ctype cx G v with
        | Some (cd, fd), Some tv =>
            if accessible (fd_vis fd) (cd_name cd) (cx_cls cx) && c_assignable (fd_ty fd) tv && negb (fd_final fd) then Some tv else None
        | _, _ => None
        end
    end.

  Fixpoint ccheck (cx : cctx) (ret : ty) (G : tenv) (c : stmt) {struct c} : option tenv :=
    let checks := fix checks (G : tenv) (ss : list stmt) : option tenv :=
      match ss with
      | [] => Some G
      | a :: r => match ccheck cx ret G a with Some G' => checks G' r | None => None end
      end in
    let scoped := fun (c : stmt) => negb (is_decl c) && match ccheck cx ret G c with Some _ => true | None => false end in
    match c with
    | SDecl fin t x init =>
        if negb (known_ty t) || is_void t || match t with TArr _ => true | _ => false end || negb (fresh_name x G) then None else
        match init with
        | None => if fin then None else Some (t_declare x (t, fin) G)
        | Some a => match nonvoid (ctype cx G a) with
                    | Some ta => if c_assignable t ta then Some (t_declare x (t, fin) G) else None
                    | None => None
                    end
        end
    | SDeclArr elt x size init =>
        if negb (scalar elt) || negb (fresh_name x G) then None else
        let size_ok := match size with None => true | Some a => match ctype cx G a with Some TInt => true | _ => false end end in
        let init_ok := match init with
                       | None => true
                       | Some (EArr es) => forallb (fun a => match ctype cx G a with Some ta => elem_ok elt ta | None => false end) es
                       | Some a => match ctype cx G a with Some ta => ty_eqb ta (TArr elt) | None => false end
                       end in
        if size_ok && init_ok then Some (t_declare x (TArr elt, false) G) else None
    | SAssign x a =>
        match name_ty cx G x, nonvoid (ctype cx G a) with
        | Some (t, false, acc), Some ta =>
            if c_assignable t ta && match acc with Some (o, v) => accessible v o (cx_cls cx) | None => true end then Some G else None
        | _, _ => None
        end
    | SArrAssign x i a =>
        match name_ty cx G x, ctype cx G i, ctype cx G a with
        | Some (TArr elt, false, acc), Some ti, Some ta =>
            if integral ti && aset_ok elt ta && match acc with Some (o, v) => accessible v o (cx_cls cx) | None => true end
            then Some G else None
        | _, _, _ => None
        end
    | SIf c a b =>
        match ctype cx G c with
        | Some tc => if boolish tc && scoped a && match b with Some b' => scoped b' | None => true end then Some G else None
        | None => None
        end
    | STern c a b =>
        match ctype cx G c with
        | Some tc => if boolish tc && scoped a && scoped b then Some G else None
        | None => None
        end
    | SWhile c body =>
        match ctype cx G c with
        | Some tc => if boolish tc && scoped body then Some G else None
        | None => None
        end
    | SFor init c step body =>
        let G0 := [] :: G in
        match (match init with Some i => ccheck cx ret G0 i | None => Some G0 end) with
        | Some G1 =>
            let c_ok := match c with
                        | Some c' => match ctype cx G1 c' with Some tc => boolish tc | None => false end
                        | None => true
                        end in
            let bs_ok := match ccheck cx ret ([] :: G1) body with
                         | Some G2 => match step with
                                      | Some s' => match ccheck cx ret G2 s' with Some _ => true | None => false end
                                      | None => true
                                      end
                         | None => false
                         end in
            if c_ok && bs_ok then Some G else None
        | None => None
        end
    | SEcho a => match nonvoid (ctype cx G a) with Some _ => Some G | None => None end
    | SReturn None => if is_void ret then Some G else None
    | SReturn (Some a) =>
        if is_void ret then None else
        match nonvoid (ctype cx G a) with
        | Some ta => if c_assignable ret ta then Some G else None
        | None => None
        end
    | SExpr a => match ctype cx G a with Some _ => Some G | None => None end
    | SBlock ss => match checks ([] :: G) ss with Some _ => Some G | None => None end
    | SDestroy a => match ctype cx G a with Some (TClass _) => Some G | _ => None end
    end.

  Fixpoint cchecks (cx : cctx) (ret : ty) (G : tenv) (ss : list stmt) : option tenv :=
    match ss with
    | [] => Some G
    | a :: r => match ccheck cx ret G a with Some G' => cchecks cx ret G' r | None => None end
    end.

  (* final fields without an initialiser: exactly one top-level `this.f = e;` in every constructor, none nested *)
  Definition sets_field (f : string) (c : stmt) : bool :=
    match c with SExpr (EFieldSet EThis g _) => String.eqb f g | _ => false end.
  Fixpoint e_sets (f : string) (e : expr) : bool :=
    let any := fix any (es : list expr) : bool := match es with [] => false | a :: r => e_sets f a || any r end in
    match e with
    | EFieldSet a g v => (match a with EThis => String.eqb f g | _ => false end) || e_sets f a || e_sets f v
    | EBin _ a b | EIndex a b => e_sets f a || e_sets f b
    | EUn _ a | ECast _ a | EAssign _ a | EField a _ | ESFieldSet _ _ a => e_sets f a
    | EArr es | ECall _ es | ENew _ es | ESuperCall _ es | ESCall _ _ es => any es
    | EMCall a _ es => e_sets f a || any es
    | _ => false
    end.
  Definition oe_sets f (o : option expr) := match o with Some e => e_sets f e | None => false end.
  Fixpoint s_sets (f : string) (c : stmt) : bool :=
    let any := fix any (ss : list stmt) : bool := match ss with [] => false | a :: r => s_sets f a || any r end in
    match c with
    | SDecl _ _ _ init => oe_sets f init
    | SDeclArr _ _ size init => oe_sets f size || oe_sets f init
    | SAssign _ e | SEcho e | SExpr e | SDestroy e => e_sets f e
    | SArrAssign _ i e => e_sets f i || e_sets f e
    | SIf c a b => e_sets f c || s_sets f a || match b with Some b' => s_sets f b' | None => false end
    | STern c a b => e_sets f c || s_sets f a || s_sets f b
    | SWhile c body => e_sets f c || s_sets f body
    | SFor init c step body =>
        match init with Some i => s_sets f i | None => false end || oe_sets f c ||
        match step with Some s' => s_sets f s' | None => false end || s_sets f body
    | SReturn e => oe_sets f e
    | SBlock ss => any ss
    end.
  Definition final_once (f : string) (body : list stmt) : bool :=
    Nat.eqb (List.length (filter (sets_field f) body)) 1 &&
    forallb (fun c => sets_field f c || negb (s_sets f c)) body &&
    forallb (fun c => match c with SExpr (EFieldSet EThis g v) => negb (String.eqb f g) || negb (e_sets f v) | _ => true end) body.

  (* no two members of one class with the same name and parameter types *)
  Fixpoint nodup_sigs (l : list (string * list ty)) : bool :=
    match l with
    | [] => true
    | (n, ts) :: r => negb (existsb (fun q => String.eqb n (fst q) && tys_eqb ts (snd q)) r) && nodup_sigs r
    end.

  Definition ccheck_class (cd : cdecl) : bool :=
    let c := cd_name cd in
    let icx := mkCx (Some c) false false in
    let scx := mkCx (Some c) true false in
    match cd_base cd with Some b => match cls b with Some bd => match cd_kind bd with KStatic => false | _ => true end | None => false end | None => true end &&
    nodup_sigs (map (fun md => (md_name md, ptys (md_params md))) (cd_meths cd)) &&
    nodup_sigs (map (fun ct => (EmptyString, ptys (ct_params ct))) (cd_ctors cd)) &&
    nodup_names (map fd_name (cd_fields cd)) &&
    (* no field reuses the name of an inherited field *)
    match cd_base cd with
    | Some b => forallb (fun fd => match find_field b (fd_name fd) with None => true | Some _ => false end) (cd_fields cd)
    | None => true
    end &&
    forallb (fun fd =>
               known_ty (fd_ty fd) && negb (is_void (fd_ty fd)) &&
               match fd_init fd with
               | Some a => match nonvoid (ctype (if fd_static fd then scx else icx) [] a) with
                           | Some ta => c_assignable (fd_ty fd) ta
                           | None => false
                           end
               | None => negb (fd_final fd && fd_static fd)
               end) (cd_fields cd) &&
    forallb (fun ct =>
               let G := params_env (ct_params ct) in
               let kx := mkCx (Some c) false true in
               nodup_names (map snd (ct_params ct)) && forallb (fun p => known_ty (fst p) && negb (is_void (fst p))) (ct_params ct) &&
               match cd_base cd with
               | Some b =>
                   match cls b with
                   | Some bd =>
                       let ats := match ct_super ct with
                                  | Some es => fold_right (fun a acc => match ctype kx G a, acc with Some t, Some ts => Some (t :: ts) | _, _ => None end) (Some []) es
                                  | None => Some []
                                  end in
                       match ats with
                       | Some ts => match resolve_c bd ts with Some bct => accessible (ct_vis bct) b (Some c) | None => false end
                       | None => false
                       end
                   | None => false
                   end
               | None => match ct_super ct with None | Some [] => true | Some _ => false end   (* implicit root class: only `super()` *)
               end &&
               match cchecks kx TVoid G (ct_body ct) with Some _ => true | None => false end &&
               forallb (fun fd => negb (fd_final fd) || fd_static fd || match fd_init fd with Some _ => true | None => final_once (fd_name fd) (ct_body ct) end)
                       (cd_fields cd)) (cd_ctors cd) &&
    forallb (fun md =>
               let G := params_env (md_params md) in
               let mx := mkCx (Some c) (md_static md) false in
               nodup_names (map snd (md_params md)) && forallb (fun p => known_ty (fst p) && negb (is_void (fst p))) (md_params md) &&
               (known_ty (md_ret md)) &&
               match cchecks mx (md_ret md) G (md_body md) with
               | Some _ => is_void (md_ret md) || existsb returns (md_body md)
               | None => false
               end) (cd_meths cd) &&
    match cd_dtor cd with
    | Some body => match cchecks icx TVoid [] body with Some _ => true | None => false end
    | None => true
    end.

  Definition ccheck_fn (f : fdecl) : bool :=
    let fx := mkCx None false false in
    nodup_names (map snd (fn_params f)) &&
    forallb (fun p => known_ty (fst p) && negb (is_void (fst p))) (fn_params f) && known_ty (fn_ret f) &&
    match cchecks fx (fn_ret f) (params_env (fn_params f)) (fn_body f) with
    | Some _ => is_void (fn_ret f) || existsb returns (fn_body f)
    | None => false
    end.
End CT.

Definition find_class_t (p : program) (c : string) : option cdecl :=
  find (fun d => String.eqb (cd_name d) c) (p_classes p).

Definition ccheck_program (p : program) : bool :=
  let cls := find_class_t p in
  let depth := List.length (p_classes p) in
  nodup_names (map fn_name (p_fns p)) && nodup_names (map cd_name (p_classes p)) &&
  forallb (ccheck_fn (sig_of p) cls depth) (p_fns p) &&
  forallb (ccheck_class (sig_of p) cls depth) (p_classes p) &&
  match sig_of p "main" with Some ([], TVoid) => true | _ => false end.
