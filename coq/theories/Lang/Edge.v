(* Arithmetic edge cases of the reference interpreter (C12): machine-integer results stay in range or
   are flagged, x % -1 is 0 even for the most negative value, division/modulo by zero are always
   reported, an index is always checked against the length. *)
From Coq Require Import List ZArith String Ascii Bool Lia.
From Bloch Require Import Lang.Syntax Lang.Eval.
Import ListNotations.
Local Open Scope Z_scope.

Lemma wrap32_in32 z : in32 (wrap32 z) = true.
Proof.
  unfold in32, wrap32.
  pose proof (Z.mod_pos_bound (z + 2147483648) 4294967296 ltac:(lia)).
  apply andb_true_iff; split; apply Z.leb_le; lia.
Qed.

Lemma wrap32_id z : in32 z = true -> wrap32 z = z.
Proof.
  unfold in32, wrap32. intro H. apply andb_true_iff in H. destruct H as [A B].
  apply Z.leb_le in A. apply Z.leb_le in B.
  rewrite Z.mod_small; lia.
Qed.

Lemma rem_in32 a b : in32 a = true -> in32 b = true -> b <> 0 -> in32 (Z.rem a b) = true.
Proof.
  unfold in32. intros Ha Hb Nz.
  apply andb_true_iff in Ha. destruct Ha as [A1 A2]. apply Z.leb_le in A1. apply Z.leb_le in A2.
  apply andb_true_iff in Hb. destruct Hb as [B1 B2]. apply Z.leb_le in B1. apply Z.leb_le in B2.
  pose proof (Z.rem_bound_abs a b Nz).
  apply andb_true_iff; split; apply Z.leb_le; lia.
Qed.

Lemma rem_in64 a b : in64 a = true -> in64 b = true -> b <> 0 -> in64 (Z.rem a b) = true.
Proof.
  unfold in64. intros Ha Hb Nz.
  apply andb_true_iff in Ha. destruct Ha as [A1 A2]. apply Z.leb_le in A1. apply Z.leb_le in A2.
  apply andb_true_iff in Hb. destruct Hb as [B1 B2]. apply Z.leb_le in B1. apply Z.leb_le in B2.
  pose proof (Z.rem_bound_abs a b Nz).
  apply andb_true_iff; split; apply Z.leb_le; lia.
Qed.

Section Edge.
  Context {F : Type} (O : fops F).
  Notation value := (value F).

  Definition arith_op (o : binop) : bool :=
    match o with OAdd | OSub | OMul | OMod => true | _ => false end.

  (* int (op) int: the result is an int inside the 32-bit range, for every pair of operands *)
  Theorem int_arith_in_range o a b r :
    arith_op o = true -> in32 a = true -> in32 b = true ->
    binop_eval O o (VInt a) (VInt b) = Ok r -> exists z, r = VInt z /\ in32 z = true.
  Proof.
    intros Ho Ha Hb. destruct o; try discriminate; cbn.
    - intro H; inversion H. eexists; split; [reflexivity | apply wrap32_in32].
    - intro H; inversion H. eexists; split; [reflexivity | apply wrap32_in32].
    - intro H; inversion H. eexists; split; [reflexivity | apply wrap32_in32].
    - destruct (b =? 0) eqn:E; [discriminate|]. intro H; inversion H.
      eexists; split; [reflexivity|]. apply rem_in32; auto. apply Z.eqb_neq in E. exact E.
  Qed.

  (* long arithmetic: in range, or flagged as outside what the documentation fixes; never a wrong value *)
  Theorem long_arith_in_range_or_flagged o a b r :
    arith_op o = true -> in64 a = true -> in64 b = true ->
    binop_eval O o (VLong a) (VLong b) = Ok r -> exists z, r = VLong z /\ in64 z = true.
  Proof.
    intros Ho Ha Hb. destruct o; try discriminate; cbn; unfold long_res.
    - destruct (in64 (a + b)) eqn:E; [|discriminate]. intro H; inversion H. eauto.
    - destruct (in64 (a - b)) eqn:E; [|discriminate]. intro H; inversion H. eauto.
    - destruct (in64 (a * b)) eqn:E; [|discriminate]. intro H; inversion H. eauto.
    - destruct (b =? 0) eqn:E; [discriminate|]. intro H; inversion H.
      eexists; split; [reflexivity|]. apply rem_in64; auto. apply Z.eqb_neq in E. exact E.
  Qed.

  (* x % -1 = 0 for every x, the most negative long included (the machine instruction would trap) *)
  Theorem mod_minus_one a : binop_eval O OMod (VLong a) (VLong (-1)) = Ok (VLong 0)
                         /\ binop_eval O OMod (VInt a) (VInt (-1)) = Ok (VInt 0).
  Proof.
    cbn. assert (Z.rem a (-1) = 0) as ->; [|auto].
    change (-1) with (- (1)). rewrite Z.rem_opp_r by lia. apply Z.rem_1_r.
  Qed.

  Theorem mod_by_zero_reported a b :
    integralv a = true -> (b = VInt 0 \/ b = VLong 0) -> binop_eval O OMod a b = Err RModZero.
  Proof.
    intros Ha [-> | ->]; destruct a; try discriminate; reflexivity.
  Qed.

  Theorem div_by_zero_reported a b na nb :
    as_num a = Some na -> as_num b = Some nb -> feqb O (num_f O nb) (fzero O) = true ->
    binop_eval O ODiv a b = Err RDivZero.
  Proof. intros Ha Hb Hz. unfold binop_eval. now rewrite Ha, Hb, Hz. Qed.

  (* an element is only ever produced for an index inside the array *)
  Theorem index_is_checked ev ex fns cls depth s a i v s' :
    eval_step O fns cls depth ev ex s (EIndex a i) = Ok (v, s') ->
    exists va s1 vi t l k, ev s a = Ok (va, s1) /\ ev s1 i = Ok (vi, s') /\ va = VArr t l /\ index_of O vi = Some k /\
                           0 <= k < Z.of_nat (List.length l) /\ nth_error l (Z.to_nat k) = Some v.
  Proof.
    cbn [eval_step]. destruct (ev s a) as [[va s1]| |] eqn:Ea; cbn [bind]; try discriminate.
    destruct (ev s1 i) as [[vi s2]| |] eqn:Ei; cbn [bind]; try discriminate.
    destruct va; try discriminate. destruct (index_of O vi) as [k|] eqn:K; try discriminate.
    destruct ((k <? 0) || (Z.of_nat (List.length l) <=? k)) eqn:B; [discriminate|].
    destruct (nth_error l (Z.to_nat k)) eqn:N; [|discriminate].
    intro H; inversion H; subst. exists (VArr t l), s1, vi, t, l, k.
    apply orb_false_iff in B. destruct B as [B1 B2]. apply Z.ltb_ge in B1. apply Z.leb_gt in B2.
    split; [reflexivity|]. split; [exact Ei|]. split; [reflexivity|]. split; [exact K|]. split; [lia | exact N].
  Qed.
End Edge.
