(* Reference interpreter for the documented classical core of Bloch, written from the language
   guide: a fuelled big-step evaluator that is LEXICALLY scoped by construction (a call runs in a
   fresh environment holding only its parameters) and looks functions up by name in a table (so the
   order of top-level declarations cannot matter).  Definitions only. *)
From Coq Require Import List ZArith String Ascii Bool DecimalString.
From Bloch Require Import Lang.Syntax.
Import ListNotations.
Local Open Scope Z_scope.

Definition show_Z (z : Z) : string := NilEmpty.string_of_int (Z.to_int z).

Section Eval.
  Context {F : Type} (O : fops F).
  Notation value := (value F).

  Definition type_of (v : value) : ty :=
    match v with
    | VInt _ => TInt | VLong _ => TLong | VFloat _ => TFloat | VBit _ => TBit | VBool _ => TBool
    | VChar _ => TChar | VStr _ => TStr | VArr t _ => TArr t | VVoid => TVoid
    end.

  Definition default_of (t : ty) : value :=
    match t with
    | TInt => VInt 0 | TLong => VLong 0 | TFloat => VFloat (f_of_Z O 0) | TBit => VBit false
    | TBool => VBool false | TChar => VChar Ascii.zero | TStr => VStr EmptyString
    | TVoid => VVoid | TArr t => VArr t []
    end.

  Definition b2z (b : bool) : Z := if b then 1 else 0.

  (* ---- echo / concatenation formatting ---- *)
  Definition show_scalar (inarr : bool) (v : value) : string :=
    match v with
    | VInt z | VLong z => show_Z z
    | VFloat f => if inarr then f_show_elem O f else f_show O f
    | VBit b => if b then "1" else "0"
    | VBool b => if b then "true" else "false"
    | VChar c => String "'" (String c (String "'" EmptyString))
    | VStr s => s
    | _ => EmptyString
    end%string.

  Fixpoint join (l : list string) : string :=
    match l with
    | [] => EmptyString
    | [x] => x
    | x :: r => (x ++ ", " ++ join r)%string
    end.

  Definition show (v : value) : string :=
    match v with
    | VArr _ l => ("{" ++ join (map (show_scalar true) l) ++ "}")%string
    | _ => show_scalar false v
    end.

  (* ---- numeric tower ---- *)
  Inductive num := NI (z : Z) | NL (z : Z) | NF (f : F).
  Definition as_num (v : value) : option num :=
    match v with VInt z => Some (NI z) | VLong z => Some (NL z) | VFloat f => Some (NF f) | _ => None end.
  Definition num_f (n : num) : F := match n with NI z | NL z => f_of_Z O z | NF f => f end.
  Definition num_z (n : num) : Z := match n with NI z | NL z => z | NF f => 0 end.
  Definition is_f (n : num) := match n with NF _ => true | _ => false end.
  Definition is_l (n : num) := match n with NL _ => true | _ => false end.

  (* int op int is carried out in 64 bits and narrowed; long arithmetic wraps at 64 bits *)
  Definition undoc {A} (s : string) : res A := Err (RUndoc s).
  Definition long_res (z : Z) : res value := if in64 z then Ok (VLong z) else undoc "long overflow".
  Definition trunc32 (f : F) : res value :=
    let z := f_trunc O f in if in32 z then Ok (VInt z) else undoc "float to int out of range".
  Definition trunc64 (f : F) : res value :=
    let z := f_trunc O f in if in64 z then Ok (VLong z) else undoc "float to long out of range".

  Definition arith (fz : Z -> Z -> Z) (ff : F -> F -> F) (a b : num) : res value :=
    if is_f a || is_f b then Ok (VFloat (ff (num_f a) (num_f b)))
    else if is_l a || is_l b then long_res (fz (num_z a) (num_z b))
    else Ok (VInt (wrap32 (fz (num_z a) (num_z b)))).

  Definition fzero : F := f_of_Z O 0.

  Definition compare (o : binop) (a b : num) : bool :=
    if is_f a || is_f b then
      let x := num_f a in let y := num_f b in
      match o with
      | OLt => fltb O x y | OLe => fleb O x y | OGt => fltb O y x | OGe => fleb O y x
      | OEq => feqb O x y | _ => negb (feqb O x y)
      end
    else
      let x := num_z a in let y := num_z b in
      match o with
      | OLt => x <? y | OLe => x <=? y | OGt => y <? x | OGe => y <=? x
      | OEq => x =? y | _ => negb (x =? y)
      end.

  Definition as_boolish (v : value) : option bool :=
    match v with VBool b | VBit b => Some b | _ => None end.

  Definition bitop (o : binop) (a b : bool) : bool :=
    match o with OBAnd => andb a b | OBOr => orb a b | _ => xorb a b end.

  Definition as_bits (l : list value) : option (list bool) :=
    fold_right (fun v acc => match v, acc with VBit b, Some r => Some (b :: r) | _, _ => None end) (Some []) l.

  Definition integralv (v : value) : bool := match v with VInt _ | VLong _ => true | _ => false end.
  Definition is_str (v : value) := match v with VStr _ => true | _ => false end.

  Definition is_eq (o : binop) : bool := match o with OEq => true | _ => false end.

  Definition stuck {A} (s : string) : res A := Err (RStuck s).

  Definition binop_eval (o : binop) (l r : value) : res value :=
    match o with
    | OAdd =>
        if is_str l || is_str r then Ok (VStr (show l ++ show r))
        else match as_num l, as_num r with
             | Some a, Some b => arith Z.add (fadd O) a b
             | _, _ => stuck "+"
             end
    | OSub => match as_num l, as_num r with Some a, Some b => arith Z.sub (fsub O) a b | _, _ => stuck "-" end
    | OMul => match as_num l, as_num r with Some a, Some b => arith Z.mul (fmul O) a b | _, _ => stuck "*" end
    | ODiv =>
        match as_num l, as_num r with
        | Some a, Some b =>
            if feqb O (num_f b) fzero then Err RDivZero else Ok (VFloat (fdiv O (num_f a) (num_f b)))
        | _, _ => stuck "/"
        end
    | OMod =>
        match as_num l, as_num r with
        | Some a, Some b =>
            if is_f a || is_f b then stuck "%"
            else if num_z b =? 0 then Err RModZero
            else let m := Z.rem (num_z a) (num_z b) in       (* C++ %: sign of the dividend *)
                 Ok (if is_l a || is_l b then VLong m else VInt m)
        | _, _ => stuck "%"
        end
    | OLt | OLe | OGt | OGe =>
        match as_num l, as_num r with Some a, Some b => Ok (VBool (compare o a b)) | _, _ => stuck "cmp" end
    | OEq | ONe =>
        match l, r with
        | VStr a, VStr b => Ok (VBool (if is_eq o then String.eqb a b else negb (String.eqb a b)))
        | VChar a, VChar b => Ok (VBool (if is_eq o then Ascii.eqb a b else negb (Ascii.eqb a b)))
        | _, _ =>
            match as_boolish l, as_boolish r with
            | Some a, Some b => Ok (VBool (if is_eq o then Bool.eqb a b else negb (Bool.eqb a b)))
            | _, _ =>
                match as_num l, as_num r with
                | Some a, Some b => Ok (VBool (compare o a b))
                | _, _ => stuck "=="
                end
            end
        end
    | OAnd | OOr =>
        match as_boolish l, as_boolish r with
        | Some a, Some b => Ok (VBool (match o with OAnd => andb a b | _ => orb a b end))
        | _, _ => stuck "logical"
        end
    | OBAnd | OBOr | OBXor =>
        match l, r with
        | VBit a, VBit b => Ok (VBit (bitop o a b))
        | VArr TBit x, VArr TBit y =>
            match as_bits x, as_bits y with
            | Some bx, Some by_ =>
                if Nat.eqb (List.length bx) (List.length by_)
                then Ok (VArr TBit (map (fun p => VBit (bitop o (fst p) (snd p))) (combine bx by_)))
                else Err RBitLen
            | _, _ => stuck "bits"
            end
        | VArr TBit x, VBit b =>
            match as_bits x with Some bx => Ok (VArr TBit (map (fun a => VBit (bitop o a b)) bx)) | None => stuck "bits" end
        | VBit a, VArr TBit y =>
            match as_bits y with Some by_ => Ok (VArr TBit (map (fun b => VBit (bitop o a b)) by_)) | None => stuck "bits" end
        | _, _ => stuck "bitwise"
        end
    end.

  Definition unop_eval (o : unop) (v : value) : res value :=
    match o, v with
    | UNeg, VInt z => Ok (VInt (wrap32 (- z)))
    | UNeg, VLong z => long_res (- z)
    | UNeg, VFloat f => Ok (VFloat (fneg O f))
    | UNot, VBool b | UNot, VBit b => Ok (VBool (negb b))
    | UBNot, VBit b => Ok (VBit (negb b))
    | UBNot, VArr TBit l =>
        match as_bits l with Some bl => Ok (VArr TBit (map (fun b => VBit (negb b)) bl)) | None => stuck "~" end
    | _, _ => stuck "unary"
    end.

  (* explicit casts: targets int, long, float, bit; sources int, long, float, bit *)
  Definition cast_eval (t : ty) (v : value) : res value :=
    match t, v with
    | TInt, VInt z => Ok (VInt z)
    | TInt, VLong z => Ok (VInt (wrap32 z))
    | TInt, VBit b => Ok (VInt (b2z b))
    | TInt, VFloat f => trunc32 f
    | TLong, VInt z | TLong, VLong z => Ok (VLong z)
    | TLong, VBit b => Ok (VLong (b2z b))
    | TLong, VFloat f => trunc64 f
    | TFloat, VInt z | TFloat, VLong z => Ok (VFloat (f_of_Z O z))
    | TFloat, VBit b => Ok (VFloat (f_of_Z O (b2z b)))
    | TFloat, VFloat f => Ok (VFloat f)
    | TBit, VInt z | TBit, VLong z => Ok (VBit (negb (z =? 0)))
    | TBit, VBit b => Ok (VBit b)
    | TBit, VFloat f => Ok (VBit (negb (feqb O f fzero)))
    | _, _ => stuck "cast"
    end.

  (* storing into a declared slot: int widens to long, everything else must already fit *)
  Definition widen (t : ty) (v : value) : value :=
    match t, v with TLong, VInt z => VLong z | _, _ => v end.

  (* conversions applied to the elements of an array literal / an element assignment *)
  Definition elem_conv (elt : ty) (v : value) : res value :=
    match elt, v with
    | TInt, VInt z => Ok (VInt z)
    | TInt, VLong z => Ok (VInt (wrap32 z))
    | TInt, VBit b => Ok (VInt (b2z b))
    | TInt, VFloat f => trunc32 f
    | TLong, VInt z | TLong, VLong z => Ok (VLong z)
    | TLong, VBit b => Ok (VLong (b2z b))
    | TLong, VFloat f => trunc64 f
    | TFloat, VFloat f => Ok (VFloat f)
    | TFloat, VInt z => Ok (VFloat (f_of_Z O z))
    | TFloat, VBit b => Ok (VFloat (f_of_Z O (b2z b)))
    | TBit, VBit b => Ok (VBit b)
    | TBool, VBool b => Ok (VBool b)
    | TStr, VStr s => Ok (VStr s)
    | TChar, VChar c => Ok (VChar c)
    | _, _ => stuck "element"
    end.

  Fixpoint map_res {A B} (f : A -> res B) (l : list A) : res (list B) :=
    match l with
    | [] => Ok []
    | a :: r => do b <- f a; do bs <- map_res f r; Ok (b :: bs)
    end.

  Definition lit_eval (l : lit) : value :=
    match l with
    | LInt z => VInt z | LLong z => VLong z
    | LFloat n p => VFloat (fdiv O (f_of_Z O n) (f_of_Z O (2 ^ Z.of_nat p)))
    | LBit b => VBit b | LBool b => VBool b | LChar c => VChar c | LStr s => VStr s
    end.

  Definition index_of (v : value) : option Z :=
    match v with
    | VInt z | VLong z => Some z
    | VBit b => Some (b2z b)
    | _ => None
    end.

  Definition truthy (v : value) : bool :=
    match v with
    | VBool b | VBit b => b
    | VInt z | VLong z => negb (z =? 0)
    | VFloat f => negb (feqb O f fzero)
    | _ => false
    end.

  (* ---- environments: a stack of scopes, innermost first ---- *)
  Definition scope := list (string * value).
  Definition env := list scope.

  Fixpoint sc_find (x : string) (s : scope) : option value :=
    match s with
    | [] => None
    | (y, v) :: r => if String.eqb x y then Some v else sc_find x r
    end.
  Fixpoint sc_set (x : string) (v : value) (s : scope) : scope :=
    match s with
    | [] => []
    | (y, w) :: r => if String.eqb x y then (y, v) :: r else (y, w) :: sc_set x v r
    end.
  Fixpoint lookup (x : string) (e : env) : option value :=
    match e with
    | [] => None
    | s :: r => match sc_find x s with Some v => Some v | None => lookup x r end
    end.
  Fixpoint update (x : string) (v : value) (e : env) : env :=
    match e with
    | [] => []
    | s :: r => match sc_find x s with Some _ => sc_set x v s :: r | None => s :: update x v r end
    end.
  Definition declare (x : string) (v : value) (e : env) : env :=
    match e with
    | [] => [[(x, v)]]
    | s :: r => ((x, v) :: s) :: r
    end.

  Record st := mkSt { s_env : env; s_out : list string }.      (* s_out: echoed lines, newest first *)
  Definition with_env (s : st) (e : env) : st := mkSt e (s_out s).
  Definition push (s : st) : st := with_env s ([] :: s_env s).
  Definition pop (s : st) : st := with_env s (tl (s_env s)).

  Inductive ctl := CNormal | CReturn (v : value).

  Variable fns : string -> option fdecl.

  Definition assign_var (x : string) (v : value) (s : st) : res st :=
    match lookup x (s_env s) with
    | Some old => Ok (with_env s (update x (widen (type_of old) v) (s_env s)))
    | None => stuck "assignment to an undeclared name"
    end.

  Fixpoint bind_params (ps : list (ty * string)) (vs : list value) : option scope :=
    match ps, vs with
    | [], [] => Some []
    | (t, x) :: ps', v :: vs' =>
        match bind_params ps' vs' with Some r => Some ((x, widen t v) :: r) | None => None end
    | _, _ => None
    end.

  (* sequencing helpers, generic in the one-step function so that they have their own lemmas *)
  Fixpoint eval_list (ev : st -> expr -> res (value * st)) (s : st) (es : list expr) : res (list value * st) :=
    match es with
    | [] => Ok ([], s)
    | a :: r => do (v, s1) <- ev s a; do (vs, s2) <- eval_list ev s1 r; Ok (v :: vs, s2)
    end.
  Fixpoint exec_list (ex : st -> stmt -> res (ctl * st)) (s : st) (ss : list stmt) : res (ctl * st) :=
    match ss with
    | [] => Ok (CNormal, s)
    | a :: r => do (c, s1) <- ex s a;
                match c with CNormal => exec_list ex s1 r | CReturn _ => Ok (c, s1) end
    end.

  (* one unfolding of the interpreter, over the evaluators [ev]/[ex] used for sub-terms *)
  Section Step.
    Variable ev : st -> expr -> res (value * st).
    Variable ex : st -> stmt -> res (ctl * st).

    Definition eval_step (s : st) (e : expr) : res (value * st) :=
      let evals := eval_list ev in
      let execs := exec_list ex in
      match e with
      | ELit l => Ok (lit_eval l, s)
      | EVar x => match lookup x (s_env s) with Some v => Ok (v, s) | None => stuck "undeclared name" end
      | EBin o a b => do (va, s1) <- ev s a; do (vb, s2) <- ev s1 b;
                      do v <- binop_eval o va vb; Ok (v, s2)
      | EUn o a => do (va, s1) <- ev s a; do v <- unop_eval o va; Ok (v, s1)
      | ECast t a => do (va, s1) <- ev s a; do v <- cast_eval t va; Ok (v, s1)
      | EIndex a i =>
          do (va, s1) <- ev s a; do (vi, s2) <- ev s1 i;
          match va, index_of vi with
          | VArr _ l, Some k =>
              if (k <? 0) || (Z.of_nat (List.length l) <=? k) then Err (RIndex k (Z.of_nat (List.length l)))
              else match nth_error l (Z.to_nat k) with Some v => Ok (v, s2) | None => stuck "index" end
          | _, _ => stuck "index"
          end
      | EArr es =>
          do (vs, s1) <- evals s es;
          match vs with
          | [] => Ok (VArr TInt [], s1)
          | v :: _ => Ok (VArr (type_of v) vs, s1)      (* typed by the first element *)
          end
      | ECall f args =>
          match fns f with
          | None => stuck "unknown function"
          | Some fd =>
              do (vs, s1) <- evals s args;
              match bind_params (fn_params fd) vs with
              | None => stuck "arity"
              | Some sc =>
                  (* lexical scoping: the callee sees its parameters and nothing of the caller *)
                  do (c, s2) <- execs (mkSt [sc] (s_out s1)) (fn_body fd);
                  let s3 := mkSt (s_env s1) (s_out s2) in
                  match c with
                  | CReturn v => Ok (widen (fn_ret fd) v, s3)
                  | CNormal => Ok (VVoid, s3)
                  end
              end
          end
      | EPost x inc =>
          match lookup x (s_env s) with
          | Some (VInt z) =>
              Ok (VInt z, with_env s (update x (VInt (wrap32 (if inc then z + 1 else z - 1))) (s_env s)))
          | Some (VLong z) =>
              do nv <- long_res (if inc then z + 1 else z - 1); Ok (VLong z, with_env s (update x nv (s_env s)))
          | _ => stuck "postfix"
          end
      | EAssign x a => do (v, s1) <- ev s a; do s2 <- assign_var x v s1; Ok (v, s2)
      end.

    Definition exec_step (s : st) (c : stmt) : res (ctl * st) :=
      let evals := eval_list ev in
      let execs := exec_list ex in
      match c with
      | SDecl _ t x init =>
          match init with
          | None => Ok (CNormal, with_env s (declare x (default_of t) (s_env s)))
          | Some a => do (v, s1) <- ev s a;
                      Ok (CNormal, with_env s1 (declare x (widen t v) (s_env s1)))
          end
      | SDeclArr elt x size init =>
          do (sz, s1) <- match size with
                         | None => Ok (None, s)
                         | Some a => do (v, s') <- ev s a;
                                     match v with
                                     | VInt k => if k <? 0 then Err RNegSize else Ok (Some k, s')
                                     | _ => stuck "array size"
                                     end
                         end;
          match init with
          | None =>
              let len := match sz with Some k => Z.to_nat k | None => 0%nat end in
              Ok (CNormal, with_env s1 (declare x (VArr elt (repeat (default_of elt) len)) (s_env s1)))
          | Some (EArr es) =>
              do _ <- match sz with
                      | Some k => if Z.of_nat (List.length es) =? k then Ok tt else Err RInitLen
                      | None => Ok tt
                      end;
              do (vs, s2) <- evals s1 es;
              do cs <- map_res (elem_conv elt) vs;
              Ok (CNormal, with_env s2 (declare x (VArr elt cs) (s_env s2)))
          | Some a =>
              do (v, s2) <- ev s1 a;
              Ok (CNormal, with_env s2 (declare x v (s_env s2)))
          end
      | SAssign x a => do (v, s1) <- ev s a; do s2 <- assign_var x v s1; Ok (CNormal, s2)
      | SArrAssign x i a =>
          match lookup x (s_env s) with
          | Some (VArr elt l) =>
              do (vi, s1) <- ev s i;
              match index_of vi with
              | None => stuck "index"
              | Some k =>
                  do (v, s2) <- ev s1 a;
                  (* the array is re-read after the operands ran, as the evaluator does *)
                  match lookup x (s_env s2) with
                  | Some (VArr elt2 l2) =>
                      if (k <? 0) || (Z.of_nat (List.length l2) <=? k)
                      then Err (RIndex k (Z.of_nat (List.length l2)))
                      else do cv <- elem_conv elt2 v;
                           Ok (CNormal, with_env s2 (update x (VArr elt2 (firstn (Z.to_nat k) l2 ++ cv :: skipn (S (Z.to_nat k)) l2)) (s_env s2)))
                  | _ => stuck "array assignment"
                  end
              end
          | _ => stuck "array assignment"
          end
      | SIf c a b =>
          do (v, s1) <- ev s c;
          if truthy v then ex s1 a
          else match b with Some b' => ex s1 b' | None => Ok (CNormal, s1) end
      | STern c a b =>
          do (v, s1) <- ev s c;
          if truthy v then ex s1 a else ex s1 b
      | SWhile c body =>
          do (v, s1) <- ev s c;
          if truthy v then
            do (k, s2) <- ex s1 body;
            match k with CNormal => ex s2 (SWhile c body) | CReturn _ => Ok (k, s2) end
          else Ok (CNormal, s1)
      | SFor init c step body =>
          (* for (init; c; step) body  ==  { init; while (c) { body; step; } } with its own scope *)
          let s0 := push s in
          do (k0, s1) <- match init with Some i => ex s0 i | None => Ok (CNormal, s0) end;
          do (k, s2) <- ex s1 (SWhile (match c with Some c' => c' | None => ELit (LBool true) end)
                                          (SBlock (body :: match step with Some st' => [st'] | None => [] end)));
          Ok (k, pop s2)
      | SEcho a => do (v, s1) <- ev s a; Ok (CNormal, mkSt (s_env s1) (show v :: s_out s1))
      | SReturn None => Ok (CReturn VVoid, s)
      | SReturn (Some a) => do (v, s1) <- ev s a; Ok (CReturn v, s1)
      | SExpr a => do (_, s1) <- ev s a; Ok (CNormal, s1)
      | SBlock ss => do (k, s1) <- execs (push s) ss; Ok (k, pop s1)
      end.
  End Step.

  Fixpoint eval (n : nat) (s : st) (e : expr) {struct n} : res (value * st) :=
    match n with
    | 0%nat => OutOfFuel
    | S n => eval_step (eval n) (exec n) s e
    end
  with exec (n : nat) (s : st) (c : stmt) {struct n} : res (ctl * st) :=
    match n with
    | 0%nat => OutOfFuel
    | S n => exec_step (eval n) (exec n) s c
    end.

  Lemma eval_S n s e : eval (S n) s e = eval_step (eval n) (exec n) s e.
  Proof. reflexivity. Qed.
  Lemma exec_S n s c : exec (S n) s c = exec_step (eval n) (exec n) s c.
  Proof. reflexivity. Qed.

End Eval.

Definition find_fn (p : program) (f : string) : option fdecl :=
  find (fun d => String.eqb (fn_name d) f) p.

(* A run: call main() with no arguments; the observable is the echoed lines (oldest first) and
   the way the run ended. *)
Inductive outcome := Finished | Failed (e : rerr) | Diverged.

Definition run {F} (O : fops F) (fuel : nat) (p : program) : list string * outcome :=
  match eval O (find_fn p) fuel (mkSt [] []) (ECall "main" []) with
  | Ok (_, s) => (rev (s_out s), Finished)
  | Err e => ([], Failed e)
  | OutOfFuel => ([], Diverged)
  end.
