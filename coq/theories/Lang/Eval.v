(* Reference interpreter for the documented classical core of Bloch, written from the language
   guide: a fuelled big-step evaluator that is LEXICALLY scoped by construction (a call runs in a
   fresh environment holding only its parameters) and looks functions up by name in a table (so the
   order of top-level declarations cannot matter).  Definitions only. *)
From Coq Require Import List ZArith String Ascii Bool DecimalString.
From Bloch Require Import Lang.Syntax.
Import ListNotations.
Local Open Scope Z_scope.

Definition show_Z (z : Z) : string := NilEmpty.string_of_int (Z.to_int z).

Section Eval.
  Context {F : Type} (O : fops F).
  Notation value := (value F).

  Definition type_of (v : value) : ty :=
    match v with
    | VInt _ => TInt | VLong _ => TLong | VFloat _ => TFloat | VBit _ => TBit | VBool _ => TBool
    | VChar _ => TChar | VStr _ => TStr | VArr t _ => TArr t | VVoid => TVoid
    | VObj _ c => TClass c
    end.

  Definition default_of (t : ty) : value :=
    match t with
    | TInt => VInt 0 | TLong => VLong 0 | TFloat => VFloat (f_of_Z O 0) | TBit => VBit false
    | TBool => VBool false | TChar => VChar Ascii.zero | TStr => VStr EmptyString
    | TVoid => VVoid | TArr t => VArr t []
    | TClass c => VObj None c
    end.

  Definition b2z (b : bool) : Z := if b then 1 else 0.

  (* ---- echo / concatenation formatting ---- *)
  Definition show_scalar (inarr : bool) (v : value) : string :=
    match v with
    | VInt z | VLong z => show_Z z
    | VFloat f => if inarr then f_show_elem O f else f_show O f
    | VBit b => if b then "1" else "0"
    | VBool b => if b then "true" else "false"
    | VChar c => String "'" (String c (String "'" EmptyString))
    | VStr s => s
    | _ => EmptyString
    end%string.

  Fixpoint join (l : list string) : string :=
    match l with
    | [] => EmptyString
    | [x] => x
    | x :: r => (x ++ ", " ++ join r)%string
    end.

  Definition show (v : value) : string :=
    match v with
    | VArr _ l => ("{" ++ join (map (show_scalar true) l) ++ "}")%string
    | _ => show_scalar false v
    end.

  (* ---- numeric tower ---- *)
  Inductive num := NI (z : Z) | NL (z : Z) | NF (f : F).
  Definition as_num (v : value) : option num :=
    match v with VInt z => Some (NI z) | VLong z => Some (NL z) | VFloat f => Some (NF f) | _ => None end.
  Definition num_f (n : num) : F := match n with NI z | NL z => f_of_Z O z | NF f => f end.
  Definition num_z (n : num) : Z := match n with NI z | NL z => z | NF f => 0 end.
  Definition is_f (n : num) := match n with NF _ => true | _ => false end.
  Definition is_l (n : num) := match n with NL _ => true | _ => false end.

  (* int op int is carried out in 64 bits and narrowed; long arithmetic wraps at 64 bits *)
  Definition undoc {A} (s : string) : res A := Err (RUndoc s).
  Definition long_res (z : Z) : res value := if in64 z then Ok (VLong z) else undoc "long overflow".
  Definition trunc32 (f : F) : res value :=
    let z := f_trunc O f in if in32 z then Ok (VInt z) else undoc "float to int out of range".
  Definition trunc64 (f : F) : res value :=
    let z := f_trunc O f in if in64 z then Ok (VLong z) else undoc "float to long out of range".

  Definition arith (fz : Z -> Z -> Z) (ff : F -> F -> F) (a b : num) : res value :=
    if is_f a || is_f b then Ok (VFloat (ff (num_f a) (num_f b)))
    else if is_l a || is_l b then long_res (fz (num_z a) (num_z b))
    else Ok (VInt (wrap32 (fz (num_z a) (num_z b)))).

  Definition fzero : F := f_of_Z O 0.

  Definition compare (o : binop) (a b : num) : bool :=
    if is_f a || is_f b then
      let x := num_f a in let y := num_f b in
      match o with
      | OLt => fltb O x y | OLe => fleb O x y | OGt => fltb O y x | OGe => fleb O y x
      | OEq => feqb O x y | _ => negb (feqb O x y)
      end
    else
      let x := num_z a in let y := num_z b in
      match o with
      | OLt => x <? y | OLe => x <=? y | OGt => y <? x | OGe => y <=? x
      | OEq => x =? y | _ => negb (x =? y)
      end.

  Definition as_boolish (v : value) : option bool :=
    match v with VBool b | VBit b => Some b | _ => None end.

  Definition bitop (o : binop) (a b : bool) : bool :=
    match o with OBAnd => andb a b | OBOr => orb a b | _ => xorb a b end.

  Definition as_bits (l : list value) : option (list bool) :=
    fold_right (fun v acc => match v, acc with VBit b, Some r => Some (b :: r) | _, _ => None end) (Some []) l.

  Definition integralv (v : value) : bool := match v with VInt _ | VLong _ => true | _ => false end.
  Definition is_str (v : value) := match v with VStr _ => true | _ => false end.

  Definition is_eq (o : binop) : bool := match o with OEq => true | _ => false end.

  Definition stuck {A} (s : string) : res A := Err (RStuck s).

  Definition binop_eval (o : binop) (l r : value) : res value :=
    match o with
    | OAdd =>
        if is_str l || is_str r then Ok (VStr (show l ++ show r))
        else match as_num l, as_num r with
             | Some a, Some b => arith Z.add (fadd O) a b
             | _, _ => stuck "+"
             end
    | OSub => match as_num l, as_num r with Some a, Some b => arith Z.sub (fsub O) a b | _, _ => stuck "-" end
    | OMul => match as_num l, as_num r with Some a, Some b => arith Z.mul (fmul O) a b | _, _ => stuck "*" end
    | ODiv =>
        match as_num l, as_num r with
        | Some a, Some b =>
            if feqb O (num_f b) fzero then Err RDivZero else Ok (VFloat (fdiv O (num_f a) (num_f b)))
        | _, _ => stuck "/"
        end
    | OMod =>
        match as_num l, as_num r with
        | Some a, Some b =>
            if is_f a || is_f b then stuck "%"
            else if num_z b =? 0 then Err RModZero
            else let m := Z.rem (num_z a) (num_z b) in       (* C++ %: sign of the dividend *)
                 Ok (if is_l a || is_l b then VLong m else VInt m)
        | _, _ => stuck "%"
        end
    | OLt | OLe | OGt | OGe =>
        match as_num l, as_num r with Some a, Some b => Ok (VBool (compare o a b)) | _, _ => stuck "cmp" end
    | OEq | ONe =>
        match l, r with
        | VStr a, VStr b => Ok (VBool (if is_eq o then String.eqb a b else negb (String.eqb a b)))
        | VChar a, VChar b => Ok (VBool (if is_eq o then Ascii.eqb a b else negb (Ascii.eqb a b)))
        | VObj a _, VObj b _ =>
            let same := match a, b with
                        | Some x, Some y => Nat.eqb x y | None, None => true | _, _ => false end in
            Ok (VBool (if is_eq o then same else negb same))
        | _, _ =>
            match as_boolish l, as_boolish r with
            | Some a, Some b => Ok (VBool (if is_eq o then Bool.eqb a b else negb (Bool.eqb a b)))
            | _, _ =>
                match as_num l, as_num r with
                | Some a, Some b => Ok (VBool (compare o a b))
                | _, _ => stuck "=="
                end
            end
        end
    | OAnd | OOr =>
        match as_boolish l, as_boolish r with
        | Some a, Some b => Ok (VBool (match o with OAnd => andb a b | _ => orb a b end))
        | _, _ => stuck "logical"
        end
    | OBAnd | OBOr | OBXor =>
        match l, r with
        | VBit a, VBit b => Ok (VBit (bitop o a b))
        | VArr TBit x, VArr TBit y =>
            match as_bits x, as_bits y with
            | Some bx, Some by_ =>
                if Nat.eqb (List.length bx) (List.length by_)
                then Ok (VArr TBit (map (fun p => VBit (bitop o (fst p) (snd p))) (combine bx by_)))
                else Err RBitLen
            | _, _ => stuck "bits"
            end
        | VArr TBit x, VBit b =>
            match as_bits x with Some bx => Ok (VArr TBit (map (fun a => VBit (bitop o a b)) bx)) | None => stuck "bits" end
        | VBit a, VArr TBit y =>
            match as_bits y with Some by_ => Ok (VArr TBit (map (fun b => VBit (bitop o a b)) by_)) | None => stuck "bits" end
        | _, _ => stuck "bitwise"
        end
    end.

  Definition unop_eval (o : unop) (v : value) : res value :=
    match o, v with
    | UNeg, VInt z => Ok (VInt (wrap32 (- z)))
    | UNeg, VLong z => long_res (- z)
    | UNeg, VFloat f => Ok (VFloat (fneg O f))
    | UNot, VBool b | UNot, VBit b => Ok (VBool (negb b))
    | UBNot, VBit b => Ok (VBit (negb b))
    | UBNot, VArr TBit l =>
        match as_bits l with Some bl => Ok (VArr TBit (map (fun b => VBit (negb b)) bl)) | None => stuck "~" end
    | _, _ => stuck "unary"
    end.

  (* explicit casts: targets int, long, float, bit; sources int, long, float, bit *)
  Definition cast_eval (t : ty) (v : value) : res value :=
    match t, v with
    | TInt, VInt z => Ok (VInt z)
    | TInt, VLong z => Ok (VInt (wrap32 z))
    | TInt, VBit b => Ok (VInt (b2z b))
    | TInt, VFloat f => trunc32 f
    | TLong, VInt z | TLong, VLong z => Ok (VLong z)
    | TLong, VBit b => Ok (VLong (b2z b))
    | TLong, VFloat f => trunc64 f
    | TFloat, VInt z | TFloat, VLong z => Ok (VFloat (f_of_Z O z))
    | TFloat, VBit b => Ok (VFloat (f_of_Z O (b2z b)))
    | TFloat, VFloat f => Ok (VFloat f)
    | TBit, VInt z | TBit, VLong z => Ok (VBit (negb (z =? 0)))
    | TBit, VBit b => Ok (VBit b)
    | TBit, VFloat f => Ok (VBit (negb (feqb O f fzero)))
    | _, _ => stuck "cast"
    end.

  (* storing into a declared slot: int widens to long, everything else must already fit *)
  Definition widen (t : ty) (v : value) : value :=
    match t, v with
    | TLong, VInt z => VLong z
    | TClass c, VObj l _ => VObj l c          (* a reference takes the static class of the slot it is stored in *)
    | _, _ => v
    end.

  (* conversions applied to the elements of an array literal / an element assignment *)
  Definition elem_conv (elt : ty) (v : value) : res value :=
    match elt, v with
    | TInt, VInt z => Ok (VInt z)
    | TInt, VLong z => Ok (VInt (wrap32 z))
    | TInt, VBit b => Ok (VInt (b2z b))
    | TInt, VFloat f => trunc32 f
    | TLong, VInt z | TLong, VLong z => Ok (VLong z)
    | TLong, VBit b => Ok (VLong (b2z b))
    | TLong, VFloat f => trunc64 f
    | TFloat, VFloat f => Ok (VFloat f)
    | TFloat, VInt z => Ok (VFloat (f_of_Z O z))
    | TFloat, VBit b => Ok (VFloat (f_of_Z O (b2z b)))
    | TBit, VBit b => Ok (VBit b)
    | TBool, VBool b => Ok (VBool b)
    | TStr, VStr s => Ok (VStr s)
    | TChar, VChar c => Ok (VChar c)
    | _, _ => stuck "element"
    end.

  Fixpoint map_res {A B} (f : A -> res B) (l : list A) : res (list B) :=
    match l with
    | [] => Ok []
    | a :: r => do b <- f a; do bs <- map_res f r; Ok (b :: bs)
    end.

  Definition lit_eval (l : lit) : value :=
    match l with
    | LInt z => VInt z | LLong z => VLong z
    | LFloat n p => VFloat (fdiv O (f_of_Z O n) (f_of_Z O (2 ^ Z.of_nat p)))
    | LBit b => VBit b | LBool b => VBool b | LChar c => VChar c | LStr s => VStr s
    end.

  Definition index_of (v : value) : option Z :=
    match v with
    | VInt z | VLong z => Some z
    | VBit b => Some (b2z b)
    | VFloat f => Some (f_trunc O f)          (* "index must be numeric": a float index is truncated *)
    | _ => None
    end.

  Definition truthy (v : value) : bool :=
    match v with
    | VBool b | VBit b => b
    | VInt z | VLong z => negb (z =? 0)
    | VFloat f => negb (feqb O f fzero)
    | _ => false
    end.

  (* ---- environments: a stack of scopes, innermost first ---- *)
  Definition scope := list (string * value).
  Definition env := list scope.

  Fixpoint sc_find (x : string) (s : scope) : option value :=
    match s with
    | [] => None
    | (y, v) :: r => if String.eqb x y then Some v else sc_find x r
    end.
  Fixpoint sc_set (x : string) (v : value) (s : scope) : scope :=
    match s with
    | [] => []
    | (y, w) :: r => if String.eqb x y then (y, v) :: r else (y, w) :: sc_set x v r
    end.
  Fixpoint lookup (x : string) (e : env) : option value :=
    match e with
    | [] => None
    | s :: r => match sc_find x s with Some v => Some v | None => lookup x r end
    end.
  Fixpoint update (x : string) (v : value) (e : env) : env :=
    match e with
    | [] => []
    | s :: r => match sc_find x s with Some _ => sc_set x v s :: r | None => s :: update x v r end
    end.
  Definition declare (x : string) (v : value) (e : env) : env :=
    match e with
    | [] => [[(x, v)]]
    | s :: r => ((x, v) :: s) :: r
    end.

  (* ---- heap objects, program tables ---- *)
  Record obj := mkObj { o_cls : string; o_fields : list (string * value); o_dead : bool }.

  Record st := mkSt {
    s_env : env;                      (* scopes of the running function/method/constructor only *)
    s_out : list string;              (* echoed lines, newest first *)
    s_frames : list env;              (* environments of the suspended callers (reference roots only) *)
    s_temps : list value;             (* evaluated operands still pending in suspended expressions *)
    s_heap : list obj;
    s_statics : list (string * string * value);     (* (declaring class, field) -> value *)
    s_ctx : string;                   (* class whose member is running, "" outside classes *)
    s_dcount : nat                    (* user destructor bodies run so far *)
  }.
  Definition with_env (s : st) (e : env) : st :=
    mkSt e (s_out s) (s_frames s) (s_temps s) (s_heap s) (s_statics s) (s_ctx s) (s_dcount s).
  Definition with_out (s : st) (o : list string) : st :=
    mkSt (s_env s) o (s_frames s) (s_temps s) (s_heap s) (s_statics s) (s_ctx s) (s_dcount s).
  Definition with_temps (s : st) (t : list value) : st :=
    mkSt (s_env s) (s_out s) (s_frames s) t (s_heap s) (s_statics s) (s_ctx s) (s_dcount s).
  Definition with_heap (s : st) (h : list obj) : st :=
    mkSt (s_env s) (s_out s) (s_frames s) (s_temps s) h (s_statics s) (s_ctx s) (s_dcount s).
  Definition with_statics (s : st) (x : list (string * string * value)) : st :=
    mkSt (s_env s) (s_out s) (s_frames s) (s_temps s) (s_heap s) x (s_ctx s) (s_dcount s).
  Definition push (s : st) : st := with_env s ([] :: s_env s).
  Definition pop (s : st) : st := with_env s (tl (s_env s)).
  (* entering a callee: the caller's environment is parked (it stays a root, it is not visible) *)
  Definition enter (s : st) (sc : scope) (ctx : string) : st :=
    mkSt [sc] (s_out s) (s_env s :: s_frames s) (s_temps s) (s_heap s) (s_statics s) ctx (s_dcount s).
  Definition leave (caller callee : st) : st :=
    mkSt (s_env caller) (s_out callee) (s_frames caller) (s_temps caller) (s_heap callee) (s_statics callee) (s_ctx caller) (s_dcount callee).
  Definition init_st : st := mkSt [] [] [] [] [] [] EmptyString 0%nat.
  Definition bump_dtor (s : st) : st :=
    mkSt (s_env s) (s_out s) (s_frames s) (s_temps s) (s_heap s) (s_statics s) (s_ctx s) (S (s_dcount s)).

  Inductive ctl := CNormal | CReturn (v : value).

  Variable fns : string -> option fdecl.
  Variable cls : string -> option cdecl.
  Variable depth : nat.               (* bound on the length of an inheritance chain (number of classes) *)

  (* the class and its ancestors, most derived first *)
  Fixpoint chain_from (k : nat) (c : string) : list cdecl :=
    match k with
    | 0%nat => []
    | S k => match cls c with
             | None => []
             | Some cd => cd :: match cd_base cd with Some b => chain_from k b | None => [] end
             end
    end.
  Definition chain (c : string) : list cdecl := chain_from depth c.

  Fixpoint index_where {A} (p : A -> bool) (l : list A) : option nat :=
    match l with
    | [] => None
    | a :: r => if p a then Some 0%nat else match index_where p r with Some k => Some (S k) | None => None end
    end.
  (* inheritance distance from c up to d *)
  Definition dist (c d : string) : option nat := index_where (fun cd => String.eqb (cd_name cd) d) (chain c).

  (* conversion cost of passing v where a parameter of type pt is declared: 0 exact, 1 int->long,
     inheritance distance for references, 3 for the null literal *)
  Definition arg_cost (pt : ty) (v : value) : option nat :=
    match v with
    | VObj _ stamp =>
        match pt with
        | TClass c => if String.eqb stamp EmptyString then Some 3%nat else dist stamp c
        | _ => None
        end
    | _ => if ty_eqb pt (type_of v) then Some 0%nat
           else match pt, v with TLong, VInt _ => Some 1%nat | _, _ => None end
    end.
  Fixpoint args_cost (pts : list ty) (vs : list value) : option nat :=
    match pts, vs with
    | [], [] => Some 0%nat
    | p :: pr, v :: vr => match arg_cost p v, args_cost pr vr with
                          | Some a, Some b => Some (a + b)%nat | _, _ => None end
    | _, _ => None
    end.

  (* the unique candidate of minimal cost; None when there is none or a tie (ambiguous) *)
  Fixpoint best {A} (l : list (A * nat)) : option (A * nat * bool) :=     (* candidate, cost, tie *)
    match l with
    | [] => None
    | (a, c) :: r =>
        match best r with
        | None => Some (a, c, false)
        | Some (b, d, tie) => if Nat.ltb c d then Some (a, c, false)
                              else if Nat.eqb c d then Some (b, d, true) else Some (b, d, tie)
        end
    end.
  Definition pick {A} (l : list (A * nat)) : option A :=
    match best l with Some (a, _, false) => Some a | _ => None end.

  Definition ptys (ps : list (ty * string)) : list ty := map fst ps.
  Fixpoint tys_eqb (a b : list ty) : bool :=
    match a, b with
    | [], [] => true
    | x :: a', y :: b' => ty_eqb x y && tys_eqb a' b'
    | _, _ => false
    end.

  (* methods named m visible from a class, nearest declaration of each parameter list first *)
  Fixpoint visible (ch : list cdecl) (m : string) (hidden : list (list ty)) : list (cdecl * meth) :=
    match ch with
    | [] => []
    | cd :: r =>
        let here := filter (fun md => String.eqb (md_name md) m &&
                                      negb (existsb (tys_eqb (ptys (md_params md))) hidden)) (cd_meths cd) in
        map (fun md => (cd, md)) here ++ visible r m (map (fun md => ptys (md_params md)) here ++ hidden)
    end.
  Definition resolve (stamp m : string) (vs : list value) : option (cdecl * meth) :=
    pick (flat_map (fun cm => match args_cost (ptys (md_params (snd cm))) vs with
                              | Some c => [(cm, c)] | None => [] end) (visible (chain stamp) m [])).
  (* the most derived declaration of (m, parameter types) in the object's dynamic class *)
  Definition dispatch (dyn m : string) (pt : list ty) : option (cdecl * meth) :=
    match visible (chain dyn) m [] with
    | l => find (fun cm => tys_eqb (ptys (md_params (snd cm))) pt) l
    end.
  Definition pick_ctor (cd : cdecl) (vs : list value) : option ctor :=
    pick (flat_map (fun ct => match args_cost (ptys (ct_params ct)) vs with
                              | Some c => [(ct, c)] | None => [] end) (cd_ctors cd)).

  (* instance fields, base class first, declaration order *)
  Definition inst_fields (c : string) : list field :=
    flat_map (fun cd => filter (fun f => negb (fd_static f)) (cd_fields cd)) (rev (chain c)).
  (* the class in c's chain that declares static field f *)
  Definition static_owner (c f : string) : option string :=
    match find (fun cd => existsb (fun fd => fd_static fd && String.eqb (fd_name fd) f) (cd_fields cd)) (chain c) with
    | Some cd => Some (cd_name cd) | None => None
    end.
  Fixpoint st_find (c f : string) (l : list (string * string * value)) : option value :=
    match l with
    | [] => None
    | (c', f', v) :: r => if String.eqb c c' && String.eqb f f' then Some v else st_find c f r
    end.
  Fixpoint st_set (c f : string) (v : value) (l : list (string * string * value)) : list (string * string * value) :=
    match l with
    | [] => [(c, f, v)]
    | (c', f', w) :: r => if String.eqb c c' && String.eqb f f' then (c', f', v) :: r else (c', f', w) :: st_set c f v r
    end.

  Definition get_obj (s : st) (l : nat) : option obj := nth_error (s_heap s) l.
  Fixpoint set_nth {A} (k : nat) (a : A) (l : list A) : list A :=
    match l, k with
    | [], _ => []
    | _ :: r, 0%nat => a :: r
    | x :: r, S k' => x :: set_nth k' a r
    end.
  Definition set_obj (s : st) (l : nat) (o : obj) : st := with_heap s (set_nth l o (s_heap s)).
  Definition this_loc (s : st) : option nat :=
    match lookup "this" (s_env s) with Some (VObj (Some l) _) => Some l | _ => None end.

  Definition get_field (s : st) (l : nat) (f : string) : res value :=
    match get_obj s l with
    | Some o => match sc_find f (o_fields o) with
                | Some v => Ok v
                | None => if o_dead o then undoc "use of a destroyed object" else stuck "no such field"
                end
    | None => stuck "dangling reference"
    end.
  Definition set_field (s : st) (l : nat) (f : string) (v : value) : res st :=
    match get_obj s l with
    | Some o => match sc_find f (o_fields o) with
                | Some old => Ok (set_obj s l (mkObj (o_cls o) (sc_set f (widen (type_of old) v) (o_fields o)) (o_dead o)))
                | None => if o_dead o then undoc "use of a destroyed object" else stuck "no such field"
                end
    | None => stuck "dangling reference"
    end.

  (* a bare name: the running body's own locals and parameters, then the fields of the enclosing
     object, then the static fields of the enclosing class and its ancestors - never a caller's local *)
  Definition read_name (x : string) (s : st) : res value :=
    match lookup x (s_env s) with
    | Some v => Ok v
    | None =>
        match (match this_loc s with
               | Some l => match get_obj s l with
                           | Some o => sc_find x (o_fields o)
                           | None => None end
               | None => None end) with
        | Some v => Ok v
        | None =>
            match static_owner (s_ctx s) x with
            | Some c => match st_find c x (s_statics s) with Some v => Ok v | None => stuck "static" end
            | None => stuck "undeclared name"
            end
        end
    end.

  Definition write_name (x : string) (v : value) (s : st) : res st :=
    match lookup x (s_env s) with
    | Some old => Ok (with_env s (update x (widen (type_of old) v) (s_env s)))
    | None =>
        match (match this_loc s with
               | Some l => match get_obj s l with
                           | Some o => match sc_find x (o_fields o) with Some _ => Some l | None => None end
                           | None => None end
               | None => None end) with
        | Some l => set_field s l x v
        | None =>
            match static_owner (s_ctx s) x with
            | Some c => match st_find c x (s_statics s) with
                        | Some old => Ok (with_statics s (st_set c x (widen (type_of old) v) (s_statics s)))
                        | None => stuck "static" end
            | None => stuck "assignment to an undeclared name"
            end
        end
    end.

  Definition assign_var := write_name.

  Fixpoint bind_params (ps : list (ty * string)) (vs : list value) : option scope :=
    match ps, vs with
    | [], [] => Some []
    | (t, x) :: ps', v :: vs' =>
        match bind_params ps' vs' with Some r => Some ((x, widen t v) :: r) | None => None end
    | _, _ => None
    end.

  (* ---- reference counting: which objects are still referenced ---- *)
  Definition val_refs (v : value) : list nat := match v with VObj (Some l) _ => [l] | _ => [] end.
  Definition scope_refs (sc : scope) : list nat := flat_map (fun p => val_refs (snd p)) sc.
  Definition env_refs (e : env) : list nat := flat_map scope_refs e.
  Definition heap_refs (h : list obj) : list nat :=
    flat_map (fun o => scope_refs (o_fields o)) h.      (* a destroyed object's fields have been dropped *)
  Definition all_refs (s : st) (extra : list value) : list nat :=
    env_refs (s_env s) ++ flat_map env_refs (s_frames s) ++ flat_map val_refs (s_temps s)
    ++ flat_map (fun t => val_refs (snd t)) (s_statics s) ++ heap_refs (s_heap s) ++ flat_map val_refs extra.
  Definition has_dtor (c : string) : bool :=
    existsb (fun cd => match cd_dtor cd with Some _ => true | None => false end) (chain c).
  (* live objects nobody refers to *)
  Definition unreferenced (s : st) (extra : list value) : list nat :=
    let refs := all_refs s extra in
    filter (fun l => match nth_error (s_heap s) l with
                     | Some o => negb (o_dead o) && negb (existsb (Nat.eqb l) refs)
                     | None => false end) (seq 0 (List.length (s_heap s))).

  (* sequencing helpers, generic in the one-step function so that they have their own lemmas *)
  Fixpoint eval_list (ev : st -> expr -> res (value * st)) (s : st) (es : list expr) : res (list value * st) :=
    match es with
    | [] => Ok ([], s)
    | a :: r => do (v, s1) <- ev s a;
                (* the evaluated operand stays referenced while the remaining ones run *)
                do (vs, s2) <- eval_list ev (with_temps s1 (v :: s_temps s1)) r; Ok (v :: vs, s2)
    end.
  Fixpoint exec_list (ex : st -> stmt -> res (ctl * st)) (post : ctl -> st -> res st)
           (s : st) (ss : list stmt) : res (ctl * st) :=
    match ss with
    | [] => Ok (CNormal, s)
    | a :: r => do (c, s1) <- ex s a;
                do s2 <- post c s1;
                match c with CNormal => exec_list ex post s2 r | CReturn _ => Ok (c, s2) end
    end.

  (* one unfolding of the interpreter, over the evaluators [ev]/[ex] used for sub-terms *)
  Section Step.
    Variable ev : st -> expr -> res (value * st).
    Variable ex : st -> stmt -> res (ctl * st).

    (* destructors run derived-first *)
    Fixpoint run_dtors (ch : list cdecl) (l : nat) (s : st) : res st :=
      match ch with
      | [] => Ok s
      | cd :: r =>
          do s1 <- match cd_dtor cd with
                   | None => Ok s
                   | Some body =>
                       let s0 := enter (bump_dtor s) [("this"%string, VObj (Some l) (cd_name cd))] (cd_name cd) in
                       do (_, s') <- exec_list ex (fun _ x => Ok x) s0 body;
                       Ok (leave s s')
                   end;
          run_dtors r l s1
      end.
    Fixpoint sc_remove (f : string) (sc : scope) : scope :=
      match sc with
      | [] => []
      | (g, v) :: r => if String.eqb f g then r else (g, v) :: sc_remove f r
      end.
    (* an object that has just lost a reference: when it was the last one, run its destructors and then drop
       its fields one at a time in declaration order, releasing in turn whatever each was the last reference to *)
    Fixpoint release (k : nat) (extra : list value) (l : nat) (s : st) : res st :=
      match k with
      | 0%nat => undoc "release depth"
      | S k =>
          match get_obj s l with
          | None => Ok s
          | Some o =>
              if o_dead o || existsb (Nat.eqb l) (all_refs s extra) then Ok s else
              (* marked first, as the evaluator does, so that nothing destroys it again *)
              let s0 := set_obj s l (mkObj (o_cls o) (o_fields o) true) in
              do s1 <- run_dtors (chain (o_cls o)) l s0;
              fold_left (fun acc f =>
                           do sx <- acc;
                           match get_obj sx l with
                           | Some ox =>
                               let v := sc_find f (o_fields ox) in
                               let sy := set_obj sx l (mkObj (o_cls ox) (sc_remove f (o_fields ox)) true) in
                               match v with
                               | Some (VObj (Some m) _) => release k extra m sy
                               | _ => Ok sy
                               end
                           | None => Ok sx
                           end) (map fst (o_fields o)) (Ok s1)
          end
      end.
    Definition destroy_obj (l : nat) (s : st) : res st := release (S (S (List.length (s_heap s)))) [] l s.
    (* release every object whose last reference has gone.  When one event (a scope exit) leaves several
       objects unreferenced and more than one user destructor runs as a result, the order is not documented. *)
    Fixpoint sweep (k : nat) (extra : list value) (s : st) : res st :=
      match k with
      | 0%nat => Ok s
      | S k =>
          match unreferenced s extra with
          | [] => Ok s
          | cands =>
              do s1 <- fold_left (fun acc l => do sx <- acc; release (S (S (List.length (s_heap sx)))) extra l sx) cands (Ok s);
              if Nat.ltb 1 (List.length cands) && Nat.ltb (S (s_dcount s)) (s_dcount s1)
              then undoc "several objects released together and more than one destructor ran"
              else sweep k extra s1
          end
      end.
    Definition sweep_all (extra : list value) (s : st) : res st :=
      sweep (S (S (List.length (s_heap s)))) extra s.
    Definition post_stmt (c : ctl) (s : st) : res st :=
      sweep_all (match c with CReturn v => [v] | CNormal => [] end) s.

    Definition execs := exec_list ex post_stmt.
    Definition evals (s : st) (es : list expr) : res (list value * st) :=
      (* operands are parked in s_temps while the list is evaluated; restored afterwards *)
      do (vs, s1) <- eval_list ev s es; Ok (vs, with_temps s1 (s_temps s)).

    (* run a body in a fresh frame and come back to the caller *)
    Definition call_body (s : st) (sc : scope) (ctx : string) (ret : ty) (args : list value) (body : list stmt)
      : res (value * st) :=
      let s0 := enter (with_temps s (args ++ s_temps s)) sc ctx in
      do (c, s1) <- execs s0 body;
      let v := match c with CReturn v => widen ret v | CNormal => VVoid end in
      let s2 := leave s s1 in
      (* the callee's locals are gone: whatever only they referred to is released now *)
      do s3 <- sweep_all [v] s2;
      Ok (v, s3).

    Definition run_inits (cd : cdecl) (l : nat) (s : st) : res st :=
      fold_left (fun acc fd =>
                   do s0 <- acc;
                   if fd_static fd then Ok s0 else
                   match fd_init fd with
                   | None => Ok s0
                   | Some a =>
                       (* an initialiser sees the object's fields, not the constructor's parameters *)
                       let s1 := enter s0 [("this"%string, VObj (Some l) (cd_name cd))] (cd_name cd) in
                       do (v, s2) <- ev s1 a;
                       let s3 := leave s0 s2 in
                       set_field s3 l (fd_name fd) v
                   end) (cd_fields cd) (Ok s).

    (* base constructor, then this class's field initialisers, then its constructor body *)
    Fixpoint ctor_chain (ch : list cdecl) (l : nat) (ct : ctor) (args : list value) (s : st) : res st :=
      match ch with
      | [] => Ok s
      | cd :: rest =>
          match bind_params (ct_params ct) args with
          | None => stuck "constructor arity"
          | Some sc =>
              let s0 := enter (with_temps s (args ++ s_temps s)) (("this"%string, VObj (Some l) (cd_name cd)) :: sc) (cd_name cd) in
              do (sargs, s1) <- match ct_super ct with
                                | Some es => evals s0 es
                                | None => Ok ([], s0)
                                end;
              do s2 <- match rest with
                       | [] => Ok s1
                       | base :: _ =>
                           match pick_ctor base sargs with
                           | None => stuck "no matching base constructor"
                           | Some bct => ctor_chain rest l bct sargs s1
                           end
                       end;
              do s3 <- run_inits cd l s2;
              do s4 <- (if ct_default ct then
                          fold_left (fun acc p =>
                                       do sx <- acc;
                                       match get_obj sx l with
                                       | Some o => match sc_find (snd (fst p)) (o_fields o) with
                                                   | Some _ => set_field sx l (snd (fst p)) (snd p)
                                                   | None => Ok sx end
                                       | None => Ok sx
                                       end) (combine (ct_params ct) args) (Ok s3)
                        else Ok s3);
              do (_, s5) <- execs s4 (ct_body ct);
              let s6 := leave s s5 in
              sweep_all [VObj (Some l) (cd_name cd)] s6
          end
      end.

    Definition invoke (s : st) (recv : option nat) (cm : cdecl * meth) (args : list value) : res (value * st) :=
      let (cd, md) := cm in
      match bind_params (md_params md) args with
      | None => stuck "arity"
      | Some sc =>
          let sc' := match recv with Some l => ("this"%string, VObj (Some l) (cd_name cd)) :: sc | None => sc end in
          let keep := match recv with Some l => [VObj (Some l) (cd_name cd)] | None => [] end in
          call_body s sc' (cd_name cd) (md_ret md) (keep ++ args) (md_body md)
      end.

    Definition eval_step (s : st) (e : expr) : res (value * st) :=
      match e with
      | ELit l => Ok (lit_eval l, s)
      | EVar x => do v <- read_name x s; Ok (v, s)
      | EBin o a b => do (va, s1) <- ev s a;
                      do (vb, s2) <- ev (with_temps s1 (va :: s_temps s1)) b;
                      do v <- binop_eval o va vb; Ok (v, with_temps s2 (s_temps s))
      | EUn o a => do (va, s1) <- ev s a; do v <- unop_eval o va; Ok (v, s1)
      | ECast t a => do (va, s1) <- ev s a; do v <- cast_eval t va; Ok (v, s1)
      | EIndex a i =>
          do (va, s1) <- ev s a; do (vi, s2) <- ev s1 i;
          match va, index_of vi with
          | VArr _ l, Some k =>
              if (k <? 0) || (Z.of_nat (List.length l) <=? k) then Err (RIndex k (Z.of_nat (List.length l)))
              else match nth_error l (Z.to_nat k) with Some v => Ok (v, s2) | None => stuck "index" end
          | _, _ => stuck "index"
          end
      | EArr es =>
          do (vs, s1) <- evals s es;
          match vs with
          | [] => Ok (VArr TInt [], s1)
          | v :: _ => Ok (VArr (type_of v) vs, s1)      (* typed by the first element *)
          end
      | ECall f args =>
          match fns f with
          | Some fd =>
              do (vs, s1) <- evals s args;
              match bind_params (fn_params fd) vs with
              | None => stuck "arity"
              | Some sc =>
                  (* lexical scoping: the callee sees its parameters and nothing of the caller *)
                  call_body s1 sc EmptyString (fn_ret fd) vs (fn_body fd)
              end
          | None =>
              (* inside a class a bare call names a method of the enclosing class: this.f(args) *)
              do (vs, s1) <- evals s args;
              match this_loc s1 with
              | Some l =>
                  match get_obj s1 l, resolve (s_ctx s1) f vs with
                  | Some o, Some (cd, md) =>
                      if md_static md then invoke s1 None (cd, md) vs
                      else if md_virtual md then
                        match dispatch (o_cls o) f (ptys (md_params md)) with
                        | Some cm => invoke s1 (Some l) cm vs
                        | None => stuck "dispatch"
                        end
                      else invoke s1 (Some l) (cd, md) vs
                  | _, _ => stuck "unknown function"
                  end
              | None =>
                  match resolve (s_ctx s1) f vs with
                  | Some (cd, md) => if md_static md then invoke s1 None (cd, md) vs else stuck "instance call in static context"
                  | None => stuck "unknown function"
                  end
              end
          end
      | EPost x inc =>
          do old <- read_name x s;
          match old with
          | VInt z => do s1 <- write_name x (VInt (wrap32 (if inc then z + 1 else z - 1))) s; Ok (VInt z, s1)
          | VLong z => do nv <- long_res (if inc then z + 1 else z - 1);
                       do s1 <- write_name x nv s; Ok (VLong z, s1)
          | _ => stuck "postfix"
          end
      | EAssign x a =>
          (* the value (and static type) of an assignment expression is that of its right-hand side *)
          do (v, s1) <- ev s a; do s2 <- write_name x v s1; Ok (v, s2)
      | ENew c args =>
          match cls c with
          | None => stuck "unknown class"
          | Some cd =>
              do (vs, s1) <- evals s args;
              match pick_ctor cd vs with
              | None => stuck "no matching constructor"
              | Some ct =>
                  let l := List.length (s_heap s1) in
                  let o := mkObj c (map (fun fd => (fd_name fd, default_of (fd_ty fd))) (inst_fields c)) false in
                  let s2 := with_heap s1 (s_heap s1 ++ [o]) in
                  do s3 <- ctor_chain (chain c) l ct vs s2;
                  Ok (VObj (Some l) c, s3)
              end
          end
      | EField a f =>
          do (va, s1) <- ev s a;
          match va with
          | VObj (Some l) _ => do v <- get_field s1 l f; Ok (v, s1)
          | VObj None _ => Err RNull
          | _ => stuck "member access on a non-object"
          end
      | EThis => match lookup "this" (s_env s) with Some v => Ok (v, s) | None => stuck "this" end
      | ENull => Ok (VObj None EmptyString, s)
      | EMCall a m args =>
          do (va, s1) <- ev s a;
          do (vs, s2) <- evals (with_temps s1 (va :: s_temps s1)) args;
          let s2 := with_temps s2 (s_temps s) in
          match va with
          | VObj (Some l) stamp =>
              match get_obj s2 l, resolve stamp m vs with
              | Some o, Some (cd, md) =>
                  if o_dead o then undoc "use of a destroyed object" else
                  if md_static md then invoke s2 None (cd, md) vs
                  else if md_virtual md then
                    match dispatch (o_cls o) m (ptys (md_params md)) with
                    | Some cm => invoke s2 (Some l) cm vs
                    | None => stuck "dispatch"
                    end
                  else invoke s2 (Some l) (cd, md) vs
              | _, _ => stuck "no such method"
              end
          | VObj None _ => Err RNull
          | _ => stuck "call on a non-object"
          end
      | ESuperCall m args =>
          do (vs, s1) <- evals s args;
          match this_loc s1, cls (s_ctx s1) with
          | Some l, Some cd =>
              match cd_base cd with
              | Some b => match resolve b m vs with
                          | Some cm => invoke s1 (Some l) cm vs        (* the base version, no virtual dispatch *)
                          | None => stuck "no such base method"
                          end
              | None => stuck "super without a base"
              end
          | _, _ => stuck "super outside a method"
          end
      | ESCall c m args =>
          do (vs, s1) <- evals s args;
          match resolve c m vs with
          | Some (cd, md) => if md_static md then invoke s1 None (cd, md) vs else stuck "instance method called on a type"
          | None => stuck "no such static method"
          end
      | ESField c f =>
          match static_owner c f with
          | Some o => match st_find o f (s_statics s) with Some v => Ok (v, s) | None => stuck "static" end
          | None => stuck "no such static field"
          end
      | EFieldSet a f b =>
          do (va, s1) <- ev s a;
          do (vb, s2) <- ev (with_temps s1 (va :: s_temps s1)) b;
          let s2 := with_temps s2 (s_temps s) in
          match va with
          | VObj (Some l) _ => do s3 <- set_field s2 l f vb; Ok (vb, s3)
          | VObj None _ => Err RNull
          | _ => stuck "member assignment on a non-object"
          end
      | ESFieldSet c f b =>
          do (vb, s1) <- ev s b;
          match static_owner c f with
          | Some o => match st_find o f (s_statics s1) with
                      | Some old => Ok (vb, with_statics s1 (st_set o f (widen (type_of old) vb) (s_statics s1)))
                      | None => stuck "static" end
          | None => stuck "no such static field"
          end
      end.

    Definition exec_step (s : st) (c : stmt) : res (ctl * st) :=
      match c with
      | SDecl _ t x init =>
          match init with
          | None => Ok (CNormal, with_env s (declare x (default_of t) (s_env s)))
          | Some a => do (v, s1) <- ev s a;
                      Ok (CNormal, with_env s1 (declare x (widen t v) (s_env s1)))
          end
      | SDeclArr elt x size init =>
          do (sz, s1) <- match size with
                         | None => Ok (None, s)
                         | Some a => do (v, s') <- ev s a;
                                     match v with
                                     | VInt k => if k <? 0 then Err RNegSize else Ok (Some k, s')
                                     | _ => stuck "array size"
                                     end
                         end;
          match init with
          | None =>
              let len := match sz with Some k => Z.to_nat k | None => 0%nat end in
              Ok (CNormal, with_env s1 (declare x (VArr elt (repeat (default_of elt) len)) (s_env s1)))
          | Some (EArr es) =>
              do _ <- match sz with
                      | Some k => if Z.of_nat (List.length es) =? k then Ok tt else Err RInitLen
                      | None => Ok tt
                      end;
              do (vs, s2) <- evals s1 es;
              do cs <- map_res (elem_conv elt) vs;
              Ok (CNormal, with_env s2 (declare x (VArr elt cs) (s_env s2)))
          | Some a =>
              do (v, s2) <- ev s1 a;
              Ok (CNormal, with_env s2 (declare x v (s_env s2)))
          end
      | SAssign x a => do (v, s1) <- ev s a; do s2 <- write_name x v s1; Ok (CNormal, s2)
      | SArrAssign x i a =>
          do arr <- read_name x s;
          match arr with
          | VArr _ _ =>
              do (vi, s1) <- ev s i;
              match index_of vi with
              | None => stuck "index"
              | Some k =>
                  do (v, s2) <- ev s1 a;
                  (* the array is re-read after the operands ran, as the evaluator does *)
                  do arr2 <- read_name x s2;
                  match arr2 with
                  | VArr elt2 l2 =>
                      if (k <? 0) || (Z.of_nat (List.length l2) <=? k)
                      then Err (RIndex k (Z.of_nat (List.length l2)))
                      else do cv <- elem_conv elt2 v;
                           do s3 <- write_name x (VArr elt2 (firstn (Z.to_nat k) l2 ++ cv :: skipn (S (Z.to_nat k)) l2)) s2;
                           Ok (CNormal, s3)
                  | _ => stuck "array assignment"
                  end
              end
          | _ => stuck "array assignment"
          end
      | SIf c a b =>
          do (v, s1) <- ev s c;
          if truthy v then ex s1 a
          else match b with Some b' => ex s1 b' | None => Ok (CNormal, s1) end
      | STern c a b =>
          do (v, s1) <- ev s c;
          if truthy v then ex s1 a else ex s1 b
      | SWhile c body =>
          do (v, s1) <- ev s c;
          if truthy v then
            do (k, s2) <- ex s1 body;
            match k with CNormal => ex s2 (SWhile c body) | CReturn _ => Ok (k, s2) end
          else Ok (CNormal, s1)
      | SFor init c step body =>
          (* for (init; c; step) body  ==  { init; while (c) { body; step; } } with its own scope *)
          let s0 := push s in
          do (k0, s1) <- match init with Some i => ex s0 i | None => Ok (CNormal, s0) end;
          do (k, s2) <- ex s1 (SWhile (match c with Some c' => c' | None => ELit (LBool true) end)
                                      (SBlock (body :: match step with Some st' => [st'] | None => [] end)));
          let s3 := pop s2 in
          do s4 <- post_stmt k s3; Ok (k, s4)
      | SEcho a => do (v, s1) <- ev s a; Ok (CNormal, with_out s1 (show v :: s_out s1))
      | SReturn None => Ok (CReturn VVoid, s)
      | SReturn (Some a) => do (v, s1) <- ev s a; Ok (CReturn v, s1)
      | SExpr a => do (_, s1) <- ev s a; Ok (CNormal, s1)
      | SBlock ss =>
          do (k, s1) <- execs (push s) ss;
          let s2 := pop s1 in
          (* leaving the block drops its variables: objects only they referred to are released *)
          do s3 <- post_stmt k s2; Ok (k, s3)
      | SDestroy a =>
          (* 'destroy x' gives up this reference; the destructor runs when it was the last one *)
          match a with
          | EVar x => do old <- read_name x s;
                      match old with
                      | VObj _ c => do s1 <- write_name x (VObj None c) s; Ok (CNormal, s1)
                      | _ => stuck "destroy of a non-object"
                      end
          | EField o f =>
              do (vo, s1) <- ev s o;
              match vo with
              | VObj (Some l) _ =>
                  do old <- get_field s1 l f;
                  match old with
                  | VObj _ c => do s2 <- set_field s1 l f (VObj None c); Ok (CNormal, s2)
                  | _ => stuck "destroy of a non-object"
                  end
              | VObj None _ => Err RNull
              | _ => stuck "destroy of a non-object"
              end
          | _ => do (_, s1) <- ev s a; Ok (CNormal, s1)
          end
      end.
  End Step.

  Fixpoint eval (n : nat) (s : st) (e : expr) {struct n} : res (value * st) :=
    match n with
    | 0%nat => OutOfFuel
    | S n => eval_step (eval n) (exec n) s e
    end
  with exec (n : nat) (s : st) (c : stmt) {struct n} : res (ctl * st) :=
    match n with
    | 0%nat => OutOfFuel
    | S n => exec_step (eval n) (exec n) s c
    end.

  Lemma eval_S n s e : eval (S n) s e = eval_step (eval n) (exec n) s e.
  Proof. reflexivity. Qed.
  Lemma exec_S n s c : exec (S n) s c = exec_step (eval n) (exec n) s c.
  Proof. reflexivity. Qed.

End Eval.

Definition find_fn (p : program) (f : string) : option fdecl :=
  find (fun d => String.eqb (fn_name d) f) (p_fns p).
Definition find_class (p : program) (c : string) : option cdecl :=
  find (fun d => String.eqb (cd_name d) c) (p_classes p).

(* static fields are initialised (in a frame of their own class) before main runs *)
Definition init_statics {F} (O : fops F) (fuel : nat) (p : program) : res (st (F:=F)) :=
  fold_left (fun acc cd =>
    fold_left (fun acc fd =>
      do s <- acc;
      if fd_static fd then
        match fd_init fd with
        | Some a =>
            let s1 := enter s [] (cd_name cd) in
            do (v, s2) <- eval O (find_fn p) (find_class p) (List.length (p_classes p)) fuel s1 a;
            Ok (with_statics (leave s s2) (s_statics s2 ++ [(cd_name cd, fd_name fd, widen (fd_ty fd) v)]))
        | None => Ok (with_statics s (s_statics s ++ [(cd_name cd, fd_name fd, default_of O (fd_ty fd))]))
        end
      else Ok s) (cd_fields cd) acc) (p_classes p) (Ok init_st).

(* A run: call main() with no arguments; the observable is the echoed lines (oldest first) and
   the way the run ended. *)
Inductive outcome := Finished | Failed (e : rerr) | Diverged.

Definition run {F} (O : fops F) (fuel : nat) (p : program) : list string * outcome :=
  match (do s0 <- init_statics O fuel p;
         eval O (find_fn p) (find_class p) (List.length (p_classes p)) fuel s0 (ECall "main" [])) with
  | Ok (_, s) => (rev (s_out s), Finished)
  | Err e => ([], Failed e)
  | OutOfFuel => ([], Diverged)
  end.
