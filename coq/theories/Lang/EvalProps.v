(* Evaluation-level facts about the reference interpreter: arrays have value semantics (writing
   one variable never changes another), a call runs in an environment built from its arguments
   alone and hands the caller's environment back untouched. *)
From Coq Require Import List ZArith String Ascii Bool Lia.
From Bloch Require Import Lang.Syntax Lang.Eval.
Import ListNotations.

Section EvalProps.
  Context {F : Type} (O : fops F).
  Notation value := (value F).
  Variable fns : string -> option fdecl.

  Lemma sc_find_set_other x y (v : value) s : x <> y -> sc_find x (sc_set y v s) = sc_find x s.
  Proof.
    intro N. induction s as [|[z w] s IH]; simpl; auto.
    destruct (String.eqb y z) eqn:E; simpl.
    - apply String.eqb_eq in E; subst. destruct (String.eqb x z) eqn:E2; auto.
      apply String.eqb_eq in E2. congruence.
    - destruct (String.eqb x z); auto.
  Qed.

  Lemma sc_find_set_same x (v : value) s : sc_find x s <> None -> sc_find x (sc_set x v s) = Some v.
  Proof.
    induction s as [|[z w] s IH]; simpl; [congruence|].
    destruct (String.eqb x z) eqn:E; simpl; rewrite E; auto.
  Qed.

  (* value semantics: updating y leaves every other variable exactly as it was *)
  Theorem lookup_update_other x y (v : value) e : x <> y -> lookup x (update y v e) = lookup x e.
  Proof.
    intro N. induction e as [|s e IH]; simpl; auto.
    destruct (sc_find y s) eqn:E; simpl.
    - now rewrite sc_find_set_other.
    - now rewrite IH.
  Qed.

  Theorem lookup_update_same x (v : value) e : lookup x e <> None -> lookup x (update x v e) = Some v.
  Proof.
    induction e as [|s e IH]; simpl; [congruence|].
    destruct (sc_find x s) eqn:E; simpl.
    - intros _. rewrite sc_find_set_same; [reflexivity | congruence].
    - intro H. rewrite E. auto.
  Qed.

  Lemma lookup_declare_other x y (v : value) e : x <> y -> lookup x (declare y v e) = lookup x e.
  Proof.
    intro N. destruct e as [|s e]; simpl.
    - destruct (String.eqb x y) eqn:E; auto. apply String.eqb_eq in E. congruence.
    - destruct (String.eqb x y) eqn:E; auto. apply String.eqb_eq in E. congruence.
  Qed.

  (* copying an array and writing the copy: the original keeps its elements.
     [SDeclArr elt y None (Some (EVar x))] then [SArrAssign y i e] only touches y. *)
  Corollary array_copy_is_independent x y elt (l l' : list value) e :
    x <> y -> lookup x e = Some (VArr elt l) ->
    lookup x (update y (VArr elt l') (declare y (VArr elt l) e)) = Some (VArr elt l).
  Proof. intros N H. rewrite lookup_update_other, lookup_declare_other; auto. Qed.

  (* A call evaluates its arguments in the caller's environment, runs the body in an environment
     holding the bound parameters only, and returns with exactly the caller's environment. *)
  Theorem call_isolated n s f args v s' :
    eval O fns (S n) s (ECall f args) = Ok (v, s') ->
    exists fd vs s1 sc c s2,
      fns f = Some fd /\
      eval_list (eval O fns n) s args = Ok (vs, s1) /\
      bind_params (fn_params fd) vs = Some sc /\
      exec_list (exec O fns n) (mkSt [sc] (s_out s1)) (fn_body fd) = Ok (c, s2) /\
      s_env s' = s_env s1 /\ s_out s' = s_out s2.
  Proof.
    rewrite eval_S. unfold eval_step. destruct (fns f) as [fd|]; [|discriminate].
    destruct (eval_list (eval O fns n) s args) as [[vs s1]| |] eqn:E; cbn [bind]; try discriminate.
    destruct (bind_params (fn_params fd) vs) as [sc|] eqn:B; [|discriminate].
    destruct (exec_list (exec O fns n) (mkSt [sc] (s_out s1)) (fn_body fd)) as [[c s2]| |] eqn:X; cbn [bind]; try discriminate.
    intro H. exists fd, vs, s1, sc, c, s2. repeat split; auto; destruct c; inversion H; reflexivity.
  Qed.

  (* ... so the body's behaviour is a function of the arguments and the output so far: two callers
     with different locals get the same result *)
  Theorem callee_cannot_see_caller n f args v1 s1' sA sB :
    (forall a, In a args -> exists l, a = ELit l) ->
    s_out sA = s_out sB ->
    eval O fns (S n) sA (ECall f args) = Ok (v1, s1') ->
    exists s2', eval O fns (S n) sB (ECall f args) = Ok (v1, s2') /\ s_out s2' = s_out s1' /\ s_env s2' = s_env sB.
  Proof.
    intros Hlit Hout.
    assert (forall m s, eval_list (eval O fns (S m)) s args = Ok (map (fun a => match a with ELit l => lit_eval O l | _ => VVoid end) args, s)) as EL.
    { intros m s0. induction args as [|a r IH]; cbn [eval_list map]; auto.
      destruct (Hlit a (or_introl eq_refl)) as [l ->]. rewrite eval_S. cbn [eval_step bind]. rewrite IH; auto.
      intros a' Ha'. apply Hlit. now right. }
    destruct n as [|m].
    - rewrite !eval_S. unfold eval_step. destruct (fns f); [|discriminate]. destruct args; cbn [eval_list bind]; [|cbn [eval]; discriminate].
      destruct (bind_params _ _); [|discriminate]. destruct (fn_body f0); cbn [exec_list bind].
      + intro H; inversion H; subst. eexists. split; [reflexivity|]. cbn. auto.
      + cbn [exec]. discriminate.
    - rewrite !eval_S. unfold eval_step. destruct (fns f) as [fd|]; [|discriminate]. rewrite !EL. cbn [bind].
      destruct (bind_params _ _) as [sc|]; [|discriminate]. rewrite Hout.
      destruct (exec_list _ _ _) as [[c s2]| |]; cbn [bind]; try discriminate.
      intro H. destruct c; inversion H; subst; eexists; (split; [reflexivity|]); cbn; auto.
  Qed.
End EvalProps.
