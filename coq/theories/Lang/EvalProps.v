(* Evaluation-level facts about the reference interpreter: arrays have value semantics (writing
   one variable never changes another), a call runs in an environment built from its arguments
   alone and hands the caller's environment back untouched. *)
From Coq Require Import List ZArith String Ascii Bool Lia.
From Bloch Require Import Lang.Syntax Lang.Eval.
Import ListNotations.

Section EvalProps.
  Context {F : Type} (O : fops F).
  Notation value := (value F).
  Variable fns : string -> option fdecl.

  Lemma sc_find_set_other x y (v : value) s : x <> y -> sc_find x (sc_set y v s) = sc_find x s.
  Proof.
    intro N. induction s as [|[z w] s IH]; simpl; auto.
    destruct (String.eqb y z) eqn:E; simpl.
    - apply String.eqb_eq in E; subst. destruct (String.eqb x z) eqn:E2; auto.
      apply String.eqb_eq in E2. congruence.
    - destruct (String.eqb x z); auto.
  Qed.

  Lemma sc_find_set_same x (v : value) s : sc_find x s <> None -> sc_find x (sc_set x v s) = Some v.
  Proof.
    induction s as [|[z w] s IH]; simpl; [congruence|].
    destruct (String.eqb x z) eqn:E; simpl; rewrite E; auto.
  Qed.

  (* value semantics: updating y leaves every other variable exactly as it was *)
  Theorem lookup_update_other x y (v : value) e : x <> y -> lookup x (update y v e) = lookup x e.
  Proof.
    intro N. induction e as [|s e IH]; simpl; auto.
    destruct (sc_find y s) eqn:E; simpl.
    - now rewrite sc_find_set_other.
    - now rewrite IH.
  Qed.

  Theorem lookup_update_same x (v : value) e : lookup x e <> None -> lookup x (update x v e) = Some v.
  Proof.
    induction e as [|s e IH]; simpl; [congruence|].
    destruct (sc_find x s) eqn:E; simpl.
    - intros _. rewrite sc_find_set_same; [reflexivity | congruence].
    - intro H. rewrite E. auto.
  Qed.

  Lemma lookup_declare_other x y (v : value) e : x <> y -> lookup x (declare y v e) = lookup x e.
  Proof.
    intro N. destruct e as [|s e]; simpl.
    - destruct (String.eqb x y) eqn:E; auto. apply String.eqb_eq in E. congruence.
    - destruct (String.eqb x y) eqn:E; auto. apply String.eqb_eq in E. congruence.
  Qed.

  (* copying an array and writing the copy: the original keeps its elements.
     [SDeclArr elt y None (Some (EVar x))] then [SArrAssign y i e] only touches y. *)
  Corollary array_copy_is_independent x y elt (l l' : list value) e :
    x <> y -> lookup x e = Some (VArr elt l) ->
    lookup x (update y (VArr elt l') (declare y (VArr elt l) e)) = Some (VArr elt l).
  Proof. intros N H. rewrite lookup_update_other, lookup_declare_other; auto. Qed.

  Variable cls : string -> option cdecl.
  Variable depth : nat.

  (* releasing objects never touches the running frame: environment, parked callers, pending operands, class context *)
  Definition same_frame (s s' : st (F:=F)) : Prop :=
    s_env s' = s_env s /\ s_frames s' = s_frames s /\ s_temps s' = s_temps s /\ s_ctx s' = s_ctx s.
  Lemma same_frame_refl s : same_frame s s.
  Proof. repeat split. Qed.
  Lemma same_frame_trans a b c : same_frame a b -> same_frame b c -> same_frame a c.
  Proof. unfold same_frame. intros [A1 [A2 [A3 A4]]] [B1 [B2 [B3 B4]]]. repeat split; congruence. Qed.
  Lemma same_frame_set_obj s l o : same_frame s (set_obj s l o).
  Proof. repeat split. Qed.
  Lemma same_frame_leave s x : same_frame s (leave s x).
  Proof. repeat split. Qed.

  Section WithEx.
    Variable ex : st (F:=F) -> stmt -> res (ctl (F:=F) * st (F:=F)).

    Lemma run_dtors_frame ch l s s' : run_dtors ex ch l s = Ok s' -> same_frame s s'.
    Proof.
      revert s s'. induction ch as [|cd r IH]; cbn [run_dtors]; intros s s' H.
      - inversion H. apply same_frame_refl.
      - destruct (cd_dtor cd) as [body|]; cbn [bind] in H.
        + destruct (exec_list ex _ _ body) as [[c x]| |]; cbn [bind] in H; try discriminate.
          apply IH in H. eapply same_frame_trans; [apply same_frame_leave | exact H].
        + now apply IH in H.
    Qed.

    Lemma release_frame k extra : forall l s s', release cls depth ex k extra l s = Ok s' -> same_frame s s'.
    Proof.
      induction k as [|k IH]; cbn [release]; intros l s s' H; [discriminate|].
      destruct (get_obj s l) as [o|]; [|inversion H; apply same_frame_refl].
      destruct (o_dead o || existsb (Nat.eqb l) (all_refs s extra)); [inversion H; apply same_frame_refl|].
      destruct (run_dtors ex _ l _) as [s1| |] eqn:R; cbn [bind] in H; try discriminate.
      apply run_dtors_frame in R.
      assert (same_frame s s1) as S1 by (eapply same_frame_trans; [apply same_frame_set_obj | exact R]).
      clear R. revert s1 S1 H. generalize (map fst (o_fields o)). intro fs.
      induction fs as [|f fs IHf]; intros s1 S1 H; cbn [fold_left] in H.
      - inversion H; subst. exact S1.
      - assert (forall (acc : res (st (F:=F))) sx, acc = Ok sx -> same_frame s sx ->
                  forall r, (do sx0 <- acc;
                             match get_obj sx0 l with
                             | Some ox =>
                                 let v := sc_find f (o_fields ox) in
                                 let sy := set_obj sx0 l (mkObj (o_cls ox) (sc_remove f (o_fields ox)) true) in
                                 match v with
                                 | Some (VObj (Some m) _) => release cls depth ex k extra m sy
                                 | _ => Ok sy
                                 end
                             | None => Ok sx0
                             end) = Ok r -> same_frame s r) as Step.
        { intros acc sx -> Hs r Hr. cbn [bind] in Hr.
          destruct (get_obj sx l) as [ox|]; [|inversion Hr; subst; exact Hs].
          cbv zeta in Hr.
          destruct (sc_find f (o_fields ox)) as [v|].
          - destruct v; try (inversion Hr; subst; eapply same_frame_trans; [exact Hs | apply same_frame_set_obj]).
            destruct l0 as [m|]; [|inversion Hr; subst; eapply same_frame_trans; [exact Hs | apply same_frame_set_obj]].
            apply IH in Hr. eapply same_frame_trans; [exact Hs|]. eapply same_frame_trans; [apply same_frame_set_obj | exact Hr].
          - inversion Hr; subst. eapply same_frame_trans; [exact Hs | apply same_frame_set_obj]. }
        match type of H with fold_left _ fs ?acc0 = _ => destruct acc0 as [r0| |] eqn:A0 end.
        + apply (IHf r0); [|exact H]. eapply Step; [reflexivity | exact S1 | exact A0].
        + exfalso. clear - H. induction fs; cbn in H; [discriminate | auto].
        + exfalso. clear - H. induction fs; cbn in H; [discriminate | auto].
    Qed.

    Lemma destroy_obj_frame l s s' : destroy_obj cls depth ex l s = Ok s' -> same_frame s s'.
    Proof. apply release_frame. Qed.

    Lemma sweep_frame k extra s s' : sweep cls depth ex k extra s = Ok s' -> same_frame s s'.
    Proof.
      revert s s'. induction k as [|k IH]; cbn [sweep]; intros s s' H.
      - inversion H. apply same_frame_refl.
      - destruct (unreferenced s extra) as [|l others] eqn:U; [inversion H; apply same_frame_refl|].
        match type of H with bind ?m _ = _ => destruct m as [s1| |] eqn:D end; cbn [bind] in H; try discriminate.
        assert (same_frame s s1) as S1.
        { clear H. revert D. generalize (l :: others). intro cs. generalize (same_frame_refl s).
          generalize s at 2 3. intros s0 Hs0. revert s0 Hs0.
          induction cs as [|c cs IHc]; intros s0 Hs0 D; cbn [fold_left] in D.
          - inversion D; subst. exact Hs0.
          - cbn [bind] in D.
            destruct (release cls depth ex _ extra c s0) as [r0| |] eqn:R.
            + apply (IHc r0); [|exact D]. apply release_frame in R. eapply same_frame_trans; eauto.
            + exfalso. clear - D. induction cs; cbn in D; [discriminate | auto].
            + exfalso. clear - D. induction cs; cbn in D; [discriminate | auto]. }
        match type of H with (if ?c then _ else _) = _ => destruct c end; [discriminate|].
        apply IH in H. eapply same_frame_trans; eauto.
    Qed.

    Lemma sweep_all_frame extra s s' : sweep_all cls depth ex extra s = Ok s' -> same_frame s s'.
    Proof. apply sweep_frame. Qed.
  End WithEx.

  (* A call of a top-level function evaluates its arguments in the caller's environment, runs the
     body in a frame holding the bound parameters only ([enter] parks the caller's environment where
     names are never looked up), and returns with exactly the caller's environment. *)
  Theorem call_isolated n s f fd args v s' :
    fns f = Some fd ->
    eval O fns cls depth (S n) s (ECall f args) = Ok (v, s') ->
    exists vs s1 sc c s2,
      evals (eval O fns cls depth n) s args = Ok (vs, s1) /\
      bind_params (fn_params fd) vs = Some sc /\
      execs cls depth (exec O fns cls depth n) (enter (with_temps s1 (vs ++ s_temps s1)) sc EmptyString) (fn_body fd) = Ok (c, s2) /\
      s_env (enter (with_temps s1 (vs ++ s_temps s1)) sc EmptyString) = [sc] /\
      s_env s' = s_env s1 /\ s_ctx s' = s_ctx s1.
  Proof.
    intros Hf. rewrite eval_S. unfold eval_step. rewrite Hf.
    destruct (evals (eval O fns cls depth n) s args) as [[vs s1]| |] eqn:E; cbn [bind]; try discriminate.
    destruct (bind_params (fn_params fd) vs) as [sc|] eqn:B; [|discriminate].
    unfold call_body.
    destruct (execs cls depth (exec O fns cls depth n) _ (fn_body fd)) as [[c s2]| |] eqn:X; cbn [bind]; try discriminate.
    destruct (sweep_all _ _ _ _ _) as [s3| |] eqn:W; cbn [bind]; try discriminate.
    intro H. inversion H; subst. exists vs, s1, sc, c, s2.
    split; [reflexivity|]. split; [exact B|]. split; [exact X|]. split; [reflexivity|].
    apply sweep_all_frame in W. destruct W as [W1 [_ [_ W4]]]. split.
    - rewrite W1. reflexivity.
    - rewrite W4. reflexivity.
  Qed.
End EvalProps.
