(* A mark-and-sweep cycle collector over the reference interpreter's heap (C11).
   Roots are what the interpreter can still reach: the running frame, the suspended callers' frames,
   operands pending in suspended expressions, statics and an in-flight return value.  The collector
   marks from the roots with a work list and wipes the fields of unmarked objects.
   Proved: whenever marking completes, the marked set contains the roots and is closed under "has a
   field referring to"; hence every object reachable from a root is marked, keeps exactly its fields,
   and nothing but the heap is touched - a collection at any statement boundary is invisible to
   anything the program can still reach. *)
From Coq Require Import List ZArith String Ascii Bool Arith Lia.
From Bloch Require Import Lang.Syntax Lang.Eval.
Import ListNotations.

Section Gc.
  Context {F : Type}.
  Notation st := (st (F:=F)).
  Notation obj := (obj (F:=F)).
  Notation value := (value F).

  Definition children (h : list obj) (l : nat) : list nat :=
    match nth_error h l with Some o => scope_refs (o_fields o) | None => [] end.

  Definition memb (l : nat) (m : list nat) : bool := existsb (Nat.eqb l) m.

  (* work-list marking; None when the fuel runs out (the collector then does nothing) *)
  Fixpoint mark (fuel : nat) (h : list obj) (work marked : list nat) : option (list nat) :=
    match fuel with
    | 0%nat => match work with [] => Some marked | _ => None end
    | S k =>
        match work with
        | [] => Some marked
        | l :: w => if memb l marked then mark k h w marked
                    else mark k h (children h l ++ w) (l :: marked)
        end
    end.

  Inductive reach (h : list obj) (roots : list nat) : nat -> Prop :=
  | reach_root l : In l roots -> reach h roots l
  | reach_step l m : reach h roots l -> In m (children h l) -> reach h roots m.

  Lemma memb_In l m : memb l m = true <-> In l m.
  Proof.
    unfold memb. rewrite existsb_exists. split.
    - intros [x [Hx He]]. apply Nat.eqb_eq in He. now subst.
    - intro H. exists l. split; [exact H | apply Nat.eqb_refl].
  Qed.

  (* invariant of the marking loop: marked nodes have all their children marked or queued *)
  Definition inv (h : list obj) (work marked : list nat) : Prop :=
    forall l, In l marked -> forall m, In m (children h l) -> In m marked \/ In m work.

  Lemma mark_closed fuel h : forall work marked M,
    inv h work marked ->
    mark fuel h work marked = Some M ->
    (forall l, In l marked -> In l M) /\ (forall l, In l work -> In l M) /\
    (forall l, In l M -> forall m, In m (children h l) -> In m M).
  Proof.
    induction fuel as [|k IH]; intros work marked M I H; cbn [mark] in H.
    - destruct work; [|discriminate]. inversion H; subst. split; [auto|]. split; [intros l []|].
      intros l Hl m Hm. destruct (I l Hl m Hm) as [?|[]]; auto.
    - destruct work as [|l w].
      + inversion H; subst. split; [auto|]. split; [intros l []|].
        intros l Hl m Hm. destruct (I l Hl m Hm) as [?|[]]; auto.
      + destruct (memb l marked) eqn:E.
        * apply memb_In in E.
          assert (inv h w marked) as I'.
          { intros a Ha m Hm. destruct (I a Ha m Hm) as [?|[->|?]]; auto. }
          destruct (IH _ _ _ I' H) as [A [B C]]. split; [exact A|]. split; [|exact C].
          intros a [->|Ha]; auto.
        * assert (inv h (children h l ++ w) (l :: marked)) as I'.
          { intros a [->|Ha] m Hm.
            - right. apply in_or_app. now left.
            - destruct (I a Ha m Hm) as [?|[->|?]].
              + left. now right.
              + left. now left.
              + right. apply in_or_app. now right. }
          destruct (IH _ _ _ I' H) as [A [B C]]. split; [intros a Ha; apply A; now right|]. split; [|exact C].
          intros a [->|Ha]; [apply A; now left | apply B; apply in_or_app; now right].
  Qed.

  Theorem mark_complete fuel h roots M :
    mark fuel h roots [] = Some M -> forall l, reach h roots l -> In l M.
  Proof.
    intros H l R.
    destruct (mark_closed fuel h roots [] M) as [_ [B C]]; [intros a [] | exact H |].
    induction R as [l Hl | l m R IH Hm]; [now apply B | eapply C; eauto].
  Qed.

  (* the collector: wipe the fields of live objects that were not marked *)
  Definition roots_of (s : st) (extra : list value) : list nat :=
    env_refs (s_env s) ++ flat_map env_refs (s_frames s) ++ flat_map val_refs (s_temps s)
    ++ flat_map (fun t => val_refs (snd t)) (s_statics s) ++ flat_map val_refs extra.

  Definition wipe (M : list nat) (h : list obj) : list obj :=
    map (fun p => let (l, o) := (p : nat * obj) in
                  if memb l M then o else mkObj (o_cls o) [] true)
        (combine (seq 0 (List.length h)) h).

  Definition collect (fuel : nat) (extra : list value) (s : st) : st :=
    match mark fuel (s_heap s) (roots_of s extra) [] with
    | Some M => with_heap s (wipe M (s_heap s))
    | None => s
    end.

  Lemma nth_error_wipe M h l :
    nth_error (wipe M h) l =
    match nth_error h l with
    | Some o => Some (if memb l M then o else mkObj (o_cls o) [] true)
    | None => None
    end.
  Proof.
    unfold wipe. rewrite nth_error_map.
    assert (forall (h : list obj) (b l : nat),
              nth_error (combine (seq b (List.length h)) h) l =
              match nth_error h l with Some o => Some (b + l, o)%nat | None => None end) as G.
    { clear. induction h as [|o r IH]; intros b l; cbn.
      - destruct l; reflexivity.
      - destruct l as [|l]; cbn; [now rewrite Nat.add_0_r|]. rewrite IH. destruct (nth_error r l); [|reflexivity].
        f_equal. f_equal. lia. }
    rewrite G. destruct (nth_error h l); cbn; reflexivity.
  Qed.

  (* whenever and however often it runs: every object reachable from a variable, a field, a pending
     argument or a return value keeps exactly its state *)
  Theorem collect_preserves_reachable fuel extra s l :
    reach (s_heap s) (roots_of s extra) l ->
    get_obj (collect fuel extra s) l = get_obj s l.
  Proof.
    intro R. unfold collect. destruct (mark fuel (s_heap s) (roots_of s extra) []) as [M|] eqn:E; [|reflexivity].
    unfold get_obj. cbn [s_heap with_heap]. rewrite nth_error_wipe.
    destruct (nth_error (s_heap s) l) as [o|]; [|reflexivity].
    assert (memb l M = true) as -> by (apply memb_In; eapply mark_complete; eauto). reflexivity.
  Qed.

  (* ... and the collector touches nothing but the heap *)
  Theorem collect_touches_only_the_heap fuel extra s :
    let s' := collect fuel extra s in
    s_env s' = s_env s /\ s_frames s' = s_frames s /\ s_temps s' = s_temps s /\ s_statics s' = s_statics s /\
    s_out s' = s_out s /\ s_ctx s' = s_ctx s /\ List.length (s_heap s') = List.length (s_heap s).
  Proof.
    cbv zeta. unfold collect. destruct (mark _ _ _ _) as [M|]; cbn; repeat split; auto.
    unfold wipe. rewrite map_length, combine_length, seq_length. lia.
  Qed.

  (* what it does clear is unreachable: no root, and no field of a kept object, refers to it *)
  Theorem collect_clears_only_unreachable fuel extra s l o :
    get_obj s l = Some o -> get_obj (collect fuel extra s) l <> Some o -> ~ reach (s_heap s) (roots_of s extra) l.
  Proof. intros G N R. apply N. rewrite collect_preserves_reachable; auto. Qed.
End Gc.
