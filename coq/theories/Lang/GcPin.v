(* The collector's second rule (runtime_evaluator.cpp, runCycleCollector): objects whose release can be
   observed - a user destructor, qubits to reset, @tracked outcomes to record - are never released by a
   sweep, and neither is anything from which such an object can be reached (wiping a holder's fields would
   drop a reference to it and so decide *when* it is released).  The implementation computes the kept set by
   iterating "an object with a field referring into the set joins the set" until nothing changes.
   The search starts from the observable objects and from every object reached from the roots (`seeds`): garbage that
   refers to a live object is kept as well, since what that object holds when it dies may change later.
   Proved here, for every heap graph and every set of seeds (`obs` is any property the seeds cover): when that iteration stops, the kept set contains every object that
   reaches an observable one; so an object that is swept reaches none, and in particular refers to none. *)
From Coq Require Import List Arith Bool Lia.
Import ListNotations.

Section Pin.
  Variable children : nat -> list nat.     (* the objects an object's fields refer to *)
  Variable nodes : list nat.               (* every object of the heap *)
  Variable obs : nat -> bool.              (* release is observable *)
  Hypothesis heap_closed : forall l, In l nodes -> forall m, In m (children l) -> In m nodes.

  Definition memb (l : nat) (m : list nat) : bool := existsb (Nat.eqb l) m.
  Lemma memb_In l m : memb l m = true <-> In l m.
  Proof.
    unfold memb. rewrite existsb_exists. split.
    - intros [x [Hx He]]. apply Nat.eqb_eq in He. now subst.
    - intro H. exists l. split; [exact H | apply Nat.eqb_refl].
  Qed.

  Definition joins (P : list nat) (l : nat) : bool := negb (memb l P) && existsb (fun m => memb m P) (children l).

  (* `while (changed)`: one pass over the heap adds every object that refers into the set; stop when a pass adds none *)
  Fixpoint pin (fuel : nat) (P : list nat) : option (list nat) :=
    match fuel with
    | 0 => None
    | S k => match filter (joins P) nodes with
             | [] => Some P
             | new => pin k (P ++ new)
             end
    end.

  Definition closed (P : list nat) : Prop :=
    forall l, In l nodes -> forall m, In m (children l) -> In m P -> In l P.

  Lemma pin_closed fuel : forall P Q, pin fuel P = Some Q -> incl P Q /\ closed Q.
  Proof.
    induction fuel as [|k IH]; intros P Q H; cbn [pin] in H; [discriminate|].
    destruct (filter (joins P) nodes) as [|x new] eqn:E.
    - inversion H; subst Q. split; [apply incl_refl|].
      intros l Hl m Hm HmP. destruct (memb l P) eqn:El; [apply memb_In; assumption|].
      assert (Hj : joins P l = true).
      { unfold joins. rewrite El. cbn. apply existsb_exists. exists m. split; [assumption|apply memb_In; assumption]. }
      assert (Hin : In l (filter (joins P) nodes)) by (apply filter_In; split; assumption).
      rewrite E in Hin. destruct Hin.
    - destruct (IH _ _ H) as [Hi Hc]. split; [|assumption].
      intros a Ha. apply Hi. apply in_or_app. left. assumption.
  Qed.

  Inductive reaches : nat -> nat -> Prop :=
  | reaches_refl l : reaches l l
  | reaches_step l m n : In m (children l) -> reaches m n -> reaches l n.

  (* the kept set contains everything that reaches an observable object *)
  Theorem pinned_covers fuel seeds Q :
    pin fuel seeds = Some Q ->
    (forall n, In n nodes -> obs n = true -> In n seeds) ->
    forall l n, In l nodes -> reaches l n -> obs n = true -> In l Q.
  Proof.
    intros Hp Hseed l n Hl Hr Ho. destruct (pin_closed _ _ _ Hp) as [Hi Hc].
    induction Hr as [l|l m n Hm Hr IH].
    - apply Hi. apply Hseed; assumption.
    - apply (Hc l Hl m Hm). apply IH; [apply (heap_closed l Hl m Hm)|assumption].
  Qed.

  (* what a sweep may wipe: an object outside the kept set.  It reaches no observable object; in particular none
     of its fields refers to one, so wiping them cannot change when an observable object is released *)
  Corollary swept_reaches_nothing_observable fuel seeds Q l :
    pin fuel seeds = Some Q ->
    (forall n, In n nodes -> obs n = true -> In n seeds) ->
    In l nodes -> ~ In l Q ->
    (forall n, reaches l n -> obs n = false) /\ (forall m, In m (children l) -> obs m = false /\ ~ In m Q).
  Proof.
    intros Hp Hseed Hl Hnot. split.
    - intros n Hr. destruct (obs n) eqn:Ho; [|reflexivity]. exfalso. apply Hnot. exact (pinned_covers _ _ _ Hp Hseed l n Hl Hr Ho).
    - intros m Hm. split.
      + destruct (obs m) eqn:Ho; [|reflexivity]. exfalso. apply Hnot.
        apply (pinned_covers _ _ _ Hp Hseed l m Hl); [apply (reaches_step l m m Hm (reaches_refl m))|assumption].
      + intros HmQ. apply Hnot. destruct (pin_closed _ _ _ Hp) as [_ Hc]. exact (Hc l Hl m Hm HmQ).
  Qed.

  (* and nothing else is kept: every object of the kept set is a seed or reaches one *)
  Lemma pin_only_reaching fuel (R : nat -> Prop) :
    (forall l m, In m (children l) -> R m -> R l) ->
    forall P Q, pin fuel P = Some Q -> (forall x, In x P -> R x) -> forall x, In x Q -> R x.
  Proof.
    intros Hstep. induction fuel as [|k IH]; intros P Q H HP; cbn [pin] in H; [discriminate|].
    destruct (filter (joins P) nodes) as [|y new] eqn:E.
    - inversion H; subst Q. exact HP.
    - apply (IH _ _ H). intros x Hx. apply in_app_or in Hx. destruct Hx as [Hx|Hx]; [apply HP; assumption|].
      rewrite <- E in Hx. apply filter_In in Hx. destruct Hx as [_ Hj].
      unfold joins in Hj. apply andb_prop in Hj. destruct Hj as [_ Hj].
      apply existsb_exists in Hj. destruct Hj as (m & Hm & HmP). apply memb_In in HmP.
      exact (Hstep x m Hm (HP m HmP)).
  Qed.

  Theorem pinned_only_what_reaches_a_seed fuel seeds Q :
    pin fuel seeds = Some Q -> forall l, In l Q -> exists s, In s seeds /\ reaches l s.
  Proof.
    intros Hp. apply (pin_only_reaching fuel (fun l => exists s, In s seeds /\ reaches l s)) with (P := seeds); [|assumption|].
    - intros l m Hm (s & Hs & Hr). exists s. split; [assumption|]. exact (reaches_step l m s Hm Hr).
    - intros x Hx. exists x. split; [assumption|apply reaches_refl].
  Qed.

  (* the iteration stops: every pass that does not stop adds an object of the heap that was not in the set *)
  Lemma pin_grows P x new : filter (joins P) nodes = x :: new -> In x nodes /\ ~ In x P.
  Proof.
    intros E. assert (Hin : In x (filter (joins P) nodes)) by (rewrite E; left; reflexivity).
    apply filter_In in Hin. destruct Hin as [Hn Hj]. split; [assumption|].
    unfold joins in Hj. apply andb_prop in Hj. destruct Hj as [Hj _].
    intros HP. apply memb_In in HP. rewrite HP in Hj. discriminate.
  Qed.
End Pin.

(* non-vacuity: a cycle 1 <-> 2 holding 3 (observable), and an unrelated garbage object 4 *)
Example ex_pin :
  let ch := fun l => match l with 1 => [2; 3] | 2 => [1] | _ => [] end in
  pin ch [1; 2; 3; 4] 5 [3] = Some [3; 1; 2].
Proof. reflexivity. Qed.
