(* Facts about the object layer of the reference interpreter (C08): a virtual call reaches the most
   derived declaration of the method in the receiver's dynamic class; the overload chosen is the
   unique candidate of least conversion cost; the inheritance chain lists a class before its base
   (the order destructors run in); static storage is one cell per (class, field). *)
From Coq Require Import List ZArith String Ascii Bool Arith Lia.
From Bloch Require Import Lang.Syntax Lang.Eval Lang.OpSound.
Import ListNotations.

Lemma tys_eqb_eq a b : tys_eqb a b = true <-> a = b.
Proof.
  revert b; induction a as [|x a IH]; destruct b as [|y b]; simpl; split; intro H; try discriminate; auto.
  - apply andb_true_iff in H. destruct H as [H1 H2]. f_equal; [now apply ty_eqb_eq | now apply IH].
  - inversion H; subst. apply andb_true_iff. split; [apply ty_eqb_refl | now apply IH].
Qed.

Lemma find_app {A} (f : A -> bool) l m :
  find f (l ++ m) = match find f l with Some x => Some x | None => find f m end.
Proof. induction l as [|a l IH]; simpl; auto. destruct (f a); auto. Qed.

Section ObjProps.
  Context {F : Type}.
  Notation value := (value F).
  Variable cls : string -> option cdecl.
  Variable depth : nat.

  Definition declares (cd : cdecl) (m : string) (pt : list ty) : Prop :=
    exists md, In md (cd_meths cd) /\ md_name md = m /\ ptys (md_params md) = pt.

  Lemma visible_find ch m pt : forall hidden cd md,
    ~ In pt hidden ->
    find (fun cm => tys_eqb (ptys (md_params (snd cm))) pt) (visible ch m hidden) = Some (cd, md) ->
    exists pre post, ch = pre ++ cd :: post /\ In md (cd_meths cd) /\ md_name md = m /\
                     ptys (md_params md) = pt /\ forall c, In c pre -> ~ declares c m pt.
  Proof.
    induction ch as [|c0 r IH]; intros hidden cd md Hh; cbn [visible]; [discriminate|].
    set (here := filter (fun md0 => String.eqb (md_name md0) m &&
                                    negb (existsb (tys_eqb (ptys (md_params md0))) hidden)) (cd_meths c0)).
    rewrite find_app.
    destruct (find _ (map (fun md0 => (c0, md0)) here)) as [[c1 m1]|] eqn:E.
    - intro H; inversion H; subst. apply find_some in E. destruct E as [Hin Heq]. cbn in Heq.
      apply in_map_iff in Hin. destruct Hin as [md0 [Hp Hin]]. inversion Hp; subst.
      apply filter_In in Hin. destruct Hin as [Hin Hc]. apply andb_true_iff in Hc. destruct Hc as [Hn _].
      exists [], r. split; [reflexivity|]. split; [exact Hin|]. split; [now apply String.eqb_eq|].
      split; [now apply tys_eqb_eq|]. intros c [].
    - intro H.
      assert (~ declares c0 m pt) as Hno.
      { intros [md0 [Hin [Hn Hp]]].
        assert (In md0 here) as Hh'.
        { apply filter_In. split; [exact Hin|]. apply andb_true_iff. split; [subst; apply String.eqb_refl|].
          apply negb_true_iff. apply not_true_is_false. intro Hex. apply existsb_exists in Hex.
          destruct Hex as [x [Hx Heq]]. apply tys_eqb_eq in Heq. subst. now apply Hh. }
        eapply find_none in E; [|apply in_map; exact Hh']. cbn in E. rewrite Hp in E.
        assert (tys_eqb pt pt = true) by now apply tys_eqb_eq. congruence. }
      apply IH in H.
      + destruct H as [pre [post [Hc [Hin [Hn [Hp Hpre]]]]]].
        exists (c0 :: pre), post. split; [subst; reflexivity|]. repeat (split; auto).
        intros c [->|Hc']; auto.
      + intro Hin. apply in_app_or in Hin. destruct Hin as [Hin|Hin]; [|now apply Hh].
        apply in_map_iff in Hin. destruct Hin as [md0 [Hp Hin]]. apply Hno.
        apply filter_In in Hin. destruct Hin as [Hin Hc]. apply andb_true_iff in Hc. destruct Hc as [Hn _].
        exists md0. split; [exact Hin|]. split; [now apply String.eqb_eq | exact Hp].
  Qed.

  (* a virtual call runs the most derived declaration: the one found is declared in a class of the
     dynamic class's chain and no class nearer to the dynamic class declares the same signature *)
  Theorem dispatch_most_derived dyn m pt cd md :
    dispatch cls depth dyn m pt = Some (cd, md) ->
    exists pre post, chain cls depth dyn = pre ++ cd :: post /\ In md (cd_meths cd) /\ md_name md = m /\
                     ptys (md_params md) = pt /\ forall c, In c pre -> ~ declares c m pt.
  Proof. unfold dispatch. apply visible_find. intros []. Qed.

  (* the chain lists a class, then its base's chain: destructors (which walk the chain) run derived-first,
     constructors (which recurse to the tail before running their own part) base-first *)
  Theorem chain_unfold k c cd :
    cls c = Some cd ->
    chain_from cls (S k) c = cd :: match cd_base cd with Some b => chain_from cls k b | None => [] end.
  Proof. intro H. cbn [chain_from]. now rewrite H. Qed.

  (* overload choice: the unique candidate of least cost *)
  Lemma best_spec {A} (l : list (A * nat)) a c tie :
    best l = Some (a, c, tie) ->
    In (a, c) l /\ (forall b d, In (b, d) l -> c <= d) /\
    (tie = false -> forall b d, In (b, d) l -> d = c -> exists l1 l2, l = l1 ++ (b, d) :: l2 /\
                                  (forall x e, In (x, e) (l1 ++ l2) -> c < e)).
  Proof.
    revert a c tie. induction l as [|[x e] r IH]; cbn [best]; intros a c tie H; [discriminate|].
    destruct (best r) as [[[b d] t]|] eqn:B.
    - specialize (IH b d t eq_refl). destruct IH as [I1 [I2 I3]].
      destruct (Nat.ltb e d) eqn:L.
      + inversion H; subst. apply Nat.ltb_lt in L. split; [now left|]. split.
        * intros b' d' [Heq|Hin]; [inversion Heq; lia|]. specialize (I2 _ _ Hin). lia.
        * intros _ b' d' [Heq|Hin] Hd.
          -- inversion Heq; subst. exists [], r. split; [reflexivity|]. cbn. intros y f Hy. specialize (I2 _ _ Hy). lia.
          -- subst. specialize (I2 _ _ Hin). lia.
      + apply Nat.ltb_ge in L. destruct (Nat.eqb e d) eqn:Q.
        * inversion H; subst. apply Nat.eqb_eq in Q. subst. split; [now right|]. split.
          -- intros b' d' [Heq|Hin]; [inversion Heq; lia|]. exact (I2 _ _ Hin).
          -- discriminate.
        * inversion H; subst. apply Nat.eqb_neq in Q. split; [now right|]. split.
          -- intros b' d' [Heq|Hin]; [inversion Heq; lia|]. exact (I2 _ _ Hin).
          -- intros Ht b' d' [Heq|Hin] Hd; [inversion Heq; subst; lia|].
             destruct (I3 Ht _ _ Hin Hd) as [l1 [l2 [E1 E2]]]. exists ((x, e) :: l1), l2. split; [subst; reflexivity|].
             intros y f [Hy|Hy]; [inversion Hy; subst; lia | exact (E2 _ _ Hy)].
    - inversion H; subst. destruct r as [|p r']; [|cbn in B; destruct p; destruct (best r') as [[[? ?] ?]|]; try discriminate;
                                                    repeat match type of B with context [if ?q then _ else _] => destruct q end; discriminate].
      split; [now left|]. split.
      + intros b d [Heq|[]]. inversion Heq. lia.
      + intros _ b d [Heq|[]] Hd. inversion Heq; subst. exists [], []. split; [reflexivity|]. intros ? ? [].
  Qed.

  Theorem pick_least_and_unique {A} (l : list (A * nat)) a :
    pick l = Some a ->
    exists c l1 l2, l = l1 ++ (a, c) :: l2 /\ forall x e, In (x, e) (l1 ++ l2) -> c < e.
  Proof.
    unfold pick. destruct (best l) as [[[b c] tie]|] eqn:B; [|discriminate].
    destruct tie; [discriminate|]. intro H; inversion H; subst.
    destruct (best_spec _ _ _ _ B) as [I1 [I2 I3]].
    destruct (I3 eq_refl _ _ I1 eq_refl) as [l1 [l2 [E1 E2]]]. exists c, l1, l2. auto.
  Qed.

  (* static storage: one cell per (declaring class, field), whatever object or class name it is reached through *)
  Lemma st_find_set_same c f (v : value) l : st_find c f (st_set c f v l) = Some v.
  Proof.
    induction l as [|[[c' f'] w] r IH]; cbn.
    - now rewrite !String.eqb_refl.
    - destruct (String.eqb c c' && String.eqb f f') eqn:E; cbn; rewrite E; auto.
  Qed.
  Lemma st_find_set_other c f c2 f2 (v : value) l :
    (c, f) <> (c2, f2) -> st_find c2 f2 (st_set c f v l) = st_find c2 f2 l.
  Proof.
    intro N. induction l as [|[[c' f'] w] r IH]; cbn.
    - destruct (String.eqb c2 c && String.eqb f2 f) eqn:E; auto.
      apply andb_true_iff in E. destruct E as [E1 E2]. apply String.eqb_eq in E1. apply String.eqb_eq in E2. subst. congruence.
    - destruct (String.eqb c c' && String.eqb f f') eqn:E; cbn.
      + apply andb_true_iff in E. destruct E as [E1 E2]. apply String.eqb_eq in E1. apply String.eqb_eq in E2. subst.
        destruct (String.eqb c2 c' && String.eqb f2 f') eqn:E3; auto.
        apply andb_true_iff in E3. destruct E3 as [E1 E2]. apply String.eqb_eq in E1. apply String.eqb_eq in E2. subst. congruence.
      + destruct (String.eqb c2 c' && String.eqb f2 f'); auto.
  Qed.
End ObjProps.
