(* Operator-level soundness of the reference interpreter against the documented typing rules:
   a well-typed application of a binary/unary operator or cast to well-formed values yields a
   value of exactly the documented result type, or one of the documented runtime errors, and
   is never stuck.  '/' always yields float; '%' never does. *)
From Coq Require Import List ZArith String Ascii Bool Lia.
From Bloch Require Import Lang.Syntax Lang.Eval Lang.Typing.
Import ListNotations.

Section OpSound.
  Context {F : Type} (O : fops F).
  Notation value := (value F).
  Notation type_of := (@type_of F).

  Definition scalar_val (v : value) : bool := match v with VArr _ _ | VVoid | VObj _ _ => false | _ => true end.
  Definition wf (v : value) : bool :=
    match v with
    | VArr t l => scalar t && forallb (fun x => scalar_val x && ty_eqb (type_of x) t) l
    | _ => true
    end.

  Definition documented (e : rerr) : Prop := match e with RStuck _ => False | _ => True end.
  Definition sound_res (r : res value) (t : ty) : Prop :=
    match r with
    | Ok v => type_of v = t /\ wf v = true
    | Err e => documented e
    | OutOfFuel => False
    end.

  Lemma ty_eqb_eq a b : ty_eqb a b = true <-> a = b.
  Proof.
    revert b; induction a; destruct b; simpl; split; intro H; try discriminate; try reflexivity.
    - f_equal. now apply IHa.
    - inversion H; subst. now apply IHa.
    - f_equal. now apply String.eqb_eq.
    - inversion H; subst. apply String.eqb_refl.
  Qed.

  Lemma ty_eqb_refl a : ty_eqb a a = true.
  Proof. now apply ty_eqb_eq. Qed.

  Lemma as_bits_wf l :
    forallb (fun x => scalar_val x && ty_eqb (type_of x) TBit) l = true ->
    exists bl, as_bits l = Some bl /\ List.length bl = List.length l.
  Proof.
    induction l as [|v l IH]; simpl; intro H.
    - exists []. auto.
    - apply andb_true_iff in H. destruct H as [Hv Hl]. destruct (IH Hl) as [bl [E L]].
      unfold as_bits in *. simpl. rewrite E.
      destruct v; simpl in Hv; try discriminate.
      exists (b :: bl). simpl. auto.
  Qed.

  Lemma wf_bits (f : bool -> bool) bl : wf (VArr TBit (map (fun b => VBit (f b)) bl)) = true.
  Proof. simpl. induction bl; simpl; auto. Qed.

  Lemma wf_bits2 (f : bool * bool -> bool) (bl : list (bool * bool)) :
    wf (VArr TBit (map (fun p => VBit (f p)) bl)) = true.
  Proof. simpl. induction bl; simpl; auto. Qed.

  Lemma long_res_sound z : sound_res (long_res z) TLong.
  Proof. unfold long_res. destruct (in64 z); simpl; auto. Qed.

  Lemma arith_sound fz ff a b va vb :
    as_num va = Some a -> as_num vb = Some b ->
    sound_res (arith O fz ff a b) (promote (type_of va) (type_of vb)).
  Proof.
    intros Ha Hb. destruct va; simpl in Ha; try discriminate; inversion Ha; subst;
    destruct vb; simpl in Hb; try discriminate; inversion Hb; subst;
    unfold arith; simpl; auto; apply long_res_sound.
  Qed.

  Lemma numeric_as_num v : numeric (type_of v) = true -> exists n, as_num v = Some n.
  Proof. destruct v; simpl; intro H; try discriminate; eauto. Qed.

  Lemma show_str_sound s : sound_res (Ok (VStr s)) TStr.
  Proof. simpl. auto. Qed.

  Ltac bit_tac :=
    match goal with
    | Wa : wf (VArr TBit ?l) = true |- _ =>
        simpl in Wa; destruct (as_bits_wf l Wa) as [? [-> ?]]; clear Wa; bit_tac
    | _ => idtac
    end.

  Lemma bit_case o a b t :
    (o = OBAnd \/ o = OBOr \/ o = OBXor) ->
    wf a = true -> wf b = true ->
    match type_of a, type_of b with
    | TBit, TBit => Some TBit
    | TArr TBit, TArr TBit | TArr TBit, TBit | TBit, TArr TBit => Some (TArr TBit)
    | _, _ => None
    end = Some t ->
    sound_res (binop_eval O o a b) t.
  Proof.
    intros Ho Wa Wb T.
    assert (binop_eval O o a b =
            match a, b with
            | VBit x, VBit y => Ok (VBit (bitop o x y))
            | VArr TBit x, VArr TBit y =>
                match as_bits x, as_bits y with
                | Some bx, Some by_ =>
                    if Nat.eqb (List.length bx) (List.length by_)
                    then Ok (VArr TBit (map (fun p => VBit (bitop o (fst p) (snd p))) (combine bx by_)))
                    else Err RBitLen
                | _, _ => stuck "bits"
                end
            | VArr TBit x, VBit y =>
                match as_bits x with Some bx => Ok (VArr TBit (map (fun a => VBit (bitop o a y)) bx)) | None => stuck "bits" end
            | VBit x, VArr TBit y =>
                match as_bits y with Some by_ => Ok (VArr TBit (map (fun b => VBit (bitop o x b)) by_)) | None => stuck "bits" end
            | _, _ => stuck "bitwise"
            end) as E by (destruct Ho as [-> | [-> | ->]]; reflexivity).
    rewrite E; clear E Ho.
    destruct a as [| | | x | | | | ta la | |]; simpl in T; try discriminate;
    destruct b as [| | | y | | | | tb lb | |]; simpl in T; try discriminate;
    try solve [destruct ta; discriminate].
    - inversion T. simpl. auto.
    - destruct tb; try discriminate. inversion T; subst. bit_tac. split; [reflexivity | apply wf_bits].
    - destruct ta; try discriminate. inversion T; subst. bit_tac. split; [reflexivity | apply (wf_bits (fun a => bitop o a y))].
    - destruct ta; try discriminate. destruct tb; try discriminate. inversion T; subst. bit_tac.
      destruct (Nat.eqb _ _); simpl; auto. split; [reflexivity|].
      apply (wf_bits2 (fun p => bitop o (fst p) (snd p))).
  Qed.

  Theorem binop_sound o a b t :
    wf a = true -> wf b = true ->
    bin_ty o (type_of a) (type_of b) = Some t ->
    sound_res (binop_eval O o a b) t.
  Proof.
    intros Wa Wb T.
    destruct o; simpl in T.
    - (* + *)
      unfold binop_eval.
      destruct (is_str a || is_str b) eqn:S.
      + assert (is_tstr (type_of a) || is_tstr (type_of b) = true) as S'
          by (destruct a, b; simpl in *; auto).
        rewrite S' in T. destruct (is_void (type_of a) || is_void (type_of b)); inversion T. simpl. auto.
      + assert (is_tstr (type_of a) || is_tstr (type_of b) = false) as S'
          by (destruct a, b; simpl in *; auto).
        rewrite S' in T.
        destruct (numeric (type_of a)) eqn:Na; [|discriminate].
        destruct (numeric (type_of b)) eqn:Nb; [|discriminate]. simpl in T. inversion T; subst.
        destruct (numeric_as_num _ Na) as [na Ea]. destruct (numeric_as_num _ Nb) as [nb Eb].
        rewrite Ea, Eb. now apply arith_sound.
    - destruct (numeric (type_of a)) eqn:Na; [|discriminate].
      destruct (numeric (type_of b)) eqn:Nb; [|discriminate]. simpl in T. inversion T; subst.
      destruct (numeric_as_num _ Na) as [na Ea]. destruct (numeric_as_num _ Nb) as [nb Eb].
      unfold binop_eval. rewrite Ea, Eb. now apply arith_sound.
    - destruct (numeric (type_of a)) eqn:Na; [|discriminate].
      destruct (numeric (type_of b)) eqn:Nb; [|discriminate]. simpl in T. inversion T; subst.
      destruct (numeric_as_num _ Na) as [na Ea]. destruct (numeric_as_num _ Nb) as [nb Eb].
      unfold binop_eval. rewrite Ea, Eb. now apply arith_sound.
    - (* / *)
      destruct (numeric (type_of a)) eqn:Na; [|discriminate].
      destruct (numeric (type_of b)) eqn:Nb; [|discriminate]. simpl in T. inversion T; subst.
      destruct (numeric_as_num _ Na) as [na Ea]. destruct (numeric_as_num _ Nb) as [nb Eb].
      unfold binop_eval. rewrite Ea, Eb. destruct (feqb O _ _); simpl; auto.
    - (* % *)
      destruct a; simpl in T; try discriminate; destruct b; simpl in T; try discriminate;
        inversion T; subst; unfold binop_eval; simpl;
        match goal with |- context [if ?c then _ else _] => destruct c end; simpl; auto.
    - destruct (numeric (type_of a)) eqn:Na; [|discriminate].
      destruct (numeric (type_of b)) eqn:Nb; [|discriminate]. simpl in T. inversion T; subst.
      destruct (numeric_as_num _ Na) as [na Ea]. destruct (numeric_as_num _ Nb) as [nb Eb].
      unfold binop_eval. rewrite Ea, Eb. simpl. auto.
    - destruct (numeric (type_of a)) eqn:Na; [|discriminate].
      destruct (numeric (type_of b)) eqn:Nb; [|discriminate]. simpl in T. inversion T; subst.
      destruct (numeric_as_num _ Na) as [na Ea]. destruct (numeric_as_num _ Nb) as [nb Eb].
      unfold binop_eval. rewrite Ea, Eb. simpl. auto.
    - destruct (numeric (type_of a)) eqn:Na; [|discriminate].
      destruct (numeric (type_of b)) eqn:Nb; [|discriminate]. simpl in T. inversion T; subst.
      destruct (numeric_as_num _ Na) as [na Ea]. destruct (numeric_as_num _ Nb) as [nb Eb].
      unfold binop_eval. rewrite Ea, Eb. simpl. auto.
    - destruct (numeric (type_of a)) eqn:Na; [|discriminate].
      destruct (numeric (type_of b)) eqn:Nb; [|discriminate]. simpl in T. inversion T; subst.
      destruct (numeric_as_num _ Na) as [na Ea]. destruct (numeric_as_num _ Nb) as [nb Eb].
      unfold binop_eval. rewrite Ea, Eb. simpl. auto.
    - (* == *)
      destruct a; simpl in T; try discriminate; destruct b; simpl in T; try discriminate;
        inversion T; subst; simpl; auto.
    - destruct a; simpl in T; try discriminate; destruct b; simpl in T; try discriminate;
        inversion T; subst; simpl; auto.
    - destruct a; simpl in T; try discriminate; destruct b; simpl in T; try discriminate;
        inversion T; subst; simpl; auto.
    - destruct a; simpl in T; try discriminate; destruct b; simpl in T; try discriminate;
        inversion T; subst; simpl; auto.
    - (* & *) apply (bit_case OBAnd); auto.
    - apply (bit_case OBOr); auto.
    - apply (bit_case OBXor); auto.
  Qed.

  Theorem unop_sound o a t :
    wf a = true -> un_ty o (type_of a) = Some t -> sound_res (unop_eval O o a) t.
  Proof.
    intros Wa T. destruct o; destruct a as [| | | | | | | ta la | |]; simpl in T; try discriminate;
      try (inversion T; subst; simpl; auto; fail).
    - inversion T; subst. apply long_res_sound.
    - destruct ta; try discriminate. inversion T; subst. simpl. bit_tac.
      split; [reflexivity | apply (wf_bits negb)].
  Qed.

  Lemma trunc32_sound f : sound_res (trunc32 O f) TInt.
  Proof. unfold trunc32. destruct (in32 _); simpl; auto. Qed.
  Lemma trunc64_sound f : sound_res (trunc64 O f) TLong.
  Proof. unfold trunc64. destruct (in64 _); simpl; auto. Qed.

  Theorem cast_sound t a t' :
    cast_ty t (type_of a) = Some t' -> sound_res (cast_eval O t a) t'.
  Proof.
    unfold cast_ty. intro T.
    destruct t; simpl in T; try discriminate; destruct a; simpl in T; try discriminate;
      inversion T; subst; simpl; auto using trunc32_sound, trunc64_sound.
  Qed.

  (* '/' always produces a float (or the documented division-by-zero error) whatever the operand types *)
  Theorem div_always_float a b v : binop_eval O ODiv a b = Ok v -> type_of v = TFloat.
  Proof.
    unfold binop_eval. destruct (as_num a); [|discriminate]. destruct (as_num b); [|discriminate].
    destruct (feqb O _ _); [discriminate|]. intro H; inversion H. reflexivity.
  Qed.

  (* '%' is integer only: it never yields a float, and never accepts one *)
  Theorem mod_integer_only a b v :
    binop_eval O OMod a b = Ok v ->
    integral (type_of a) = true /\ integral (type_of b) = true /\ integral (type_of v) = true.
  Proof.
    unfold binop_eval. destruct a; simpl; try discriminate; destruct b; simpl; try discriminate;
      match goal with |- context [if ?c then _ else _] => destruct c end; try discriminate;
      intro H; inversion H; simpl; auto.
  Qed.

  (* int widens to long when stored in a long slot; nothing else changes *)
  Lemma widen_type t v : assignable t (type_of v) = true -> type_of (widen t v) = t.
  Proof.
    unfold assignable. intro H. apply orb_true_iff in H. destruct H as [H | H].
    - apply ty_eqb_eq in H. subst. destruct v; reflexivity.
    - destruct t; try discriminate. destruct v; simpl in H; try discriminate. reflexivity.
  Qed.

  Theorem elem_conv_sound elt v :
    elem_ok elt (type_of v) = true ->
    match elem_conv O elt v with
    | Ok w => type_of w = elt /\ scalar_val w = true
    | Err e => documented e
    | OutOfFuel => False
    end.
  Proof.
    destruct elt; simpl; try discriminate; destruct v; simpl; try discriminate; auto;
      intros _; unfold trunc32, trunc64; match goal with |- context [if ?c then _ else _] => destruct c end; simpl; auto.
  Qed.
End OpSound.
