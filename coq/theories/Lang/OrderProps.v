(* Declaration order (C10): the reference interpreter reaches top-level declarations only through
   name lookup, and name lookup in a duplicate-free list does not depend on the order of the list. *)
From Coq Require Import List ZArith String Ascii Bool Arith Permutation FunctionalExtensionality.
From Bloch Require Import Lang.Syntax Lang.Eval Lang.Typing.
Import ListNotations.

Lemma find_perm {A} (name : A -> string) (x : string) (l l' : list A) :
  NoDup (map name l) -> Permutation l l' ->
  find (fun d => String.eqb (name d) x) l = find (fun d => String.eqb (name d) x) l'.
Proof.
  intros N P. induction P as [|a l l' P IH|a b l|l1 l2 l3 P1 IH1 P2 IH2].
  - reflexivity.
  - cbn. destruct (String.eqb (name a) x); [reflexivity|]. apply IH. now inversion N.
  - cbn. destruct (String.eqb (name b) x) eqn:Eb; destruct (String.eqb (name a) x) eqn:Ea; try reflexivity.
    apply String.eqb_eq in Ea. apply String.eqb_eq in Eb. exfalso.
    cbn in N. inversion N as [|? ? Hn _]; subst. apply Hn. left. congruence.
  - rewrite IH1 by exact N. apply IH2.
    eapply Permutation_NoDup; [apply Permutation_map; exact P1 | exact N].
Qed.

Definition wf_names (p : program) : Prop :=
  NoDup (map fn_name (p_fns p)) /\ NoDup (map cd_name (p_classes p)).

Definition same_decls (p q : program) : Prop :=
  Permutation (p_fns p) (p_fns q) /\ Permutation (p_classes p) (p_classes q).

Lemma find_fn_perm p q : wf_names p -> same_decls p q -> find_fn p = find_fn q.
Proof.
  intros [N _] [P _]. apply functional_extensionality. intro f. unfold find_fn. now apply find_perm.
Qed.
Lemma find_class_perm p q : wf_names p -> same_decls p q -> find_class p = find_class q.
Proof.
  intros [_ N] [_ P]. apply functional_extensionality. intro f. unfold find_class. now apply find_perm.
Qed.
Lemma depth_perm p q : same_decls p q -> List.length (p_classes p) = List.length (p_classes q).
Proof. intros [_ P]. now apply Permutation_length. Qed.

Section Order.
  Context {F : Type} (O : fops F).

  (* running anything from a given state: identical for every order of the declarations *)
  Theorem eval_order_independent p q fuel s e :
    wf_names p -> same_decls p q ->
    eval O (find_fn p) (find_class p) (List.length (p_classes p)) fuel s e =
    eval O (find_fn q) (find_class q) (List.length (p_classes q)) fuel s e.
  Proof.
    intros W S. rewrite (find_fn_perm p q W S), (find_class_perm p q W S), (depth_perm p q S). reflexivity.
  Qed.

  (* a whole run, when the permutation keeps the relative order of the classes (any order of functions,
     classes anywhere between them): static initialisers run in class order *)
  Theorem run_order_independent_functions p q fuel :
    wf_names p -> Permutation (p_fns p) (p_fns q) -> p_classes p = p_classes q ->
    run O fuel p = run O fuel q.
  Proof.
    intros W P C.
    assert (same_decls p q) as S by (split; [exact P | rewrite C; apply Permutation_refl]).
    unfold run, init_statics. rewrite (find_fn_perm p q W S), (find_class_perm p q W S), C. reflexivity.
  Qed.

  (* classes without static fields need no initialisation, in any order *)
  Definition static_free (p : program) : Prop :=
    forall cd fd, In cd (p_classes p) -> In fd (cd_fields cd) -> fd_static fd = false.

  Lemma init_statics_static_free p fuel : static_free p -> init_statics O fuel p = Ok init_st.
  Proof.
    unfold init_statics, static_free. intro H.
    generalize (@init_st F). intro s0.
    assert (forall cds (acc : res (st (F:=F))),
              (forall cd fd, In cd cds -> In fd (cd_fields cd) -> fd_static fd = false) ->
              acc = Ok s0 ->
              fold_left (fun acc cd =>
                 fold_left (fun acc fd =>
                   do s <- acc;
                   if fd_static fd then
                     match fd_init fd with
                     | Some a =>
                         let s1 := enter s [] (cd_name cd) in
                         do (v, s2) <- eval O (find_fn p) (find_class p) (List.length (p_classes p)) fuel s1 a;
                         Ok (with_statics (leave s s2) (s_statics s2 ++ [(cd_name cd, fd_name fd, widen (fd_ty fd) v)]))
                     | None => Ok (with_statics s (s_statics s ++ [(cd_name cd, fd_name fd, default_of O (fd_ty fd))]))
                     end
                   else Ok s) (cd_fields cd) acc) cds acc = Ok s0) as G.
    { induction cds as [|cd r IH]; intros acc Hc Ha; cbn [fold_left]; [exact Ha|].
      apply IH; [intros; eapply Hc; [right|]; eauto|].
      assert (forall fds (a0 : res (st (F:=F))), (forall fd, In fd fds -> fd_static fd = false) -> a0 = Ok s0 ->
                fold_left (fun acc fd =>
                   do s <- acc;
                   if fd_static fd then
                     match fd_init fd with
                     | Some a =>
                         let s1 := enter s [] (cd_name cd) in
                         do (v, s2) <- eval O (find_fn p) (find_class p) (List.length (p_classes p)) fuel s1 a;
                         Ok (with_statics (leave s s2) (s_statics s2 ++ [(cd_name cd, fd_name fd, widen (fd_ty fd) v)]))
                     | None => Ok (with_statics s (s_statics s ++ [(cd_name cd, fd_name fd, default_of O (fd_ty fd))]))
                     end
                   else Ok s) fds a0 = Ok s0) as G2.
      { induction fds as [|fd fr IH2]; intros a0 Hf Ha0; cbn [fold_left]; [exact Ha0|].
        apply IH2; [intros; apply Hf; now right|]. subst a0. cbn [bind]. rewrite (Hf fd (or_introl eq_refl)). reflexivity. }
      apply G2; [intros fd Hfd; eapply Hc; [left; reflexivity | exact Hfd] | exact Ha]. }
    apply G; auto.
  Qed.

  (* ... so for such programs every permutation of classes and functions (a derived class before its base,
     a function after its first use) gives the same run *)
  Theorem run_order_independent p q fuel :
    wf_names p -> same_decls p q -> static_free p ->
    run O fuel p = run O fuel q.
  Proof.
    intros W S SF.
    assert (static_free q) as SFq.
    { intros cd fd Hc Hf. destruct S as [_ P]. apply (SF cd fd); [|exact Hf].
      eapply Permutation_in; [apply Permutation_sym; exact P | exact Hc]. }
    unfold run. rewrite (init_statics_static_free p fuel SF), (init_statics_static_free q fuel SFq). cbn [bind].
    rewrite (eval_order_independent p q fuel _ _ W S). reflexivity.
  Qed.
End Order.

(* acceptance too: the reference checker's verdict does not depend on the order of the functions *)
Lemma forallb_perm {A} (f : A -> bool) l l' : Permutation l l' -> forallb f l = forallb f l'.
Proof.
  intro P. induction P as [|a l l' P IH|a b l|l1 l2 l3 P1 IH1 P2 IH2]; cbn; auto.
  - now rewrite IH.
  - destruct (f a), (f b); reflexivity.
  - congruence.
Qed.

Lemma nodup_names_spec l : nodup_names l = true <-> NoDup l.
Proof.
  induction l as [|x r IH]; cbn; split; intro H; auto using NoDup_nil.
  - apply andb_true_iff in H. destruct H as [H1 H2]. constructor; [|now apply IH].
    apply negb_true_iff in H1. intro Hin.
    assert (existsb (String.eqb x) r = true) as E; [|congruence].
    apply existsb_exists. exists x. split; [exact Hin | apply String.eqb_refl].
  - inversion H as [|? ? Hn Hr]; subst. apply andb_true_iff. split; [|now apply IH].
    apply negb_true_iff. apply not_true_is_false. intro E. apply existsb_exists in E.
    destruct E as [y [Hy He]]. apply String.eqb_eq in He. subst. contradiction.
Qed.


Theorem check_program_order_independent p q :
  wf_names p -> Permutation (p_fns p) (p_fns q) -> p_classes p = p_classes q ->
  check_program p = check_program q.
Proof.
  intros [N Nc] P C.
  assert (sig_of p = sig_of q) as Es.
  { apply functional_extensionality. intro f. unfold sig_of. now rewrite (find_perm fn_name f _ _ N P). }
  unfold check_program. rewrite <- Es.
  rewrite (forallb_perm (check_fn (sig_of p)) _ _ P).
  assert (nodup_names (map fn_name (p_fns p)) = nodup_names (map fn_name (p_fns q))) as ->; [|reflexivity].
  assert (NoDup (map fn_name (p_fns q))) as Nq by (eapply Permutation_NoDup; [apply Permutation_map; exact P | exact N]).
  apply nodup_names_spec in N. apply nodup_names_spec in Nq. congruence.
Qed.
