(* Lexical scoping (C09): name resolution reads only the running body's own frame, the enclosing
   object and the enclosing class's statics; the environments of suspended callers are parked in
   [s_frames], which no lookup consults and no assignment changes. *)
From Coq Require Import List ZArith String Ascii Bool Arith.
From Bloch Require Import Lang.Syntax Lang.Eval.
Import ListNotations.

Section Scope.
  Context {F : Type} (O : fops F).
  Notation st := (st (F:=F)).
  Variable cls : string -> option cdecl.
  Variable depth : nat.

  (* the same state with other callers suspended below it *)
  Definition with_frames (s : st) (fr : list (env (F:=F))) : st :=
    mkSt (s_env s) (s_out s) fr (s_temps s) (s_heap s) (s_statics s) (s_ctx s) (s_dcount s).

  Theorem read_ignores_callers x (s : st) fr : read_name cls depth x (with_frames s fr) = read_name cls depth x s.
  Proof. reflexivity. Qed.

  Lemma set_field_frames l f v (s s' : st) : set_field s l f v = Ok s' -> s_frames s' = s_frames s /\ s_env s' = s_env s.
  Proof.
    unfold set_field. destruct (get_obj s l) as [o|]; [|discriminate].
    destruct (sc_find f (o_fields o)); [|destruct (o_dead o); discriminate].
    intro H; inversion H; split; reflexivity.
  Qed.

  Theorem write_never_touches_callers x v (s s' : st) :
    write_name cls depth x v s = Ok s' -> s_frames s' = s_frames s.
  Proof.
    unfold write_name.
    destruct (lookup x (s_env s)); [intro H; inversion H; reflexivity|].
    match goal with |- context [match ?m with Some l => set_field s l x v | None => _ end] => destruct m as [l|] end.
    - intro H. now apply set_field_frames in H.
    - destruct (static_owner cls depth (s_ctx s) x); [|discriminate].
      destruct (st_find _ _ _); [|discriminate]. intro H; inversion H; reflexivity.
  Qed.

  (* and a write reaches the caller-visible world only through the object or the statics, never through a caller's local *)
  Theorem write_is_local_field_or_static x v (s s' : st) :
    write_name cls depth x v s = Ok s' ->
    (lookup x (s_env s) <> None /\ s_heap s' = s_heap s /\ s_statics s' = s_statics s) \/
    (lookup x (s_env s) = None /\ s_env s' = s_env s).
  Proof.
    unfold write_name.
    destruct (lookup x (s_env s)) eqn:L; [intro H; inversion H; left; repeat split; congruence|].
    intro H. right. split; [reflexivity|].
    match type of H with context [match ?m with Some l => set_field s l x v | None => _ end] => destruct m as [l|] end.
    - now apply set_field_frames in H.
    - destruct (static_owner cls depth (s_ctx s) x); [|discriminate].
      destruct (st_find _ _ _); [|discriminate]. inversion H; reflexivity.
  Qed.

  (* consistent renaming: an injective renaming of a frame's names commutes with every environment operation
     and leaves the set of referenced objects unchanged - the frame-level core of "renaming a function's
     locals never changes behaviour" *)
  Variable rho : string -> string.
  Hypothesis rho_inj : forall a b, rho a = rho b -> a = b.

  Definition ren_scope (sc : scope (F:=F)) : scope := map (fun p => (rho (fst p), snd p)) sc.
  Definition ren_env (e : env (F:=F)) : env := map ren_scope e.

  Lemma eqb_rho a b : String.eqb (rho a) (rho b) = String.eqb a b.
  Proof.
    destruct (String.eqb a b) eqn:E.
    - apply String.eqb_eq in E. subst. apply String.eqb_refl.
    - apply String.eqb_neq in E. apply String.eqb_neq. intro H. apply E. now apply rho_inj.
  Qed.

  Lemma sc_find_ren x sc : sc_find (rho x) (ren_scope sc) = sc_find x sc.
  Proof. induction sc as [|[y v] r IH]; cbn; auto. rewrite eqb_rho. destruct (String.eqb x y); auto. Qed.

  Lemma sc_set_ren x v sc : ren_scope (sc_set x v sc) = sc_set (rho x) v (ren_scope sc).
  Proof.
    unfold ren_scope. induction sc as [|[y w] r IH]; cbn; auto. rewrite eqb_rho.
    destruct (String.eqb x y); cbn; [reflexivity | f_equal; exact IH].
  Qed.

  Theorem lookup_ren x e : lookup (rho x) (ren_env e) = lookup x e.
  Proof. unfold ren_env. induction e as [|sc r IH]; cbn [lookup map]; auto. rewrite sc_find_ren. destruct (sc_find x sc); auto. Qed.

  Theorem update_ren x v e : ren_env (update x v e) = update (rho x) v (ren_env e).
  Proof.
    unfold ren_env. induction e as [|sc r IH]; cbn [update map]; auto. rewrite sc_find_ren.
    destruct (sc_find x sc); cbn [map]; [now rewrite sc_set_ren | f_equal; exact IH].
  Qed.

  Theorem declare_ren x v e : ren_env (declare x v e) = declare (rho x) v (ren_env e).
  Proof. destruct e; reflexivity. Qed.

  Theorem refs_ren e : env_refs (ren_env e) = env_refs e.
  Proof.
    unfold env_refs, ren_env. induction e as [|sc r IH]; cbn; auto. rewrite IH. f_equal.
    unfold scope_refs, ren_scope. induction sc as [|[y v] t IHs]; cbn; auto. now rewrite IHs.
  Qed.
End Scope.
