(* Shot isolation (C18).  A run of the reference interpreter is a function of the program alone: it
   starts from [init_st] and no run can see another.  The one thing the implementation carries from
   shot to shot inside the shared syntax tree is the evaluated size of a const-sized array; that is
   harmless exactly because a constant expression evaluates to the same value (or the same error) in
   every state and leaves the state untouched, which is what is proved here. *)
From Coq Require Import List ZArith String Ascii Bool Arith.
From Bloch Require Import Lang.Syntax Lang.Eval.
Import ListNotations.

Fixpoint const_expr (e : expr) : bool :=
  match e with
  | ELit _ => true
  | EBin _ a b => const_expr a && const_expr b
  | EUn _ a => const_expr a
  | ECast _ a => const_expr a
  | _ => false
  end.

Section Shot.
  Context {F : Type} (O : fops F).
  Notation st := (st (F:=F)).
  Variable fns : string -> option fdecl.
  Variable cls : string -> option cdecl.
  Variable depth : nat.

  (* state-free evaluation of constant expressions *)
  Fixpoint ceval (n : nat) (e : expr) : res (value F) :=
    match n with
    | 0%nat => OutOfFuel
    | S n =>
        match e with
        | ELit l => Ok (lit_eval O l)
        | EBin o a b => do va <- ceval n a; do vb <- ceval n b; binop_eval O o va vb
        | EUn o a => do va <- ceval n a; unop_eval O o va
        | ECast t a => do va <- ceval n a; cast_eval O t va
        | _ => stuck "not constant"
        end
    end.

  Definition lift (r : res (value F)) (s : st) : res (value F * st) :=
    match r with Ok v => Ok (v, s) | Err e => Err e | OutOfFuel => OutOfFuel end.

  Lemma with_temps_back (s : st) t : with_temps (with_temps s t) (s_temps s) = s.
  Proof. destruct s; reflexivity. Qed.

  Theorem const_eval_ignores_state n : forall e s,
    const_expr e = true -> eval O fns cls depth n s e = lift (ceval n e) s.
  Proof.
    induction n as [|n IH]; intros e s C; [reflexivity|].
    rewrite eval_S. destruct e; cbn [const_expr] in C; try discriminate; cbn [eval_step ceval].
    - reflexivity.
    - apply andb_true_iff in C. destruct C as [Ca Cb].
      rewrite (IH e1 s Ca). destruct (ceval n e1) as [va| |]; cbn [lift bind]; auto.
      rewrite (IH e2 _ Cb). destruct (ceval n e2) as [vb| |]; cbn [lift bind]; auto.
      destruct (binop_eval O o va vb); cbn [lift bind]; auto; now rewrite with_temps_back.
    - rewrite (IH e s C). destruct (ceval n e) as [va| |]; cbn [lift bind]; auto.
    - rewrite (IH e s C). destruct (ceval n e) as [va| |]; cbn [lift bind]; auto.
  Qed.

  (* so the size of a const-sized array is the same in every shot, whatever the earlier shots did *)
  Corollary const_size_is_shot_invariant n e s1 s2 v s1' :
    const_expr e = true ->
    eval O fns cls depth n s1 e = Ok (v, s1') ->
    s1' = s1 /\ eval O fns cls depth n s2 e = Ok (v, s2).
  Proof.
    intros C H. rewrite (const_eval_ignores_state n e s1 C) in H. rewrite (const_eval_ignores_state n e s2 C).
    destruct (ceval n e); cbn [lift] in *; try discriminate. inversion H; subst. auto.
  Qed.
End Shot.

(* N shots of the reference interpreter are N copies of one run: there is no state to carry over *)
Definition shots {F} (O : fops F) (fuel n : nat) (p : program) : list (list string * outcome) :=
  map (fun _ => run O fuel p) (seq 0 n).

Lemma nth_seq b n k : (k < n)%nat -> nth_error (seq b n) k = Some (b + k)%nat.
Proof.
  revert b k. induction n as [|n IH]; intros b k H; [inversion H|].
  destruct k as [|k]; cbn [seq nth_error].
  - now rewrite Nat.add_0_r.
  - rewrite IH by (apply Nat.succ_lt_mono; exact H). f_equal. rewrite Nat.add_succ_r. reflexivity.
Qed.

Theorem shots_are_independent_runs {F} (O : fops F) fuel n p k :
  (k < n)%nat -> nth_error (shots O fuel n p) k = Some (run O fuel p).
Proof.
  intro H. unfold shots. rewrite nth_error_map. now rewrite (nth_seq 0 n k H).
Qed.
