(* Type soundness of the reference interpreter on the classical core: a program accepted by the
   reference checker never reaches an undefined operation.  Whatever the fuel, a run ends normally, with
   one of the documented runtime errors, with a result the documentation does not fix (flagged), or out
   of fuel - never "stuck".  This is the theorem that makes the static rules (C16) and the dynamic
   semantics (C07, C12) fit together. *)
From Coq Require Import List ZArith String Ascii Bool Arith Lia.
From Bloch Require Import Lang.Syntax Lang.Eval Lang.Typing Lang.OpSound.
Import ListNotations.

Section Sound.
  Context {F : Type} (O : fops F).
  Notation value := (value F).
  Notation st := (st (F:=F)).
  Notation scope := (scope (F:=F)).
  Notation env := (env (F:=F)).

  Definition has_ty (v : value) (t : ty) : Prop := type_of v = t /\ wf v = true.

  Fixpoint scope_ok (ts : tscope) (sc : scope) : Prop :=
    match ts, sc with
    | [], [] => True
    | (x, (t, _)) :: ts', (y, v) :: sc' => x = y /\ has_ty v t /\ scope_ok ts' sc'
    | _, _ => False
    end.
  Fixpoint env_ok (G : tenv) (E : env) : Prop :=
    match G, E with
    | [], [] => True
    | ts :: G', sc :: E' => scope_ok ts sc /\ env_ok G' E'
    | _, _ => False
    end.

  Lemma scope_ok_find ts sc x t fin :
    scope_ok ts sc -> ts_find x ts = Some (t, fin) -> exists v, sc_find x sc = Some v /\ has_ty v t.
  Proof.
    revert sc. induction ts as [|[y [t0 f0]] ts IH]; intros sc H Hf; [discriminate|].
    destruct sc as [|[z v] sc]; [contradiction|]. cbn in H. destruct H as [-> [Hv Hs]].
    cbn in *. destruct (String.eqb x z); [inversion Hf; subst; eauto | eauto].
  Qed.
  Lemma scope_ok_find_none ts sc x : scope_ok ts sc -> ts_find x ts = None -> sc_find x sc = None.
  Proof.
    revert sc. induction ts as [|[y [t0 f0]] ts IH]; intros sc H Hf; destruct sc as [|[z v] sc]; try contradiction; auto.
    cbn in H. destruct H as [-> [Hv Hs]]. cbn in *. destruct (String.eqb x z); [discriminate | eauto].
  Qed.

  Lemma env_ok_lookup G E x t fin :
    env_ok G E -> t_lookup x G = Some (t, fin) -> exists v, lookup x E = Some v /\ has_ty v t.
  Proof.
    revert E. induction G as [|ts G IH]; intros E H Hl; [discriminate|].
    destruct E as [|sc E]; [contradiction|]. destruct H as [Hs He]. cbn in *.
    destruct (ts_find x ts) as [[t0 f0]|] eqn:Ef.
    - inversion Hl; subst. destruct (scope_ok_find _ _ _ _ _ Hs Ef) as [v [Hv Ht]]. rewrite Hv. eauto.
    - rewrite (scope_ok_find_none _ _ _ Hs Ef). eauto.
  Qed.

  Lemma scope_ok_set ts sc x t fin v :
    scope_ok ts sc -> ts_find x ts = Some (t, fin) -> has_ty v t -> scope_ok ts (sc_set x v sc).
  Proof.
    revert sc. induction ts as [|[y [t0 f0]] ts IH]; intros sc H Hf Hv; [discriminate|].
    destruct sc as [|[z w] sc]; [contradiction|]. cbn in H. destruct H as [-> [Hw Hs]].
    cbn in *. destruct (String.eqb x z) eqn:E; cbn.
    - inversion Hf; subst. auto.
    - split; [reflexivity|]. split; [exact Hw|]. eapply IH; eauto.
  Qed.

  Lemma env_ok_update G E x t fin v :
    env_ok G E -> t_lookup x G = Some (t, fin) -> has_ty v t -> env_ok G (update x v E).
  Proof.
    revert E. induction G as [|ts G IH]; intros E H Hl Hv; [discriminate|].
    destruct E as [|sc E]; [contradiction|]. destruct H as [Hs He]. cbn in *.
    destruct (ts_find x ts) as [[t0 f0]|] eqn:Ef.
    - inversion Hl; subst. destruct (scope_ok_find _ _ _ _ _ Hs Ef) as [w [Hw _]]. rewrite Hw. cbn. split; [|exact He].
      eapply scope_ok_set; eauto.
    - rewrite (scope_ok_find_none _ _ _ Hs Ef). cbn. split; [exact Hs|]. eapply IH; eauto.
  Qed.

  Lemma env_ok_declare G E x t fin v :
    env_ok G E -> has_ty v t -> env_ok (t_declare x (t, fin) G) (declare x v E).
  Proof.
    intros H Hv. destruct G as [|ts G]; destruct E as [|sc E]; try contradiction; cbn in *.
    - split; [|exact I]. split; [reflexivity|]. split; [exact Hv | exact I].
    - destruct H as [Hs He]. split; [|exact He]. split; [reflexivity|]. split; [exact Hv | exact Hs].
  Qed.

  Lemma env_ok_push G E : env_ok G E -> env_ok ([] :: G) ([] :: E).
  Proof. cbn. auto. Qed.
  Lemma env_ok_pop ts G E : env_ok (ts :: G) E -> env_ok G (tl E).
  Proof. destruct E; [contradiction|]. cbn. tauto. Qed.

  (* values of scalar type are scalar values; widening keeps a value well typed *)
  Lemma has_ty_scalar v t : has_ty v t -> scalar t = true -> scalar_val v = true.
  Proof. intros [<- _] H. destruct v; cbn in *; try discriminate; reflexivity. Qed.

  Lemma has_ty_widen t s v : assignable t s = true -> has_ty v s -> has_ty (widen t v) t.
  Proof.
    intros A [Ht Hw]. split.
    - apply widen_type. now rewrite Ht.
    - unfold assignable in A. apply orb_true_iff in A. destruct A as [A|A].
      + apply ty_eqb_eq in A. subst. destruct v; cbn in *; auto.
      + destruct t; try discriminate. destruct s; try discriminate. destruct v; cbn in *; try discriminate; auto.
  Qed.

  Lemma has_ty_default t : scalar t = true -> has_ty (default_of O t) t.
  Proof. destruct t; cbn; try discriminate; intros _; split; reflexivity. Qed.

  Lemma has_ty_lit l : has_ty (lit_eval O l) (lit_ty l).
  Proof. destruct l; split; reflexivity. Qed.

  (* ---------------------------------------------------------------- facts about the checker *)
  Variable sigs : string -> option (list ty * ty).

  Fixpoint type_exprs (G : tenv) (es : list expr) : option (list ty) :=
    match es with
    | [] => Some []
    | a :: r => match type_expr sigs G a, type_exprs G r with Some t, Some ts => Some (t :: ts) | _, _ => None end
    end.

  Lemma type_expr_arr G es :
    type_expr sigs G (EArr es) =
    match type_exprs G es with
    | Some (t :: ts) => if scalar t && forallb (ty_eqb t) ts then Some (TArr t) else None
    | _ => None
    end.
  Proof.
    cbn [type_expr].
    assert (forall l, (fix types (es0 : list expr) : option (list ty) :=
                         match es0 with
                         | [] => Some []
                         | a :: r => match type_expr sigs G a, types r with Some t, Some ts => Some (t :: ts) | _, _ => None end
                         end) l = type_exprs G l) as E.
    { induction l as [|a r IH]; cbn; [reflexivity|]. rewrite IH. reflexivity. }
    rewrite E. reflexivity.
  Qed.

  Lemma type_expr_call G f args :
    type_expr sigs G (ECall f args) =
    match sigs f, type_exprs G args with
    | Some (ps, r), Some ts => if all2 assignable ps ts then Some r else None
    | _, _ => None
    end.
  Proof.
    cbn [type_expr].
    assert (forall l, (fix types (es0 : list expr) : option (list ty) :=
                         match es0 with
                         | [] => Some []
                         | a :: r => match type_expr sigs G a, types r with Some t, Some ts => Some (t :: ts) | _, _ => None end
                         end) l = type_exprs G l) as E.
    { induction l as [|a r IH]; cbn; [reflexivity|]. rewrite IH. reflexivity. }
    rewrite E. reflexivity.
  Qed.

  Lemma check_block ret G ss :
    check_stmt sigs ret G (SBlock ss) = match check_stmts sigs ret ([] :: G) ss with Some _ => Some G | None => None end.
  Proof.
    cbn [check_stmt].
    assert (forall G0 l, (fix checks (G1 : tenv) (ss0 : list stmt) {struct ss0} : option tenv :=
                            match ss0 with
                            | [] => Some G1
                            | a :: r => match check_stmt sigs ret G1 a with Some G' => checks G' r | None => None end
                            end) G0 l = check_stmts sigs ret G0 l) as E.
    { intros G0 l. revert G0. induction l as [|a r IH]; intro G0; cbn; [reflexivity|]. destruct (check_stmt sigs ret G0 a); auto. }
    rewrite E. reflexivity.
  Qed.

  (* a statement only ever extends the innermost scope *)
  Lemma check_stmt_tail ret ts G c G' :
    check_stmt sigs ret (ts :: G) c = Some G' -> exists ts', G' = ts' :: G.
  Proof.
    destruct c; try rewrite check_block; cbn [check_stmt]; intro H;
      repeat match type of H with
             | (if ?b then _ else _) = Some _ => destruct b; try discriminate
             | match ?m with _ => _ end = Some _ => destruct m; try discriminate
             end;
      try (inversion H; subst; eauto; fail).
  Qed.

  Lemma check_stmts_tail ret ss : forall ts G G',
    check_stmts sigs ret (ts :: G) ss = Some G' -> exists ts', G' = ts' :: G.
  Proof.
    induction ss as [|a r IH]; intros ts G G' H; cbn in H; [inversion H; eauto|].
    destruct (check_stmt sigs ret (ts :: G) a) as [G1|] eqn:E; [|discriminate].
    destruct (check_stmt_tail _ _ _ _ _ E) as [ts1 ->]. eauto.
  Qed.

  Lemma check_nondecl ret G c G' : is_decl c = false -> check_stmt sigs ret G c = Some G' -> G' = G.
  Proof.
    destruct c; cbn [is_decl]; try discriminate; intros _; try rewrite check_block; cbn [check_stmt]; intro H;
      repeat match type of H with
             | (if ?b then _ else _) = Some _ => destruct b; try discriminate
             | match ?m with _ => _ end = Some _ => destruct m; try discriminate
             end;
      inversion H; reflexivity.
  Qed.

  (* ---------------------------------------------------------------- the class-free interpreter state *)
  Variable fns : string -> option fdecl.
  Variable cls : string -> option cdecl.
  Variable depth : nat.

  Definition st_ok (G : tenv) (s : st) : Prop := env_ok G (s_env s) /\ s_heap s = [].

  Lemma st_ok_temps G s t : st_ok G s -> st_ok G (with_temps s t).
  Proof. intros [A B]; split; assumption. Qed.
  Lemma st_ok_temps_inv G s t : st_ok G (with_temps s t) -> st_ok G s.
  Proof. intros [A B]; split; assumption. Qed.
  Lemma st_ok_out G s o : st_ok G s -> st_ok G (with_out s o).
  Proof. intros [A B]; split; assumption. Qed.

  Lemma read_found x v (s : st) : lookup x (s_env s) = Some v -> read_name cls depth x s = Ok v.
  Proof. intro H. unfold read_name. now rewrite H. Qed.
  Lemma write_found x v old (s : st) :
    lookup x (s_env s) = Some old ->
    write_name cls depth x v s = Ok (with_env s (update x (widen (type_of old) v) (s_env s))).
  Proof. intro H. unfold write_name. now rewrite H. Qed.

  Lemma sweep_noop ex extra (s : st) : s_heap s = [] -> sweep_all cls depth ex extra s = Ok s.
  Proof.
    intro H. unfold sweep_all. rewrite H. cbn [List.length sweep]. unfold unreferenced. rewrite H. reflexivity.
  Qed.
  Lemma post_noop ex k (s : st) : s_heap s = [] -> post_stmt cls depth ex k s = Ok s.
  Proof. intro H. unfold post_stmt. now apply sweep_noop. Qed.

  Definition ok_res {A} (P : A -> Prop) (r : res A) : Prop :=
    match r with Ok a => P a | Err e => documented e | OutOfFuel => True end.

  Lemma ok_res_bind {A B} (P : A -> Prop) (Q : B -> Prop) (r : res A) (k : A -> res B) :
    ok_res P r -> (forall a, P a -> ok_res Q (k a)) -> ok_res Q (bind r k).
  Proof. destruct r; cbn; auto. Qed.

  Lemma ok_res_mono {A} (P Q : A -> Prop) (r : res A) : ok_res P r -> (forall a, P a -> Q a) -> ok_res Q r.
  Proof. destruct r; cbn; auto. Qed.

  (* typed operator results, from OpSound *)
  Lemma binop_ok o a b ta tb t :
    has_ty a ta -> has_ty b tb -> bin_ty o ta tb = Some t -> ok_res (fun v => has_ty v t) (binop_eval O o a b).
  Proof.
    intros [Ha Wa] [Hb Wb] T. subst. pose proof (binop_sound O o a b t Wa Wb T) as H.
    destruct (binop_eval O o a b); cbn in *; auto.
  Qed.
  Lemma unop_ok o a ta t : has_ty a ta -> un_ty o ta = Some t -> ok_res (fun v => has_ty v t) (unop_eval O o a).
  Proof.
    intros [Ha Wa] T. subst. pose proof (unop_sound O o a t Wa T) as H. destruct (unop_eval O o a); cbn in *; auto.
  Qed.
  Lemma cast_ok t a ta t' : has_ty a ta -> cast_ty t ta = Some t' -> ok_res (fun v => has_ty v t') (cast_eval O t a).
  Proof.
    intros [Ha Wa] T. subst. pose proof (cast_sound O t a t' T) as H. destruct (cast_eval O t a); cbn in *; auto.
  Qed.

  Definition esound (ev : st -> expr -> res (value * st)) : Prop :=
    forall G e t s, type_expr sigs G e = Some t -> st_ok G s ->
      ok_res (fun r => has_ty (fst r) t /\ st_ok G (snd r)) (ev s e).

  Lemma eval_list_sound ev : esound ev -> forall G es ts s,
    type_exprs G es = Some ts -> st_ok G s ->
    ok_res (fun r => Forall2 has_ty (fst r) ts /\ st_ok G (snd r)) (eval_list ev s es).
  Proof.
    intros E G es. induction es as [|a r IH]; intros ts s T S; cbn in *.
    - inversion T. cbn. auto.
    - destruct (type_expr sigs G a) as [t|] eqn:Ta; [|discriminate].
      destruct (type_exprs G r) as [tr|] eqn:Tr; [|discriminate]. inversion T; subst.
      eapply ok_res_bind; [apply (E G a t s Ta S)|]. intros [v s1] [Hv S1]. cbn [fst snd] in *.
      eapply ok_res_bind; [apply (IH tr (with_temps s1 (v :: s_temps s1)) eq_refl); now apply st_ok_temps|].
      intros [vs s2] [Hvs S2]. cbn. auto.
  Qed.

  Lemma evals_sound ev : esound ev -> forall G es ts s,
    type_exprs G es = Some ts -> st_ok G s ->
    ok_res (fun r => Forall2 has_ty (fst r) ts /\ st_ok G (snd r)) (evals ev s es).
  Proof.
    intros E G es ts s T S. unfold evals.
    eapply ok_res_bind; [apply (eval_list_sound ev E G es ts s T S)|].
    intros [vs s1] [Hv S1]. cbn. split; [exact Hv | now apply st_ok_temps].
  Qed.

  (* ---------------------------------------------------------------- statements: definitions *)
  Definition ret_ok (ret : ty) (k : ctl (F:=F)) : Prop :=
    match k with CNormal => True | CReturn v => exists t, assignable ret t = true /\ has_ty v t end.

  Definition ssound (ex : st -> stmt -> res (ctl (F:=F) * st)) : Prop :=
    forall ret G G' c s, check_stmt sigs ret G c = Some G' -> st_ok G s ->
      ok_res (fun r => st_ok G' (snd r) /\ ret_ok ret (fst r)) (ex s c).

  Definition rsound (ex : st -> stmt -> res (ctl (F:=F) * st)) : Prop :=
    forall c s k s', returns c = true -> ex s c = Ok (k, s') -> exists v, k = CReturn v.

  (* the function table agrees with the signatures and every function is checked *)
  Hypothesis fns_ok : forall f ps r, sigs f = Some (ps, r) ->
    exists fd, fns f = Some fd /\ map fst (fn_params fd) = ps /\ fn_ret fd = r /\ check_fn sigs fd = true.

  Lemma exec_list_sound ex : ssound ex -> forall ret ss ts G0 G' s,
    check_stmts sigs ret (ts :: G0) ss = Some G' -> st_ok (ts :: G0) s ->
    ok_res (fun r => (exists ts', st_ok (ts' :: G0) (snd r)) /\ (fst r = CNormal -> st_ok G' (snd r)) /\ ret_ok ret (fst r))
           (exec_list ex (post_stmt cls depth ex) s ss).
  Proof.
    intros SS ret ss. induction ss as [|a r IH]; intros ts G0 G' s C S; cbn [exec_list check_stmts] in *.
    - inversion C; subst. cbn. split; [eauto|]. split; auto.
    - destruct (check_stmt sigs ret (ts :: G0) a) as [G1|] eqn:Ca; [|discriminate].
      destruct (check_stmt_tail _ _ _ _ _ Ca) as [ts1 ->].
      eapply ok_res_bind; [apply (SS ret _ _ a s Ca S)|]. intros [c s1] [S1 R1]. cbn [fst snd] in *.
      rewrite (post_noop ex c s1 (proj2 S1)). cbn [bind].
      destruct c.
      + apply (IH ts1 G0 G' s1 C S1).
      + cbn. split; [eauto|]. split; [discriminate | exact R1].
  Qed.

  Lemma exec_list_returns ex post : rsound ex -> forall ss (s : st) k s',
    existsb returns ss = true ->
    exec_list ex post s ss = Ok (k, s') -> exists v, k = CReturn v.
  Proof.
    intros RS ss. induction ss as [|a r IH]; intros s k s' E H; cbn [exec_list existsb] in *; [discriminate|].
    destruct (ex s a) as [[c s1]| |] eqn:Ea; cbn [bind] in H; try discriminate.
    destruct (post c s1) as [s2| |]; cbn [bind] in H; try discriminate.
    destruct c; [|inversion H; eauto].
    apply orb_true_iff in E. destruct E as [E|E].
    - destruct (RS a s CNormal s1 E Ea) as [v Hv]. discriminate.
    - eapply IH; eauto.
  Qed.

  Lemma bind_params_ok ps vs ts :
    Forall2 has_ty vs ts -> all2 assignable (map fst ps) ts = true ->
    exists sc, bind_params ps vs = Some sc /\ scope_ok (map (fun p => (snd p, (fst p, false))) ps) sc.
  Proof.
    revert vs ts. induction ps as [|[t x] ps IH]; intros vs ts H A; cbn in *.
    - destruct ts; [|discriminate]. inversion H; subst. exists []. cbn. auto.
    - destruct ts as [|t0 ts]; [discriminate|]. inversion H as [|v ? vs' ? Hv Hvs]; subst.
      apply andb_true_iff in A. destruct A as [A1 A2].
      destruct (IH vs' ts Hvs A2) as [sc [B S]]. rewrite B. eexists. split; [reflexivity|].
      cbn. split; [reflexivity|]. split; [now apply (has_ty_widen t t0) | exact S].
  Qed.

  Lemma nth_has_ty t (l : list value) k :
    forallb (fun x => scalar_val x && ty_eqb (type_of x) t) l = true ->
    (k < List.length l)%nat -> exists v, nth_error l k = Some v /\ has_ty v t.
  Proof.
    revert k. induction l as [|a l IH]; intros k H L; cbn in *; [lia|].
    apply andb_true_iff in H. destruct H as [Ha Hl].
    destruct k as [|k]; cbn.
    - exists a. split; [reflexivity|]. apply andb_true_iff in Ha. destruct Ha as [Hs Ht].
      apply ty_eqb_eq in Ht. split; [exact Ht|]. destruct a; cbn in *; try discriminate; reflexivity.
    - apply IH; [exact Hl | lia].
  Qed.

  Lemma forall2_all_ty vs ts t :
    Forall2 has_ty vs ts -> scalar t = true -> forallb (ty_eqb t) ts = true ->
    forallb (fun x => scalar_val x && ty_eqb (type_of x) t) vs = true.
  Proof.
    intros H St. induction H as [|v t0 vs ts Hv Hr IH]; cbn; intro A; [reflexivity|].
    apply andb_true_iff in A. destruct A as [A1 A2]. apply ty_eqb_eq in A1. subst t0.
    rewrite (has_ty_scalar _ _ Hv St). destruct Hv as [Hv _]. rewrite Hv, ty_eqb_refl. cbn. now apply IH.
  Qed.

  (* ---------------------------------------------------------------- one step of the expression evaluator *)
  Lemma numeric_index v t : has_ty v t -> numeric t = true -> exists k, index_of O v = Some k.
  Proof. intros [<- _] H. destruct v; cbn in *; try discriminate; eauto. Qed.

  Lemma has_ty_arr v t : has_ty v (TArr t) ->
    exists l, v = VArr t l /\ forallb (fun x => scalar_val x && ty_eqb (type_of x) t) l = true.
  Proof.
    intros [Ht Hw]. destruct v; cbn in Ht; try discriminate. inversion Ht; subst.
    cbn in Hw. apply andb_true_iff in Hw. destruct Hw as [_ Hw]. eauto.
  Qed.

  Section StepE.
    Variable ev : st -> expr -> res (value * st).
    Variable ex : st -> stmt -> res (ctl (F:=F) * st).
    Hypothesis EV : esound ev.
    Hypothesis EX : ssound ex.
    Hypothesis RX : rsound ex.

    Notation P t G := (fun r : value * st => has_ty (fst r) t /\ st_ok G (snd r)).

    Lemma call_sound G s f args t :
      type_expr sigs G (ECall f args) = Some t -> st_ok G s ->
      ok_res (P t G) (eval_step O fns cls depth ev ex s (ECall f args)).
    Proof.
      intros T S. rewrite type_expr_call in T.
      destruct (sigs f) as [[ps r]|] eqn:Sg; [|discriminate].
      destruct (type_exprs G args) as [ts|] eqn:Ta; [|discriminate].
      destruct (all2 assignable ps ts) eqn:A; [|discriminate]. inversion T; subst r.
      destruct (fns_ok f ps t Sg) as [fd [Hf [Hp [Hr Hc]]]].
      cbn [eval_step]. rewrite Hf.
      eapply ok_res_bind; [apply (evals_sound ev EV G args ts s Ta S)|].
      intros [vs s1] [Hvs S1]. cbn [fst snd] in *.
      rewrite <- Hp in A. destruct (bind_params_ok (fn_params fd) vs ts Hvs A) as [sc [Hb Hsc]]. rewrite Hb.
      unfold check_fn in Hc. apply andb_true_iff in Hc. destruct Hc as [Hc Hbody].
      destruct (check_stmts sigs (fn_ret fd) (params_env (fn_params fd)) (fn_body fd)) as [Gb|] eqn:Cb; [|discriminate].
      unfold call_body.
      set (s0 := enter (with_temps s1 (vs ++ s_temps s1)) sc EmptyString).
      assert (st_ok (params_env (fn_params fd)) s0) as S0.
      { split; [|exact (proj2 S1)]. cbn. split; [exact Hsc | exact I]. }
      unfold params_env in Cb, S0.
      pose proof (exec_list_sound ex EX (fn_ret fd) (fn_body fd) _ [] Gb s0 Cb S0) as HB.
      unfold execs.
      destruct (exec_list ex (post_stmt cls depth ex) s0 (fn_body fd)) as [[c s2]| |] eqn:X;
        cbn [bind]; cbn [ok_res fst snd] in HB |- *; auto.
      destruct HB as [[ts' S2] [_ R2]].
      assert (s_heap (leave s1 s2) = []) as Hh by exact (proj2 S2).
      rewrite (sweep_noop ex _ (leave s1 s2) Hh). cbn [bind ok_res fst snd].
      split.
      - destruct c as [|v].
        + (* fell off the end: only a void function may *)
          rewrite Hr in *. destruct (is_void t) eqn:Vd.
          * destruct t; try discriminate. split; reflexivity.
          * cbn [orb] in Hbody. exfalso.
            destruct (exec_list_returns ex _ RX _ _ _ _ Hbody X) as [v Hv]. discriminate.
        + destruct R2 as [t0 [A0 H0]]. rewrite Hr in *. now apply (has_ty_widen t t0).
      - split; [exact (proj1 S1) | exact Hh].
    Qed.

    Lemma lookup_var G (s : st) x t fin : st_ok G s -> t_lookup x G = Some (t, fin) ->
      exists v, lookup x (s_env s) = Some v /\ has_ty v t.
    Proof. intros [E _] H. eapply env_ok_lookup; eauto. Qed.

    Lemma write_var G (s : st) x t fin v :
      st_ok G s -> t_lookup x G = Some (t, fin) -> has_ty v t ->
      exists old, lookup x (s_env s) = Some old /\ has_ty old t /\
                  write_name cls depth x v s = Ok (with_env s (update x (widen (type_of old) v) (s_env s))) /\
                  st_ok G (with_env s (update x (widen (type_of old) v) (s_env s))).
    Proof.
      intros S L Hv. destruct (lookup_var G s x t fin S L) as [old [Ho Ht]].
      exists old. split; [exact Ho|]. split; [exact Ht|]. split; [now apply write_found|].
      destruct S as [E Hh]. split; [|exact Hh]. cbn. apply (env_ok_update G _ x t fin _ E L).
      destruct Ht as [Ht _]. rewrite Ht.
      assert (assignable t t = true) as A by (unfold assignable; now rewrite ty_eqb_refl).
      now apply (has_ty_widen t t).
    Qed.

    Theorem eval_step_sound : esound (eval_step O fns cls depth ev ex).
    Proof.
      intros G e t s T S.
      destruct e; try (cbn [type_expr] in T; discriminate).
      - (* literal *) cbn in *. inversion T; subst. split; [apply has_ty_lit | exact S].
      - (* variable *) cbn [type_expr] in T. destruct (t_lookup x G) as [[t0 f0]|] eqn:L; [|discriminate]. inversion T; subst.
        destruct (lookup_var G s x t f0 S L) as [v [Hl Hv]]. cbn [eval_step]. rewrite (read_found x v s Hl). cbn. auto.
      - (* binary *) cbn [type_expr] in T.
        destruct (type_expr sigs G e1) as [ta|] eqn:Ta; [|discriminate].
        destruct (type_expr sigs G e2) as [tb|] eqn:Tb; [|discriminate].
        cbn [eval_step]. eapply ok_res_bind; [apply (EV G e1 ta s Ta S)|]. intros [va s1] [Ha S1]. cbn [fst snd] in *.
        eapply ok_res_bind; [apply (EV G e2 tb _ Tb (st_ok_temps G s1 _ S1))|]. intros [vb s2] [Hb S2]. cbn [fst snd] in *.
        eapply ok_res_bind; [apply (binop_ok o va vb ta tb t Ha Hb T)|]. intros v Hv. cbn.
        split; [exact Hv | apply st_ok_temps; exact S2].
      - (* unary *) cbn [type_expr] in T. destruct (type_expr sigs G e) as [ta|] eqn:Ta; [|discriminate].
        cbn [eval_step]. eapply ok_res_bind; [apply (EV G e ta s Ta S)|]. intros [va s1] [Ha S1]. cbn [fst snd] in *.
        eapply ok_res_bind; [apply (unop_ok o va ta t Ha T)|]. intros v Hv. cbn. auto.
      - (* cast *) cbn [type_expr] in T. destruct (type_expr sigs G e) as [ta|] eqn:Ta; [|discriminate].
        cbn [eval_step]. eapply ok_res_bind; [apply (EV G e ta s Ta S)|]. intros [va s1] [Ha S1]. cbn [fst snd] in *.
        eapply ok_res_bind; [apply (cast_ok t0 va ta t Ha T)|]. intros v Hv. cbn. auto.
      - (* index *) cbn [type_expr] in T.
        destruct (type_expr sigs G e1) as [ta|] eqn:Ta; [|discriminate].
        destruct ta; try discriminate.
        destruct (type_expr sigs G e2) as [ti|] eqn:Ti; [|discriminate].
        destruct (numeric ti) eqn:Ni; [|discriminate]. inversion T; subst.
        cbn [eval_step]. eapply ok_res_bind; [apply (EV G e1 _ s Ta S)|]. intros [va s1] [Ha S1]. cbn [fst snd] in *.
        eapply ok_res_bind; [apply (EV G e2 ti s1 Ti S1)|]. intros [vi s2] [Hi S2]. cbn [fst snd] in *.
        destruct (has_ty_arr va t Ha) as [l [-> Hl]].
        destruct (numeric_index vi ti Hi Ni) as [k ->].
        destruct ((k <? 0)%Z || (Z.of_nat (List.length l) <=? k)%Z) eqn:B; [exact I|].
        apply orb_false_iff in B. destruct B as [B1 B2]. apply Z.ltb_ge in B1. apply Z.leb_gt in B2.
        destruct (nth_has_ty t l (Z.to_nat k) Hl ltac:(lia)) as [v [Hn Hv]]. rewrite Hn. cbn. auto.
      - (* array literal *) rewrite type_expr_arr in T.
        destruct (type_exprs G es) as [ts|] eqn:Te; [|discriminate]. destruct ts as [|t0 ts]; [discriminate|].
        destruct (scalar t0 && forallb (ty_eqb t0) ts) eqn:A; [|discriminate]. inversion T; subst.
        apply andb_true_iff in A. destruct A as [Sc All].
        cbn [eval_step]. eapply ok_res_bind; [apply (evals_sound ev EV G es _ s Te S)|]. intros [vs s1] [Hvs S1]. cbn [fst snd] in *.
        inversion Hvs as [|v ? vs' ? Hv Hr]; subst. cbn.
        split; [|exact S1]. destruct Hv as [Hv Hw]. split; [cbn; now rewrite Hv|].
        cbn [wf]. rewrite Hv, Sc. cbn [andb].
        apply (forall2_all_ty (v :: vs') (t0 :: ts) t0); [constructor; [split; assumption | exact Hr] | exact Sc |].
        cbn. now rewrite ty_eqb_refl.
      - (* call *) now apply call_sound.
      - (* postfix *) cbn [type_expr] in T. destruct (t_lookup x G) as [[t0 [|]]|] eqn:L; try discriminate.
        destruct (integral t0) eqn:It; [|discriminate]. inversion T; subst.
        destruct (lookup_var G s x t false S L) as [v [Hl Hv]]. cbn [eval_step]. rewrite (read_found x v s Hl). cbn [bind].
        destruct Hv as [Hv Hw]. destruct v; cbn in Hv; subst; try discriminate.
        + destruct (write_var G s x TInt false (VInt (wrap32 (if inc then (z + 1)%Z else (z - 1)%Z))) S L ltac:(split; reflexivity))
            as [old [Ho [Hto [Hwr Sn]]]]. rewrite Hwr. cbn. split; [split; reflexivity | exact Sn].
        + unfold long_res. destruct (in64 _); [|exact I]. cbn [bind].
          destruct (write_var G s x TLong false (VLong (if inc then (z + 1)%Z else (z - 1)%Z)) S L ltac:(split; reflexivity))
            as [old [Ho [Hto [Hwr Sn]]]]. rewrite Hwr. cbn. split; [split; reflexivity | exact Sn].
      - (* assignment expression *) cbn [type_expr] in T. destruct (t_lookup x G) as [[t0 [|]]|] eqn:L; try discriminate.
        destruct (type_expr sigs G e) as [ta|] eqn:Ta; [|discriminate].
        destruct (assignable t0 ta) eqn:A; [|discriminate]. inversion T; subst.
        cbn [eval_step]. eapply ok_res_bind; [apply (EV G e t s Ta S)|]. intros [v s1] [Hv S1]. cbn [fst snd] in *.
        destruct (lookup_var G s1 x t0 false S1 L) as [old [Ho Hto]].
        rewrite (write_found x v old s1 Ho). cbn [bind].
        assert (has_ty (widen (type_of old) v) t0) as Hw by (destruct Hto as [-> _]; now apply (has_ty_widen t0 t)).
        cbn. split; [exact Hv|]. destruct S1 as [E Hh]. split; [|exact Hh]. cbn. exact (env_ok_update G _ x t0 false _ E L Hw).
    Qed.

    (* ---------------------------------------------------------------- one step of the statement interpreter *)
    Lemma nonvoid_some o t : nonvoid o = Some t -> o = Some t.
    Proof. destruct o as [[]|]; cbn; intro H; try discriminate; exact H. Qed.

    Definition elems_ok (elt : ty) (l : list value) : Prop :=
      forallb (fun x => scalar_val x && ty_eqb (type_of x) elt) l = true.

    Lemma has_ty_varr elt l : scalar elt = true -> elems_ok elt l -> has_ty (VArr elt l) (TArr elt).
    Proof. intros Sc H. split; [reflexivity|]. cbn. now rewrite Sc, H. Qed.

    Lemma elems_ok_repeat elt n : scalar elt = true -> elems_ok elt (repeat (default_of O elt) n).
    Proof.
      intro Sc. unfold elems_ok. induction n as [|n IH]; cbn; [reflexivity|]. rewrite IH.
      destruct elt; cbn in *; try discriminate; reflexivity.
    Qed.

    Lemma type_exprs_of_forallb G elt es :
      forallb (fun a => match type_expr sigs G a with Some ta => elem_ok elt ta | None => false end) es = true ->
      exists ts, type_exprs G es = Some ts /\ Forall (fun ta => elem_ok elt ta = true) ts.
    Proof.
      induction es as [|a r IH]; cbn; intro H; [exists []; auto|].
      apply andb_true_iff in H. destruct H as [Ha Hr]. destruct (type_expr sigs G a) as [ta|]; [|discriminate].
      destruct (IH Hr) as [ts [E Fa]]. rewrite E. exists (ta :: ts). auto.
    Qed.

    Lemma map_res_elem_conv elt vs ts :
      Forall2 has_ty vs ts -> Forall (fun ta => elem_ok elt ta = true) ts ->
      ok_res (elems_ok elt) (map_res (elem_conv O elt) vs).
    Proof.
      intro H. induction H as [|v t vs ts Hv Hr IH]; intro Fa; cbn [map_res]; [reflexivity|].
      inversion Fa; subst. destruct Hv as [Hv Hw]. pose proof (elem_conv_sound O elt v) as Hc. rewrite Hv in Hc.
      specialize (Hc H1). destruct (elem_conv O elt v) as [w| |]; cbn [bind]; auto; [|contradiction].
      specialize (IH H2). destruct (map_res (elem_conv O elt) vs) as [ws| |]; cbn [bind ok_res] in *; auto.
      unfold elems_ok in *. cbn. destruct Hc as [Hc1 Hc2]. rewrite Hc2, Hc1, ty_eqb_refl. exact IH.
    Qed.

    Lemma assignable_elem_ok elt ta : scalar elt = true -> aset_ok elt ta = true -> elem_ok elt ta = true.
    Proof.
      intros Sc A. unfold aset_ok in A. apply orb_true_iff in A. destruct A as [A|A].
      - unfold assignable in A. apply orb_true_iff in A. destruct A as [A|A].
        + apply ty_eqb_eq in A. subst ta. destruct elt; cbn in *; try discriminate; reflexivity.
        + destruct elt; try discriminate. destruct ta; try discriminate. reflexivity.
      - destruct elt; try discriminate. destruct ta; try discriminate. reflexivity.
    Qed.

    Lemma elems_ok_set elt l k cv :
      elems_ok elt l -> scalar_val cv = true -> type_of cv = elt ->
      elems_ok elt (firstn k l ++ cv :: skipn (S k) l).
    Proof.
      unfold elems_ok. intros H Hs Ht. rewrite forallb_app. cbn. rewrite Hs, Ht, ty_eqb_refl. cbn.
      apply andb_true_iff. split.
      - apply forallb_forall. intros x Hx. apply (proj1 (forallb_forall _ _) H).
        rewrite <- (firstn_skipn k l). apply in_or_app. now left.
      - apply forallb_forall. intros x Hx. apply (proj1 (forallb_forall _ _) H).
        rewrite <- (firstn_skipn (S k) l). apply in_or_app. now right.
    Qed.

    Notation Q ret G := (fun r : ctl (F:=F) * st => st_ok G (snd r) /\ ret_ok ret (fst r)).

    Lemma is_void_eq t : is_void t = true -> t = TVoid.
    Proof. destruct t; cbn; try discriminate; reflexivity. Qed.

    Lemma assign_sound G s x v t ta :
      st_ok G s -> t_lookup x G = Some (t, false) -> has_ty v ta -> assignable t ta = true ->
      ok_res (fun s' => st_ok G s') (write_name cls depth x v s).
    Proof.
      intros S L Hv A. destruct (lookup_var G s x t false S L) as [old [Ho Hto]].
      rewrite (write_found x v old s Ho). cbn.
      destruct S as [E Hh]. split; [|exact Hh]. cbn. apply (env_ok_update G _ x t false _ E L).
      destruct Hto as [-> _]. now apply (has_ty_widen t ta).
    Qed.

    Lemma scoped_sound ret G s c :
      (negb (is_decl c) && match check_stmt sigs ret G c with Some _ => true | None => false end) = true ->
      st_ok G s -> ok_res (Q ret G) (ex s c).
    Proof.
      intros H S. apply andb_true_iff in H. destruct H as [Hd Hc]. apply negb_true_iff in Hd.
      destruct (check_stmt sigs ret G c) as [G1|] eqn:C; [|discriminate].
      rewrite (check_nondecl ret G c G1 Hd C) in C. apply (EX ret G G c s C S).
    Qed.

    Theorem exec_step_sound : ssound (exec_step O cls depth ev ex).
    Proof.
      intros ret G G' c s C S.
      destruct c as [fin t x init | elt x size init | x e | x i e | c a b | c a b | c body | init c step body | e | e | e | ss | e];
        try rewrite check_block in C; cbn [check_stmt] in C.
      - (* scalar declaration *)
        destruct (negb (scalar t) || negb (fresh_name x G)) eqn:B; [discriminate|].
        apply orb_false_iff in B. destruct B as [Sc _]. apply negb_false_iff in Sc.
        destruct init as [a|].
        + destruct (nonvoid (type_expr sigs G a)) as [ta|] eqn:Ta; [|discriminate]. apply nonvoid_some in Ta.
          destruct (assignable t ta) eqn:A; [|discriminate]. inversion C; subst.
          cbn [exec_step]. eapply ok_res_bind; [apply (EV G a ta s Ta S)|]. intros [v s1] [Hv [E1 H1]]. cbn [fst snd] in *.
          cbn. split; [|exact I]. split; [|exact H1]. cbn. apply env_ok_declare; [exact E1 | now apply (has_ty_widen t ta)].
        + destruct fin; [discriminate|]. inversion C; subst. cbn. split; [|exact I]. destruct S as [E Hh].
          split; [|exact Hh]. cbn. apply env_ok_declare; [exact E | now apply has_ty_default].
      - (* array declaration *)
        destruct (negb (scalar elt) || negb (fresh_name x G)) eqn:B; [discriminate|].
        apply orb_false_iff in B. destruct B as [Sc _]. apply negb_false_iff in Sc.
        match type of C with (if ?a && ?b then _ else _) = _ => destruct a eqn:Sz; [|discriminate]; destruct b eqn:In; [|discriminate] end.
        cbn [andb] in C. inversion C; subst. cbn [exec_step].
        (* the size *)
        assert (ok_res (fun r : option Z * st => st_ok G (snd r))
                  (match size with
                   | None => Ok (None, s)
                   | Some a => do (v, s') <- ev s a;
                               match v with
                               | VInt k => if (k <? 0)%Z then Err RNegSize else Ok (Some k, s')
                               | _ => stuck "array size"
                               end
                   end)) as HS.
        { destruct size as [a|]; [|exact S]. destruct (type_expr sigs G a) as [tz|] eqn:Tz; [|discriminate].
          destruct tz; try discriminate.
          eapply ok_res_bind; [apply (EV G a TInt s Tz S)|]. intros [v s1] [[Hv _] S1]. cbn [fst snd] in *.
          destruct v; cbn in Hv; try discriminate. destruct (z <? 0)%Z; [exact I | exact S1]. }
        eapply ok_res_bind; [exact HS|]. intros [sz s1] S1. cbn [fst snd] in S1.
        destruct init as [a|].
        + assert (forall (a0 : expr), (forall es, a0 <> EArr es) ->
                    type_expr sigs G a0 = Some (TArr elt) ->
                    ok_res (Q ret (t_declare x (TArr elt, false) G))
                           (do (v, s2) <- ev s1 a0; Ok (CNormal, with_env s2 (declare x v (s_env s2))))) as Other.
          { intros a0 _ Ta. eapply ok_res_bind; [apply (EV G a0 _ s1 Ta S1)|]. intros [v s2] [Hv [E2 H2]]. cbn [fst snd] in *.
            cbn. split; [|exact I]. split; [|exact H2]. cbn. now apply env_ok_declare. }
          destruct a; try (apply Other; [intros ? ?; discriminate|];
                           destruct (type_expr sigs G _) as [ta|] eqn:Ta in In; [|discriminate];
                           apply ty_eqb_eq in In; subst; exact Ta).
          (* a literal: every element converted by the documented table *)
          destruct (type_exprs_of_forallb G elt es In) as [ts [Te Fa]].
          destruct (match sz with Some k => if (Z.of_nat (List.length es) =? k)%Z then Ok tt else Err RInitLen | None => Ok tt end) as [[]| |] eqn:Len;
            cbn [bind]; try (destruct sz as [k|]; [destruct (Z.of_nat (List.length es) =? k)%Z|]; inversion Len; subst; exact I).
          eapply ok_res_bind; [apply (evals_sound ev EV G es ts s1 Te S1)|]. intros [vs s2] [Hvs [E2 H2]]. cbn [fst snd] in *.
          eapply ok_res_bind; [apply (map_res_elem_conv elt vs ts Hvs Fa)|]. intros cs Hcs.
          cbn. split; [|exact I]. split; [|exact H2]. cbn. apply env_ok_declare; [exact E2 | now apply has_ty_varr].
        + cbn. split; [|exact I]. destruct S1 as [E1 H1]. split; [|exact H1]. cbn.
          apply env_ok_declare; [exact E1|]. apply has_ty_varr; [exact Sc | now apply elems_ok_repeat].
      - (* assignment *)
        destruct (t_lookup x G) as [[t [|]]|] eqn:L; try discriminate.
        destruct (nonvoid (type_expr sigs G e)) as [ta|] eqn:Ta; [|discriminate]. apply nonvoid_some in Ta.
        destruct (assignable t ta) eqn:A; [|discriminate]. inversion C; subst.
        cbn [exec_step]. eapply ok_res_bind; [apply (EV G' e ta s Ta S)|]. intros [v s1] [Hv S1]. cbn [fst snd] in *.
        eapply ok_res_bind; [apply (assign_sound G' s1 x v t ta S1 L Hv A)|]. intros s2 S2. cbn. auto.
      - (* element assignment *)
        destruct (t_lookup x G) as [[t fin]|] eqn:L; [|discriminate]. destruct t; try discriminate.
        destruct fin; [discriminate|].
        destruct (type_expr sigs G i) as [ti|] eqn:Ti; [|discriminate].
        destruct (type_expr sigs G e) as [ta|] eqn:Ta; [|discriminate].
        destruct (integral ti && aset_ok t ta) eqn:B; [|discriminate]. inversion C; subst.
        apply andb_true_iff in B. destruct B as [It A].
        cbn [exec_step].
        destruct (lookup_var G' s x _ false S L) as [arr [Hl Harr]]. rewrite (read_found x arr s Hl). cbn [bind].
        destruct (has_ty_arr arr t Harr) as [l0 [-> Hl0]].
        eapply ok_res_bind; [apply (EV G' i ti s Ti S)|]. intros [vi s1] [Hi S1]. cbn [fst snd] in *.
        assert (numeric ti = true) as Nt by (destruct ti; cbn in *; try discriminate; reflexivity).
        destruct (numeric_index vi ti Hi Nt) as [k ->].
        eapply ok_res_bind; [apply (EV G' e ta s1 Ta S1)|]. intros [v s2] [Hv S2]. cbn [fst snd] in *.
        destruct (lookup_var G' s2 x _ false S2 L) as [arr2 [Hl2 Harr2]]. rewrite (read_found x arr2 s2 Hl2). cbn [bind].
        destruct (has_ty_arr arr2 t Harr2) as [l2 [-> Hl2']].
        destruct ((k <? 0)%Z || (Z.of_nat (List.length l2) <=? k)%Z); [exact I|].
        assert (scalar t = true) as Sc.
        { destruct Harr2 as [_ W]. cbn in W. apply andb_true_iff in W. tauto. }
        pose proof (elem_conv_sound O t v) as Hc. destruct Hv as [Hvt Hvw]. rewrite Hvt in Hc.
        specialize (Hc (assignable_elem_ok t ta Sc A)).
        destruct (elem_conv O t v) as [cv| |]; cbn [bind]; auto; [|contradiction].
        destruct Hc as [Hc1 Hc2].
        assert (has_ty (VArr t (firstn (Z.to_nat k) l2 ++ cv :: skipn (Datatypes.S (Z.to_nat k)) l2)) (TArr t)) as Hnew
          by (apply has_ty_varr; [exact Sc | now apply elems_ok_set]).
        assert (assignable (TArr t) (TArr t) = true) as AA by (unfold assignable; now rewrite ty_eqb_refl).
        eapply ok_res_bind; [apply (assign_sound G' s2 x _ (TArr t) (TArr t) S2 L Hnew AA)|]. intros s3 S3. cbn. auto.
      - (* if *)
        destruct (type_expr sigs G c) as [tc|] eqn:Tc; [|discriminate].
        match type of C with (if ?b && ?p && ?q then _ else _) = _ => destruct b eqn:Bl; [|discriminate]; destruct p eqn:Pa; [|discriminate]; destruct q eqn:Pb; [|discriminate] end.
        inversion C; subst. cbn [exec_step].
        eapply ok_res_bind; [apply (EV G' c tc s Tc S)|]. intros [v s1] [Hv S1]. cbn [fst snd] in *.
        destruct (truthy O v).
        + now apply (scoped_sound ret G' s1 a).
        + destruct b as [b'|]; [now apply (scoped_sound ret G' s1 b') | cbn; auto].
      - (* ternary statement *)
        destruct (type_expr sigs G c) as [tc|] eqn:Tc; [|discriminate].
        match type of C with (if ?b && ?p && ?q then _ else _) = _ => destruct b eqn:Bl; [|discriminate]; destruct p eqn:Pa; [|discriminate]; destruct q eqn:Pb; [|discriminate] end.
        inversion C; subst. cbn [exec_step].
        eapply ok_res_bind; [apply (EV G' c tc s Tc S)|]. intros [v s1] [Hv S1]. cbn [fst snd] in *.
        destruct (truthy O v); [now apply (scoped_sound ret G' s1 a) | now apply (scoped_sound ret G' s1 b)].
      - (* while *)
        pose proof C as Cw.
        destruct (type_expr sigs G c) as [tc|] eqn:Tc; [|discriminate].
        match type of C with (if ?b && ?p then _ else _) = _ => destruct b eqn:Bl; [|discriminate]; destruct p eqn:Pa; [|discriminate] end.
        inversion C; subst. cbn [exec_step].
        eapply ok_res_bind; [apply (EV G' c tc s Tc S)|]. intros [v s1] [Hv S1]. cbn [fst snd] in *.
        destruct (truthy O v); [|cbn; auto].
        eapply ok_res_bind; [apply (scoped_sound ret G' s1 body Pa S1)|]. intros [k s2] [S2 R2]. cbn [fst snd] in *.
        destruct k; [|cbn; auto].
        assert (check_stmt sigs ret G' (SWhile c body) = Some G') as Cw'.
        { cbn [check_stmt]. rewrite Tc, Bl, Pa. reflexivity. }
        apply (EX ret G' G' (SWhile c body) s2 Cw' S2).
      - (* for *)
        destruct (match init with Some i => check_stmt sigs ret ([] :: G) i | None => Some ([] :: G) end) as [G1|] eqn:Ci; [|discriminate].
        match type of C with (if ?a && ?b then _ else _) = _ => destruct a eqn:Co; [|discriminate]; destruct b eqn:Bs; [|discriminate] end.
        inversion C; subst. cbn [exec_step].
        assert (exists ts1, G1 = ts1 :: G') as [ts1 ->].
        { destruct init as [i|]; [eapply check_stmt_tail; eauto | inversion Ci; eauto]. }
        assert (st_ok ([] :: G') (push s)) as S0 by (destruct S as [E Hh]; split; [apply env_ok_push; exact E | exact Hh]).
        assert (ok_res (fun r : ctl (F:=F) * st => st_ok (ts1 :: G') (snd r))
                       (match init with Some i => ex (push s) i | None => Ok (CNormal, push s) end)) as HI.
        { destruct init as [i|]; [|inversion Ci; subst; exact S0].
          eapply ok_res_mono; [apply (EX ret _ _ i (push s) Ci S0)|]. intros r [A _]. exact A. }
        eapply ok_res_bind; [exact HI|]. intros [k0 s1] S1. cbn [fst snd] in S1.
        (* the desugared loop is itself a checked while *)
        set (c' := match c with Some c0 => c0 | None => ELit (LBool true) end).
        set (blk := SBlock (body :: match step with Some st' => [st'] | None => [] end)).
        assert (check_stmt sigs ret (ts1 :: G') (SWhile c' blk) = Some (ts1 :: G')) as Cw.
        { cbn [check_stmt].
          assert (exists tc, type_expr sigs (ts1 :: G') c' = Some tc /\ boolish tc = true) as [tc [Tc Bl]].
          { unfold c'. destruct c as [c0|]; [|exists TBool; auto].
            destruct (type_expr sigs (ts1 :: G') c0) as [tc|]; [|discriminate]. eauto. }
          rewrite Tc, Bl. cbn [andb negb is_decl]. unfold blk. rewrite check_block. cbn [check_stmts].
          destruct (check_stmt sigs ret ([] :: ts1 :: G') body) as [G2|]; [|discriminate].
          destruct step as [st'|]; cbn [check_stmts].
          - destruct (check_stmt sigs ret G2 st'); [reflexivity | discriminate].
          - reflexivity. }
        eapply ok_res_bind; [apply (EX ret _ _ (SWhile c' blk) s1 Cw S1)|]. intros [k s2] [S2 R2]. cbn [fst snd] in *.
        assert (st_ok G' (pop s2)) as Sp by (destruct S2 as [E Hh]; split; [eapply env_ok_pop; exact E | exact Hh]).
        rewrite (post_noop ex k (pop s2) (proj2 Sp)). cbn. auto.
      - (* echo *)
        destruct (nonvoid (type_expr sigs G e)) as [ta|] eqn:Ta; [|discriminate]. apply nonvoid_some in Ta. inversion C; subst.
        cbn [exec_step]. eapply ok_res_bind; [apply (EV G' e ta s Ta S)|]. intros [v s1] [Hv S1]. cbn. split; [now apply st_ok_out | exact I].
      - (* return *)
        destruct e as [a|].
        + destruct (is_void ret) eqn:Vd; [discriminate|].
          destruct (nonvoid (type_expr sigs G a)) as [ta|] eqn:Ta; [|discriminate]. apply nonvoid_some in Ta.
          destruct (assignable ret ta) eqn:A; [|discriminate]. inversion C; subst.
          cbn [exec_step]. eapply ok_res_bind; [apply (EV G' a ta s Ta S)|]. intros [v s1] [Hv S1]. cbn. split; [exact S1 | eauto].
        + destruct (is_void ret) eqn:Vd; [|discriminate]. inversion C; subst. cbn. split; [exact S|].
          apply is_void_eq in Vd. subst. exists TVoid. split; [reflexivity | split; reflexivity].
      - (* expression statement *)
        destruct (type_expr sigs G e) as [ta|] eqn:Ta; [|discriminate]. inversion C; subst.
        cbn [exec_step]. eapply ok_res_bind; [apply (EV G' e ta s Ta S)|]. intros [v s1] [Hv S1]. cbn. auto.
      - (* block *)
        destruct (check_stmts sigs ret ([] :: G) ss) as [Gb|] eqn:Cb; [|discriminate]. inversion C; subst.
        cbn [exec_step].
        assert (st_ok ([] :: G') (push s)) as S0 by (destruct S as [E Hh]; split; [apply env_ok_push; exact E | exact Hh]).
        eapply ok_res_bind; [apply (exec_list_sound ex EX ret ss [] G' Gb (push s) Cb S0)|].
        intros [k s1] [[ts' S1] [_ R1]]. cbn [fst snd] in *.
        assert (st_ok G' (pop s1)) as Sp by (destruct S1 as [E Hh]; split; [eapply env_ok_pop; exact E | exact Hh]).
        rewrite (post_noop ex k (pop s1) (proj2 Sp)). cbn. auto.
      - discriminate.
    Qed.

    Lemma returns_block ss : returns (SBlock ss) = existsb returns ss.
    Proof.
      cbn [returns]. induction ss as [|a r IH]; cbn; [reflexivity|]. now rewrite IH.
    Qed.

    Theorem exec_step_returns : rsound (exec_step O cls depth ev ex).
    Proof.
      intros c s k s' R H.
      destruct c as [fin t x init | elt x size init | x e | x i e | c a b | c a b | c body | init c step body | e | e | e | ss | e];
        try rewrite returns_block in R; cbn [returns] in R; try discriminate; cbn [exec_step] in H.
      - destruct b as [b'|]; [|discriminate]. apply andb_true_iff in R. destruct R as [Ra Rb].
        destruct (ev s c) as [[v s1]| |]; cbn [bind] in H; try discriminate.
        destruct (truthy O v); [exact (RX a s1 k s' Ra H) | exact (RX b' s1 k s' Rb H)].
      - apply andb_true_iff in R. destruct R as [Ra Rb].
        destruct (ev s c) as [[v s1]| |]; cbn [bind] in H; try discriminate.
        destruct (truthy O v); [exact (RX a s1 k s' Ra H) | exact (RX b s1 k s' Rb H)].
      - destruct e as [a|].
        + destruct (ev s a) as [[v s1]| |]; cbn [bind] in H; try discriminate. inversion H; eauto.
        + inversion H; eauto.
      - unfold execs in H.
        destruct (exec_list ex (post_stmt cls depth ex) (push s) ss) as [[k1 s1]| |] eqn:X; cbn [bind] in H; try discriminate.
        destruct (post_stmt cls depth ex k1 (pop s1)); cbn [bind] in H; try discriminate. inversion H; subst.
        eapply exec_list_returns; eauto.
    Qed.
  End StepE.

  (* ---------------------------------------------------------------- all fuel *)
  Theorem interpreter_sound n :
    esound (eval O fns cls depth n) /\ ssound (exec O fns cls depth n) /\ rsound (exec O fns cls depth n).
  Proof.
    induction n as [|n [IE [IS IR]]].
    - split; [|split].
      + intros G e t s _ _. exact I.
      + intros ret G G' c s _ _. exact I.
      + intros c s k s' _ H. discriminate.
    - split; [|split].
      + intros G e t s. rewrite eval_S. now apply eval_step_sound.
      + intros ret G G' c s. rewrite exec_S. now apply exec_step_sound.
      + intros c s k s'. rewrite exec_S. now apply exec_step_returns.
  Qed.

End Sound.

(* ---------------------------------------------------------------- whole programs *)
Section Programs.
  Context {F : Type} (O : fops F).

  Lemma sig_fn_ok p : forallb (check_fn (sig_of p)) (p_fns p) = true ->
    forall f ps r, sig_of p f = Some (ps, r) ->
      exists fd, find_fn p f = Some fd /\ map fst (fn_params fd) = ps /\ fn_ret fd = r /\ check_fn (sig_of p) fd = true.
  Proof.
    intros H f ps r Hs. unfold sig_of in Hs. unfold find_fn.
    destruct (find (fun d => String.eqb (fn_name d) f) (p_fns p)) as [fd|] eqn:E; [|discriminate].
    inversion Hs; subst. exists fd. split; [reflexivity|]. split; [reflexivity|]. split; [reflexivity|].
    apply find_some in E. destruct E as [Hin _]. exact (proj1 (forallb_forall _ _) H fd Hin).
  Qed.

  (* A class-free program accepted by the reference checker never gets stuck: whatever the fuel, the
     run finishes, diverges (out of fuel), or ends with a documented runtime error / a result the
     documentation does not fix. *)
  Theorem checked_programs_never_get_stuck p fuel :
    check_program p = true -> p_classes p = [] ->
    forall why, snd (run O fuel p) <> Failed (RStuck why).
  Proof.
    intros C Hc why. unfold check_program in C.
    apply andb_true_iff in C. destruct C as [C Hm]. apply andb_true_iff in C. destruct C as [_ Hf].
    unfold run, init_statics. rewrite Hc. cbn [fold_left bind List.length].
    destruct (sig_of p "main") as [[ps r]|] eqn:Sm; [|discriminate].
    destruct ps; [|discriminate]. destruct r; try discriminate.
    pose proof (interpreter_sound O (sig_of p) (find_fn p) (find_class p) 0 (sig_fn_ok p Hf) fuel) as [IE _].
    assert (type_expr (sig_of p) [] (ECall "main" []) = Some TVoid) as T.
    { rewrite type_expr_call. rewrite Sm. reflexivity. }
    assert (st_ok [] (init_st (F:=F))) as S0 by (split; [exact I | reflexivity]).
    pose proof (IE [] (ECall "main" []) TVoid init_st T S0) as H.
    destruct (eval O (find_fn p) (find_class p) 0 fuel init_st (ECall "main" [])) as [[v s]|e|]; cbn in *; try discriminate.
    intro X. inversion X; subst. exact H.
  Qed.
End Programs.
