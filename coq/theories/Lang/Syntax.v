(* Abstract syntax, values and scalar operations of the documented classical core of Bloch
   (docs/language/language-guide.md, docs/casting.md, docs/language/semantics.md).
   Definitions only.  The float type is abstract: every function takes the record [fops F]; the
   extracted driver instantiates it with IEEE doubles, the theorems hold for any instance. *)
From Coq Require Import List ZArith String Ascii Bool.
Import ListNotations.
Local Open Scope Z_scope.

Inductive ty := TInt | TLong | TFloat | TBit | TBool | TChar | TStr | TVoid | TArr (t : ty) | TClass (c : string).

Fixpoint ty_eqb (a b : ty) : bool :=
  match a, b with
  | TInt, TInt | TLong, TLong | TFloat, TFloat | TBit, TBit | TBool, TBool
  | TChar, TChar | TStr, TStr | TVoid, TVoid => true
  | TArr x, TArr y => ty_eqb x y
  | TClass x, TClass y => String.eqb x y
  | _, _ => false
  end.

Record fops (F : Type) := mkF {
  fadd : F -> F -> F; fsub : F -> F -> F; fmul : F -> F -> F; fdiv : F -> F -> F;
  fneg : F -> F;
  feqb : F -> F -> bool; fltb : F -> F -> bool; fleb : F -> F -> bool;
  f_of_Z : Z -> F;                 (* static_cast<double>(integer) *)
  f_trunc : F -> Z;                (* static_cast<integer>(double): toward zero *)
  f_show : F -> string;            (* echo of a float scalar: whole numbers with one decimal *)
  f_show_elem : F -> string        (* a float inside an echoed array: default stream format *)
}.
Arguments fadd {F}. Arguments fsub {F}. Arguments fmul {F}. Arguments fdiv {F}. Arguments fneg {F}.
Arguments feqb {F}. Arguments fltb {F}. Arguments fleb {F}. Arguments f_of_Z {F}.
Arguments f_trunc {F}. Arguments f_show {F}. Arguments f_show_elem {F}.

Inductive value (F : Type) :=
| VInt (z : Z) | VLong (z : Z) | VFloat (f : F) | VBit (b : bool) | VBool (b : bool)
| VChar (c : ascii) | VStr (s : string) | VArr (t : ty) (l : list (value F)) | VVoid
| VObj (l : option nat) (stamp : string).   (* reference (None = null) carrying the static class it was last stored under *)
Arguments VInt {F}. Arguments VLong {F}. Arguments VFloat {F}. Arguments VBit {F}.
Arguments VBool {F}. Arguments VChar {F}. Arguments VStr {F}. Arguments VArr {F}. Arguments VVoid {F}.
Arguments VObj {F}.

Inductive lit :=
| LInt (z : Z) | LLong (z : Z)
| LFloat (num : Z) (pow : nat)       (* the dyadic literal num / 2^pow, written in decimal with an f suffix *)
| LBit (b : bool) | LBool (b : bool) | LChar (c : ascii) | LStr (s : string).

Inductive binop := OAdd | OSub | OMul | ODiv | OMod | OLt | OLe | OGt | OGe | OEq | ONe | OAnd | OOr | OBAnd | OBOr | OBXor.
Inductive unop := UNeg | UNot | UBNot.

Inductive expr :=
| ELit (l : lit)
| EVar (x : string)
| EBin (o : binop) (a b : expr)
| EUn (o : unop) (a : expr)
| ECast (t : ty) (a : expr)
| EIndex (a i : expr)
| EArr (es : list expr)
| ECall (f : string) (args : list expr)
| EPost (x : string) (inc : bool)
| EAssign (x : string) (a : expr)
(* object layer *)
| ENew (c : string) (args : list expr)
| EField (a : expr) (f : string)
| EThis
| ENull
| EMCall (a : expr) (m : string) (args : list expr)        (* a.m(args): overload by static types, virtual dispatch *)
| ESuperCall (m : string) (args : list expr)               (* super.m(args) *)
| ESCall (c m : string) (args : list expr)                 (* C.m(args) on a static method *)
| ESField (c f : string)                                   (* C.f *)
| EFieldSet (a : expr) (f : string) (v : expr)             (* a.f = v *)
| ESFieldSet (c f : string) (v : expr).                    (* C.f = v *)

Inductive stmt :=
| SDecl (fin : bool) (t : ty) (x : string) (init : option expr)
| SDeclArr (elt : ty) (x : string) (size : option expr) (init : option expr)
| SAssign (x : string) (e : expr)
| SArrAssign (x : string) (i e : expr)
| SIf (c : expr) (s1 : stmt) (s2 : option stmt)
| STern (c : expr) (s1 s2 : stmt)
| SWhile (c : expr) (body : stmt)
| SFor (init : option stmt) (c : option expr) (step : option stmt) (body : stmt)
| SEcho (e : expr)
| SReturn (e : option expr)
| SExpr (e : expr)
| SBlock (ss : list stmt)
| SDestroy (e : expr).

Record fdecl := mkFn { fn_name : string; fn_params : list (ty * string); fn_ret : ty; fn_body : list stmt }.
Inductive vis := VPub | VProt | VPriv.
Inductive ckind := KNormal | KAbstract | KStatic.
Record field := mkField { fd_static : bool; fd_final : bool; fd_ty : ty; fd_name : string; fd_init : option expr; fd_vis : vis }.
Record ctor := mkCtor { ct_params : list (ty * string); ct_super : option (list expr); ct_body : list stmt; ct_default : bool;
                        ct_vis : vis }.
Record meth := mkMeth { md_name : string; md_params : list (ty * string); md_ret : ty; md_body : list stmt;
                        md_static : bool; md_virtual : bool;        (* md_virtual: declared virtual or override *)
                        md_vis : vis }.
Record cdecl := mkClass { cd_name : string; cd_base : option string; cd_fields : list field; cd_ctors : list ctor;
                          cd_meths : list meth; cd_dtor : option (list stmt); cd_kind : ckind }.
Record program := mkProg { p_classes : list cdecl; p_fns : list fdecl }.

(* runtime errors the documentation names *)
Inductive rerr :=
| RDivZero | RModZero
| RIndex (i : Z) (len : Z)
| RBitLen
| RNegSize
| RInitLen
| RNull                      (* member access or call on null *)
| RUndoc (why : string)    (* outside the range where the documentation fixes the result (long overflow,
                               float-to-integer conversion out of range) *)
| RStuck (why : string).     (* no documented behaviour: an ill-typed operation; excluded by typing *)

Inductive res (A : Type) := Ok (a : A) | Err (e : rerr) | OutOfFuel.
Arguments Ok {A}. Arguments Err {A}. Arguments OutOfFuel {A}.

Definition bind {A B} (r : res A) (k : A -> res B) : res B :=
  match r with Ok a => k a | Err e => Err e | OutOfFuel => OutOfFuel end.
Notation "'do' x <- r ; k" := (bind r (fun x => k)) (at level 200, x pattern, r at level 100, k at level 200).

(* two's-complement wrap-around of the machine integers *)
Definition wrap32 (z : Z) : Z := (z + 2147483648) mod 4294967296 - 2147483648.
Definition wrap64 (z : Z) : Z := (z + 9223372036854775808) mod 18446744073709551616 - 9223372036854775808.
Definition in32 (z : Z) : bool := (-2147483648 <=? z) && (z <=? 2147483647).
Definition in64 (z : Z) : bool := (-9223372036854775808 <=? z) && (z <=? 9223372036854775807).
