(* The documented static rules for the classical core, as an executable checker:
   operator typing with int -> long -> float promotion, '/' always float, '%' integer only,
   boolean/bit logic, bit/bit[] bitwise operators, casts among int/long/float/bit, assignment
   compatibility (same type or int widening to long), final variables, void misuse, return rules,
   use before declaration, redeclaration in an active scope.  Definitions only. *)
From Coq Require Import List ZArith String Ascii Bool.
From Bloch Require Import Lang.Syntax.
Import ListNotations.

Definition numeric (t : ty) : bool := match t with TInt | TLong | TFloat => true | _ => false end.
Definition integral (t : ty) : bool := match t with TInt | TLong => true | _ => false end.
Definition boolish (t : ty) : bool := match t with TBool | TBit => true | _ => false end.
Definition castable (t : ty) : bool := match t with TInt | TLong | TFloat | TBit => true | _ => false end.
Definition scalar (t : ty) : bool := match t with TArr _ | TVoid | TClass _ => false | _ => true end.
Definition is_tstr (t : ty) : bool := match t with TStr => true | _ => false end.
Definition is_void (t : ty) : bool := match t with TVoid => true | _ => false end.

Definition promote (a b : ty) : ty :=
  match a, b with
  | TFloat, _ | _, TFloat => TFloat
  | TLong, _ | _, TLong => TLong
  | _, _ => TInt
  end.

Definition bin_ty (o : binop) (a b : ty) : option ty :=
  match o with
  | OAdd =>
      if is_tstr a || is_tstr b then (if is_void a || is_void b then None else Some TStr)
      else if numeric a && numeric b then Some (promote a b) else None
  | OSub | OMul => if numeric a && numeric b then Some (promote a b) else None
  | ODiv => if numeric a && numeric b then Some TFloat else None
  | OMod => if integral a && integral b then Some (promote a b) else None
  | OLt | OLe | OGt | OGe => if numeric a && numeric b then Some TBool else None
  | OEq | ONe =>
      if (numeric a && numeric b) || (boolish a && boolish b) then Some TBool
      else match a, b with TStr, TStr | TChar, TChar => Some TBool | _, _ => None end
  | OAnd | OOr => if boolish a && boolish b then Some TBool else None
  | OBAnd | OBOr | OBXor =>
      match a, b with
      | TBit, TBit => Some TBit
      | TArr TBit, TArr TBit | TArr TBit, TBit | TBit, TArr TBit => Some (TArr TBit)
      | _, _ => None
      end
  end.

Definition un_ty (o : unop) (a : ty) : option ty :=
  match o, a with
  | UNeg, TInt => Some TInt | UNeg, TLong => Some TLong | UNeg, TFloat => Some TFloat
  | UNot, TBool | UNot, TBit => Some TBool
  | UBNot, TBit => Some TBit
  | UBNot, TArr TBit => Some (TArr TBit)
  | _, _ => None
  end.

Definition cast_ty (t a : ty) : option ty := if castable t && castable a then Some t else None.

(* a value of type [s] may be stored where [t] is declared *)
Definition assignable (t s : ty) : bool :=
  ty_eqb t s || match t, s with TLong, TInt => true | _, _ => false end.

(* what an element assignment a[i] = e accepts: the declared element type, int into long[], and a bit into int[]
   (the documentation only says "checks the value type"; this is what the analyser accepts) *)
Definition aset_ok (elt s : ty) : bool :=
  assignable elt s || match elt, s with TInt, TBit => true | _, _ => false end.

(* element conversions the documentation lists for array literals *)
Definition elem_ok (elt s : ty) : bool :=
  match elt, s with
  | TInt, TInt | TInt, TBit | TInt, TFloat => true
  | TLong, TLong | TLong, TInt => true
  | TFloat, TFloat | TFloat, TInt | TFloat, TBit => true
  | TBit, TBit | TBool, TBool | TStr, TStr | TChar, TChar => true
  | _, _ => false
  end.

Definition lit_ty (l : lit) : ty :=
  match l with
  | LInt _ => TInt | LLong _ => TLong | LFloat _ _ => TFloat | LBit _ => TBit | LBool _ => TBool
  | LChar _ => TChar | LStr _ => TStr
  end.

(* typing environment: scopes innermost first; each name has a type and a final flag *)
Definition tscope := list (string * (ty * bool)).
Definition tenv := list tscope.

Fixpoint ts_find (x : string) (s : tscope) : option (ty * bool) :=
  match s with
  | [] => None
  | (y, v) :: r => if String.eqb x y then Some v else ts_find x r
  end.
Fixpoint t_lookup (x : string) (e : tenv) : option (ty * bool) :=
  match e with
  | [] => None
  | s :: r => match ts_find x s with Some v => Some v | None => t_lookup x r end
  end.
Definition t_declare (x : string) (v : ty * bool) (e : tenv) : tenv :=
  match e with [] => [[(x, v)]] | s :: r => ((x, v) :: s) :: r end.

Definition is_decl (c : stmt) : bool := match c with SDecl _ _ _ _ | SDeclArr _ _ _ _ => true | _ => false end.

Section Check.
  Variable sigs : string -> option (list ty * ty).      (* parameter types, return type *)

  Fixpoint all2 {A B} (f : A -> B -> bool) (l : list A) (m : list B) : bool :=
    match l, m with
    | [], [] => true
    | a :: l', b :: m' => f a b && all2 f l' m'
    | _, _ => false
    end.

  Fixpoint type_expr (G : tenv) (e : expr) {struct e} : option ty :=
    let types := fix types (es : list expr) : option (list ty) :=
      match es with
      | [] => Some []
      | a :: r => match type_expr G a, types r with Some t, Some ts => Some (t :: ts) | _, _ => None end
      end in
    match e with
    | ELit l => Some (lit_ty l)
    | EVar x => match t_lookup x G with Some (t, _) => Some t | None => None end
    | EBin o a b =>
        match type_expr G a, type_expr G b with Some ta, Some tb => bin_ty o ta tb | _, _ => None end
    | EUn o a => match type_expr G a with Some ta => un_ty o ta | None => None end
    | ECast t a => match type_expr G a with Some ta => cast_ty t ta | None => None end
    | EIndex a i =>
        match type_expr G a, type_expr G i with
        | Some (TArr t), Some ti => if numeric ti then Some t else None      (* "index must be numeric" *)
        | _, _ => None
        end
    | EArr es =>
        match types es with
        | Some (t :: ts) => if scalar t && forallb (ty_eqb t) ts then Some (TArr t) else None
        | _ => None
        end
    | ECall f args =>
        match sigs f, types args with
        | Some (ps, r), Some ts => if all2 assignable ps ts then Some r else None
        | _, _ => None
        end
    | EPost x _ =>
        match t_lookup x G with
        | Some (t, false) => if integral t then Some t else None
        | _ => None
        end
    | EAssign x a =>
        match t_lookup x G, type_expr G a with
        | Some (t, false), Some ta => if assignable t ta then Some ta else None
        | _, _ => None
        end
    | _ => None        (* the object layer is checked by ClassTyping.v *)
    end.

  Definition nonvoid (o : option ty) : option ty :=
    match o with Some TVoid => None | x => x end.

  Definition fresh_name (x : string) (G : tenv) : bool :=
    match t_lookup x G with None => true | Some _ => false end.

  (* check_stmt returns the environment after the statement (declarations extend it) *)
  Fixpoint check_stmt (ret : ty) (G : tenv) (c : stmt) {struct c} : option tenv :=
    let checks := fix checks (G : tenv) (ss : list stmt) : option tenv :=
      match ss with
      | [] => Some G
      | a :: r => match check_stmt ret G a with Some G' => checks G' r | None => None end
      end in
    (* a branch or loop body is checked where it stands; a bare declaration cannot be one (its scope would be the
       enclosing one) - blocks bring their own scope *)
    let scoped := fun (c : stmt) => negb (is_decl c) && match check_stmt ret G c with Some _ => true | None => false end in
    match c with
    | SDecl fin t x init =>
        if negb (scalar t) || negb (fresh_name x G) then None else
        match init with
        | None => if fin then None else Some (t_declare x (t, fin) G)
        | Some a => match nonvoid (type_expr G a) with
                    | Some ta => if assignable t ta then Some (t_declare x (t, fin) G) else None
                    | None => None
                    end
        end
    | SDeclArr elt x size init =>
        if negb (scalar elt) || negb (fresh_name x G) then None else
        let size_ok := match size with
                       | None => true
                       | Some a => match type_expr G a with Some TInt => true | _ => false end
                       end in
        let init_ok := match init with
                       | None => true
                       | Some (EArr es) =>
                           forallb (fun a => match type_expr G a with Some ta => elem_ok elt ta | None => false end) es
                       | Some a => match type_expr G a with Some ta => ty_eqb ta (TArr elt) | None => false end
                       end in
        if size_ok && init_ok then Some (t_declare x (TArr elt, false) G) else None
    | SAssign x a =>
        match t_lookup x G, nonvoid (type_expr G a) with
        | Some (t, false), Some ta => if assignable t ta then Some G else None
        | _, _ => None
        end
    | SArrAssign x i a =>
        match t_lookup x G, type_expr G i, type_expr G a with
        | Some (TArr elt, false), Some ti, Some ta =>
            if integral ti && aset_ok elt ta then Some G else None
        | _, _, _ => None
        end
    | SIf c a b =>
        match type_expr G c with
        | Some tc => if boolish tc && scoped a && match b with Some b' => scoped b' | None => true end
                     then Some G else None
        | None => None
        end
    | STern c a b =>
        match type_expr G c with
        | Some tc => if boolish tc && scoped a && scoped b then Some G else None
        | None => None
        end
    | SWhile c body =>
        match type_expr G c with
        | Some tc => if boolish tc && scoped body then Some G else None
        | None => None
        end
    | SFor init c step body =>
        let G0 := [] :: G in
        match (match init with Some i => check_stmt ret G0 i | None => Some G0 end) with
        | Some G1 =>
            let c_ok := match c with
                        | Some c' => match type_expr G1 c' with Some tc => boolish tc | None => false end
                        | None => true
                        end in
            (* body and step share the scope of one iteration: { body; step; } *)
            let bs_ok := match check_stmt ret ([] :: G1) body with
                         | Some G2 => match step with
                                      | Some s' => match check_stmt ret G2 s' with Some _ => true | None => false end
                                      | None => true
                                      end
                         | None => false
                         end in
            if c_ok && bs_ok then Some G else None
        | None => None
        end
    | SEcho a => match nonvoid (type_expr G a) with Some _ => Some G | None => None end
    | SReturn None => if is_void ret then Some G else None
    | SReturn (Some a) =>
        if is_void ret then None else
        match nonvoid (type_expr G a) with
        | Some ta => if assignable ret ta then Some G else None
        | None => None
        end
    | SExpr a => match type_expr G a with Some _ => Some G | None => None end
    | SBlock ss => match checks ([] :: G) ss with Some _ => Some G | None => None end
    | SDestroy _ => None
    end.

  Fixpoint check_stmts (ret : ty) (G : tenv) (ss : list stmt) : option tenv :=
    match ss with
    | [] => Some G
    | a :: r => match check_stmt ret G a with Some G' => check_stmts ret G' r | None => None end
    end.

  (* every path through the statement list ends in a return *)
  Fixpoint returns (c : stmt) : bool :=
    let anyret := fix anyret (ss : list stmt) : bool :=
      match ss with [] => false | a :: r => returns a || anyret r end in
    match c with
    | SReturn _ => true
    | SIf _ a (Some b) => returns a && returns b
    | STern _ a b => returns a && returns b
    | SBlock ss => anyret ss
    | _ => false
    end.

  Definition params_env (ps : list (ty * string)) : tenv :=
    [map (fun p => (snd p, (fst p, false))) ps].

  Fixpoint nodup_names (l : list string) : bool :=
    match l with
    | [] => true
    | x :: r => negb (existsb (String.eqb x) r) && nodup_names r
    end.

  Definition check_fn (f : fdecl) : bool :=
    nodup_names (map snd (fn_params f)) &&
    forallb (fun p => negb (is_void (fst p))) (fn_params f) &&
    match check_stmts (fn_ret f) (params_env (fn_params f)) (fn_body f) with
    | Some _ => is_void (fn_ret f) || existsb returns (fn_body f)
    | None => false
    end.
End Check.

Definition sig_of (p : program) (f : string) : option (list ty * ty) :=
  match find (fun d => String.eqb (fn_name d) f) (p_fns p) with
  | Some d => Some (map fst (fn_params d), fn_ret d)
  | None => None
  end.

Definition check_program (p : program) : bool :=
  nodup_names (map fn_name (p_fns p)) &&
  forallb (check_fn (sig_of p)) (p_fns p) &&
  match sig_of p "main" with Some ([], TVoid) => true | _ => false end.
