(* Executable model of src/bloch/compiler/lexer/lexer.cpp (repaired position tracking).
   Definitions only. *)
From Coq Require Import List Arith Ascii String Bool.
Import ListNotations.
Local Open Scope char_scope.
Local Open Scope nat_scope.

Definition code (c : ascii) : nat := nat_of_ascii c.
Definition is_space (c : ascii) : bool :=
  let n := code c in (Nat.eqb n 32 || ((9 <=? n) && (n <=? 13)))%bool.      (* std::isspace, "C" locale *)
Definition is_digit (c : ascii) : bool := let n := code c in (48 <=? n) && (n <=? 57).
Definition is_alpha (c : ascii) : bool :=
  let n := code c in ((65 <=? n) && (n <=? 90)) || ((97 <=? n) && (n <=? 122)).
Definition is_ident_start (c : ascii) : bool := is_alpha c || Ascii.eqb c "_".
Definition is_ident_char (c : ascii) : bool := is_alpha c || is_digit c || Ascii.eqb c "_".
Definition is_nl (c : ascii) : bool := Nat.eqb (code c) 10.

Fixpoint span (P : ascii -> bool) (s : list ascii) : list ascii * list ascii :=
  match s with
  | c :: r => if P c then let (a, b) := span P r in (c :: a, b) else ([], s)
  | [] => ([], [])
  end.

(* position after reading one more character *)
Definition adv1 (p : nat * nat) (c : ascii) : nat * nat :=
  if is_nl c then (S (fst p), 1) else (fst p, S (snd p)).
Definition adv_pos (s : list ascii) (p : nat * nat) : nat * nat := fold_left adv1 s p.

(* skipWhitespace / skipComment: returns (trivia, rest, position) *)
Fixpoint skip (in_comment : bool) (s : list ascii) (p : nat * nat) : list ascii * list ascii * (nat * nat) :=
  match s with
  | [] => ([], [], p)
  | c :: r =>
    if in_comment then
      if is_nl c then let '(t, r', p') := skip false r (adv1 p c) in (c :: t, r', p')
      else let '(t, r', p') := skip true r (fst p, S (snd p)) in (c :: t, r', p')
    else if is_space c then
      let '(t, r', p') := skip false r (adv1 p c) in (c :: t, r', p')
    else if Ascii.eqb c "/" then
      match r with
      | c2 :: r2 => if Ascii.eqb c2 "/" then
                      let '(t, r', p') := skip true r2 (fst p, S (S (snd p))) in (c :: c2 :: t, r', p')
                    else ([], s, p)
      | [] => ([], s, p)
      end
    else ([], s, p)
  end.

Local Open Scope string_scope.
Local Open Scope nat_scope.
Local Open Scope list_scope.
Definition keywords : list (string * string) :=
  [("null","Null");("int","Int");("long","Long");("float","Float");("string","String");("char","Char");
   ("qubit","Qubit");("bit","Bit");("boolean","Boolean");("true","True");("false","False");("void","Void");
   ("function","Function");("return","Return");("if","If");("else","Else");("for","For");("while","While");
   ("measure","Measure");("final","Final");("reset","Reset");("default","Default");("quantum","Quantum");
   ("tracked","Tracked");("shots","Shots");("class","Class");("public","Public");("private","Private");
   ("protected","Protected");("static","Static");("extends","Extends");("abstract","Abstract");("virtual","Virtual");
   ("override","Override");("super","Super");("this","This");("import","Import");("package","Package");("new","New");
   ("constructor","Constructor");("destructor","Destructor");("destroy","Destroy");("echo","Echo")].

Fixpoint assoc (k : string) (l : list (string * string)) : option string :=
  match l with
  | [] => None
  | (a, b) :: r => if String.eqb a k then Some b else assoc k r
  end.

Definition str (l : list ascii) : string := string_of_list_ascii l.

Record tok := mkTok { ttype : string; ttext : list ascii; tline : nat; tcol : nat; toff : nat }.
Inductive lexerr := LexError (line col : nat) (msg : string).

(* one or two character operators: (type, consumed second char?) *)
Definition op2 (c : ascii) (next : option ascii) : option (string * bool) :=
  let nx (x : ascii) := match next with Some d => Ascii.eqb d x | None => false end in
  match c with
  | "="%char => Some (if nx "="%char then ("EqualEqual", true) else ("Equals", false))
  | "!"%char => Some (if nx "="%char then ("BangEqual", true) else ("Bang", false))
  | "+"%char => Some (if nx "+"%char then ("PlusPlus", true) else ("Plus", false))
  | "&"%char => Some (if nx "&"%char then ("AmpersandAmpersand", true) else ("Ampersand", false))
  | "|"%char => Some (if nx "|"%char then ("PipePipe", true) else ("Pipe", false))
  | "^"%char => Some ("Caret", false)
  | "~"%char => Some ("Tilde", false)
  | "-"%char => Some (if nx ">"%char then ("Arrow", true) else if nx "-"%char then ("MinusMinus", true) else ("Minus", false))
  | "*"%char => Some ("Star", false)
  | "/"%char => Some ("Slash", false)
  | "%"%char => Some ("Percent", false)
  | ">"%char => Some (if nx "="%char then ("GreaterEqual", true) else ("Greater", false))
  | "<"%char => Some (if nx "="%char then ("LessEqual", true) else ("Less", false))
  | "?"%char => Some ("Question", false)
  | ":"%char => Some ("Colon", false)
  | "."%char => Some ("Dot", false)
  | ";"%char => Some ("Semicolon", false)
  | ","%char => Some ("Comma", false)
  | "@"%char => Some ("At", false)
  | "("%char => Some ("LParen", false)
  | ")"%char => Some ("RParen", false)
  | "{"%char => Some ("LBrace", false)
  | "}"%char => Some ("RBrace", false)
  | "["%char => Some ("LBracket", false)
  | "]"%char => Some ("RBracket", false)
  | _ => None
  end.

Definition col_add (p : nat * nat) (n : nat) : nat * nat := (fst p, snd p + n).

(* scanToken on c :: r at position p: (type, text, rest, position after) or an error *)
Definition scan_token (c : ascii) (r : list ascii) (p : nat * nat)
  : (string * list ascii * list ascii * (nat * nat)) + lexerr :=
  if is_digit c then
    let (ds0, r1) := span is_digit r in
    let ds := c :: ds0 in
    match r1 with
    | "."%char :: r2 =>
      let (fs, r3) := span is_digit r2 in
      let body := ds ++ "."%char :: fs in
      match r3 with
      | "f"%char :: r4 => inl ("FloatLiteral", body ++ ["f"%char], r4, col_add p (S (List.length body)))
      | _ => let p' := col_add p (List.length body) in inr (LexError (fst p') (snd p') "float literals must end with 'f'")
      end
    | "f"%char :: r2 => inl ("FloatLiteral", ds ++ ["f"%char], r2, col_add p (S (List.length ds)))
    | "L"%char :: r2 => inl ("LongLiteral", ds ++ ["L"%char], r2, col_add p (S (List.length ds)))
    | "b"%char :: r2 =>
      match ds with
      | [d] => if Ascii.eqb d "0" || Ascii.eqb d "1"
               then inl ("BitLiteral", ds ++ ["b"%char], r2, col_add p 2)
               else let p' := col_add p 1 in inr (LexError (fst p') (snd p') "bit literals must be 0b or 1b")
      | _ => let p' := col_add p (List.length ds) in inr (LexError (fst p') (snd p') "bit literals must be 0b or 1b")
      end
    | _ => inl ("IntegerLiteral", ds, r1, col_add p (List.length ds))
    end
  else if is_ident_start c then
    let (cs, r1) := span is_ident_char r in
    let text := c :: cs in
    let ty := match assoc (str text) keywords with Some k => k | None => "Identifier" end in
    inl (ty, text, r1, col_add p (List.length text))
  else if Ascii.eqb c """" then
    let (body, r1) := span (fun x => negb (Ascii.eqb x """")) r in
    match r1 with
    | q :: r2 => let text := c :: body ++ [q] in inl ("StringLiteral", text, r2, col_add (adv_pos body (col_add p 1)) 1)
    | [] => let p' := adv_pos body (col_add p 1) in inr (LexError (fst p') (snd p') "unterminated string literal")
    end
  else if Ascii.eqb c "'" then
    match r with
    | x :: r1 =>
      let p1 := adv1 (col_add p 1) x in
      match r1 with
      | q :: r2 => if Ascii.eqb q "'" then inl ("CharLiteral", [c; x; q], r2, col_add p1 1)
                   else inr (LexError (fst p1) (snd p1) "unterminated char literal")
      | [] => inr (LexError (fst p1) (snd p1) "unterminated char literal")
      end
    | [] => let p' := col_add p 1 in inr (LexError (fst p') (snd p') "unterminated char literal")
    end
  else
    match op2 c (match r with d :: _ => Some d | [] => None end) with
    | Some (ty, true) => match r with d :: r1 => inl (ty, [c; d], r1, col_add p 2) | [] => inl (ty, [c], r, col_add p 1) end
    | Some (ty, false) => inl (ty, [c], r, col_add p 1)
    | None => inl ("Unknown", [c], r, col_add p 1)
    end.

Inductive chunk := Trivia (t : list ascii) | TokText (t : list ascii).

Inductive lexres :=
| LexOk (ts : list tok) (chunks : list chunk)
| LexFail (e : lexerr)
| LexFuel.

Fixpoint lex_loop (fuel : nat) (s : list ascii) (p : nat * nat) (off : nat) : lexres :=
  match fuel with
  | O => LexFuel
  | S f =>
    let '(triv, r, p1) := skip false s p in
    let off1 := off + List.length triv in
    match r with
    | [] => LexOk [mkTok "Eof" [] (fst p1) (snd p1) off1] [Trivia triv]
    | c :: r' =>
      match scan_token c r' p1 with
      | inr e => LexFail e
      | inl (ty, text, rest, p2) =>
        match lex_loop f rest p2 (off1 + List.length text) with
        | LexOk ts cs => LexOk (mkTok ty text (fst p1) (snd p1) off1 :: ts) (Trivia triv :: TokText text :: cs)
        | other => other
        end
      end
    end
  end.

Definition lex (s : list ascii) : lexres := lex_loop (S (List.length s)) s (1, 1) 0.
