(* The lexer is lossless, its positions are exact, and it is total. *)
From Coq Require Import List Arith Ascii String Bool Lia.
From Bloch Require Import Lex.LexModel.
Import ListNotations.
Local Open Scope nat_scope.
Local Open Scope list_scope.

(* ---------- basic facts ---------- *)
Lemma span_spec P s a b : span P s = (a, b) -> s = a ++ b /\ Forall (fun c => P c = true) a.
Proof.
  revert a b. induction s as [|c r IH]; intros a b; cbn.
  - intros [= <- <-]. auto.
  - destruct (P c) eqn:E.
    + destruct (span P r) as [a0 b0]. intros [= <- <-]. destruct (IH a0 b0 eq_refl) as [-> F]. auto.
    + intros [= <- <-]. auto.
Qed.

Lemma span_stop P s a b : span P s = (a, b) -> match b with [] => True | c :: _ => P c = false end.
Proof.
  revert a b. induction s as [|c r IH]; intros a b; cbn.
  - intros [= <- <-]. exact I.
  - destruct (P c) eqn:E.
    + destruct (span P r) as [a0 b0]. intros [= <- <-]. apply (IH a0 b0 eq_refl).
    + intros [= <- <-]. exact E.
Qed.

Lemma adv_pos_app a b p : adv_pos (a ++ b) p = adv_pos b (adv_pos a p).
Proof. unfold adv_pos. apply fold_left_app. Qed.

Lemma adv1_nonl p c : is_nl c = false -> adv1 p c = col_add p 1.
Proof. unfold adv1, col_add. intros ->. f_equal. lia. Qed.

Lemma adv_pos_nonl t : forall p, Forall (fun c => is_nl c = false) t -> adv_pos t p = col_add p (List.length t).
Proof.
  induction t as [|c t IH]; intros p F; cbn.
  - unfold col_add. destruct p; cbn. f_equal. lia.
  - inversion F as [|? ? Hc Ht]; subst. unfold adv_pos in *. cbn. rewrite adv1_nonl by assumption.
    rewrite IH by assumption. unfold col_add. cbn. f_equal. lia.
Qed.

Lemma col_add_add p a b : col_add (col_add p a) b = col_add p (a + b).
Proof. unfold col_add. cbn. f_equal. lia. Qed.

Lemma digit_not_nl c : is_digit c = true -> is_nl c = false.
Proof.
  unfold is_digit, is_nl. intros H. apply andb_true_iff in H. destruct H as [H1 H2].
  apply Nat.leb_le in H1, H2. apply Nat.eqb_neq. lia.
Qed.
Lemma ident_char_not_nl c : is_ident_char c = true -> is_nl c = false.
Proof.
  unfold is_ident_char, is_alpha, is_digit, is_nl. intros H.
  destruct (Nat.eqb_spec (code c) 10) as [E|]; [|reflexivity]. exfalso.
  rewrite E in H. cbn in H. apply Ascii.eqb_eq in H. subst c. discriminate E.
Qed.
Lemma nl_is_space c : is_nl c = true -> is_space c = true.
Proof. unfold is_nl, is_space. intros H. apply Nat.eqb_eq in H. rewrite H. reflexivity. Qed.
Lemma Forall_impl' {A} (P Q : A -> Prop) l : (forall x, P x -> Q x) -> Forall P l -> Forall Q l.
Proof. intros H F. eapply Forall_impl; eauto. Qed.

(* ---------- trivia ---------- *)
Fixpoint trivia_wf (in_comment : bool) (t : list ascii) : bool :=
  match t with
  | [] => true
  | c :: r =>
    if in_comment then (if is_nl c then trivia_wf false r else trivia_wf true r)
    else if is_space c then trivia_wf false r
    else if Ascii.eqb c "/" then match r with c2 :: r2 => Ascii.eqb c2 "/" && trivia_wf true r2 | [] => false end
    else false
  end.

Lemma skip_spec s : forall inc p t r p', skip inc s p = (t, r, p') ->
  s = t ++ r /\ p' = adv_pos t p /\ trivia_wf inc t = true.
Proof.
  assert (Hm : forall n s, List.length s <= n -> forall inc p t r p', skip inc s p = (t, r, p') ->
              s = t ++ r /\ p' = adv_pos t p /\ trivia_wf inc t = true).
  { induction n as [|n IH]; intros s0 Hl inc p t r p'.
    - destruct s0; [|cbn in Hl; lia]. cbn. intros [= <- <- <-]. auto.
    - destruct s0 as [|c s1]; [cbn; intros [= <- <- <-]; auto|]. cbn in Hl. cbn [skip].
      destruct inc.
      + destruct (is_nl c) eqn:En.
        * destruct (skip false s1 (adv1 p c)) as [[t0 r0] p0] eqn:E. intros [= <- <- <-].
          destruct (IH s1 ltac:(lia) _ _ _ _ _ E) as (-> & -> & W). cbn. rewrite En. auto.
        * destruct (skip true s1 (fst p, S (snd p))) as [[t0 r0] p0] eqn:E. intros [= <- <- <-].
          destruct (IH s1 ltac:(lia) _ _ _ _ _ E) as (-> & -> & W). cbn. rewrite En.
          repeat split; auto. unfold adv_pos. cbn. unfold adv1. rewrite En. reflexivity.
      + destruct (is_space c) eqn:Es.
        * destruct (skip false s1 (adv1 p c)) as [[t0 r0] p0] eqn:E. intros [= <- <- <-].
          destruct (IH s1 ltac:(lia) _ _ _ _ _ E) as (-> & -> & W). cbn. rewrite Es. auto.
        * destruct (Ascii.eqb c "/") eqn:Ec; [|intros [= <- <- <-]; auto].
          destruct s1 as [|c2 s2]; [intros [= <- <- <-]; auto|].
          destruct (Ascii.eqb c2 "/") eqn:Ec2; [|intros [= <- <- <-]; auto].
          destruct (skip true s2 (fst p, S (S (snd p)))) as [[t0 r0] p0] eqn:E. intros [= <- <- <-].
          cbn in Hl. destruct (IH s2 ltac:(lia) _ _ _ _ _ E) as (-> & -> & W).
          apply Ascii.eqb_eq in Ec, Ec2. subst c c2. cbn. repeat split; auto. }
  intros inc p t r p' H. eapply Hm; eauto.
Qed.

Lemma skip_stop s : forall inc p t r p', skip inc s p = (t, r, p') ->
  match r with [] => True | c :: _ => is_space c = false end.
Proof.
  assert (Hm : forall n s, List.length s <= n -> forall inc p t r p', skip inc s p = (t, r, p') ->
              match r with [] => True | c :: _ => is_space c = false end).
  { induction n as [|n IH]; intros s0 Hl inc p t r p'.
    - destruct s0; [|cbn in Hl; lia]. cbn. intros [= <- <- <-]. auto.
    - destruct s0 as [|c s1]; [cbn; intros [= <- <- <-]; auto|]. cbn in Hl. cbn [skip].
      destruct inc.
      + destruct (is_nl c) eqn:En.
        * destruct (skip false s1 (adv1 p c)) as [[t0 r0] p0] eqn:E. intros [= <- <- <-].
          apply (IH s1 ltac:(lia) _ _ _ _ _ E).
        * destruct (skip true s1 (fst p, S (snd p))) as [[t0 r0] p0] eqn:E. intros [= <- <- <-].
          apply (IH s1 ltac:(lia) _ _ _ _ _ E).
      + destruct (is_space c) eqn:Es.
        * destruct (skip false s1 (adv1 p c)) as [[t0 r0] p0] eqn:E. intros [= <- <- <-].
          apply (IH s1 ltac:(lia) _ _ _ _ _ E).
        * destruct (Ascii.eqb c "/") eqn:Ec; [|intros [= <- <- <-]; exact Es].
          destruct s1 as [|c2 s2]; [intros [= <- <- <-]; exact Es|].
          destruct (Ascii.eqb c2 "/") eqn:Ec2; [|intros [= <- <- <-]; exact Es].
          destruct (skip true s2 (fst p, S (S (snd p)))) as [[t0 r0] p0] eqn:E. intros [= <- <- <-].
          cbn in Hl. apply (IH s2 ltac:(lia) _ _ _ _ _ E). }
  intros inc p t r p' H. eapply Hm; eauto.
Qed.

(* ---------- one token ---------- *)
Lemma adv_pos_cons c t p : adv_pos (c :: t) p = adv_pos t (adv1 p c).
Proof. reflexivity. Qed.

Lemma adv_nonl_text t p n : Forall (fun c => is_nl c = false) t -> n = List.length t -> col_add p n = adv_pos t p.
Proof. intros F ->. symmetry. apply adv_pos_nonl. assumption. Qed.

Lemma Forall_app_intro {A} (P : A -> Prop) a b : Forall P a -> Forall P b -> Forall P (a ++ b).
Proof. intros Ha Hb. apply Forall_app. split; assumption. Qed.

Ltac nonl := repeat (first [ apply Forall_cons; [first [assumption|reflexivity]|] | apply Forall_nil
                            | apply Forall_app_intro | assumption ]).

Lemma op2_second c d ty : op2 c (Some d) = Some (ty, true) -> is_nl d = false.
Proof.
  unfold op2. destruct c as [[] [] [] [] [] [] [] []]; cbn; try (intros H; discriminate H);
  repeat match goal with |- context [Ascii.eqb d ?x] => destruct (Ascii.eqb_spec d x) as [->|] end;
  intros H; try discriminate H; reflexivity.
Qed.

Lemma fin (s text rest : list ascii) p n :
  s = text ++ rest -> text <> [] -> Forall (fun c => is_nl c = false) text -> n = List.length text ->
  s = text ++ rest /\ text <> [] /\ col_add p n = adv_pos text p.
Proof. intros A B C D. split; [exact A|]. split; [exact B|]. apply adv_nonl_text; assumption. Qed.

Theorem scan_spec c r p ty text rest p2 :
  is_space c = false -> scan_token c r p = inl (ty, text, rest, p2) ->
  c :: r = text ++ rest /\ text <> [] /\ p2 = adv_pos text p.
Proof.
  intros Hsp. assert (Hnl : is_nl c = false).
  { destruct (is_nl c) eqn:E; [|reflexivity]. apply nl_is_space in E. congruence. }
  unfold scan_token.
  destruct (is_digit c) eqn:Hd.
  - (* numbers *)
    destruct (span is_digit r) as [ds0 r1] eqn:Es. destruct (span_spec _ _ _ _ Es) as [-> Fd].
    assert (Fd' : Forall (fun x => is_nl x = false) ds0) by (eapply Forall_impl'; [apply digit_not_nl|exact Fd]).
    destruct r1 as [|x r2].
    + intros [= <- <- <- <-]. apply fin; [reflexivity|discriminate|nonl|reflexivity].
    + destruct (Ascii.eqb_spec x ".") as [->|N1].
      * destruct (span is_digit r2) as [fs r3] eqn:Ef. destruct (span_spec _ _ _ _ Ef) as [-> Ff].
        assert (Ff' : Forall (fun x => is_nl x = false) fs) by (eapply Forall_impl'; [apply digit_not_nl|exact Ff]).
        destruct r3 as [|y r4]; [discriminate|].
        destruct (Ascii.eqb_spec y "f") as [->|Ny]; [|destruct y as [[] [] [] [] [] [] [] []]; try discriminate; congruence].
        intros [= <- <- <- <-]. apply fin.
        -- cbn. rewrite <- !app_assoc. reflexivity.
        -- destruct ds0; discriminate.
        -- nonl.
        -- cbn [List.length]. rewrite (app_length (ds0 ++ "."%char :: fs) ["f"%char]). cbn [List.length]. lia.
      * destruct (Ascii.eqb_spec x "f") as [->|N2].
        -- intros [= <- <- <- <-]. apply fin; [cbn; rewrite <- app_assoc; reflexivity|discriminate|nonl|].
           cbn [List.length]. rewrite app_length. cbn [List.length]. lia.
        -- destruct (Ascii.eqb_spec x "L") as [->|N3].
           ++ intros [= <- <- <- <-]. apply fin; [cbn; rewrite <- app_assoc; reflexivity|discriminate|nonl|].
              cbn [List.length]. rewrite app_length. cbn [List.length]. lia.
           ++ destruct (Ascii.eqb_spec x "b") as [->|N4].
              ** destruct ds0 as [|d0 ds1]; [|discriminate].
                 destruct (Ascii.eqb c "0" || Ascii.eqb c "1"); [|discriminate].
                 intros [= <- <- <- <-]. apply fin; [reflexivity|discriminate|nonl|reflexivity].
              ** assert (E : forall X Y Z W V : (string * list ascii * list ascii * (nat * nat)) + lexerr,
                            match x with "."%char => X | "f"%char => Y | "L"%char => Z | "b"%char => W | _ => V end = V).
                 { intros. destruct x as [[] [] [] [] [] [] [] []]; try reflexivity; congruence. }
                 rewrite E. intros [= <- <- <- <-]. apply fin; [reflexivity|discriminate|nonl|reflexivity].
  - destruct (is_ident_start c) eqn:Hi.
    + destruct (span is_ident_char r) as [cs r1] eqn:Es. destruct (span_spec _ _ _ _ Es) as [-> Fc].
      assert (Fc' : Forall (fun x => is_nl x = false) cs) by (eapply Forall_impl'; [apply ident_char_not_nl|exact Fc]).
      intros [= <- <- <- <-]. apply fin; [reflexivity|discriminate|nonl|reflexivity].
    + destruct (Ascii.eqb_spec c """") as [->|Nq].
      * destruct (span (fun x => negb (Ascii.eqb x """")) r) as [body r1] eqn:Es.
        destruct (span_spec _ _ _ _ Es) as [-> Fb]. pose proof (span_stop _ _ _ _ Es) as St.
        destruct r1 as [|q r2]; [discriminate|]. intros [= <- <- <- <-].
        apply negb_false_iff, Ascii.eqb_eq in St. subst q.
        split; [cbn; rewrite <- app_assoc; reflexivity|]. split; [discriminate|].
        rewrite adv_pos_cons, adv_pos_app. rewrite adv1_nonl by reflexivity. cbn. rewrite adv1_nonl by reflexivity. reflexivity.
      * destruct (Ascii.eqb_spec c "'") as [->|Nc].
        -- destruct r as [|x r1]; [discriminate|]. destruct r1 as [|q r2]; [discriminate|].
           destruct (Ascii.eqb_spec q "'") as [->|]; [|discriminate]. intros [= <- <- <- <-].
           split; [reflexivity|]. split; [discriminate|]. cbn. rewrite (adv1_nonl p "'") by reflexivity.
           rewrite (adv1_nonl _ "'") by reflexivity. reflexivity.
        -- destruct r as [|d r1].
           ++ destruct (op2 c None) as [[ty0 [|]]|]; intros [= <- <- <- <-]; (apply fin; [reflexivity|discriminate|nonl|reflexivity]).
           ++ destruct (op2 c (Some d)) as [[ty0 [|]]|] eqn:Eo; intros [= <- <- <- <-].
              ** pose proof (op2_second _ _ _ Eo). apply fin; [reflexivity|discriminate|nonl|reflexivity].
              ** apply fin; [reflexivity|discriminate|nonl|reflexivity].
              ** apply fin; [reflexivity|discriminate|nonl|reflexivity].
Qed.

(* ---------- the whole token stream ---------- *)
Definition chunk_text (c : chunk) : list ascii := match c with Trivia t => t | TokText t => t end.
Definition flatten (cs : list chunk) : list ascii := List.concat (map chunk_text cs).
Definition chunk_ok (c : chunk) : Prop := match c with Trivia t => trivia_wf false t = true | TokText t => t <> [] end.
Fixpoint tok_texts (cs : list chunk) : list (list ascii) :=
  match cs with [] => [] | Trivia _ :: r => tok_texts r | TokText t :: r => t :: tok_texts r end.

(* a token sits where it says: its line/column are those of its first character, found by scanning
   the source from the start, and the source continues there with the token's text *)
Definition placed (src : list ascii) (t : tok) : Prop :=
  (tline t, tcol t) = adv_pos (firstn (toff t) src) (1, 1) /\
  firstn (List.length (ttext t)) (skipn (toff t) src) = ttext t.

Lemma firstn_app_exact {A} (a b : list A) : firstn (List.length a) (a ++ b) = a.
Proof. rewrite firstn_app, Nat.sub_diag, firstn_all. cbn. apply app_nil_r. Qed.
Lemma skipn_app_exact {A} (a b : list A) : skipn (List.length a) (a ++ b) = b.
Proof. rewrite skipn_app, Nat.sub_diag, skipn_all. reflexivity. Qed.

Lemma lex_loop_spec fuel : forall s p off ts cs pre,
  lex_loop fuel s p off = LexOk ts cs -> p = adv_pos pre (1, 1) -> off = List.length pre ->
  flatten cs = s /\ Forall chunk_ok cs /\ Forall (placed (pre ++ s)) ts /\
  map ttext ts = tok_texts cs ++ [[]].
Proof.
  induction fuel as [|f IH]; intros s p off ts cs pre; cbn [lex_loop]; [discriminate|].
  destruct (skip false s p) as [[triv r] p1] eqn:Esk.
  destruct (skip_spec _ _ _ _ _ _ Esk) as (Hs & Hp1 & Hw). pose proof (skip_stop _ _ _ _ _ _ Esk) as Hst.
  intros H Hp Ho.
  assert (Hp1' : p1 = adv_pos (pre ++ triv) (1, 1)) by (rewrite adv_pos_app, <- Hp; exact Hp1).
  assert (Ho1 : off + List.length triv = List.length (pre ++ triv)) by (rewrite app_length; lia).
  destruct r as [|c r'].
  - injection H as <- <-. rewrite app_nil_r in Hs. subst s. repeat split.
    + unfold flatten. cbn. apply app_nil_r.
    + constructor; [exact Hw|constructor].
    + constructor; [|constructor]. unfold placed. cbn [tline tcol toff ttext List.length firstn]. rewrite Ho1.
      rewrite firstn_all. split; [|reflexivity]. rewrite <- Hp1'. destruct p1; reflexivity.
  - destruct (scan_token c r' p1) as [[[[ty text] rest] p2]|e] eqn:Esc; [|discriminate].
    destruct (scan_spec _ _ _ _ _ _ _ Hst Esc) as (Hcr & Hne & Hp2).
    destruct (lex_loop f rest p2 (off + List.length triv + List.length text)) as [ts' cs'| |] eqn:El; try discriminate.
    injection H as <- <-.
    assert (Hp2' : p2 = adv_pos ((pre ++ triv) ++ text) (1, 1)) by (rewrite adv_pos_app, <- Hp1'; exact Hp2).
    assert (Ho2 : off + List.length triv + List.length text = List.length ((pre ++ triv) ++ text)) by (rewrite app_length; lia).
    destruct (IH _ _ _ _ _ _ El Hp2' Ho2) as (Hf & Hok & Hpl & Htx).
    assert (Esrc : pre ++ s = ((pre ++ triv) ++ text) ++ rest).
    { rewrite Hs, Hcr. rewrite <- !app_assoc. reflexivity. }
    repeat split.
    + unfold flatten in *. cbn. rewrite Hf, Hs, Hcr. reflexivity.
    + constructor; [exact Hw|]. constructor; [exact Hne|exact Hok].
    + constructor.
      * unfold placed. cbn [tline tcol toff ttext]. rewrite Ho1, Esrc, <- (app_assoc (pre ++ triv) text rest).
        rewrite firstn_app_exact, skipn_app_exact, firstn_app_exact. split; [|reflexivity].
        rewrite <- Hp1'. destruct p1; reflexivity.
      * rewrite Esrc. exact Hpl.
    + cbn. rewrite Htx. reflexivity.
Qed.

Theorem lex_lossless s ts cs : lex s = LexOk ts cs ->
  flatten cs = s /\ Forall chunk_ok cs /\ map ttext ts = tok_texts cs ++ [[]].
Proof.
  unfold lex. intros H. destruct (lex_loop_spec _ _ _ _ _ _ [] H eq_refl eq_refl) as (A & B & _ & D). auto.
Qed.

Theorem lex_positions_exact s ts cs : lex s = LexOk ts cs -> Forall (placed s) ts.
Proof.
  unfold lex. intros H. destruct (lex_loop_spec _ _ _ _ _ _ [] H eq_refl eq_refl) as (_ & _ & C & _). exact C.
Qed.

(* totality: the fuel never runs out *)
Lemma lex_loop_total fuel : forall s p off, List.length s < fuel -> lex_loop fuel s p off <> LexFuel.
Proof.
  induction fuel as [|f IH]; intros s p off Hl; [lia|]. cbn [lex_loop].
  destruct (skip false s p) as [[triv r] p1] eqn:Esk.
  destruct (skip_spec _ _ _ _ _ _ Esk) as (Hs & _ & _). pose proof (skip_stop _ _ _ _ _ _ Esk) as Hst.
  destruct r as [|c r']; [discriminate|].
  destruct (scan_token c r' p1) as [[[[ty text] rest] p2]|e] eqn:Esc; [|discriminate].
  destruct (scan_spec _ _ _ _ _ _ _ Hst Esc) as (Hcr & Hne & _).
  assert (Hlen : List.length rest < f).
  { assert (L : List.length s = List.length triv + List.length text + List.length rest).
    { rewrite Hs, app_length, Hcr, app_length. lia. }
    destruct text; [congruence|]. cbn in L. lia. }
  specialize (IH rest p2 (off + List.length triv + List.length text) Hlen).
  destruct (lex_loop f rest p2 (off + List.length triv + List.length text)); congruence.
Qed.

Theorem lex_total s : lex s <> LexFuel.
Proof. unfold lex. apply lex_loop_total. lia. Qed.
