(* No false cycle: the loader answers "import cycle" only when the import graph, as it resolves on this file
   system, has a cycle - a module that reaches itself through one or more imports.  (The converse, that a cycle
   reachable from the entry is always reported unless another error comes first, follows from load_ok: a
   successful load orders every dependency strictly before its importer.) *)
From Coq Require Import List Arith String Bool Lia.
From Bloch Require Import Loader.LoaderModel Loader.LoaderProofs.
Import ListNotations.

Section Cycle.
  Variable fs : fsys.
  Variable cfg : config.

  (* p imports t (t is one of the files an import of p resolves to; a wildcard does not import the importer) *)
  Definition edge (p t : path) : Prop := exists pkg, In (t, pkg) (deps fs cfg p).

  Inductive reach : path -> path -> Prop :=
  | reach_one a b : edge a b -> reach a b
  | reach_step a b c : edge a b -> reach b c -> reach a c.

  (* consecutive elements are imports *)
  Fixpoint chain (l : list path) : Prop :=
    match l with
    | a :: (b :: _) as r => edge a b /\ chain r
    | _ => True
    end.

  Lemma chain_app_last l a t : chain (l ++ [a]) -> edge a t -> chain ((l ++ [a]) ++ [t]).
  Proof.
    induction l as [|x r IH]; cbn [app]; intros C E.
    - cbn. auto.
    - destruct r as [|y r']; cbn [app] in *.
      + destruct C as [Exa _]. cbn. auto.
      + destruct C as [Exy C]. split; [exact Exy|]. exact (IH C E).
  Qed.

  Lemma chain_tail l1 l2 : chain (l1 ++ l2) -> chain l2.
  Proof.
    induction l1 as [|x r IH]; cbn [app]; intro C; [exact C|].
    apply IH. destruct (r ++ l2) eqn:E; [exact I|]. exact (proj2 C).
  Qed.

  (* a chain from a through l to b is a path *)
  Lemma chain_reach l : forall a b, chain (a :: l ++ [b]) -> reach a b.
  Proof.
    induction l as [|x r IH]; intros a b C; cbn [app] in C.
    - apply reach_one. exact (proj1 C).
    - destruct C as [Eax C]. eapply reach_step; [exact Eax|]. exact (IH x b C).
  Qed.

  Definition CycSpec (ld : lstate -> path -> lstate + lerr) : Prop :=
    forall st t, Inv fs cfg st -> ld st t = inr ECycle -> chain (stack st ++ [t]) -> exists c, reach c c.

  Section WithLd.
    Variable ld : lstate -> path -> lstate + lerr.
    Hypothesis Hld : LdSpec fs cfg ld.
    Hypothesis Hcy : CycSpec ld.
    Variable S0 : list path.          (* the stack below the importing file *)
    Variable p : path.                (* the importing file, on top of the stack *)
    Hypothesis HS : chain (S0 ++ [p]).

    Lemma targets_cycle pkg ts skip : forall st,
      Inv fs cfg st -> stack st = S0 ++ [p] ->
      (forall t, In t ts -> (skip && path_eqb t p) = false -> edge p t) ->
      targets ld fs p st pkg ts skip = inr ECycle -> exists c, reach c c.
    Proof.
      induction ts as [|t r IH]; intros st I Hs He; cbn [targets]; [discriminate|].
      destruct (skip && path_eqb t p) eqn:Esk.
      - apply IH; auto. intros x Hx. apply He. right. exact Hx.
      - destruct (ld st t) as [st1|e] eqn:El.
        + destruct (Hld _ _ _ El I) as (I1 & S1 & _ & _). destruct (pkg_eqb (pkg_of fs t) pkg); [|discriminate].
          apply IH; [assumption | congruence |]. intros x Hx. apply He. right. exact Hx.
        + intros [= ->]. apply (Hcy st t I El). rewrite Hs. apply chain_app_last; [exact HS|].
          apply He; [left; reflexivity | exact Esk].
    Qed.

    Lemma imports_cycle is : forall st,
      Inv fs cfg st -> stack st = S0 ++ [p] ->
      (forall t pkg, In (t, pkg) (flat_map (import_targets fs cfg p) is) -> edge p t) ->
      imports ld fs cfg p st is = inr ECycle -> exists c, reach c c.
    Proof.
      induction is as [|i r IH]; intros st I Hs He; cbn [imports]; [discriminate|].
      destruct i as [pkg sym|pkg].
      - destruct (resolve_sym fs cfg (pkg ++ [sym]) (parent p)) as [t|] eqn:Er; [|discriminate].
        destruct (targets ld fs p st pkg [t] false) as [st1|e] eqn:Et.
        + destruct (targets_spec fs cfg ld Hld p _ _ _ _ _ Et I) as (I1 & S1 & _ & _).
          apply IH; [assumption | congruence |]. intros x pk Hx. apply (He x pk). cbn [flat_map]. apply in_or_app. right. exact Hx.
        + intros [= ->]. apply (targets_cycle pkg [t] false st I Hs); [|exact Et].
          intros x [<-|[]] _. apply (He t pkg). cbn [flat_map import_targets]. rewrite Er. left. reflexivity.
      - destruct (resolve_wild fs cfg pkg (parent p)) as [|t0 ts0] eqn:Er; [discriminate|].
        destruct (targets ld fs p st pkg (t0 :: ts0) true) as [st1|e] eqn:Et.
        + destruct (targets_spec fs cfg ld Hld p _ _ _ _ _ Et I) as (I1 & S1 & _ & _).
          apply IH; [assumption | congruence |]. intros x pk Hx. apply (He x pk). cbn [flat_map]. apply in_or_app. right. exact Hx.
        + intros [= ->]. apply (targets_cycle pkg (t0 :: ts0) true st I Hs); [|exact Et].
          intros x Hx Hsk. apply (He x pkg). cbn [flat_map import_targets]. rewrite Er. apply in_or_app. left.
          apply in_map_iff. exists x. split; [reflexivity|]. apply filter_In. split; [exact Hx|].
          cbn [andb] in Hsk. rewrite Hsk. reflexivity.
    Qed.
  End WithLd.

  Theorem load_module_cycle fuel : CycSpec (load_module fuel fs cfg).
  Proof.
    induction fuel as [|f IH]; intros st p I; cbn [load_module]; [discriminate|].
    destruct (mem p (stack st)) eqn:Ems.
    - (* p is already on the stack: the stack from p upwards, then p again, is a cycle *)
      intros _ C. apply mem_In in Ems. apply in_split in Ems. destruct Ems as (l1 & l2 & E).
      rewrite E in C. rewrite <- app_assoc in C. apply chain_tail in C. cbn [app] in C.
      exists p. exact (chain_reach l2 p p C).
    - destruct (mem p (cache st)) eqn:Emc; [discriminate|]. destruct (lookup fs p) as [fl|] eqn:El; [|discriminate].
      assert (Hns : ~ In p (stack st)) by (intros H; apply mem_In in H; congruence).
      assert (Hnc : ~ In p (cache st)) by (intros H; apply mem_In in H; congruence).
      set (st1 := {| stack := stack st ++ [p]; cache := cache st; order := order st |}).
      assert (I1 : Inv fs cfg st1).
      { destruct I as [A B C D]. constructor; cbn; auto. intros x Hx. apply in_app_or in Hx. destruct Hx as [Hx|[<-|[]]]; auto. }
      destruct (imports _ fs cfg p st1 (fimports fl)) as [st2|e] eqn:Ei; [discriminate|].
      intros [= ->] C.
      apply (imports_cycle (fun s t => load_module f fs cfg s t) (load_module_spec fs cfg f) IH (stack st) p C (fimports fl) st1 I1 eq_refl); [|exact Ei].
      intros t pkg Ht. exists pkg. unfold deps. rewrite El. exact Ht.
  Qed.

  Theorem load_cycle_is_genuine entry : load fs cfg entry = inr ECycle -> exists c, reach c c.
  Proof.
    unfold load. set (fuel := S (S (List.length fs))).
    destruct (resolve_sym fs cfg _ (parent entry)) as [obj|].
    - destruct (load_module fuel fs cfg st0 obj) as [st1|e] eqn:E1.
      + destruct (pkg_eqb (pkg_of fs obj) ["bloch"; "lang"]%string); [|discriminate].
        destruct (load_module_spec fs cfg fuel _ _ _ E1 (Inv_st0 fs cfg)) as (I1 & S1 & _ & _).
        destruct (load_module fuel fs cfg st1 entry) as [st2|e] eqn:E2.
        * destruct (Nat.eqb (total_mains fs (order st2)) 1); discriminate.
        * intros [= ->]. apply (load_module_cycle fuel st1 entry I1 E2). rewrite S1. cbn. exact I.
      + intros [= ->]. apply (load_module_cycle fuel st0 obj (Inv_st0 fs cfg) E1). cbn. exact I.
    - destruct (load_module fuel fs cfg st0 entry) as [st2|e] eqn:E2.
      + destruct (Nat.eqb (total_mains fs (order st2)) 1); discriminate.
      + intros [= ->]. apply (load_module_cycle fuel st0 entry (Inv_st0 fs cfg) E2). cbn. exact I.
  Qed.

  (* and the other direction: when the graph has a cycle through a loaded module, the load cannot have succeeded *)
  Lemma nodup_split_unique (l1 : list path) : forall l2 l1' l2' a,
    NoDup (l1 ++ a :: l2) -> l1 ++ a :: l2 = l1' ++ a :: l2' -> l1 = l1'.
  Proof.
    induction l1 as [|h r IHl]; intros l2 l1' l2' a N E.
    - destruct l1' as [|h' r']; [reflexivity|]. cbn in E. injection E as Eh E. exfalso.
      cbn in N. apply NoDup_cons_iff in N. destruct N as [Hn _]. apply Hn. rewrite E. apply in_or_app. right. left. reflexivity.
    - destruct l1' as [|h' r']; cbn in E.
      + injection E as Eh E. exfalso. cbn in N. apply NoDup_cons_iff in N. destruct N as [Hn _]. apply Hn. rewrite Eh.
        apply in_or_app. right. left. reflexivity.
      + injection E as Eh E. subst h'. f_equal. cbn in N. apply NoDup_cons_iff in N. destruct N as [_ N]. exact (IHl l2 r' l2' a N E).
  Qed.

  Lemma before_irrefl c l : NoDup l -> before c c l -> False.
  Proof.
    intros N (l1 & l2 & -> & Hc). apply NoDup_remove_2 in N. apply N. apply in_or_app. left. exact Hc.
  Qed.

  Lemma before_trans a b c l : NoDup l -> before c b l -> before b a l -> before c a l.
  Proof.
    intros N (m1 & m2 & Em & Hc) (l1 & l2 & El & Hb).
    exists l1, l2. split; [exact El|].
    apply in_split in Hb. destruct Hb as (u1 & u2 & Eu).
    assert (E : m1 ++ b :: m2 = u1 ++ b :: (u2 ++ a :: l2)).
    { rewrite <- Em, El, Eu, <- app_assoc. reflexivity. }
    assert (m1 = u1).
    { apply (nodup_split_unique m1 m2 u1 (u2 ++ a :: l2) b); [rewrite <- Em; exact N | exact E]. }
    subst m1. rewrite Eu. apply in_or_app. left. exact Hc.
  Qed.

  Lemma good_reach_before l : NoDup l -> Good fs cfg l -> forall a b, reach a b -> In a l -> before b a l.
  Proof.
    intros N G a b R. induction R as [a b [pkg E]|a b c [pkg E] R IH]; intro Ia.
    - exact (proj1 (G a Ia b pkg E)).
    - destruct (G a Ia b pkg E) as [Bba _].
      assert (Ib : In b l).
      { destruct Bba as (l1 & l2 & -> & Hb). apply in_or_app. left. exact Hb. }
      exact (before_trans a b c l N (IH Ib) Bba).
  Qed.

  Theorem successful_load_has_no_cycle_through_a_loaded_module entry ord c :
    load fs cfg entry = inl ord -> In c ord -> ~ reach c c.
  Proof.
    intros L Ic R. destruct (load_ok fs cfg entry ord L) as (N & _ & G & _).
    exact (before_irrefl c ord N (good_reach_before ord N G c c R Ic)).
  Qed.
End Cycle.
