(* Model of src/bloch/compiler/import/module_loader.cpp over an abstract file system
   (canonical paths as component lists; no symlinks, no '..').  Definitions only. *)
From Coq Require Import List Arith String Bool.
Import ListNotations.
Local Open Scope string_scope.
Local Open Scope list_scope.
Local Open Scope nat_scope.

Definition path := list string.
Inductive import := ISym (pkg : list string) (sym : string) | IWild (pkg : list string).
Record file := mkFile { fpkg : list string; fimports : list import; fmains : nat }.
Definition fsys := list (path * file).

Definition path_eqb (a b : path) : bool := if list_eq_dec string_dec a b then true else false.
Fixpoint lookup (fs : fsys) (p : path) : option file :=
  match fs with
  | [] => None
  | (q, f) :: r => if path_eqb q p then Some f else lookup r p
  end.
Definition mem (p : path) (l : list path) : bool := existsb (path_eqb p) l.

Record config := mkCfg { search : list path; cwd : path }.

Definition bloch_ext (s : string) : string := String.append s ".bloch".
(* a.b.C  ->  [a; b; C.bloch] *)
Fixpoint rel_file (parts : list string) : path :=
  match parts with
  | [] => []
  | [c] => [bloch_ext c]
  | a :: r => a :: rel_file r
  end.

Definition bases (cfg : config) (parts : list string) (from_dir : path) : list path :=
  match parts with
  | "bloch" :: _ => search cfg ++ [from_dir; cwd cfg]
  | _ => from_dir :: search cfg ++ [cwd cfg]
  end.

(* a symbol import: parts = package ++ [symbol]; it is a bloch.* import only when the *package* starts with bloch
   ('import bloch;' names the module bloch.bloch of the default package) *)
Definition bases_sym (cfg : config) (parts : list string) (from_dir : path) : list path :=
  match parts with
  | "bloch" :: _ :: _ => search cfg ++ [from_dir; cwd cfg]
  | _ => from_dir :: search cfg ++ [cwd cfg]
  end.

Fixpoint first_some {A B} (f : A -> option B) (l : list A) : option B :=
  match l with [] => None | x :: r => match f x with Some y => Some y | None => first_some f r end end.

Definition resolve_sym (fs : fsys) (cfg : config) (parts : list string) (from_dir : path) : option path :=
  first_some (fun b => let c := b ++ rel_file parts in match lookup fs c with Some _ => Some c | None => None end)
             (bases_sym cfg parts from_dir).

(* direct .bloch children of a directory, in the order std::sort gives their path strings:
   same directory, so the order of the file names *)
Definition parent (p : path) : path := removelast p.
Definition is_bloch_name (s : string) : bool :=
  let n := String.length s in (6 <=? n) && String.eqb (substring (n - 6) 6 s) ".bloch".
Fixpoint insert_sorted (x : path) (l : list path) : list path :=
  match l with
  | [] => [x]
  | y :: r => if String.leb (last x "") (last y "") then x :: l else y :: insert_sorted x r
  end.
Definition dir_modules (fs : fsys) (dir : path) : list path :=
  fold_right insert_sorted []
    (map fst (filter (fun pf => path_eqb (parent (fst pf)) dir && is_bloch_name (last (fst pf) "")) fs)).

Definition resolve_wild (fs : fsys) (cfg : config) (pkg : list string) (from_dir : path) : list path :=
  match first_some (fun b => match dir_modules fs (b ++ pkg) with [] => None | ms => Some ms end) (bases cfg pkg from_dir) with
  | Some ms => ms
  | None => []
  end.

Inductive lerr := ECycle | ENotFound | EPackage | EOpen | EMainCount | EFuel.
Record lstate := mkSt { stack : list path; cache : list path; order : list path }.
Definition st0 : lstate := {| stack := []; cache := []; order := [] |}.

Definition pkg_of (fs : fsys) (p : path) : list string := match lookup fs p with Some f => fpkg f | None => [] end.
Definition pkg_eqb (a b : list string) : bool := if list_eq_dec string_dec a b then true else false.

(* loading the targets of one import, then the next import: parameterised by the recursive loader *)
Section Imports.
  Variable ld : lstate -> path -> lstate + lerr.
  Variable fs : fsys.
  Variable cfg : config.
  Variable p : path.             (* the importing file *)

  Fixpoint targets (st : lstate) (pkg : list string) (ts : list path) (skip_self : bool) : lstate + lerr :=
    match ts with
    | [] => inl st
    | t :: r =>
      if skip_self && path_eqb t p then targets st pkg r skip_self
      else match ld st t with
           | inr e => inr e
           | inl st' => if pkg_eqb (pkg_of fs t) pkg then targets st' pkg r skip_self else inr EPackage
           end
    end.

  Fixpoint imports (st : lstate) (is : list import) : lstate + lerr :=
    match is with
    | [] => inl st
    | IWild pkg :: r =>
      match resolve_wild fs cfg pkg (parent p) with
      | [] => inr ENotFound
      | ts => match targets st pkg ts true with inr e => inr e | inl st' => imports st' r end
      end
    | ISym pkg sym :: r =>
      match resolve_sym fs cfg (pkg ++ [sym]) (parent p) with
      | None => inr ENotFound
      | Some t => match targets st pkg [t] false with inr e => inr e | inl st' => imports st' r end
      end
    end.
End Imports.

Fixpoint load_module (fuel : nat) (fs : fsys) (cfg : config) (st : lstate) (p : path) : lstate + lerr :=
  match fuel with
  | O => inr EFuel
  | S f =>
    if mem p (stack st) then inr ECycle
    else if mem p (cache st) then inl st
    else
      match lookup fs p with
      | None => inr EOpen
      | Some fl =>
        let st1 := {| stack := stack st ++ [p]; cache := cache st; order := order st |} in
        match imports (fun s t => load_module f fs cfg s t) fs cfg p st1 (fimports fl) with
        | inr e => inr e
        | inl st2 => inl {| stack := removelast (stack st2); cache := p :: cache st2; order := order st2 ++ [p] |}
        end
      end
  end.

Definition total_mains (fs : fsys) (ps : list path) : nat :=
  fold_right (fun p acc => match lookup fs p with Some f => fmains f + acc | None => acc end) 0 ps.

(* ModuleLoader::load: the implicit bloch.lang.Object first (when it resolves; like an import of it, the file must declare
   package bloch.lang), then the entry *)
Definition load (fs : fsys) (cfg : config) (entry : path) : list path + lerr :=
  let fuel := S (S (List.length fs)) in
  let st := match resolve_sym fs cfg ["bloch"; "lang"; "Object"] (parent entry) with
            | Some obj => match load_module fuel fs cfg st0 obj with
                          | inr e => inr e
                          | inl s => if pkg_eqb (pkg_of fs obj) ["bloch"; "lang"] then inl s else inr EPackage
                          end
            | None => inl st0
            end in
  match st with
  | inr e => inr e
  | inl st1 =>
    match load_module fuel fs cfg st1 entry with
    | inr e => inr e
    | inl st2 => if Nat.eqb (total_mains fs (order st2)) 1 then inl (order st2) else inr EMainCount
    end
  end.
