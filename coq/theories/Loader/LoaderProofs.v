(* Every successful load: each module once, dependencies before importers, packages checked. *)
From Coq Require Import List Arith String Bool Lia Permutation.
From Bloch Require Import Loader.LoaderModel.
Import ListNotations.

Lemma path_eqb_eq a b : path_eqb a b = true <-> a = b.
Proof. unfold path_eqb. destruct (list_eq_dec string_dec a b); split; congruence. Qed.
Lemma mem_In p l : mem p l = true <-> In p l.
Proof.
  unfold mem. rewrite existsb_exists. split.
  - intros (x & Hx & E). apply path_eqb_eq in E. subst. assumption.
  - intros H. exists p. split; [assumption|apply path_eqb_eq; reflexivity].
Qed.
Lemma pkg_eqb_eq a b : pkg_eqb a b = true <-> a = b.
Proof. unfold pkg_eqb. destruct (list_eq_dec string_dec a b); split; congruence. Qed.

Section Spec.
  Variable fs : fsys.
  Variable cfg : config.

  (* the modules an import list of file p asks for, with the package each must declare *)
  Definition import_targets (p : path) (i : import) : list (path * list string) :=
    match i with
    | IWild pkg => map (fun t => (t, pkg)) (filter (fun t => negb (path_eqb t p)) (resolve_wild fs cfg pkg (parent p)))
    | ISym pkg sym => match resolve_sym fs cfg (pkg ++ [sym]) (parent p) with Some t => [(t, pkg)] | None => [] end
    end.
  Definition deps (p : path) : list (path * list string) :=
    match lookup fs p with Some fl => flat_map (import_targets p) (fimports fl) | None => [] end.

  Definition before (t q : path) (l : list path) : Prop := exists l1 l2, l = l1 ++ q :: l2 /\ In t l1.
  Definition Good (l : list path) : Prop :=
    forall q, In q l -> forall t pkg, In (t, pkg) (deps q) -> before t q l /\ pkg_of fs t = pkg.

  Record Inv (st : lstate) : Prop := {
    inv_nodup : NoDup (order st);
    inv_cache : forall x, In x (cache st) <-> In x (order st);
    inv_stack : forall x, In x (stack st) -> ~ In x (cache st);
    inv_good : Good (order st)
  }.

  Lemma before_app t q l ext : before t q l -> before t q (l ++ ext).
  Proof. intros (l1 & l2 & -> & H). exists l1, (l2 ++ ext). split; [rewrite <- app_assoc; reflexivity|assumption]. Qed.
  Lemma Good_app_prefix l ext : Good l -> forall q, In q l -> forall t pkg, In (t, pkg) (deps q) -> before t q (l ++ ext) /\ pkg_of fs t = pkg.
  Proof. intros G q Hq t pkg Hd. destruct (G q Hq t pkg Hd). split; [apply before_app; assumption|assumption]. Qed.

  Definition LdSpec (ld : lstate -> path -> lstate + lerr) : Prop :=
    forall st t st', ld st t = inl st' -> Inv st ->
      Inv st' /\ stack st' = stack st /\ (exists ext, order st' = order st ++ ext) /\ In t (order st').

  Section WithLd.
    Variable ld : lstate -> path -> lstate + lerr.
    Hypothesis Hld : LdSpec ld.
    Variable p : path.

    Lemma targets_spec pkg ts skip : forall st st',
      targets ld fs p st pkg ts skip = inl st' -> Inv st ->
      Inv st' /\ stack st' = stack st /\ (exists ext, order st' = order st ++ ext) /\
      (forall t, In t ts -> (skip = true /\ t = p) \/ (In t (order st') /\ pkg_of fs t = pkg)).
    Proof.
      induction ts as [|t r IH]; intros st st'; cbn [targets].
      - intros [= <-] I. split; [exact I|]. split; [reflexivity|]. split; [exists []; rewrite app_nil_r; reflexivity|]. intros t [].
      - destruct (skip && path_eqb t p) eqn:Esk.
        + intros H I. destruct (IH _ _ H I) as (I' & S & E & T). split; [exact I'|]. split; [exact S|]. split; [exact E|].
          intros x [<-|Hx]; [|apply T; assumption]. apply andb_true_iff in Esk. destruct Esk as [-> Ep]. apply path_eqb_eq in Ep. auto.
        + destruct (ld st t) as [st1|e] eqn:El; [|discriminate].
          destruct (pkg_eqb (pkg_of fs t) pkg) eqn:Ep; [|discriminate].
          intros H I. destruct (Hld _ _ _ El I) as (I1 & S1 & (e1 & E1) & T1).
          destruct (IH _ _ H I1) as (I' & S & (e2 & E2) & T). split; [exact I'|]. split; [congruence|]. split.
          * exists (e1 ++ e2). rewrite E2, E1, app_assoc. reflexivity.
          * intros x [<-|Hx]; [|apply T; assumption]. right. split; [rewrite E2; apply in_or_app; left; assumption|apply pkg_eqb_eq; assumption].
    Qed.

    Lemma imports_spec is : forall st st',
      imports ld fs cfg p st is = inl st' -> Inv st ->
      Inv st' /\ stack st' = stack st /\ (exists ext, order st' = order st ++ ext) /\
      (forall t pkg, In (t, pkg) (flat_map (import_targets p) is) -> In t (order st') /\ pkg_of fs t = pkg).
    Proof.
      induction is as [|i r IH]; intros st st'; cbn [imports flat_map].
      - intros [= <-] I. split; [exact I|]. split; [reflexivity|]. split; [exists []; rewrite app_nil_r; reflexivity|]. intros t pkg [].
      - destruct i as [pkg sym|pkg].
        + destruct (resolve_sym fs cfg (pkg ++ [sym]) (parent p)) as [t|] eqn:Er; [|discriminate].
          destruct (targets ld fs p st pkg [t] false) as [st1|e] eqn:Et; [|discriminate].
          intros H I. destruct (targets_spec _ _ _ _ _ Et I) as (I1 & S1 & (e1 & E1) & T1).
          destruct (IH _ _ H I1) as (I' & S & (e2 & E2) & T). split; [exact I'|]. split; [congruence|]. split.
          * exists (e1 ++ e2). rewrite E2, E1, app_assoc. reflexivity.
          * intros x pk Hin. apply in_app_or in Hin. destruct Hin as [Hin|Hin]; [|apply T; assumption].
            cbn [import_targets] in Hin. rewrite Er in Hin. destruct Hin as [[= <- <-]|[]].
            destruct (T1 t (or_introl eq_refl)) as [[Hf _]|[Hi Hp]]; [discriminate|].
            split; [rewrite E2; apply in_or_app; left; assumption|assumption].
        + destruct (resolve_wild fs cfg pkg (parent p)) as [|t0 ts0] eqn:Er; [discriminate|].
          destruct (targets ld fs p st pkg (t0 :: ts0) true) as [st1|e] eqn:Et; [|discriminate].
          intros H I. destruct (targets_spec _ _ _ _ _ Et I) as (I1 & S1 & (e1 & E1) & T1).
          destruct (IH _ _ H I1) as (I' & S & (e2 & E2) & T). split; [exact I'|]. split; [congruence|]. split.
          * exists (e1 ++ e2). rewrite E2, E1, app_assoc. reflexivity.
          * intros x pk Hin. apply in_app_or in Hin. destruct Hin as [Hin|Hin]; [|apply T; assumption].
            cbn [import_targets] in Hin. rewrite Er in Hin. apply in_map_iff in Hin. destruct Hin as (y & [= <- <-] & Hy).
            apply filter_In in Hy. destruct Hy as [Hy Hne].
            destruct (T1 y Hy) as [[_ ->]|[Hi Hp]].
            -- apply negb_true_iff in Hne. assert (path_eqb p p = true) by (apply path_eqb_eq; reflexivity). congruence.
            -- split; [rewrite E2; apply in_or_app; left; assumption|assumption].
    Qed.
  End WithLd.

  Lemma removelast_snoc {A} (l : list A) x : removelast (l ++ [x]) = l.
  Proof. apply removelast_last. Qed.

  Theorem load_module_spec fuel : LdSpec (load_module fuel fs cfg).
  Proof.
    induction fuel as [|f IH]; intros st p st'; cbn [load_module]; [discriminate|].
    destruct (mem p (stack st)) eqn:Ems; [discriminate|].
    destruct (mem p (cache st)) eqn:Emc.
    - intros [= <-] I. split; [exact I|]. split; [reflexivity|]. split; [exists []; rewrite app_nil_r; reflexivity|].
      apply (inv_cache _ I). apply mem_In. assumption.
    - destruct (lookup fs p) as [fl|] eqn:El; [|discriminate].
      destruct (imports _ fs cfg p _ (fimports fl)) as [st2|e] eqn:Ei; [|discriminate].
      intros [= <-] I.
      assert (Hnc : ~ In p (cache st)) by (intros H; apply mem_In in H; congruence).
      assert (Hns : ~ In p (stack st)) by (intros H; apply mem_In in H; congruence).
      assert (I1 : Inv {| stack := stack st ++ [p]; cache := cache st; order := order st |}).
      { destruct I as [A B C D]. constructor; cbn; auto. intros x Hx. apply in_app_or in Hx. destruct Hx as [Hx|[<-|[]]]; auto. }
      destruct (imports_spec _ IH p _ _ _ Ei I1) as (I2 & S2 & (ext & E2) & T2). cbn [stack order] in *.
      destruct I2 as [N2 C2 K2 G2].
      assert (Hp2 : ~ In p (order st2)).
      { intros H. apply C2 in H. apply (K2 p); [rewrite S2; apply in_or_app; right; left; reflexivity|assumption]. }
      split; [|split; [|split]]; cbn [stack cache order].
      + constructor; cbn [stack cache order].
        * apply (Permutation_NoDup (l := p :: order st2)); [apply Permutation_cons_append|constructor; assumption].
        * intros x. rewrite in_app_iff. cbn. rewrite C2. intuition.
        * rewrite S2, removelast_snoc. intros x Hx [<-|Hc]; [contradiction|].
          apply (K2 x); [rewrite S2; apply in_or_app; left; assumption|assumption].
        * intros q Hq t pkg Hd. apply in_app_or in Hq. destruct Hq as [Hq|[<-|[]]].
          -- apply (Good_app_prefix _ [p] G2 q Hq t pkg Hd).
          -- unfold deps in Hd. rewrite El in Hd. destruct (T2 t pkg Hd) as [Hin Hpk]. split; [|assumption].
             exists (order st2), []. split; [reflexivity|assumption].
      + rewrite S2. apply removelast_snoc.
      + exists (ext ++ [p]). rewrite E2, app_assoc. reflexivity.
      + apply in_or_app. right. left. reflexivity.
  Qed.

  Lemma Inv_st0 : Inv st0.
  Proof. constructor; cbn; try (intros; tauto); [constructor|intros q []]. Qed.
End Spec.

(* ---------- the loader's result ---------- *)
Theorem load_ok fs cfg entry ord : load fs cfg entry = inl ord ->
  NoDup ord /\ In entry ord /\ Good fs cfg ord /\ total_mains fs ord = 1.
Proof.
  unfold load. set (fuel := S (S (List.length fs))).
  destruct (resolve_sym fs cfg _ (parent entry)) as [obj|].
  - destruct (load_module fuel fs cfg st0 obj) as [st1|e] eqn:E1; [|discriminate].
    destruct (pkg_eqb (pkg_of fs obj) ["bloch"; "lang"]%string); [|discriminate].
    destruct (load_module_spec fs cfg fuel _ _ _ E1 (Inv_st0 fs cfg)) as (I1 & _ & _ & _).
    destruct (load_module fuel fs cfg st1 entry) as [st2|e] eqn:E2; [|discriminate].
    destruct (load_module_spec fs cfg fuel _ _ _ E2 I1) as (I2 & _ & _ & Hin).
    destruct (Nat.eqb_spec (total_mains fs (order st2)) 1); [|discriminate]. intros [= <-].
    split; [apply I2|]. split; [assumption|]. split; [apply I2|assumption].
  - destruct (load_module fuel fs cfg st0 entry) as [st2|e] eqn:E2; [|discriminate].
    destruct (load_module_spec fs cfg fuel _ _ _ E2 (Inv_st0 fs cfg)) as (I2 & _ & _ & Hin).
    destruct (Nat.eqb_spec (total_mains fs (order st2)) 1); [|discriminate]. intros [= <-].
    split; [apply I2|]. split; [assumption|]. split; [apply I2|assumption].
Qed.

(* the implicitly loaded root module is held to the same rule as an import of bloch.lang.Object *)
Theorem load_checks_the_implicit_root fs cfg entry ord obj :
  load fs cfg entry = inl ord ->
  resolve_sym fs cfg ["bloch"; "lang"; "Object"]%string (parent entry) = Some obj ->
  pkg_eqb (pkg_of fs obj) ["bloch"; "lang"]%string = true.
Proof.
  unfold load. intros H R. rewrite R in H.
  destruct (load_module _ fs cfg st0 obj) as [st1|e]; [|discriminate].
  destruct (pkg_eqb (pkg_of fs obj) ["bloch"; "lang"]%string); [reflexivity|discriminate].
Qed.

(* ---------- resolution order ---------- *)
Lemma first_some_spec {A B} (f : A -> option B) l y :
  first_some f l = Some y -> exists l1 x l2, l = l1 ++ x :: l2 /\ f x = Some y /\ forall z, In z l1 -> f z = None.
Proof.
  induction l as [|x r IH]; cbn; [discriminate|].
  destruct (f x) as [y'|] eqn:E.
  - intros [= <-]. exists [], x, r. repeat split; auto. intros z [].
  - intros H. destruct (IH H) as (l1 & x' & l2 & -> & Hf & Hn). exists (x :: l1), x', l2. repeat split; auto.
    intros z [<-|Hz]; auto.
Qed.

Theorem resolve_sym_first fs cfg parts from_dir t :
  resolve_sym fs cfg parts from_dir = Some t ->
  exists l1 b l2, bases_sym cfg parts from_dir = l1 ++ b :: l2 /\ t = b ++ rel_file parts /\ lookup fs t <> None /\
                  forall b', In b' l1 -> lookup fs (b' ++ rel_file parts) = None.
Proof.
  unfold resolve_sym. intros H. apply first_some_spec in H. destruct H as (l1 & b & l2 & E & Hf & Hn).
  exists l1, b, l2. destruct (lookup fs (b ++ rel_file parts)) eqn:El; [|discriminate]. injection Hf as <-.
  repeat split; auto; [congruence|]. intros b' Hb. specialize (Hn b' Hb). cbn in Hn. destruct (lookup fs (b' ++ rel_file parts)); [discriminate|reflexivity].
Qed.

Theorem bases_order cfg parts from_dir :
  bases_sym cfg parts from_dir = (match parts with "bloch"%string :: _ :: _ => search cfg ++ [from_dir; cwd cfg] | _ => from_dir :: search cfg ++ [cwd cfg] end).
Proof. reflexivity. Qed.

Theorem resolve_wild_first fs cfg pkg from_dir :
  resolve_wild fs cfg pkg from_dir <> [] ->
  exists l1 b l2, (match pkg with "bloch"%string :: _ => search cfg ++ [from_dir; cwd cfg] | _ => from_dir :: search cfg ++ [cwd cfg] end) = l1 ++ b :: l2 /\
                  resolve_wild fs cfg pkg from_dir = dir_modules fs (b ++ pkg) /\
                  forall b', In b' l1 -> dir_modules fs (b' ++ pkg) = [].
Proof.
  unfold resolve_wild. intros H.
  match type of H with context [match ?X with Some _ => _ | None => _ end] => destruct X as [ms|] eqn:E end; [|congruence].
  apply first_some_spec in E. destruct E as (l1 & b & l2 & Eb & Hf & Hn).
  exists l1, b, l2. split; [exact Eb|]. split.
  - destruct (dir_modules fs (b ++ pkg)); [discriminate|]. congruence.
  - intros b' Hb. specialize (Hn b' Hb). cbn in Hn. destruct (dir_modules fs (b' ++ pkg)); [reflexivity|discriminate].
Qed.

(* ---------- the traversal terminates within the fuel load provides ---------- *)
Section Fuel.
  Variable fs : fsys.
  Variable cfg : config.

  Lemma lookup_in p f : lookup fs p = Some f -> In p (map fst fs).
  Proof.
    induction fs as [|[q g] r IH]; cbn; [discriminate|].
    destruct (path_eqb q p) eqn:E; [apply path_eqb_eq in E; subst; auto|]. intros H. right. apply IH. assumption.
  Qed.

  Section WithLd.
    Variable ld : lstate -> path -> lstate + lerr.
    Hypothesis Hld : LdSpec fs cfg ld.
    Variable S0 : list path.
    Hypothesis Hnf : forall st t, Inv fs cfg st -> stack st = S0 -> ld st t <> inr EFuel.
    Variable p : path.

    Lemma targets_nofuel pkg ts skip : forall st, Inv fs cfg st -> stack st = S0 -> targets ld fs p st pkg ts skip <> inr EFuel.
    Proof.
      induction ts as [|t r IH]; intros st I Hs; cbn [targets]; [discriminate|].
      destruct (skip && path_eqb t p); [apply IH; assumption|].
      destruct (ld st t) as [st1|e] eqn:El.
      - destruct (Hld _ _ _ El I) as (I1 & S1 & _ & _). destruct (pkg_eqb (pkg_of fs t) pkg); [|discriminate].
        apply IH; [assumption|congruence].
      - intros [= ->]. apply (Hnf st t I Hs). assumption.
    Qed.

    Lemma imports_nofuel is : forall st, Inv fs cfg st -> stack st = S0 -> imports ld fs cfg p st is <> inr EFuel.
    Proof.
      induction is as [|i r IH]; intros st I Hs; cbn [imports]; [discriminate|].
      destruct i as [pkg sym|pkg].
      - destruct (resolve_sym fs cfg (pkg ++ [sym]) (parent p)) as [t|]; [|discriminate].
        destruct (targets ld fs p st pkg [t] false) as [st1|e] eqn:Et.
        + destruct (targets_spec fs cfg ld Hld p _ _ _ _ _ Et I) as (I1 & S1 & _ & _). apply IH; [assumption|congruence].
        + intros [= ->]. apply (targets_nofuel pkg [t] false st I Hs). assumption.
      - destruct (resolve_wild fs cfg pkg (parent p)) as [|t0 ts0]; [discriminate|].
        destruct (targets ld fs p st pkg (t0 :: ts0) true) as [st1|e] eqn:Et.
        + destruct (targets_spec fs cfg ld Hld p _ _ _ _ _ Et I) as (I1 & S1 & _ & _). apply IH; [assumption|congruence].
        + intros [= ->]. apply (targets_nofuel pkg (t0 :: ts0) true st I Hs). assumption.
    Qed.
  End WithLd.

  Lemma NoDup_snoc {A} (l : list A) x : NoDup l -> ~ In x l -> NoDup (l ++ [x]).
  Proof. intros Hn Hx. apply (Permutation_NoDup (l := x :: l)); [apply Permutation_cons_append|constructor; assumption]. Qed.

  Theorem load_module_nofuel fuel : forall st p,
    Inv fs cfg st -> NoDup (stack st) -> incl (stack st) (map fst fs) ->
    List.length fs < List.length (stack st) + fuel -> load_module fuel fs cfg st p <> inr EFuel.
  Proof.
    induction fuel as [|f IH]; intros st p I Hn Hi Hl.
    - exfalso. pose proof (NoDup_incl_length Hn Hi) as H. rewrite map_length in H. lia.
    - cbn [load_module]. destruct (mem p (stack st)) eqn:Ems; [discriminate|].
      destruct (mem p (cache st)) eqn:Emc; [discriminate|]. destruct (lookup fs p) as [fl|] eqn:El; [|discriminate].
      assert (Hns : ~ In p (stack st)) by (intros H; apply mem_In in H; congruence).
      assert (Hnc : ~ In p (cache st)) by (intros H; apply mem_In in H; congruence).
      set (st1 := {| stack := stack st ++ [p]; cache := cache st; order := order st |}).
      assert (I1 : Inv fs cfg st1).
      { destruct I as [A B C D]. constructor; cbn; auto. intros x Hx. apply in_app_or in Hx. destruct Hx as [Hx|[<-|[]]]; auto. }
      destruct (imports _ fs cfg p st1 (fimports fl)) as [st2|e] eqn:Ei; [discriminate|].
      intros [= ->]. revert Ei.
      apply (imports_nofuel (fun s t => load_module f fs cfg s t) (load_module_spec fs cfg f) (stack st ++ [p])); auto.
      intros s t Is Hs. apply IH; auto.
      + rewrite Hs. apply NoDup_snoc; assumption.
      + rewrite Hs. intros x Hx. apply in_app_or in Hx. destruct Hx as [Hx|[<-|[]]]; [apply Hi; assumption|eapply lookup_in; eauto].
      + rewrite Hs, app_length. cbn. lia.
  Qed.
End Fuel.

Theorem load_never_out_of_fuel fs cfg entry : load fs cfg entry <> inr EFuel.
Proof.
  unfold load. set (fuel := S (S (List.length fs))).
  assert (H0 : forall p, load_module fuel fs cfg st0 p <> inr EFuel).
  { intros p. apply load_module_nofuel; [apply Inv_st0|constructor|intros x []|cbn; unfold fuel; lia]. }
  destruct (resolve_sym fs cfg _ (parent entry)) as [obj|].
  - destruct (load_module fuel fs cfg st0 obj) as [st1|e] eqn:E1; [|intros [= ->]; apply (H0 obj); assumption].
    destruct (pkg_eqb (pkg_of fs obj) ["bloch"; "lang"]%string); [|discriminate].
    destruct (load_module_spec fs cfg fuel _ _ _ E1 (Inv_st0 fs cfg)) as (I1 & S1 & _ & _).
    destruct (load_module fuel fs cfg st1 entry) as [st2|e] eqn:E2.
    + destruct (Nat.eqb (total_mains fs (order st2)) 1); discriminate.
    + intros [= ->]. revert E2. apply load_module_nofuel; [assumption|rewrite S1; constructor|rewrite S1; intros x []|rewrite S1; cbn; unfold fuel; lia].
  - destruct (load_module fuel fs cfg st0 entry) as [st2|e] eqn:E2.
    + destruct (Nat.eqb (total_mains fs (order st2)) 1); discriminate.
    + intros [= ->]. apply (H0 entry). assumption.
Qed.
