(* Executable model of the expression parser (parser.cpp: parseAssignmentExpression,
   parsePrattExpression, parsePrefixExpression, parsePrimary, argument / array-literal lists,
   the binding-power table) and of rendering a tree back to tokens.  Definitions only. *)
From Coq Require Import List Arith Ascii String Bool.
Import ListNotations.
Local Open Scope nat_scope.

Inductive binop := OrOr | AndAnd | BOr | BXor | BAnd | EqEq | NotEq | Gt | Lt | Ge | Le | Add | Sub | Mul | Div | Mod.
Inductive preop := PNeg | PNot | PBNot.
Inductive postop := PInc | PDec.
Inductive prim := TyInt | TyFloat | TyBit | TyLong | TyChar | TyString | TyQubit | TyBoolean | TyVoid.

Inductive tok :=
| KLit (kind text : string)      (* IntegerLiteral, LongLiteral, FloatLiteral, BitLiteral, StringLiteral, CharLiteral, True, False *)
| KId (name : string)
| KNull | KThis | KSuper | KMeasure | KNew
| KPrim (p : prim)
| KBin (b : binop)               (* Minus is KBin Sub: the same token serves prefix and infix *)
| KBang | KTilde | KInc | KDec
| KDot | KLP | KRP | KLB | KRB | KLBrace | KRBrace | KComma | KAssign
| KOther (s : string).

Inductive expr :=
| ELit (kind text : string) | ENull | EVar (n : string) | EThis | ESuper
| EMeasure (e : expr)
| ENew (cls : string) (args : list expr)
| EArr (es : list expr)
| EParen (e : expr)
| ECast (p : prim) (e : expr)
| EUn (o : preop) (e : expr)
| EBin (o : binop) (l r : expr)
| EPost (o : postop) (e : expr)
| ECall (f : expr) (args : list expr)
| EIndex (c i : expr)
| EMember (o : expr) (m : string)
| EAssign (n : string) (v : expr)
| EArrAssign (c i v : expr)
| EMemAssign (o : expr) (m : string) (v : expr).

(* infixBinding: left binding power; rbp = lbp + 1 (left associative) *)
Definition lbp (b : binop) : nat :=
  match b with
  | OrOr => 3 | AndAnd => 4 | BOr => 5 | BXor => 6 | BAnd => 7
  | EqEq | NotEq => 8
  | Gt | Lt | Ge | Le => 9
  | Add | Sub => 11
  | Mul | Div | Mod => 12
  end.
Definition rbp (b : binop) : nat := S (lbp b).
Definition prefix_bp : nat := 14.
Definition postfix_bp : nat := 16.

(* "array index must be non-negative": the parser rejects a[-<positive int literal>] *)
Definition is_pos_int_text (t : string) : bool :=
  (* a digit string denoting a value > 0 (stoi succeeded and v > 0): some digit other than '0' *)
  let fix go (s : string) : bool :=
    match s with
    | EmptyString => false
    | String c r => if Ascii.eqb c "0"%char then go r else true
    end in go t.
Definition neg_const_index (i : expr) : bool :=
  match i with
  | EUn PNeg (ELit k t) => String.eqb k "int" && is_pos_int_text t
  | _ => false
  end.

Section Parser.
  (* result: parsed expression and the remaining tokens; None = parse error (or out of fuel) *)
  Fixpoint p_assign (fuel : nat) (ts : list tok) {struct fuel} : option (expr * list tok) :=
    match fuel with 0 => None | S f =>
      match p_pratt f 0 ts with
      | Some (l, KAssign :: r) =>
        match p_assign f r with
        | Some (v, r') =>
          match l with
          | EVar n => Some (EAssign n v, r')
          | EIndex c i => Some (EArrAssign c i v, r')
          | EMember o m => Some (EMemAssign o m v, r')
          | _ => None                                      (* "Invalid assignment target" *)
          end
        | None => None
        end
      | other => other
      end
    end
  with p_pratt (fuel minbp : nat) (ts : list tok) {struct fuel} : option (expr * list tok) :=
    match fuel with 0 => None | S f =>
      match p_prefix f ts with
      | Some (l, r) => p_loop f minbp l r
      | None => None
      end
    end
  with p_prefix (fuel : nat) (ts : list tok) {struct fuel} : option (expr * list tok) :=
    match fuel with 0 => None | S f =>
      match ts with
      | KBin Sub :: r => match p_pratt f prefix_bp r with Some (e, r') => Some (EUn PNeg e, r') | None => None end
      | KBang :: r => match p_pratt f prefix_bp r with Some (e, r') => Some (EUn PNot e, r') | None => None end
      | KTilde :: r => match p_pratt f prefix_bp r with Some (e, r') => Some (EUn PBNot e, r') | None => None end
      | _ => p_primary f ts
      end
    end
  with p_primary (fuel : nat) (ts : list tok) {struct fuel} : option (expr * list tok) :=
    match fuel with 0 => None | S f =>
      match ts with
      | KLit k t :: r => Some (ELit k t, r)
      | KNull :: r => Some (ENull, r)
      | KMeasure :: r => match p_assign f r with Some (e, r') => Some (EMeasure e, r') | None => None end
      | KThis :: r => Some (EThis, r)
      | KSuper :: r => Some (ESuper, r)
      | KNew :: KId c :: KLP :: r =>
        match p_list f KRP r with Some (args, r') => Some (ENew c args, r') | None => None end
      | KId n :: r => Some (EVar n, r)
      | KLBrace :: r => match p_list f KRBrace r with Some (es, r') => Some (EArr es, r') | None => None end
      | KLP :: KPrim p :: KRP :: r =>
        match p_prefix f r with Some (e, r') => Some (ECast p e, r') | None => None end
      | KLP :: KPrim _ :: _ => None                        (* array-type casts are not modelled *)
      | KLP :: r =>
        match p_assign f r with Some (e, KRP :: r') => Some (EParen e, r') | _ => None end
      | _ => None                                          (* "Expected expression" *)
      end
    end
  with p_loop (fuel minbp : nat) (left : expr) (ts : list tok) {struct fuel} : option (expr * list tok) :=
    match fuel with 0 => None | S f =>
      match ts with
      | KBin b :: r =>
        if lbp b <? minbp then Some (left, ts)
        else match p_pratt f (rbp b) r with
             | Some (rhs, r') => p_loop f minbp (EBin b left rhs) r'
             | None => None
             end
      | KLP :: r =>
        if postfix_bp <? minbp then Some (left, ts)
        else match p_list f KRP r with
             | Some (args, r') => p_loop f minbp (ECall left args) r'
             | None => None
             end
      | KLB :: r =>
        if postfix_bp <? minbp then Some (left, ts)
        else match p_assign f r with
             | Some (i, KRB :: r') => if neg_const_index i then None else p_loop f minbp (EIndex left i) r'
             | _ => None
             end
      | KDot :: r =>
        if postfix_bp <? minbp then Some (left, ts)
        else match r with
             | KId m :: r' => p_loop f minbp (EMember left m) r'
             | _ => None
             end
      | KInc :: r => if postfix_bp <? minbp then Some (left, ts) else p_loop f minbp (EPost PInc left) r
      | KDec :: r => if postfix_bp <? minbp then Some (left, ts) else p_loop f minbp (EPost PDec left) r
      | _ => Some (left, ts)
      end
    end
  (* `if (!check(closer)) do parseExpression while match(Comma); expect(closer)` *)
  with p_list (fuel : nat) (closer : tok) (ts : list tok) {struct fuel} : option (list expr * list tok) :=
    match fuel with 0 => None | S f =>
      match ts with
      | c :: r =>
        if (match closer, c with KRP, KRP => true | KRBrace, KRBrace => true | _, _ => false end)
        then Some ([], r)
        else p_items f closer ts
      | [] => None
      end
    end
  with p_items (fuel : nat) (closer : tok) (ts : list tok) {struct fuel} : option (list expr * list tok) :=
    match fuel with 0 => None | S f =>
      match p_assign f ts with
      | Some (e, KComma :: r) =>
        match p_items f closer r with Some (es, r') => Some (e :: es, r') | None => None end
      | Some (e, c :: r) =>
        if (match closer, c with KRP, KRP => true | KRBrace, KRBrace => true | _, _ => false end)
        then Some ([e], r) else None
      | _ => None
      end
    end.
End Parser.

(* ---------- rendering ---------- *)
Definition pre_tok (o : preop) : tok := match o with PNeg => KBin Sub | PNot => KBang | PBNot => KTilde end.
Definition post_tok (o : postop) : tok := match o with PInc => KInc | PDec => KDec end.

Fixpoint render (e : expr) : list tok :=
  let fix rlist (es : list expr) : list tok :=
    match es with
    | [] => []
    | [x] => render x
    | x :: r => render x ++ KComma :: rlist r
    end in
  match e with
  | ELit k t => [KLit k t]
  | ENull => [KNull] | EVar n => [KId n] | EThis => [KThis] | ESuper => [KSuper]
  | EMeasure e => KMeasure :: render e
  | ENew c args => KNew :: KId c :: KLP :: rlist args ++ [KRP]
  | EArr es => KLBrace :: rlist es ++ [KRBrace]
  | EParen e => KLP :: render e ++ [KRP]
  | ECast p e => KLP :: KPrim p :: KRP :: render e
  | EUn o e => pre_tok o :: render e
  | EBin o l r => render l ++ KBin o :: render r
  | EPost o e => render e ++ [post_tok o]
  | ECall f args => render f ++ KLP :: rlist args ++ [KRP]
  | EIndex c i => render c ++ KLB :: render i ++ [KRB]
  | EMember o m => render o ++ [KDot; KId m]
  | EAssign n v => KId n :: KAssign :: render v
  | EArrAssign c i v => render c ++ KLB :: render i ++ KRB :: KAssign :: render v
  | EMemAssign o m v => render o ++ KDot :: KId m :: KAssign :: render v
  end.

(* ---------- minimal parenthesisation ---------- *)
(* how tightly an expression binds as an operand of the Pratt loop; assignments are below everything *)
Definition level (e : expr) : nat :=
  match e with
  | EAssign _ _ | EArrAssign _ _ _ | EMemAssign _ _ _ => 0
  | EBin o _ _ => lbp o
  | EUn _ _ => prefix_bp
  | EPost _ _ | ECall _ _ | EIndex _ _ | EMember _ _ => postfix_bp
  | _ => 100
  end.
Definition is_assign (e : expr) : bool :=
  match e with EAssign _ _ | EArrAssign _ _ _ | EMemAssign _ _ _ => true | _ => false end.

(* the smallest minimum-binding-power still being parsed at the right edge of e: a following operator
   with lbp >= this value would be absorbed into e; 0 = absorbs everything, '=' included *)
Fixpoint ropen (e : expr) : nat :=
  match e with
  | EBin o _ r => Nat.min (rbp o) (ropen r)
  | EUn _ e => Nat.min prefix_bp (ropen e)
  | ECast _ e => ropen e
  | EMeasure _ | EAssign _ _ | EArrAssign _ _ _ | EMemAssign _ _ _ => 0
  | _ => 100
  end.

Definition paren_if (b : bool) (e : expr) : expr := if b then EParen e else e.
(* operand of a cast: parsed by parsePrefixExpression only (no Pratt loop) *)
Definition cast_operand_ok (e : expr) : bool :=
  match e with
  | EBin _ _ _ | EPost _ _ | ECall _ _ | EIndex _ _ | EMember _ _ | EAssign _ _ | EArrAssign _ _ _ | EMemAssign _ _ _ => false
  | _ => true
  end.

(* insert exactly the parentheses the precedence rules require; existing EParen nodes are kept *)
Fixpoint add_parens (e : expr) : expr :=
  match e with
  | ELit _ _ | ENull | EVar _ | EThis | ESuper => e
  | EMeasure x => EMeasure (add_parens x)
  | ENew c args => ENew c (map add_parens args)
  | EArr es => EArr (map add_parens es)
  | EParen x => EParen (add_parens x)
  | ECast p x => let x' := add_parens x in ECast p (paren_if (negb (cast_operand_ok x')) x')
  | EUn o x => let x' := add_parens x in EUn o (paren_if (level x' <? prefix_bp) x')
  | EBin o l r =>
    let l' := add_parens l in let r' := add_parens r in
    EBin o (paren_if ((level l' <? lbp o) || (ropen l' <=? lbp o)) l') (paren_if (level r' <? rbp o) r')
  | EPost o x => let x' := add_parens x in EPost o (paren_if ((level x' <? postfix_bp) || (ropen x' <=? postfix_bp)) x')
  | ECall f args => let f' := add_parens f in
                    ECall (paren_if ((level f' <? postfix_bp) || (ropen f' <=? postfix_bp)) f') (map add_parens args)
  | EIndex c i => let c' := add_parens c in
                  EIndex (paren_if ((level c' <? postfix_bp) || (ropen c' <=? postfix_bp)) c') (add_parens i)
  | EMember o m => let o' := add_parens o in
                   EMember (paren_if ((level o' <? postfix_bp) || (ropen o' <=? postfix_bp)) o') m
  | EAssign n v => EAssign n (add_parens v)
  | EArrAssign c i v => let c' := add_parens c in
      EArrAssign (paren_if ((level c' <? postfix_bp) || (ropen c' <=? postfix_bp)) c') (add_parens i) (add_parens v)
  | EMemAssign o m v => let o' := add_parens o in
      EMemAssign (paren_if ((level o' <? postfix_bp) || (ropen o' <=? postfix_bp)) o') m (add_parens v)
  end.

(* remove every EParen: the tree the grammar's precedence rules denote *)
Fixpoint strip (e : expr) : expr :=
  match e with
  | ELit _ _ | ENull | EVar _ | EThis | ESuper => e
  | EMeasure x => EMeasure (strip x)
  | ENew c args => ENew c (map strip args)
  | EArr es => EArr (map strip es)
  | EParen x => strip x
  | ECast p x => ECast p (strip x)
  | EUn o x => EUn o (strip x)
  | EBin o l r => EBin o (strip l) (strip r)
  | EPost o x => EPost o (strip x)
  | ECall f args => ECall (strip f) (map strip args)
  | EIndex c i => EIndex (strip c) (strip i)
  | EMember o m => EMember (strip o) m
  | EAssign n v => EAssign n (strip v)
  | EArrAssign c i v => EArrAssign (strip c) (strip i) (strip v)
  | EMemAssign o m v => EMemAssign (strip o) m (strip v)
  end.

Definition parse_expr (ts : list tok) : option (expr * list tok) := p_assign (4 * List.length ts + 8) ts.
