(* Progress of the expression parser model (C13): every successful parse consumes input - a prefix,
   primary, Pratt or assignment parse at least one token, the binary/postfix loop never gives tokens
   back, an argument / element list at least its closer.  This is the reason none of the parser's loops
   can spin: each iteration that does not stop has consumed a token. *)
From Coq Require Import List Arith Lia.
From Bloch Require Import Parse.PrattModel.
Import ListNotations.

Definition consumes {A} (ts : list tok) (r : option (A * list tok)) : Prop :=
  match r with Some (_, rest) => List.length rest < List.length ts | None => True end.
Definition keeps {A} (ts : list tok) (r : option (A * list tok)) : Prop :=
  match r with Some (_, rest) => List.length rest <= List.length ts | None => True end.

Theorem parser_progress : forall fuel,
  (forall ts, consumes ts (p_assign fuel ts)) /\
  (forall bp ts, consumes ts (p_pratt fuel bp ts)) /\
  (forall ts, consumes ts (p_prefix fuel ts)) /\
  (forall ts, consumes ts (p_primary fuel ts)) /\
  (forall bp l ts, keeps ts (p_loop fuel bp l ts)) /\
  (forall c ts, consumes ts (p_list fuel c ts)) /\
  (forall c ts, consumes ts (p_items fuel c ts)).
Proof.
  induction fuel as [|f IH]; [cbn; repeat split; intros; exact I|].
  destruct IH as [IA [IP [IX [IR [IL [ILi II]]]]]].
  assert (forall ts, consumes ts (p_assign (S f) ts)) as HA.
  { intro ts. cbn [p_assign]. pose proof (IP 0 ts) as H. destruct (p_pratt f 0 ts) as [[l r]|]; [|exact I].
    destruct r as [|t r]; [exact H|]. destruct t; try exact H.
    pose proof (IA r) as H2. destruct (p_assign f r) as [[v r']|]; [|exact I].
    cbn in *. destruct l; cbn; try exact I; lia. }
  assert (forall bp ts, consumes ts (p_pratt (S f) bp ts)) as HP.
  { intros bp ts. cbn [p_pratt]. pose proof (IX ts) as H. destruct (p_prefix f ts) as [[l r]|]; [|exact I].
    pose proof (IL bp l r) as H2. destruct (p_loop f bp l r) as [[e r']|]; [|exact I]. cbn in *. lia. }
  assert (forall ts, consumes ts (p_primary (S f) ts)) as HR.
  { intro ts. cbn [p_primary]. destruct ts as [|t r]; [exact I|].
    destruct t; try exact I; cbn; try lia.
    - (* measure *) pose proof (IA r) as H. destruct (p_assign f r) as [[e r']|]; [cbn in *; lia | exact I].
    - (* new *) destruct r as [|t2 r]; [exact I|]. destruct t2; try exact I. destruct r as [|t3 r]; [exact I|]. destruct t3; try exact I.
      pose proof (ILi KRP r) as H. destruct (p_list f KRP r) as [[a r']|]; [cbn in *; lia | exact I].
    - (* ( *) destruct r as [|t2 r2].
      + pose proof (IA []) as H. destruct (p_assign f []) as [[e r']|]; [|exact I]. destruct r' as [|t r']; [exact I|]. destruct t; try exact I. cbn in *. lia.
      + destruct t2;
          try (pose proof (IA (t2' :: r2)) as H; fail);
          match goal with
          | |- consumes _ (match p_assign f ?x with _ => _ end) =>
              pose proof (IA x) as H; destruct (p_assign f x) as [[e r']|]; [|exact I];
              destruct r' as [|t r']; [exact I|]; destruct t; try exact I; cbn in *; lia
          | _ => idtac
          end.
        destruct r2 as [|t3 r3]; [exact I|]. destruct t3; try exact I.
        pose proof (IX r3) as H. destruct (p_prefix f r3) as [[e r']|]; [cbn in *; lia | exact I].
    - (* { *) pose proof (ILi KRBrace r) as H. destruct (p_list f KRBrace r) as [[a r']|]; [cbn in *; lia | exact I]. }
  assert (forall ts, consumes ts (p_prefix (S f) ts)) as HX.
  { intro ts. cbn [p_prefix]. destruct ts as [|t r]; [apply IR|].
    destruct t; try apply IR.
    - destruct b; try apply IR. pose proof (IP prefix_bp r) as H. destruct (p_pratt f prefix_bp r) as [[e r']|]; [cbn in *; lia | exact I].
    - pose proof (IP prefix_bp r) as H. destruct (p_pratt f prefix_bp r) as [[e r']|]; [cbn in *; lia | exact I].
    - pose proof (IP prefix_bp r) as H. destruct (p_pratt f prefix_bp r) as [[e r']|]; [cbn in *; lia | exact I]. }
  assert (forall bp l ts, keeps ts (p_loop (S f) bp l ts)) as HL.
  { intros bp l ts. cbn [p_loop]. destruct ts as [|t r]; [cbn; lia|].
    destruct t; try (cbn; lia);
    repeat match goal with
    | |- keeps _ (if ?c then _ else _) => destruct c; [try (cbn; lia); try exact I|]
    | |- keeps _ (match p_pratt f ?a ?b with _ => _ end) =>
        let H := fresh "H" in pose proof (IP a b) as H; destruct (p_pratt f a b) as [[? ?]|]; [|exact I]
    | |- keeps _ (match p_list f ?a ?b with _ => _ end) =>
        let H := fresh "H" in pose proof (ILi a b) as H; destruct (p_list f a b) as [[? ?]|]; [|exact I]
    | |- keeps _ (match p_assign f ?a with _ => _ end) =>
        let H := fresh "H" in pose proof (IA a) as H; destruct (p_assign f a) as [[? ?]|]; [|exact I]
    | |- keeps _ (p_loop f ?a ?b ?c) =>
        let H := fresh "H" in pose proof (IL a b c) as H; destruct (p_loop f a b c) as [[? ?]|]; [cbn in *; lia | exact I]
    | |- keeps _ (match ?x with [] => _ | _ :: _ => _ end) => destruct x as [|? ?]; [exact I|]
    | |- keeps _ (match ?x with KId _ => _ | _ => _ end) => destruct x; try exact I
    | |- keeps _ (match ?x with KRB => _ | _ => _ end) => destruct x; try exact I
    end. }
  assert (forall c ts, consumes ts (p_items (S f) c ts)) as HI.
  { intros c ts. cbn [p_items]. pose proof (IA ts) as H. destruct (p_assign f ts) as [[e r]|]; [|exact I].
    destruct r as [|t r]; [exact I|].
    destruct t; try (match goal with |- consumes _ (if ?b then _ else _) => destruct b; [cbn in *; lia | exact I] end).
    pose proof (II c r) as H2. destruct (p_items f c r) as [[es r']|]; [cbn in *; lia | exact I]. }
  assert (forall c ts, consumes ts (p_list (S f) c ts)) as HLi.
  { intros c ts. cbn [p_list]. destruct ts as [|t r]; [exact I|].
    match goal with |- consumes _ (if ?b then _ else _) => destruct b end; [cbn; lia | apply II]. }
  repeat split; assumption.
Qed.
