(* Round trip: parsing the rendering of a well-parenthesised tree gives the tree back. *)
From Coq Require Import List Arith Ascii String Bool Lia.
From Bloch Require Import Parse.PrattModel.
Import ListNotations.
Local Open Scope nat_scope.

(* ---------- induction principle with list children ---------- *)
Section ExprInd.
  Variable P : expr -> Prop.
  Hypothesis HLit : forall k t, P (ELit k t).
  Hypothesis HNull : P ENull.
  Hypothesis HVar : forall n, P (EVar n).
  Hypothesis HThis : P EThis.
  Hypothesis HSuper : P ESuper.
  Hypothesis HMeasure : forall e, P e -> P (EMeasure e).
  Hypothesis HNew : forall c args, Forall P args -> P (ENew c args).
  Hypothesis HArr : forall es, Forall P es -> P (EArr es).
  Hypothesis HParen : forall e, P e -> P (EParen e).
  Hypothesis HCast : forall p e, P e -> P (ECast p e).
  Hypothesis HUn : forall o e, P e -> P (EUn o e).
  Hypothesis HBin : forall o l r, P l -> P r -> P (EBin o l r).
  Hypothesis HPost : forall o e, P e -> P (EPost o e).
  Hypothesis HCall : forall f args, P f -> Forall P args -> P (ECall f args).
  Hypothesis HIndex : forall c i, P c -> P i -> P (EIndex c i).
  Hypothesis HMember : forall o m, P o -> P (EMember o m).
  Hypothesis HAssign : forall n v, P v -> P (EAssign n v).
  Hypothesis HArrAssign : forall c i v, P c -> P i -> P v -> P (EArrAssign c i v).
  Hypothesis HMemAssign : forall o m v, P o -> P v -> P (EMemAssign o m v).

  Fixpoint expr_ind' (e : expr) : P e :=
    let fix go (l : list expr) : Forall P l :=
      match l with [] => Forall_nil P | x :: r => Forall_cons x (expr_ind' x) (go r) end in
    match e with
    | ELit k t => HLit k t | ENull => HNull | EVar n => HVar n | EThis => HThis | ESuper => HSuper
    | EMeasure x => HMeasure x (expr_ind' x)
    | ENew c args => HNew c args (go args)
    | EArr es => HArr es (go es)
    | EParen x => HParen x (expr_ind' x)
    | ECast p x => HCast p x (expr_ind' x)
    | EUn o x => HUn o x (expr_ind' x)
    | EBin o l r => HBin o l r (expr_ind' l) (expr_ind' r)
    | EPost o x => HPost o x (expr_ind' x)
    | ECall f args => HCall f args (expr_ind' f) (go args)
    | EIndex c i => HIndex c i (expr_ind' c) (expr_ind' i)
    | EMember o m => HMember o m (expr_ind' o)
    | EAssign n v => HAssign n v (expr_ind' v)
    | EArrAssign c i v => HArrAssign c i v (expr_ind' c) (expr_ind' i) (expr_ind' v)
    | EMemAssign o m v => HMemAssign o m v (expr_ind' o) (expr_ind' v)
    end.
End ExprInd.

(* ---------- well-parenthesised trees ---------- *)
Definition tight (x : expr) : Prop := postfix_bp <= level x /\ postfix_bp < ropen x.   (* may take a postfix *)

Fixpoint ok (e : expr) : Prop :=
  let fix okl (es : list expr) : Prop := match es with [] => True | x :: r => ok x /\ okl r end in
  match e with
  | ELit _ _ | ENull | EVar _ | EThis | ESuper => True
  | EMeasure x => ok x
  | ENew _ args => okl args
  | EArr es => okl es
  | EParen x => ok x
  | ECast _ x => cast_operand_ok x = true /\ ok x
  | EUn _ x => prefix_bp <= level x /\ ok x
  | EBin o l r => lbp o <= level l /\ lbp o < ropen l /\ rbp o <= level r /\ ok l /\ ok r
  | EPost _ x => tight x /\ ok x
  | ECall f args => tight f /\ ok f /\ okl args
  | EIndex c i => tight c /\ ok c /\ ok i /\ neg_const_index i = false
  | EMember o _ => tight o /\ ok o
  | EAssign _ v => ok v
  | EArrAssign c i v => tight c /\ ok c /\ ok i /\ neg_const_index i = false /\ ok v
  | EMemAssign o _ v => tight o /\ ok o /\ ok v
  end.

Fixpoint okl (es : list expr) : Prop := match es with [] => True | x :: r => ok x /\ okl r end.

Fixpoint rlist (es : list expr) : list tok :=
  match es with
  | [] => []
  | [x] => render x
  | x :: r => render x ++ KComma :: rlist r
  end.

Lemma render_new c args : render (ENew c args) = KNew :: KId c :: KLP :: rlist args ++ [KRP].
Proof. reflexivity. Qed.
Lemma render_arr es : render (EArr es) = KLBrace :: rlist es ++ [KRBrace].
Proof. reflexivity. Qed.
Lemma render_call f args : render (ECall f args) = render f ++ KLP :: rlist args ++ [KRP].
Proof. reflexivity. Qed.

Lemma ok_new c args : ok (ENew c args) <-> okl args.
Proof. cbn [ok]. induction args as [|x r IH]; cbn; tauto. Qed.
Lemma ok_arr es : ok (EArr es) <-> okl es.
Proof. cbn [ok]. induction es as [|x r IH]; cbn; tauto. Qed.
Lemma ok_call f args : ok (ECall f args) <-> tight f /\ ok f /\ okl args.
Proof. cbn [ok]. assert (H : forall l, (fix okl (es : list expr) : Prop := match es with [] => True | x :: r => ok x /\ okl r end) l <-> okl l) by (induction l; cbn; tauto). rewrite H. tauto. Qed.

(* ---------- what may follow ---------- *)
Definition stops (m : nat) (rest : list tok) : Prop :=
  match rest with
  | KBin b :: _ => lbp b < m
  | KLP :: _ | KLB :: _ | KDot :: _ | KInc :: _ | KDec :: _ => postfix_bp < m
  | _ => True
  end.
Definition noassign (rest : list tok) : Prop := match rest with KAssign :: _ => False | _ => True end.
(* nothing that could extend an expression follows *)
Definition aclosed (rest : list tok) : Prop := stops 0 rest /\ noassign rest.
(* the right edge of e is not re-opened by what follows *)
Definition redge_ok (e : expr) (rest : list tok) : Prop := stops (ropen e) rest /\ (ropen e = 0 -> noassign rest).

Lemma stops_mono m m' rest : stops m rest -> m <= m' -> stops m' rest.
Proof. destruct rest as [|[] rest]; cbn; auto; lia. Qed.

Lemma aclosed_stops rest m : aclosed rest -> stops m rest.
Proof. intros [H _]. apply (stops_mono 0); [assumption|lia]. Qed.
Lemma aclosed_redge e rest : aclosed rest -> redge_ok e rest.
Proof. intros H. split; [apply aclosed_stops; assumption|]. intros _. apply H. Qed.

Lemma loop_stop n m e rest : stops m rest -> p_loop (S n) m e rest = Some (e, rest).
Proof.
  destruct rest as [|[] rest]; cbn [p_loop stops]; auto; intros H;
    try (apply Nat.ltb_lt in H; rewrite H; reflexivity).
Qed.

Definition ev {A} (f : nat -> option A) (K : A) : Prop := exists n0, forall n, n0 <= n -> f n = Some K.

Lemma ev_loop_stop m e rest : stops m rest -> ev (fun n => p_loop n m e rest) (e, rest).
Proof. intros H. exists 1. intros n Hn. destruct n; [lia|]. apply loop_stop. assumption. Qed.

(* the first token of a rendered expression is never a closer, a comma or an operator the loop consumes *)
Definition starter (t : tok) : Prop :=
  match t with
  | KRP | KRBrace | KRB | KComma | KAssign | KDot | KLB | KInc | KDec | KOther _ | KPrim _ => False
  | KBin b => b = Sub
  | _ => True
  end.
Lemma render_head e : exists t r, render e = t :: r /\ starter t.
Proof.
  induction e using expr_ind'; try (cbn [render]; eexists; eexists; split; [reflexivity|exact I]).
  - destruct o; cbn [render pre_tok]; eexists; eexists; split; try reflexivity; cbn; auto.
  - destruct IHe1 as (t & r & E & S). cbn [render]. rewrite E. cbn. eauto.
  - destruct IHe as (t & r & E & S). cbn [render]. rewrite E. cbn. eauto.
  - destruct IHe as (t & r & E & S). rewrite render_call, E. cbn. eauto.
  - destruct IHe1 as (t & r & E & S). cbn [render]. rewrite E. cbn. eauto.
  - destruct IHe as (t & r & E & S). cbn [render]. rewrite E. cbn. eauto.
  - destruct IHe1 as (t & r & E & S). cbn [render]. rewrite E. cbn. eauto.
  - destruct IHe1 as (t & r & E & S). cbn [render]. rewrite E. cbn. eauto.
Qed.

(* ---------- one-step unfoldings, in "eventually" form ---------- *)
Ltac ev_intro H n0 HK := destruct H as [n0 HK].
Ltac fuel n := destruct n as [|n]; [lia|].

Lemma pratt_of_prefix ts m l r K :
  ev (fun n => p_prefix n ts) (l, r) -> ev (fun n => p_loop n m l r) K -> ev (fun n => p_pratt n m ts) K.
Proof.
  intros [n1 H1] [n2 H2]. exists (S (n1 + n2)). intros n Hn. fuel n. cbn [p_pratt].
  rewrite H1 by lia. apply H2. lia.
Qed.

Lemma assign_of_pratt_plain ts e rest :
  ev (fun n => p_pratt n 0 ts) (e, rest) -> noassign rest -> ev (fun n => p_assign n ts) (e, rest).
Proof.
  intros [n1 H1] Hna. exists (S n1). intros n Hn. fuel n. cbn [p_assign]. rewrite H1 by lia.
  destruct rest as [|[] rest]; try reflexivity. destruct Hna.
Qed.

Definition assign_node (l v : expr) : option expr :=
  match l with EVar n => Some (EAssign n v) | EIndex c i => Some (EArrAssign c i v) | EMember o m => Some (EMemAssign o m v) | _ => None end.

Lemma assign_of_pratt_assign ts l r v r' node :
  ev (fun n => p_pratt n 0 ts) (l, KAssign :: r) -> ev (fun n => p_assign n r) (v, r') ->
  assign_node l v = Some node -> ev (fun n => p_assign n ts) (node, r').
Proof.
  intros [n1 H1] [n2 H2] Hn. exists (S (n1 + n2)). intros n Hge. fuel n. cbn [p_assign].
  rewrite H1 by lia. rewrite H2 by lia. destruct l; cbn in Hn; try discriminate; injection Hn as <-; reflexivity.
Qed.

Lemma prefix_un o r e r' :
  ev (fun n => p_pratt n prefix_bp r) (e, r') -> ev (fun n => p_prefix n (pre_tok o :: r)) (EUn o e, r').
Proof.
  intros [n1 H1]. exists (S n1). intros n Hn. fuel n. destruct o; cbn [p_prefix pre_tok]; rewrite H1 by lia; reflexivity.
Qed.

Definition not_prefix_tok (t : tok) : Prop := match t with KBin Sub | KBang | KTilde => False | _ => True end.
Lemma prefix_primary t r K : not_prefix_tok t ->
  ev (fun n => p_primary n (t :: r)) K -> ev (fun n => p_prefix n (t :: r)) K.
Proof.
  intros Ht [n1 H1]. exists (S n1). intros n Hn. fuel n. cbn [p_prefix].
  destruct t as [| | | | | | | |b| | | | | | | | | | | | | |]; try (apply H1; lia); try (destruct Ht).
  destruct b; try (apply H1; lia). destruct Ht.
Qed.

Lemma primary_atom t e r :
  (t = KNull /\ e = ENull) \/ (t = KThis /\ e = EThis) \/ (t = KSuper /\ e = ESuper)
  \/ (exists k x, t = KLit k x /\ e = ELit k x) \/ (exists n, t = KId n /\ e = EVar n) ->
  ev (fun n => p_primary n (t :: r)) (e, r).
Proof.
  intros H. exists 1. intros n Hn. fuel n. cbn [p_primary].
  destruct H as [[-> ->]|[[-> ->]|[[-> ->]|[(k & x & -> & ->)|(m & -> & ->)]]]]; reflexivity.
Qed.

Lemma primary_measure r e r' :
  ev (fun n => p_assign n r) (e, r') -> ev (fun n => p_primary n (KMeasure :: r)) (EMeasure e, r').
Proof. intros [n1 H1]. exists (S n1). intros n Hn. fuel n. cbn [p_primary]. rewrite H1 by lia. reflexivity. Qed.

Lemma primary_new c r args r' :
  ev (fun n => p_list n KRP r) (args, r') -> ev (fun n => p_primary n (KNew :: KId c :: KLP :: r)) (ENew c args, r').
Proof. intros [n1 H1]. exists (S n1). intros n Hn. fuel n. cbn [p_primary]. rewrite H1 by lia. reflexivity. Qed.

Lemma primary_arr r es r' :
  ev (fun n => p_list n KRBrace r) (es, r') -> ev (fun n => p_primary n (KLBrace :: r)) (EArr es, r').
Proof. intros [n1 H1]. exists (S n1). intros n Hn. fuel n. cbn [p_primary]. rewrite H1 by lia. reflexivity. Qed.

Lemma primary_paren t r e r' : starter t ->
  ev (fun n => p_assign n (t :: r)) (e, KRP :: r') -> ev (fun n => p_primary n (KLP :: t :: r)) (EParen e, r').
Proof.
  intros St [n1 H1]. exists (S n1). intros n Hn. fuel n. cbn [p_primary].
  destruct t; try (destruct St); rewrite H1 by lia; reflexivity.
Qed.

Lemma primary_cast p r e r' :
  ev (fun n => p_prefix n r) (e, r') -> ev (fun n => p_primary n (KLP :: KPrim p :: KRP :: r)) (ECast p e, r').
Proof. intros [n1 H1]. exists (S n1). intros n Hn. fuel n. cbn [p_primary]. rewrite H1 by lia. reflexivity. Qed.

Lemma loop_bin m left b r rhs r' K : m <= lbp b ->
  ev (fun n => p_pratt n (rbp b) r) (rhs, r') -> ev (fun n => p_loop n m (EBin b left rhs) r') K ->
  ev (fun n => p_loop n m left (KBin b :: r)) K.
Proof.
  intros Hm [n1 H1] [n2 H2]. exists (S (n1 + n2)). intros n Hn. fuel n. cbn [p_loop].
  assert (E : (lbp b <? m) = false) by (apply Nat.ltb_ge; lia). rewrite E. rewrite H1 by lia. apply H2. lia.
Qed.

Lemma loop_call m left r args r' K : m <= postfix_bp ->
  ev (fun n => p_list n KRP r) (args, r') -> ev (fun n => p_loop n m (ECall left args) r') K ->
  ev (fun n => p_loop n m left (KLP :: r)) K.
Proof.
  intros Hm [n1 H1] [n2 H2]. exists (S (n1 + n2)). intros n Hn. fuel n. cbn [p_loop].
  assert (E : (postfix_bp <? m) = false) by (apply Nat.ltb_ge; lia). rewrite E. rewrite H1 by lia. apply H2. lia.
Qed.

Lemma loop_index m left r i r' K : m <= postfix_bp -> neg_const_index i = false ->
  ev (fun n => p_assign n r) (i, KRB :: r') -> ev (fun n => p_loop n m (EIndex left i) r') K ->
  ev (fun n => p_loop n m left (KLB :: r)) K.
Proof.
  intros Hm Hneg [n1 H1] [n2 H2]. exists (S (n1 + n2)). intros n Hn. fuel n. cbn [p_loop].
  assert (E : (postfix_bp <? m) = false) by (apply Nat.ltb_ge; lia). rewrite E. rewrite H1 by lia. rewrite Hneg. apply H2. lia.
Qed.

Lemma loop_member m left name r K : m <= postfix_bp ->
  ev (fun n => p_loop n m (EMember left name) r) K -> ev (fun n => p_loop n m left (KDot :: KId name :: r)) K.
Proof.
  intros Hm [n2 H2]. exists (S n2). intros n Hn. fuel n. cbn [p_loop].
  assert (E : (postfix_bp <? m) = false) by (apply Nat.ltb_ge; lia). rewrite E. apply H2. lia.
Qed.

Lemma loop_post m left o r K : m <= postfix_bp ->
  ev (fun n => p_loop n m (EPost o left) r) K -> ev (fun n => p_loop n m left (post_tok o :: r)) K.
Proof.
  intros Hm [n2 H2]. exists (S n2). intros n Hn. fuel n.
  assert (E : (postfix_bp <? m) = false) by (apply Nat.ltb_ge; lia).
  destruct o; cbn [p_loop post_tok]; rewrite E; apply H2; lia.
Qed.

(* lists *)
Definition is_closer (c : tok) : Prop := c = KRP \/ c = KRBrace.
Definition closes (closer c : tok) : bool := match closer, c with KRP, KRP => true | KRBrace, KRBrace => true | _, _ => false end.

Lemma starter_not_closer closer t : is_closer closer -> starter t -> closes closer t = false.
Proof. intros [->| ->] St; destruct t; cbn in *; auto; destruct St. Qed.

Lemma items_ok closer es : is_closer closer -> es <> [] ->
  Forall (fun x => forall rest, aclosed rest -> ev (fun n => p_assign n (render x ++ rest)) (x, rest)) es ->
  forall rest, ev (fun n => p_items n closer (rlist es ++ closer :: rest)) (es, rest).
Proof.
  intros Hc Hne F. induction F as [|x r Hx Fr IH]; [congruence|]. intros rest.
  destruct r as [|y r].
  - cbn [rlist]. destruct (Hx (closer :: rest)) as [n1 H1].
    { destruct Hc as [->| ->]; split; cbn; auto. }
    exists (S n1). intros n Hn. fuel n. cbn [p_items]. rewrite H1 by lia.
    destruct Hc as [->| ->]; reflexivity.
  - cbn [rlist]. rewrite <- app_assoc. cbn [app].
    destruct (Hx (KComma :: rlist (y :: r) ++ closer :: rest)) as [n1 H1]; [split; cbn; auto|].
    destruct (IH ltac:(discriminate) rest) as [n2 H2].
    exists (S (n1 + n2)). intros n Hn. fuel n. cbn [p_items]. rewrite H1 by lia. rewrite H2 by lia. reflexivity.
Qed.

Lemma list_ok closer es : is_closer closer ->
  Forall (fun x => forall rest, aclosed rest -> ev (fun n => p_assign n (render x ++ rest)) (x, rest)) es ->
  forall rest, ev (fun n => p_list n closer (rlist es ++ closer :: rest)) (es, rest).
Proof.
  intros Hc F rest. destruct es as [|x r].
  - cbn [rlist app]. exists 1. intros n Hn. fuel n. cbn [p_list]. destruct Hc as [->| ->]; reflexivity.
  - destruct (items_ok closer (x :: r) Hc ltac:(discriminate) F rest) as [n1 H1].
    assert (Hh : exists t tl, rlist (x :: r) ++ closer :: rest = t :: tl /\ starter t).
    { destruct (render_head x) as (t & tl & E & St). destruct r; cbn [rlist]; rewrite E; cbn; eauto. }
    destruct Hh as (t & tl & E & St).
    exists (S n1). intros n Hn. fuel n. cbn [p_list]. rewrite E. fold (closes closer t).
    rewrite (starter_not_closer closer t Hc St). rewrite <- E. apply H1. lia.
Qed.

(* ---------- the round trip ---------- *)
Definition PA (e : expr) : Prop :=
  is_assign e = false -> forall m rest K, m <= level e -> redge_ok e rest ->
  ev (fun n => p_loop n m e rest) K -> ev (fun n => p_pratt n m (render e ++ rest)) K.
Definition PB (e : expr) : Prop :=
  forall rest, aclosed rest -> ev (fun n => p_assign n (render e ++ rest)) (e, rest).
Definition PF (e : expr) : Prop :=
  cast_operand_ok e = true -> forall rest, redge_ok e rest -> ev (fun n => p_prefix n (render e ++ rest)) (e, rest).
Definition PALL (e : expr) : Prop := ok e -> PA e /\ PB e /\ PF e.

Lemma PB_of_PA e : ok e -> is_assign e = false -> PA e -> PB e.
Proof.
  intros Hok Hna HA rest Hcl. apply assign_of_pratt_plain; [|apply Hcl].
  apply HA; auto; [lia|apply aclosed_redge; assumption|]. apply ev_loop_stop. apply Hcl.
Qed.

Lemma PA_of_PF e : (forall rest, redge_ok e rest -> ev (fun n => p_prefix n (render e ++ rest)) (e, rest)) -> PA e.
Proof. intros HF _ m rest K _ Hr HK. eapply pratt_of_prefix; [apply HF; assumption|exact HK]. Qed.

Lemma stops_100 rest : stops 100 rest.
Proof. destruct rest as [|[] rest]; cbn; auto; try (unfold postfix_bp; lia). destruct b; cbn; lia. Qed.

(* primary forms whose right edge is closed *)
Lemma prim_case e t r :
  render e = t :: r -> not_prefix_tok t ->
  (forall rest, ev (fun n => p_primary n (render e ++ rest)) (e, rest)) ->
  PA e /\ (forall rest, ev (fun n => p_prefix n (render e ++ rest)) (e, rest)).
Proof.
  intros E Ht HP.
  assert (HF : forall rest, ev (fun n => p_prefix n (render e ++ rest)) (e, rest)).
  { intros rest. specialize (HP rest). rewrite E in *. cbn [app] in *. apply prefix_primary; assumption. }
  split; [|exact HF]. apply PA_of_PF. intros rest _. apply HF.
Qed.

Lemma okl_Forall es : okl es -> Forall PALL es -> Forall (fun x => forall rest, aclosed rest -> ev (fun n => p_assign n (render x ++ rest)) (x, rest)) es.
Proof.
  induction es as [|x r IH]; intros Hok F; [constructor|]. cbn in Hok. destruct Hok as [Hx Hr].
  inversion F as [|? ? Fx Fr]; subst. constructor; [|apply IH; assumption]. apply (Fx Hx).
Qed.

(* postfix forms share one argument: parse the head, then the loop takes the postfix step *)
Lemma tight_PA x : PALL x -> tight x -> ok x -> forall m rest' K, m <= postfix_bp ->
  stops postfix_bp rest' \/ True ->
  ev (fun n => p_loop n m x rest') K -> (stops (ropen x) rest') -> ev (fun n => p_pratt n m (render x ++ rest')) K.
Proof.
  intros HX [Hl Hr] Hok m rest' K Hm _ HK Hst. destruct (HX Hok) as (HA & _ & _).
  apply HA; auto.
  - destruct x; cbn in *; try reflexivity; unfold postfix_bp in *; lia.
  - unfold postfix_bp in *. lia.
  - split; [exact Hst|]. unfold postfix_bp in *. lia.
Qed.

Theorem roundtrip_all : forall e, PALL e.
Proof.
  induction e using expr_ind'; intros Hok.
  - (* ELit *) destruct (prim_case (ELit k t) (KLit k t) [] eq_refl I) as [A F].
    { intros rest. apply primary_atom. right. right. right. left. eauto. }
    split; [exact A|]. split; [apply PB_of_PA; auto|]. intros _ rest _. apply F.
  - destruct (prim_case ENull KNull [] eq_refl I) as [A F]. { intros rest. apply primary_atom. auto. }
    split; [exact A|]. split; [apply PB_of_PA; auto|]. intros _ rest _. apply F.
  - destruct (prim_case (EVar n) (KId n) [] eq_refl I) as [A F]. { intros rest. apply primary_atom. right. right. right. right. eauto. }
    split; [exact A|]. split; [apply PB_of_PA; auto|]. intros _ rest _. apply F.
  - destruct (prim_case EThis KThis [] eq_refl I) as [A F]. { intros rest. apply primary_atom. auto. }
    split; [exact A|]. split; [apply PB_of_PA; auto|]. intros _ rest _. apply F.
  - destruct (prim_case ESuper KSuper [] eq_refl I) as [A F]. { intros rest. apply primary_atom. auto. }
    split; [exact A|]. split; [apply PB_of_PA; auto|]. intros _ rest _. apply F.
  - (* EMeasure: the operand is parsed at assignment level and swallows everything to its right *)
    cbn [ok] in Hok. destruct (IHe Hok) as (_ & HB & _).
    assert (HF : forall rest, redge_ok (EMeasure e) rest -> ev (fun n => p_prefix n (render (EMeasure e) ++ rest)) (EMeasure e, rest)).
    { intros rest [Hs Hn]. cbn [ropen] in *. cbn [render app]. apply prefix_primary; [exact I|].
      apply primary_measure. apply HB. split; [exact Hs|apply Hn; reflexivity]. }
    split; [apply PA_of_PF; exact HF|]. split.
    + apply PB_of_PA; auto. apply PA_of_PF; exact HF.
    + intros _. exact HF.
  - (* ENew *)
    apply ok_new in Hok. pose proof (okl_Forall _ Hok H) as FB.
    destruct (prim_case (ENew c args) KNew (KId c :: KLP :: rlist args ++ [KRP]) (render_new c args) I) as [A F].
    { intros rest. rewrite render_new. cbn [app]. rewrite <- app_assoc. cbn [app]. apply primary_new. apply list_ok; [left; reflexivity|exact FB]. }
    split; [exact A|]. split; [apply PB_of_PA; auto; apply ok_new; assumption|]. intros _ rest _. apply F.
  - (* EArr *)
    apply ok_arr in Hok. pose proof (okl_Forall _ Hok H) as FB.
    destruct (prim_case (EArr es) KLBrace (rlist es ++ [KRBrace]) (render_arr es) I) as [A F].
    { intros rest. rewrite render_arr. cbn [app]. rewrite <- app_assoc. cbn [app]. apply primary_arr. apply list_ok; [right; reflexivity|exact FB]. }
    split; [exact A|]. split; [apply PB_of_PA; auto; apply ok_arr; assumption|]. intros _ rest _. apply F.
  - (* EParen *)
    cbn [ok] in Hok. destruct (IHe Hok) as (_ & HB & _).
    destruct (prim_case (EParen e) KLP (render e ++ [KRP]) eq_refl I) as [A F].
    { intros rest. cbn [render app]. rewrite <- app_assoc. cbn [app].
      destruct (render_head e) as (t & r & E & St). rewrite E. cbn [app]. apply primary_paren; [exact St|].
      change (t :: r ++ KRP :: rest) with ((t :: r) ++ KRP :: rest). rewrite <- E.
      apply HB. split; cbn; auto. }
    split; [exact A|]. split; [apply PB_of_PA; auto|]. intros _ rest _. apply F.
  - (* ECast *)
    cbn [ok] in Hok. destruct Hok as [Hc Hok]. destruct (IHe Hok) as (_ & _ & HFx).
    assert (HF : forall rest, redge_ok (ECast p e) rest -> ev (fun n => p_prefix n (render (ECast p e) ++ rest)) (ECast p e, rest)).
    { intros rest Hr. cbn [render app]. apply prefix_primary; [exact I|]. apply primary_cast. apply HFx; [exact Hc|exact Hr]. }
    split; [apply PA_of_PF; exact HF|]. split.
    + apply PB_of_PA; auto; [cbn; auto|apply PA_of_PF; exact HF].
    + intros _. exact HF.
  - (* EUn *)
    cbn [ok] in Hok. destruct Hok as [Hl Hok]. destruct (IHe Hok) as (HAx & _ & _).
    assert (Hna : is_assign e = false) by (destruct e; cbn in *; try reflexivity; unfold prefix_bp in Hl; lia).
    assert (HF : forall rest, redge_ok (EUn o e) rest -> ev (fun n => p_prefix n (render (EUn o e) ++ rest)) (EUn o e, rest)).
    { intros rest [Hs Hn]. cbn [ropen] in *. cbn [render app]. apply prefix_un.
      apply HAx; auto.
      - split; [apply (stops_mono _ _ _ Hs); apply Nat.le_min_r|]. intros E. apply Hn. rewrite E. apply Nat.min_0_r.
      - apply ev_loop_stop. apply (stops_mono _ _ _ Hs). apply Nat.le_min_l. }
    split; [apply PA_of_PF; exact HF|]. split.
    + apply PB_of_PA; auto; [cbn; auto|apply PA_of_PF; exact HF].
    + intros _. exact HF.
  - (* EBin *)
    cbn [ok] in Hok. destruct Hok as (Hl & Hro & Hr & Hokl & Hokr).
    destruct (IHe1 Hokl) as (HAl & _ & _). destruct (IHe2 Hokr) as (HAr & _ & _).
    assert (Hnal : is_assign e1 = false) by (destruct e1; cbn in *; try reflexivity; destruct o; cbn in *; lia).
    assert (Hnar : is_assign e2 = false) by (destruct e2; cbn in *; try reflexivity; unfold rbp in Hr; destruct o; cbn in *; lia).
    assert (HA : PA (EBin o e1 e2)).
    { intros _ m rest K Hm [Hs Hn] HK. cbn [level ropen] in *. cbn [render]. rewrite <- app_assoc. cbn [app].
      apply HAl; auto; [lia| |].
      - split; [cbn; exact Hro|]. intros E. rewrite E in Hro. lia.
      - apply (loop_bin m e1 o (render e2 ++ rest) e2 rest K Hm); [|exact HK].
        apply HAr; auto.
        + split; [apply (stops_mono _ _ _ Hs); apply Nat.le_min_r|]. intros E. apply Hn. rewrite E. apply Nat.min_0_r.
        + apply ev_loop_stop. apply (stops_mono _ _ _ Hs). apply Nat.le_min_l. }
    split; [exact HA|]. split; [apply PB_of_PA; auto; cbn; auto|]. intros Hc. discriminate.
  - (* EPost *)
    cbn [ok] in Hok. destruct Hok as [Ht Hokx].
    assert (HA : PA (EPost o e)).
    { intros _ m rest K Hm _ HK. cbn [level] in Hm. cbn [render]. rewrite <- app_assoc. cbn [app].
      apply (tight_PA e IHe Ht Hokx m _ K Hm (or_intror I)).
      - apply loop_post; assumption.
      - destruct o; cbn; apply Ht. }
    split; [exact HA|]. split; [apply PB_of_PA; auto; cbn; auto|]. intros Hc. discriminate.
  - (* ECall *)
    apply ok_call in Hok. destruct Hok as (Ht & Hokf & Hoka). pose proof (okl_Forall _ Hoka H) as FB.
    assert (HA : PA (ECall e args)).
    { intros _ m rest K Hm _ HK. cbn [level] in Hm. rewrite render_call. rewrite <- app_assoc. cbn [app]. rewrite <- app_assoc. cbn [app].
      apply (tight_PA e IHe Ht Hokf m _ K Hm (or_intror I)).
      - apply (loop_call m e _ args rest K Hm); [|exact HK]. apply list_ok; [left; reflexivity|exact FB].
      - cbn. apply Ht. }
    split; [exact HA|]. split; [apply PB_of_PA; auto; apply ok_call; auto|]. intros Hc. discriminate.
  - (* EIndex *)
    cbn [ok] in Hok. destruct Hok as (Ht & Hokc & Hoki & Hneg). destruct (IHe2 Hoki) as (_ & HBi & _).
    assert (HA : PA (EIndex e1 e2)).
    { intros _ m rest K Hm _ HK. cbn [level] in Hm. cbn [render]. rewrite <- app_assoc. cbn [app]. rewrite <- app_assoc. cbn [app].
      apply (tight_PA e1 IHe1 Ht Hokc m _ K Hm (or_intror I)).
      - apply (loop_index m e1 _ e2 rest K Hm Hneg); [|exact HK]. apply HBi. split; cbn; auto.
      - cbn. apply Ht. }
    split; [exact HA|]. split; [apply PB_of_PA; auto; cbn; auto|]. intros Hc. discriminate.
  - (* EMember *)
    cbn [ok] in Hok. destruct Hok as (Ht & Hoko).
    assert (HA : PA (EMember e m)).
    { intros _ m0 rest K Hm _ HK. cbn [level] in Hm. cbn [render]. rewrite <- app_assoc. cbn [app].
      apply (tight_PA e IHe Ht Hoko m0 _ K Hm (or_intror I)).
      - apply loop_member; assumption.
      - cbn. apply Ht. }
    split; [exact HA|]. split; [apply PB_of_PA; auto; cbn; auto|]. intros Hc. discriminate.
  - (* EAssign *)
    cbn [ok] in Hok. destruct (IHe Hok) as (_ & HBv & _).
    split; [intros Hc; discriminate|]. split; [|intros Hc; discriminate].
    intros rest Hcl. cbn [render app].
    apply (assign_of_pratt_assign _ (EVar n) (render e ++ rest) e rest (EAssign n e)); [|apply HBv; exact Hcl|reflexivity].
    apply (pratt_of_prefix _ 0 (EVar n) (KAssign :: render e ++ rest)).
    + apply prefix_primary; [exact I|]. apply primary_atom. right. right. right. right. eauto.
    + apply ev_loop_stop. exact I.
  - (* EArrAssign *)
    cbn [ok] in Hok. destruct Hok as (Ht & Hokc & Hoki & Hneg & Hokv).
    destruct (IHe2 Hoki) as (_ & HBi & _). destruct (IHe3 Hokv) as (_ & HBv & _).
    split; [intros Hc; discriminate|]. split; [|intros Hc; discriminate].
    intros rest Hcl. cbn [render]. rewrite <- app_assoc. cbn [app]. rewrite <- app_assoc. cbn [app].
    apply (assign_of_pratt_assign _ (EIndex e1 e2) (render e3 ++ rest) e3 rest (EArrAssign e1 e2 e3)); [|apply HBv; exact Hcl|reflexivity].
    apply (tight_PA e1 IHe1 Ht Hokc 0 _ _ ltac:(unfold postfix_bp; lia) (or_intror I)).
    + apply (loop_index 0 e1 _ e2 (KAssign :: render e3 ++ rest) _ ltac:(unfold postfix_bp; lia) Hneg).
      * apply HBi. split; cbn; auto.
      * apply ev_loop_stop. exact I.
    + cbn. apply Ht.
  - (* EMemAssign *)
    cbn [ok] in Hok. destruct Hok as (Ht & Hoko & Hokv). destruct (IHe2 Hokv) as (_ & HBv & _).
    split; [intros Hc; discriminate|]. split; [|intros Hc; discriminate].
    intros rest Hcl. cbn [render]. rewrite <- app_assoc. cbn [app].
    apply (assign_of_pratt_assign _ (EMember e1 m) (render e2 ++ rest) e2 rest (EMemAssign e1 m e2)); [|apply HBv; exact Hcl|reflexivity].
    apply (tight_PA e1 IHe1 Ht Hoko 0 _ _ ltac:(unfold postfix_bp; lia) (or_intror I)).
    + apply loop_member; [unfold postfix_bp; lia|]. apply ev_loop_stop. exact I.
    + cbn. apply Ht.
Qed.

Theorem pratt_roundtrip e rest : ok e -> aclosed rest ->
  exists n0, forall n, n0 <= n -> p_assign n (render e ++ rest) = Some (e, rest).
Proof. intros Hok Hcl. destruct (roundtrip_all e Hok) as (_ & HB & _). exact (HB rest Hcl). Qed.

(* ---------- add_parens produces well-parenthesised trees and only adds parentheses ---------- *)
Lemma strip_paren_if b x : strip (paren_if b x) = strip x.
Proof. destruct b; reflexivity. Qed.

Theorem strip_add_parens : forall e, strip (add_parens e) = strip e.
Proof.
  assert (HL : forall es, Forall (fun e => strip (add_parens e) = strip e) es -> map strip (map add_parens es) = map strip es).
  { induction 1 as [|x r Hx Hr IH]; cbn; [reflexivity|]. rewrite Hx, IH. reflexivity. }
  induction e using expr_ind'; cbn [add_parens strip]; rewrite ?strip_paren_if;
    repeat match goal with Hs : strip (add_parens _) = _ |- _ => rewrite Hs; clear Hs end;
    try rewrite (HL _ H); reflexivity.
Qed.

(* indices the parser itself rejects ("array index must be non-negative") are outside the grammar's trees *)
Fixpoint idx_ok (e : expr) : Prop :=
  let fix go (es : list expr) : Prop := match es with [] => True | x :: r => idx_ok x /\ go r end in
  match e with
  | ELit _ _ | ENull | EVar _ | EThis | ESuper => True
  | EMeasure x | EParen x | ECast _ x | EUn _ x | EPost _ x | EMember x _ | EAssign _ x => idx_ok x
  | ENew _ args => go args
  | EArr es => go es
  | EBin _ l r => idx_ok l /\ idx_ok r
  | ECall f args => idx_ok f /\ go args
  | EIndex c i => idx_ok c /\ idx_ok i /\ neg_const_index i = false
  | EArrAssign c i v => idx_ok c /\ idx_ok i /\ neg_const_index i = false /\ idx_ok v
  | EMemAssign o _ v => idx_ok o /\ idx_ok v
  end.
Fixpoint idx_okl (es : list expr) : Prop := match es with [] => True | x :: r => idx_ok x /\ idx_okl r end.

Lemma add_parens_lit e k t : add_parens e = ELit k t -> e = ELit k t.
Proof.
  destruct e; cbn [add_parens]; try discriminate; try (intros H; exact H).
  all: try (unfold paren_if; repeat match goal with |- context [if ?b then _ else _] => destruct b end; discriminate).
Qed.

Lemma neg_const_add_parens i : neg_const_index i = false -> neg_const_index (add_parens i) = false.
Proof.
  intros H. destruct (neg_const_index (add_parens i)) eqn:E; [|reflexivity]. exfalso.
  destruct i; cbn [add_parens] in E; try discriminate E;
    try (unfold paren_if in E; repeat match type of E with context [if ?b then _ else _] => destruct b end; discriminate E).
  destruct o; try discriminate E.
  unfold paren_if in E. destruct (level (add_parens i) <? prefix_bp) eqn:El; [discriminate E|].
  destruct (add_parens i) eqn:Ea; try discriminate E. apply add_parens_lit in Ea. subst i. congruence.
Qed.

Lemma tight_paren_if x : tight (paren_if ((level x <? postfix_bp) || (ropen x <=? postfix_bp)) x).
Proof.
  unfold tight. destruct (level x <? postfix_bp) eqn:E1; cbn [orb paren_if level ropen]; [unfold postfix_bp; lia|].
  destruct (ropen x <=? postfix_bp) eqn:E2; cbn [paren_if level ropen]; [unfold postfix_bp; lia|].
  apply Nat.ltb_ge in E1. apply Nat.leb_gt in E2. lia.
Qed.
Lemma ok_paren_if b x : ok x -> ok (paren_if b x).
Proof. destruct b; auto. Qed.

Theorem add_parens_ok : forall e, idx_ok e -> ok (add_parens e).
Proof.
  assert (HL : forall es, Forall (fun e => idx_ok e -> ok (add_parens e)) es -> idx_okl es -> okl (map add_parens es)).
  { induction 1 as [|x r Hx Hr IH]; cbn; auto. intros [A B]. auto. }
  assert (IL : forall es, (fix go (es : list expr) : Prop := match es with [] => True | x :: r => idx_ok x /\ go r end) es <-> idx_okl es)
    by (induction es; cbn; tauto).
  induction e using expr_ind'; cbn [add_parens idx_ok]; intros Hi; try exact I; try (cbn [ok]; auto; fail).
  - apply ok_new. apply HL; [assumption|apply IL; assumption].
  - apply ok_arr. apply HL; [assumption|apply IL; assumption].
  - cbn [ok]. split; [|apply ok_paren_if; auto].
    destruct (cast_operand_ok (add_parens e)) eqn:E; cbn [negb paren_if]; [exact E|reflexivity].
  - cbn [ok]. split; [|apply ok_paren_if; auto].
    destruct (level (add_parens e) <? prefix_bp) eqn:E; cbn [paren_if level]; [unfold prefix_bp; lia|apply Nat.ltb_ge in E; exact E].
  - destruct Hi as [H1 H2]. cbn [ok]. repeat split; try (apply ok_paren_if; auto).
    + destruct (level (add_parens e1) <? lbp o) eqn:E1; cbn [orb paren_if level]; [destruct o; cbn; lia|].
      destruct (ropen (add_parens e1) <=? lbp o); cbn [paren_if level]; [destruct o; cbn; lia|apply Nat.ltb_ge in E1; exact E1].
    + destruct (level (add_parens e1) <? lbp o) eqn:E1; cbn [orb paren_if ropen]; [destruct o; cbn; lia|].
      destruct (ropen (add_parens e1) <=? lbp o) eqn:E2; cbn [paren_if ropen]; [destruct o; cbn; lia|apply Nat.leb_gt in E2; exact E2].
    + destruct (level (add_parens e2) <? rbp o) eqn:E; cbn [paren_if level]; [unfold rbp; destruct o; cbn; lia|apply Nat.ltb_ge in E; exact E].
  - cbn [ok]. split; [apply tight_paren_if|apply ok_paren_if; auto].
  - destruct Hi as [H1 H2]. apply ok_call. split; [apply tight_paren_if|]. split; [apply ok_paren_if; auto|].
    apply HL; [assumption|apply IL; assumption].
  - destruct Hi as (H1 & H2 & H3). cbn [ok]. split; [apply tight_paren_if|]. split; [apply ok_paren_if; auto|].
    split; [auto|apply neg_const_add_parens; assumption].
  - cbn [ok]. split; [apply tight_paren_if|apply ok_paren_if; auto].
  - destruct Hi as (H1 & H2 & H3 & H4). cbn [ok]. split; [apply tight_paren_if|]. split; [apply ok_paren_if; auto|].
    split; [auto|]. split; [apply neg_const_add_parens; assumption|auto].
  - destruct Hi as (H1 & H2). cbn [ok]. split; [apply tight_paren_if|]. split; [apply ok_paren_if; auto|auto].
Qed.

(* the statement of C14 for expressions: rendering a tree with the minimal parentheses the precedence
   rules require and parsing it back gives that tree (explicit parenthesis nodes aside) *)
Theorem render_minimal_then_parse e rest : idx_ok e -> aclosed rest ->
  strip (add_parens e) = strip e /\
  exists n0, forall n, n0 <= n -> p_assign n (render (add_parens e) ++ rest) = Some (add_parens e, rest).
Proof.
  intros Hi Hc. split; [apply strip_add_parens|]. apply pratt_roundtrip; [apply add_parens_ok; assumption|assumption].
Qed.
