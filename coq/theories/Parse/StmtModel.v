(* Executable model of the statement parser (parser.cpp: parseStatement, isTypeAhead, parseType,
   parseVariableDeclaration with one declarator, parseBlock, parseReturn / If / For / While / Echo /
   Reset / Measure / Destroy / Assignment, the conditional statement) and of rendering a statement
   back to tokens.  Expressions are those of PrattModel.  Definitions only.

   Keywords and punctuation that the expression grammar does not use are the tokens [KOther s]
   (";" "?" ":" "@" "tracked" "final" "return" "if" "else" "for" "while" "echo" "reset" "destroy"). *)
From Coq Require Import List Arith Ascii String Bool.
From Bloch Require Import Parse.PrattModel.
Import ListNotations.
Local Open Scope string_scope.
Local Open Scope nat_scope.
Local Open Scope list_scope.

Definition kw (s : string) : tok := KOther s.
Definition is_kw (s : string) (t : tok) : bool := match t with KOther s' => String.eqb s s' | _ => false end.

(* ---------- types (docs/grammar.md `type`, plus class names) ---------- *)
Inductive asize := ANone | ALit (text : string) | AExpr (e : expr).
Inductive tbase := BPrim (p : prim) | BCls (name : string) (more : list string).    (* a class name, possibly qualified: name.more1.more2 *)
Record ty := mkTy { tbase_of : tbase; tdims : list asize }.

Inductive finit := FNone | FDecl (fin : bool) (t : ty) (name : string) (init : option expr) | FExpr (e : expr).

Inductive stmt :=
| SBlock (ss : list stmt)
| SDecl (fin tracked : bool) (t : ty) (name : string) (init : option expr)
| SReturn (e : option expr)
| SIf (c : expr) (th : list stmt) (el : option (list stmt))
| SFor (init : finit) (c step : expr) (body : list stmt)
| SWhile (c : expr) (body : list stmt)
| SEcho (e : expr)
| SReset (e : expr)
| SMeasure (e : expr)
| SDestroy (e : expr)
| STern (c : expr) (a b : stmt)
| SAssign (n : string) (e : expr)
| SExpr (e : expr).

(* ---------- isTypeAhead ---------- *)
(* `while (tokens[idx+1] == Dot && tokens[idx+2] == Identifier) idx += 2` : the tokens after the (qualified) name *)
Fixpoint skip_dotted (fuel : nat) (r : list tok) : list tok :=
  match fuel with 0 => r | S f =>
    match r with KDot :: KId _ :: r' => skip_dotted f r' | _ => r end
  end.

Definition type_arg_tok (t : tok) : bool :=
  match t with
  | KId _ | KDot | KComma | KLB | KRB | KPrim TyInt | KPrim TyLong | KPrim TyFloat | KPrim TyChar | KPrim TyString
  | KPrim TyBit | KPrim TyQubit | KPrim TyBoolean => true
  | KLit k _ => String.eqb k "int"
  | _ => false
  end.

(* skipTypeArgs: [r] starts at the '<'.  Some rest = the tokens after the matching '>' ; None = not a type-argument list *)
Fixpoint scan_targs (fuel depth : nat) (r : list tok) : option (list tok) :=
  match fuel with 0 => None | S f =>
    match r with
    | [] => None
    | KBin Lt :: r' => scan_targs f (S depth) r'
    | KBin Gt :: r' => match depth with
                       | 0 => None                      (* unreachable: the scan starts at a '<' *)
                       | 1 => Some r'
                       | S d => scan_targs f d r'
                       end
    | t :: r' => if type_arg_tok t then scan_targs f depth r' else None
    end
  end.

Definition skip_targs (r : list tok) : list tok :=
  match r with
  | KBin Lt :: _ => match scan_targs (S (List.length r)) 0 r with Some r' => r' | None => r end
  | _ => r
  end.

(* `[` ... the first `]`, bailing out on ';' *)
Fixpoint scan_rb (r : list tok) : option (list tok) :=
  match r with
  | [] => None
  | KRB :: r' => Some r'
  | t :: r' => if is_kw ";" t then None else scan_rb r'
  end.

Definition type_ahead (ts : list tok) : bool :=
  match ts with
  | KPrim _ :: _ => true
  | KId _ :: r =>
    match skip_targs (skip_dotted (List.length r) r) with
    | KId _ :: _ => true
    | KLB :: r3 => match scan_rb r3 with Some (KId _ :: _) => true | _ => false end
    | _ => false
    end
  | _ => false
  end.

(* ---------- the parser ---------- *)
Definition expect (s : string) (r : list tok) : option (list tok) :=
  match r with t :: r' => if is_kw s t then Some r' else None | [] => None end.

(* std::stoi on the IntegerLiteral text of an array size: digit strings of up to nine characters always fit *)
Definition size_text_ok (t : string) : bool := Nat.leb (String.length t) 9.

(* the `while (match(LBracket))` loop of parseType; [n] counts the dimensions (at most 8) *)
Fixpoint p_dims (fuel n : nat) (isvoid : bool) (r : list tok) : option (list asize * list tok) :=
  match fuel with 0 => None | S f =>
    match r with
    | KLB :: r1 =>
      if Nat.leb 8 n then None else
      match r1 with
      | KRB :: r2 => if isvoid then None else
                     match p_dims f (S n) isvoid r2 with Some (ds, r') => Some (ANone :: ds, r') | None => None end
      | KLit k t :: r2 =>
        if String.eqb k "int" then
          if size_text_ok t then
            match r2 with
            | KRB :: r3 => if isvoid then None else
                           match p_dims f (S n) isvoid r3 with Some (ds, r') => Some (ALit t :: ds, r') | None => None end
            | _ => None
            end
          else None
        else
          match p_assign f r1 with
          | Some (e, KRB :: r3) => if isvoid then None else
                                   match p_dims f (S n) isvoid r3 with Some (ds, r') => Some (AExpr e :: ds, r') | None => None end
          | _ => None
          end
      | _ =>
        match p_assign f r1 with
        | Some (e, KRB :: r3) => if isvoid then None else
                                 match p_dims f (S n) isvoid r3 with Some (ds, r') => Some (AExpr e :: ds, r') | None => None end
        | _ => None
        end
      end
    | _ => Some ([], r)
    end
  end.

(* parseQualifiedName after the first identifier: `while (match(Dot)) expect(Identifier)` *)
Fixpoint p_qual (fuel : nat) (r : list tok) : option (list string * list tok) :=
  match fuel with 0 => None | S f =>
    match r with
    | KDot :: KId m :: r1 => match p_qual f r1 with Some (ms, r') => Some (m :: ms, r') | None => None end
    | KDot :: _ => None
    | _ => Some ([], r)
    end
  end.

(* parseType for the modelled types: a primitive, or a (qualified) class name; generic type arguments are not modelled *)
Definition p_type (fuel : nat) (r : list tok) : option (ty * list tok) :=
  match r with
  | KPrim p :: r1 =>
    match p_dims fuel 0 (match p with TyVoid => true | _ => false end) r1 with
    | Some (ds, r') => Some (mkTy (BPrim p) ds, r') | None => None end
  | KId n :: r1 =>
    match p_qual fuel r1 with
    | Some (more, r2) =>
      match r2 with
      | KBin Lt :: _ => None
      | _ => match p_dims fuel 0 false r2 with Some (ds, r') => Some (mkTy (BCls n more) ds, r') | None => None end
      end
    | None => None
    end
  | _ => None
  end.

(* parseVariableDeclaration after annotations: type name [= expression] ';' (one declarator) *)
Definition p_decl_tail (fuel : nat) (r : list tok) : option (ty * string * option expr * list tok) :=
  match p_type fuel r with
  | Some (t, KId name :: r1) =>
    match r1 with
    | KAssign :: r2 =>
      match p_assign fuel r2 with
      | Some (e, r3) => match expect ";" r3 with Some r4 => Some (t, name, Some e, r4) | None => None end
      | None => None
      end
    | _ => match expect ";" r1 with Some r2 => Some (t, name, None, r2) | None => None end
    end
  | _ => None
  end.

Definition p_decl (fuel : nat) (fin : bool) (r : list tok) : option (stmt * list tok) :=
  match r with
  | KOther a :: KOther b :: r1 =>
    if String.eqb a "@" && String.eqb b "tracked" then
      match p_decl_tail fuel r1 with Some (t, n, i, r') => Some (SDecl fin true t n i, r') | None => None end
    else None
  | _ => match p_decl_tail fuel r with Some (t, n, i, r') => Some (SDecl fin false t n i, r') | None => None end
  end.

Definition starts_at (r : list tok) : bool := match r with t :: _ => is_kw "@" t | [] => false end.

(* what parseStatement looks at once a block and a declaration are excluded *)
Inductive skind :=
| CMeasure (r : list tok)                 (* match(Measure) *)
| CAssign (n : string) (r : list tok)     (* check(Identifier) && checkNext(Equals) *)
| CKw (k : string) (r : list tok)         (* a keyword or punctuation token the expression grammar does not use *)
| CExpr.                                  (* anything else: an expression starts here *)
Definition classify (ts : list tok) : skind :=
  match ts with
  | KMeasure :: r => CMeasure r
  | KId n :: KAssign :: r => CAssign n r
  | KOther k :: r => CKw k r
  | _ => CExpr
  end.

Fixpoint p_stmt (fuel : nat) (ts : list tok) {struct fuel} : option (stmt * list tok) :=
  match fuel with 0 => None | S f =>
    match ts with
    | KLBrace :: r => match p_items_s f r with Some (ss, r') => Some (SBlock ss, r') | None => None end
    | _ =>
      let fin := match ts with t :: _ => is_kw "final" t | [] => false end in
      let ts1 := if fin then tl ts else ts in
      if starts_at ts1 || type_ahead ts1 then p_decl f fin ts1
      else if fin then None                                  (* "Expected variable type after 'final'" *)
      else
      match classify ts1 with
      | CMeasure r =>
        match p_assign f r with
        | Some (t, r1) =>
          match r1 with
          | q :: r2 =>
            if is_kw "?" q then
              match p_stmt f r2 with
              | Some (a, r3) =>
                match expect ":" r3 with
                | Some r4 => match p_stmt f r4 with Some (b, r5) => Some (STern (EMeasure t) a b, r5) | None => None end
                | None => None
                end
              | None => None
              end
            else if is_kw ";" q then Some (SMeasure t, r2) else None
          | [] => None
          end
        | None => None
        end
      | CAssign n r =>
        match p_assign f r with
        | Some (e, r1) => match expect ";" r1 with Some r2 => Some (SAssign n e, r2) | None => None end
        | None => None
        end
      | CKw k r =>
        if String.eqb k "return" then
          match r with
          | q :: r1 =>
            if is_kw ";" q then Some (SReturn None, r1)
            else match p_assign f r with
                 | Some (e, r2) => match expect ";" r2 with Some r3 => Some (SReturn (Some e), r3) | None => None end
                 | None => None
                 end
          | [] => None
          end
        else if String.eqb k "if" then
          match r with
          | KLP :: r1 =>
            match p_assign f r1 with
            | Some (c, KRP :: KLBrace :: r2) =>
              match p_items_s f r2 with
              | Some (th, r3) =>
                match r3 with
                | KOther e :: KLBrace :: r4 =>
                  if String.eqb e "else" then
                    match p_items_s f r4 with Some (el, r5) => Some (SIf c th (Some el), r5) | None => None end
                  else Some (SIf c th None, r3)
                | KOther e :: _ => if String.eqb e "else" then None else Some (SIf c th None, r3)
                | _ => Some (SIf c th None, r3)
                end
              | None => None
              end
            | _ => None
            end
          | _ => None
          end
        else if String.eqb k "while" then
          match r with
          | KLP :: r1 =>
            match p_assign f r1 with
            | Some (c, KRP :: KLBrace :: r2) =>
              match p_items_s f r2 with Some (b, r3) => Some (SWhile c b, r3) | None => None end
            | _ => None
            end
          | _ => None
          end
        else if String.eqb k "for" then
          match r with
          | KLP :: r1 =>
            (* the initialiser: empty, a declaration (annotated or type ahead, 'final' allowed), or an expression statement *)
            let init :=
              match r1 with
              | q :: r2 =>
                if is_kw ";" q then Some (FNone, r2)
                else
                  let ffin := is_kw "final" q in
                  let r3 := if ffin then r2 else r1 in
                  if starts_at r3 then None                   (* annotated for-initialisers: not modelled *)
                  else if type_ahead r3 then
                    match p_decl_tail f r3 with Some (t, n, i, r') => Some (FDecl ffin t n i, r') | None => None end
                  else if ffin then None
                  else match p_assign f r3 with
                       | Some (e, r4) => match expect ";" r4 with Some r5 => Some (FExpr e, r5) | None => None end
                       | None => None
                       end
              | [] => None
              end in
            match init with
            | Some (i, r2) =>
              match p_assign f r2 with
              | Some (c, r3) =>
                match expect ";" r3 with
                | Some r4 =>
                  match p_assign f r4 with
                  | Some (st, KRP :: KLBrace :: r5) =>
                    match p_items_s f r5 with Some (b, r6) => Some (SFor i c st b, r6) | None => None end
                  | _ => None
                  end
                | None => None
                end
              | None => None
              end
            | None => None
            end
          | _ => None
          end
        else if String.eqb k "echo" then
          match r with
          | KLP :: r1 =>
            match p_assign f r1 with
            | Some (e, KRP :: r2) => match expect ";" r2 with Some r3 => Some (SEcho e, r3) | None => None end
            | _ => None
            end
          | _ => None
          end
        else if String.eqb k "reset" then
          match p_assign f r with
          | Some (e, r1) => match expect ";" r1 with Some r2 => Some (SReset e, r2) | None => None end
          | None => None
          end
        else if String.eqb k "destroy" then
          match p_assign f r with
          | Some (e, r1) => match expect ";" r1 with Some r2 => Some (SDestroy e, r2) | None => None end
          | None => None
          end
        else None
      | CExpr =>
        match p_assign f ts1 with
        | Some (e, q :: r1) =>
          if is_kw "?" q then
            match p_stmt f r1 with
            | Some (a, r2) =>
              match expect ":" r2 with
              | Some r3 => match p_stmt f r3 with Some (b, r4) => Some (STern e a b, r4) | None => None end
              | None => None
              end
            | None => None
            end
          else if is_kw ";" q then Some (SExpr e, r1) else None
        | _ => None
        end
      end
    end
  end
with p_items_s (fuel : nat) (ts : list tok) {struct fuel} : option (list stmt * list tok) :=
  match fuel with 0 => None | S f =>
    match ts with
    | KRBrace :: r => Some ([], r)
    | [] => None
    | _ => match p_stmt f ts with
           | Some (s, r) => match p_items_s f r with Some (ss, r') => Some (s :: ss, r') | None => None end
           | None => None
           end
    end
  end.

(* ---------- rendering ---------- *)
Definition base_toks (b : tbase) : list tok :=
  match b with BPrim p => [KPrim p] | BCls n more => KId n :: flat_map (fun m => [KDot; KId m]) more end.
Definition render_dim (d : asize) : list tok :=
  match d with
  | ANone => [KLB; KRB]
  | ALit t => [KLB; KLit "int" t; KRB]
  | AExpr e => KLB :: render e ++ [KRB]
  end.
Definition render_ty (t : ty) : list tok := base_toks (tbase_of t) ++ flat_map render_dim (tdims t).
Definition render_init (i : option expr) : list tok := match i with Some e => KAssign :: render e | None => [] end.
Definition render_decl_tail (t : ty) (name : string) (i : option expr) : list tok :=
  render_ty t ++ KId name :: render_init i ++ [kw ";"].

Definition render_finit (i : finit) : list tok :=
  match i with
  | FNone => [kw ";"]
  | FDecl fin t n init => (if fin then [kw "final"] else []) ++ render_decl_tail t n init
  | FExpr e => render e ++ [kw ";"]
  end.

Fixpoint render_stmt (s : stmt) : list tok :=
  let fix rs (ss : list stmt) : list tok := match ss with [] => [] | x :: r => render_stmt x ++ rs r end in
  match s with
  | SBlock ss => KLBrace :: rs ss ++ [KRBrace]
  | SDecl fin tr t n i =>
    (if fin then [kw "final"] else []) ++ (if tr then [kw "@"; kw "tracked"] else []) ++ render_decl_tail t n i
  | SReturn None => [kw "return"; kw ";"]
  | SReturn (Some e) => kw "return" :: render e ++ [kw ";"]
  | SIf c th None => kw "if" :: KLP :: render c ++ KRP :: KLBrace :: rs th ++ [KRBrace]
  | SIf c th (Some el) => kw "if" :: KLP :: render c ++ KRP :: KLBrace :: rs th ++ KRBrace :: kw "else" :: KLBrace :: rs el ++ [KRBrace]
  | SFor i c st b => kw "for" :: KLP :: render_finit i ++ render c ++ kw ";" :: render st ++ KRP :: KLBrace :: rs b ++ [KRBrace]
  | SWhile c b => kw "while" :: KLP :: render c ++ KRP :: KLBrace :: rs b ++ [KRBrace]
  | SEcho e => kw "echo" :: KLP :: render e ++ [KRP; kw ";"]
  | SReset e => kw "reset" :: render e ++ [kw ";"]
  | SMeasure e => KMeasure :: render e ++ [kw ";"]
  | SDestroy e => kw "destroy" :: render e ++ [kw ";"]
  | STern c a b => render c ++ kw "?" :: render_stmt a ++ kw ":" :: render_stmt b
  | SAssign n e => KId n :: KAssign :: render e ++ [kw ";"]
  | SExpr e => render e ++ [kw ";"]
  end.

Fixpoint render_stmts (ss : list stmt) : list tok :=
  match ss with [] => [] | x :: r => render_stmt x ++ render_stmts r end.

Definition parse_stmt (ts : list tok) : option (stmt * list tok) := p_stmt (4 * List.length ts + 8) ts.
