(* Round trip of the statement parser model: rendering a well-formed statement and parsing it back
   gives the statement, for every continuation that does not begin with 'else'. *)
From Coq Require Import List Arith Ascii String Bool Lia.
From Bloch Require Import Parse.PrattModel Parse.PrattProofs Parse.StmtModel.
Import ListNotations.
Local Open Scope string_scope.
Local Open Scope nat_scope.
Local Open Scope list_scope.

(* ---------- what may follow an expression inside a statement ---------- *)
Lemma aclosed_kw s r : aclosed (kw s :: r).            Proof. split; exact I. Qed.
Lemma aclosed_rp r : aclosed (KRP :: r).               Proof. split; exact I. Qed.
Lemma aclosed_rb r : aclosed (KRB :: r).               Proof. split; exact I. Qed.

Lemma ev_expr e rest : ok e -> aclosed rest -> ev (fun n => p_assign n (render e ++ rest)) (e, rest).
Proof. intros He Hr. exact (pratt_roundtrip e rest He Hr). Qed.

Lemma ev_mono {A} (f : nat -> option A) K : ev f K -> forall m, exists n0, m <= n0 /\ forall n, n0 <= n -> f n = Some K.
Proof. intros [n0 H] m. exists (n0 + m). split; [lia|]. intros n Hn. apply H. lia. Qed.

(* ---------- side conditions ---------- *)
Definition no_else (rest : list tok) : Prop := match rest with t :: _ => is_kw "else" t = false | [] => True end.

(* the first tokens of an expression that begins a statement: not a block, not 'measure', not 'name =', and no
   keyword; the declaration look-ahead must say "no" *)
Definition plain_start (ts : list tok) : Prop :=
  match ts with
  | [] => False
  | KLBrace :: _ | KMeasure :: _ | KOther _ :: _ | KPrim _ :: _ => False
  | KId _ :: KAssign :: _ => False
  | _ => True
  end.
Definition expr_start (e : expr) (q : string) : Prop :=
  forall tl, plain_start (render e ++ kw q :: tl) /\ type_ahead (render e ++ kw q :: tl) = false.

Definition ok_opt (o : option expr) : Prop := match o with Some e => ok e | None => True end.
Definition ok_dim (d : asize) : Prop :=
  match d with
  | ANone => True
  | ALit t => size_text_ok t = true
  | AExpr e => ok e /\ match render e with KLit k _ :: _ => String.eqb k "int" = false | _ => True end
  end.
Definition ok_ty (t : ty) : Prop :=
  Forall ok_dim (tdims t) /\ List.length (tdims t) <= 8 /\ (tbase_of t = BPrim TyVoid -> tdims t = []).
Definition decl_start (t : ty) (name : string) : Prop := forall tl, type_ahead (render_ty t ++ KId name :: tl) = true.

Definition ok_finit (i : finit) : Prop :=
  match i with
  | FNone => True
  | FDecl _ t n init => ok_ty t /\ ok_opt init /\ decl_start t n
  | FExpr e => ok e /\ forall tl, type_ahead (render e ++ kw ";" :: tl) = false
  end.

Fixpoint ok_stmt (s : stmt) : Prop :=
  let fix oks (ss : list stmt) : Prop := match ss with [] => True | x :: r => ok_stmt x /\ oks r end in
  match s with
  | SBlock ss => oks ss
  | SDecl _ tr t n i => ok_ty t /\ ok_opt i /\ (tr = true \/ decl_start t n)
  | SReturn o => ok_opt o
  | SIf c th el => ok c /\ oks th /\ match el with Some e => oks e | None => True end
  | SFor i c st b => ok_finit i /\ ok c /\ ok st /\ oks b
  | SWhile c b => ok c /\ oks b
  | SEcho e | SReset e | SMeasure e | SDestroy e => ok e
  | STern c a b => ok c /\ ((exists t, c = EMeasure t) \/ expr_start c "?") /\ ok_stmt a /\ ok_stmt b
  | SAssign _ e => ok e
  | SExpr e => ok e /\ expr_start e ";"
  end.
Fixpoint ok_stmts (ss : list stmt) : Prop := match ss with [] => True | x :: r => ok_stmt x /\ ok_stmts r end.

Lemma oks_eq ss : (fix oks (ss : list stmt) : Prop := match ss with [] => True | x :: r => ok_stmt x /\ oks r end) ss = ok_stmts ss.
Proof. induction ss as [|x r IH]; cbn; [reflexivity|]. rewrite IH. reflexivity. Qed.

Lemma rs_eq ss : (fix rs (ss : list stmt) : list tok := match ss with [] => [] | x :: r => render_stmt x ++ rs r end) ss = render_stmts ss.
Proof. induction ss as [|x r IH]; cbn; [reflexivity|]. rewrite IH. reflexivity. Qed.

(* ---------- sizes, for the induction ---------- *)
Fixpoint ssize (s : stmt) : nat :=
  let fix lsz (ss : list stmt) : nat := match ss with [] => 0 | x :: r => S (ssize x + lsz r) end in
  match s with
  | SBlock ss => S (lsz ss)
  | SIf _ th el => S (lsz th + match el with Some e => lsz e | None => 0 end)
  | SFor _ _ _ b => S (lsz b)
  | SWhile _ b => S (lsz b)
  | STern _ a b => S (ssize a + ssize b)
  | _ => 1
  end.
Fixpoint lsize (ss : list stmt) : nat := match ss with [] => 0 | x :: r => S (ssize x + lsize r) end.
Lemma lsz_eq ss : (fix lsz (ss : list stmt) : nat := match ss with [] => 0 | x :: r => S (ssize x + lsz r) end) ss = lsize ss.
Proof. induction ss as [|x r IH]; cbn; [reflexivity|]. rewrite IH. reflexivity. Qed.

(* ---------- the head of a rendered statement is never 'else' ---------- *)
Lemma starter_not_kw t s : starter t -> is_kw s t = false.
Proof. destruct t; cbn; try reflexivity; intros []. Qed.

Lemma render_head_no_else e tl : no_else (render e ++ tl).
Proof. destruct (render_head e) as (t & r & E & S). rewrite E. cbn. apply starter_not_kw. assumption. Qed.

Lemma render_stmt_no_else s tl : no_else (render_stmt s ++ tl).
Proof.
  destruct s as [ss|fin tr t n i|o|c th el|i c st b|c b|e|e|e|e|c a b|n e|e]; cbn [render_stmt]; try (cbn; reflexivity).
  - destruct fin; [cbn; reflexivity|]. destruct tr; [cbn; reflexivity|].
    unfold render_decl_tail, render_ty. destruct (tbase_of t); cbn; reflexivity.
  - destruct o; cbn; reflexivity.
  - destruct el; cbn; reflexivity.
  - rewrite <- app_assoc. apply render_head_no_else.
  - rewrite <- app_assoc. apply render_head_no_else.
Qed.

Lemma no_else_items ss tl : no_else (render_stmts ss ++ KRBrace :: tl).
Proof. destruct ss as [|x r]; cbn; [reflexivity|]. rewrite <- app_assoc. apply render_stmt_no_else. Qed.

(* ---------- types ---------- *)
Definition not_lb (tl : list tok) : Prop := match tl with KLB :: _ => False | _ => True end.

Lemma dims_roundtrip ds : forall k isvoid tl,
  Forall ok_dim ds -> k + List.length ds <= 8 -> (isvoid = true -> ds = []) -> not_lb tl ->
  ev (fun n => p_dims n k isvoid (flat_map render_dim ds ++ tl)) (ds, tl).
Proof.
  induction ds as [|d ds IH]; intros k isvoid tl Hok Hlen Hv Htl.
  - exists 1. intros n Hn. destruct n; [lia|]. cbn [flat_map app p_dims].
    destruct tl as [|[] tl]; try reflexivity. destruct Htl.
  - assert (Hiv : isvoid = false) by (destruct isvoid; [specialize (Hv eq_refl); discriminate|reflexivity]). subst isvoid.
    inversion Hok as [|? ? Hd Hds]; subst. cbn [List.length] in Hlen.
    assert (Hk : Nat.leb 8 k = false) by (apply Nat.leb_gt; lia).
    destruct (IH (S k) false tl Hds ltac:(lia) ltac:(discriminate) Htl) as [n1 H1].
    destruct d as [|t|e]; cbn [flat_map render_dim app].
    + exists (S n1). intros n Hn. destruct n; [lia|]. cbn [p_dims]. rewrite Hk. rewrite (H1 n) by lia. reflexivity.
    + exists (S n1). intros n Hn. destruct n; [lia|]. cbn [p_dims]. rewrite Hk.
      change (String.eqb "int" "int") with true. cbn iota. cbn in Hd. rewrite Hd. rewrite (H1 n) by lia. reflexivity.
    + destruct Hd as [Hoe Hhead].
      destruct (ev_expr e (KRB :: flat_map render_dim ds ++ tl) Hoe (aclosed_rb _)) as [n2 H2].
      exists (S (n1 + n2)). intros n Hn. destruct n; [lia|].
      rewrite <- !app_assoc. cbn [app].
      cbn [p_dims]. rewrite Hk.
      destruct (render_head e) as (t & r & E & St).
      assert (Hp : p_assign n (render e ++ KRB :: flat_map render_dim ds ++ tl) = Some (e, KRB :: flat_map render_dim ds ++ tl)) by (apply H2; lia).
      rewrite E in Hhead, Hp |- *. cbn [app] in Hp |- *.
      destruct t; try (destruct St; fail); try (rewrite Hp, (H1 n) by lia; reflexivity).
      rewrite Hhead. rewrite Hp, (H1 n) by lia. reflexivity.
Qed.

Lemma qual_roundtrip more : forall tl, (match tl with KDot :: _ => False | _ => True end) ->
  ev (fun n => p_qual n (flat_map (fun m => [KDot; KId m]) more ++ tl)) (more, tl).
Proof.
  induction more as [|m more IH]; intros tl Htl.
  - exists 1. intros n Hn. destruct n; [lia|]. cbn [flat_map app p_qual]. destruct tl as [|[] tl]; try reflexivity. destruct Htl.
  - destruct (IH tl Htl) as [n1 H1]. exists (S n1). intros n Hn. destruct n; [lia|].
    cbn [flat_map app p_qual]. rewrite H1 by lia. reflexivity.
Qed.

Lemma type_roundtrip t tl : ok_ty t -> not_lb tl -> (match tl with KDot :: _ | KBin Lt :: _ => False | _ => True end) ->
  ev (fun n => p_type n (render_ty t ++ tl)) (t, tl).
Proof.
  intros (Hd & Hl & Hv) Htl Htl2. destruct t as [b ds]. cbn [tbase_of tdims] in *. unfold render_ty. cbn [tbase_of tdims].
  destruct b as [p|c more]; cbn [base_toks app].
  - destruct (dims_roundtrip ds 0 (match p with TyVoid => true | _ => false end) tl Hd ltac:(lia)
                ltac:(intros E; apply Hv; destruct p; try discriminate; reflexivity) Htl) as [n1 H1].
    exists n1. intros n Hn. cbn [p_type]. rewrite H1 by lia. reflexivity.
  - destruct (dims_roundtrip ds 0 false tl Hd ltac:(lia) ltac:(discriminate) Htl) as [n1 H1].
    assert (Hh : match flat_map render_dim ds ++ tl with KDot :: _ | KBin Lt :: _ => False | _ => True end).
    { destruct ds as [|[] ds]; cbn; auto. }
    destruct (qual_roundtrip more (flat_map render_dim ds ++ tl)) as [n2 H2].
    { destruct (flat_map render_dim ds ++ tl) as [|[] ?]; auto. }
    exists (n1 + n2). intros n Hn. cbn [p_type]. rewrite <- app_assoc. rewrite H2 by lia.
    destruct (flat_map render_dim ds ++ tl) as [|h r] eqn:E; [rewrite H1 by lia; reflexivity|].
    destruct h; try (rewrite H1 by lia; reflexivity); try destruct Hh.
    destruct b; try (rewrite H1 by lia; reflexivity). destruct Hh.
Qed.

Lemma decl_tail_roundtrip t name i rest : ok_ty t -> ok_opt i ->
  ev (fun n => p_decl_tail n (render_decl_tail t name i ++ rest)) (t, name, i, rest).
Proof.
  intros Ht Hi. unfold render_decl_tail. rewrite <- app_assoc. cbn [app].
  destruct (type_roundtrip t (KId name :: (render_init i ++ [kw ";"]) ++ rest) Ht I I) as [n1 H1].
  destruct i as [e|]; cbn [render_init app ok_opt] in *.
  - rewrite <- app_assoc in *. cbn [app] in *.
    destruct (ev_expr e (kw ";" :: rest) Hi (aclosed_kw _ _)) as [n2 H2].
    exists (n1 + n2). intros n Hn. unfold p_decl_tail. rewrite H1 by lia. rewrite H2 by lia. reflexivity.
  - exists n1. intros n Hn. unfold p_decl_tail. rewrite H1 by lia. reflexivity.
Qed.

(* ---------- statement forms ---------- *)
Definition RT (s : stmt) : Prop := forall rest, no_else rest -> ev (fun n => p_stmt n (render_stmt s ++ rest)) (s, rest).
Definition RTL (ss : list stmt) : Prop := forall rest, ev (fun n => p_items_s n (render_stmts ss ++ KRBrace :: rest)) (ss, rest).

Lemma items_roundtrip ss : Forall RT ss -> RTL ss.
Proof.
  induction ss as [|x r IH]; intros H rest.
  - exists 1. intros n Hn. destruct n; [lia|]. reflexivity.
  - inversion H as [|? ? Hx Hr]; subst. cbn [render_stmts]. rewrite <- app_assoc.
    destruct (Hx (render_stmts r ++ KRBrace :: rest) (no_else_items _ _)) as [n1 H1].
    destruct (IH Hr rest) as [n2 H2].
    exists (S (n1 + n2)). intros n Hn. destruct n; [lia|]. cbn [p_items_s].
    assert (Hne : exists t tl, render_stmt x ++ render_stmts r ++ KRBrace :: rest = t :: tl /\ t <> KRBrace).
    { destruct x as [ss|fin tr t nm i|o|c th el|i c st b|c b|e|e|e|e|c a b|nm e|e]; cbn [render_stmt];
        try (eexists; eexists; split; [reflexivity|discriminate]).
      - destruct fin; [eexists; eexists; split; [reflexivity|discriminate]|].
        destruct tr; [eexists; eexists; split; [reflexivity|discriminate]|].
        unfold render_decl_tail, render_ty. destruct (tbase_of t); cbn; eexists; eexists; split; try reflexivity; discriminate.
      - destruct o; cbn; eexists; eexists; split; try reflexivity; discriminate.
      - destruct el; cbn; eexists; eexists; split; try reflexivity; discriminate.
      - destruct (render_head c) as (t & tl & E & S). rewrite E. cbn. eexists; eexists; split; [reflexivity|].
        intros ->. destruct S.
      - destruct (render_head e) as (t & tl & E & S). rewrite E. cbn. eexists; eexists; split; [reflexivity|].
        intros ->. destruct S. }
    destruct Hne as (t & tl & E & Ht). rewrite E. rewrite <- E.
    assert (Hm : forall A (k1 k2 : A), match (render_stmt x ++ render_stmts r ++ KRBrace :: rest) with KRBrace :: _ => k1 | _ => k2 end = k2).
    { intros A k1 k2. rewrite E. destruct t; try reflexivity. congruence. }
    rewrite E. destruct t; try congruence; rewrite <- E; rewrite H1 by lia; rewrite H2 by lia; reflexivity.
Qed.

(* unfolding p_stmt one step on a statement that is neither a block nor a declaration *)
Lemma stmt_step n ts :
  (match ts with KLBrace :: _ => False | _ => True end) ->
  (match ts with t :: _ => is_kw "final" t = false | [] => True end) ->
  starts_at ts = false -> type_ahead ts = false ->
  p_stmt (S n) ts =
  match classify ts with
  | CMeasure r =>
    match p_assign n r with
    | Some (t, r1) =>
      match r1 with
      | q :: r2 =>
        if is_kw "?" q then
          match p_stmt n r2 with
          | Some (a, r3) =>
            match expect ":" r3 with
            | Some r4 => match p_stmt n r4 with Some (b, r5) => Some (STern (EMeasure t) a b, r5) | None => None end
            | None => None
            end
          | None => None
          end
        else if is_kw ";" q then Some (SMeasure t, r2) else None
      | [] => None
      end
    | None => None
    end
  | CAssign nm r =>
    match p_assign n r with
    | Some (e, r1) => match expect ";" r1 with Some r2 => Some (SAssign nm e, r2) | None => None end
    | None => None
    end
  | CKw _ _ => p_stmt (S n) ts
  | CExpr =>
    match p_assign n ts with
    | Some (e, q :: r1) =>
      if is_kw "?" q then
        match p_stmt n r1 with
        | Some (a, r2) =>
          match expect ":" r2 with
          | Some r3 => match p_stmt n r3 with Some (b, r4) => Some (STern e a b, r4) | None => None end
          | None => None
          end
        | None => None
        end
      else if is_kw ";" q then Some (SExpr e, r1) else None
    | _ => None
    end
  end.
Proof.
  intros Hb Hf Hs Ht.
  destruct ts as [|t r]; [reflexivity|].
  cbn [p_stmt]. destruct t; try (destruct Hb; fail); cbn [tl] in *;
    try (cbn in Hf; rewrite ?Hf); cbn [is_kw]; rewrite ?Hs, ?Ht; cbn [orb tl]; try reflexivity.
  all: try (rewrite Hf; cbn [tl]; rewrite Hs, Ht; cbn [orb]; reflexivity).
  all: destruct r as [|[] r]; reflexivity.
Qed.

(* ---------- one lemma per statement form ---------- *)
Ltac fuel1 n := destruct n as [|n]; [lia|].
Ltac norm_app := cbn [app]; repeat (rewrite <- app_assoc; cbn [app]).

Lemma rt_echo e : ok e -> RT (SEcho e).
Proof.
  intros He rest _. cbn [render_stmt]. unfold kw. norm_app.
  destruct (ev_expr e (KRP :: KOther ";" :: rest) He (aclosed_rp _)) as [n1 H1].
  exists (S n1). intros n Hn. fuel1 n. cbn -[p_assign render]. rewrite H1 by lia. reflexivity.
Qed.

Lemma rt_kw_expr (k : string) (mk : expr -> stmt) e :
  (forall n r, p_stmt (S n) (KOther k :: r) =
               match p_assign n r with
               | Some (e, r1) => match expect ";" r1 with Some r2 => Some (mk e, r2) | None => None end
               | None => None end) ->
  (forall e, render_stmt (mk e) = KOther k :: render e ++ [KOther ";"]) ->
  ok e -> RT (mk e).
Proof.
  intros Hstep Hr He rest _. rewrite Hr. norm_app.
  destruct (ev_expr e (KOther ";" :: rest) He (aclosed_kw _ _)) as [n1 H1].
  exists (S n1). intros n Hn. fuel1 n. rewrite Hstep. rewrite H1 by lia. reflexivity.
Qed.

Lemma rt_reset e : ok e -> RT (SReset e).
Proof. apply (rt_kw_expr "reset" SReset); [intros n r; reflexivity | intros x; reflexivity]. Qed.
Lemma rt_destroy e : ok e -> RT (SDestroy e).
Proof. apply (rt_kw_expr "destroy" SDestroy); [intros n r; reflexivity | intros x; reflexivity]. Qed.

Lemma return_step n r :
  p_stmt (S n) (KOther "return" :: r) =
  match r with
  | q :: r1 =>
    if is_kw ";" q then Some (SReturn None, r1)
    else match p_assign n r with
         | Some (e, r2) => match expect ";" r2 with Some r3 => Some (SReturn (Some e), r3) | None => None end
         | None => None
         end
  | [] => None
  end.
Proof. reflexivity. Qed.

Lemma rt_return o : ok_opt o -> RT (SReturn o).
Proof.
  intros Ho rest _. destruct o as [e|]; cbn [render_stmt ok_opt] in *; unfold kw; norm_app.
  - destruct (ev_expr e (KOther ";" :: rest) Ho (aclosed_kw _ _)) as [n1 H1].
    exists (S n1). intros n Hn. fuel1 n.
    destruct (render_head e) as (t & r & E & St).
    assert (Hq : is_kw ";" t = false) by (apply starter_not_kw; assumption).
    specialize (H1 n ltac:(lia)). rewrite E in *. cbn [app] in *.
    rewrite return_step. rewrite Hq. rewrite H1. reflexivity.
  - exists 1. intros n Hn. fuel1 n. reflexivity.
Qed.

Lemma rt_assign nm e : ok e -> RT (SAssign nm e).
Proof.
  intros He rest _. cbn [render_stmt]. unfold kw. norm_app.
  destruct (ev_expr e (KOther ";" :: rest) He (aclosed_kw _ _)) as [n1 H1].
  exists (S n1). intros n Hn. fuel1 n.
  rewrite stmt_step; [|exact I|reflexivity|reflexivity|reflexivity].
  cbn [classify]. rewrite H1 by lia. reflexivity.
Qed.

Lemma rt_measure e : ok e -> RT (SMeasure e).
Proof.
  intros He rest _. cbn [render_stmt]. unfold kw. norm_app.
  destruct (ev_expr e (KOther ";" :: rest) He (aclosed_kw _ _)) as [n1 H1].
  exists (S n1). intros n Hn. fuel1 n.
  rewrite stmt_step; [|exact I|reflexivity|reflexivity|reflexivity].
  cbn [classify]. rewrite H1 by lia. reflexivity.
Qed.

Lemma plain_classify ts : plain_start ts -> classify ts = CExpr /\
  (match ts with KLBrace :: _ => False | _ => True end) /\
  (match ts with t :: _ => is_kw "final" t = false | [] => True end) /\ starts_at ts = false.
Proof.
  destruct ts as [|t r]; [intros []|]. destruct t; cbn; intros H; try destruct H; repeat split; auto.
  destruct r as [|[] r]; cbn in *; try reflexivity; destruct H.
Qed.

Lemma rt_expr e : ok e -> expr_start e ";" -> RT (SExpr e).
Proof.
  intros He Hst rest _. cbn [render_stmt]. unfold expr_start, kw in *. norm_app.
  destruct (Hst rest) as [Hp Hta]. destruct (plain_classify _ Hp) as (Hc & Hb & Hf & Hs).
  destruct (ev_expr e (KOther ";" :: rest) He (aclosed_kw _ _)) as [n1 H1].
  exists (S n1). intros n Hn. fuel1 n.
  rewrite stmt_step by assumption. rewrite Hc. rewrite H1 by lia. reflexivity.
Qed.

Lemma rt_tern c a b : ok c -> ((exists t, c = EMeasure t) \/ expr_start c "?") -> RT a -> RT b -> RT (STern c a b).
Proof.
  intros Hc Hst Ha Hb rest Hne. cbn [render_stmt]. unfold expr_start, kw in *. norm_app.
  destruct (Hb rest Hne) as [nb Hb'].
  destruct (Ha (KOther ":" :: render_stmt b ++ rest) eq_refl) as [na Ha'].
  destruct Hst as [[t ->]|Hst].
  - cbn [ok] in Hc. cbn [render]. norm_app.
    destruct (ev_expr t (KOther "?" :: render_stmt a ++ KOther ":" :: render_stmt b ++ rest) Hc (aclosed_kw _ _)) as [n1 H1].
    exists (S (n1 + na + nb)). intros n Hn. fuel1 n.
    rewrite stmt_step; [|exact I|reflexivity|reflexivity|reflexivity].
    cbn [classify]. rewrite H1 by lia. cbn [is_kw String.eqb Ascii.eqb Bool.eqb].
    rewrite Ha' by lia. cbn [expect is_kw String.eqb Ascii.eqb Bool.eqb]. rewrite Hb' by lia. reflexivity.
  - destruct (Hst (render_stmt a ++ KOther ":" :: render_stmt b ++ rest)) as [Hp Hta].
    destruct (plain_classify _ Hp) as (Hcl & Hbk & Hf & Hs).
    destruct (ev_expr c (KOther "?" :: render_stmt a ++ KOther ":" :: render_stmt b ++ rest) Hc (aclosed_kw _ _)) as [n1 H1].
    exists (S (n1 + na + nb)). intros n Hn. fuel1 n.
    rewrite stmt_step by assumption. rewrite Hcl. rewrite H1 by lia. cbn [is_kw String.eqb Ascii.eqb Bool.eqb].
    rewrite Ha' by lia. cbn [expect is_kw String.eqb Ascii.eqb Bool.eqb]. rewrite Hb' by lia. reflexivity.
Qed.

Lemma rt_block ss : RTL ss -> RT (SBlock ss).
Proof.
  intros Hl rest _. cbn [render_stmt]. rewrite rs_eq. norm_app.
  destruct (Hl rest) as [n1 H1]. exists (S n1). intros n Hn. fuel1 n.
  cbn [p_stmt]. rewrite H1 by lia. reflexivity.
Qed.

Lemma while_step n r1 :
  p_stmt (S n) (KOther "while" :: KLP :: r1) =
  match p_assign n r1 with
  | Some (c, KRP :: KLBrace :: r2) => match p_items_s n r2 with Some (b, r3) => Some (SWhile c b, r3) | None => None end
  | _ => None
  end.
Proof. reflexivity. Qed.

Lemma rt_while c b : ok c -> RTL b -> RT (SWhile c b).
Proof.
  intros Hc Hb rest _. cbn [render_stmt]. rewrite rs_eq. unfold kw. norm_app.
  destruct (ev_expr c (KRP :: KLBrace :: render_stmts b ++ KRBrace :: rest) Hc (aclosed_rp _)) as [n1 H1].
  destruct (Hb rest) as [n2 H2]. exists (S (n1 + n2)). intros n Hn. fuel1 n.
  rewrite while_step. rewrite H1 by lia. rewrite H2 by lia. reflexivity.
Qed.

Lemma if_step n r1 :
  p_stmt (S n) (KOther "if" :: KLP :: r1) =
  match p_assign n r1 with
  | Some (c, KRP :: KLBrace :: r2) =>
    match p_items_s n r2 with
    | Some (th, r3) =>
      match r3 with
      | KOther e :: KLBrace :: r4 =>
        if String.eqb e "else" then
          match p_items_s n r4 with Some (el, r5) => Some (SIf c th (Some el), r5) | None => None end
        else Some (SIf c th None, r3)
      | KOther e :: _ => if String.eqb e "else" then None else Some (SIf c th None, r3)
      | _ => Some (SIf c th None, r3)
      end
    | None => None
    end
  | _ => None
  end.
Proof. reflexivity. Qed.

Lemma rt_if c th el : ok c -> RTL th -> (match el with Some e => RTL e | None => True end) -> RT (SIf c th el).
Proof.
  intros Hc Hth Hel rest Hne. destruct el as [el|]; cbn [render_stmt]; rewrite ?rs_eq; unfold kw; norm_app.
  - destruct (ev_expr c (KRP :: KLBrace :: render_stmts th ++ KRBrace :: KOther "else" :: KLBrace :: render_stmts el ++ KRBrace :: rest) Hc (aclosed_rp _)) as [n1 H1].
    destruct (Hth (KOther "else" :: KLBrace :: render_stmts el ++ KRBrace :: rest)) as [n2 H2].
    destruct (Hel rest) as [n3 H3]. exists (S (n1 + n2 + n3)). intros n Hn. fuel1 n.
    rewrite if_step. rewrite H1 by lia. rewrite H2 by lia. cbn [String.eqb Ascii.eqb Bool.eqb]. rewrite H3 by lia. reflexivity.
  - destruct (ev_expr c (KRP :: KLBrace :: render_stmts th ++ KRBrace :: rest) Hc (aclosed_rp _)) as [n1 H1].
    destruct (Hth rest) as [n2 H2]. exists (S (n1 + n2)). intros n Hn. fuel1 n.
    rewrite if_step. rewrite H1 by lia. rewrite H2 by lia.
    destruct rest as [|t rest]; [reflexivity|]. unfold no_else in Hne.
    destruct t; try reflexivity. unfold is_kw in Hne. rewrite String.eqb_sym in Hne. rewrite Hne.
    destruct rest as [|[] rest]; reflexivity.
Qed.

(* declarations *)
Lemma decl_step_final n ts1 :
  p_stmt (S n) (KOther "final" :: ts1) = if starts_at ts1 || type_ahead ts1 then p_decl n true ts1 else None.
Proof. reflexivity. Qed.

Lemma decl_step n ts :
  (match ts with KLBrace :: _ => False | _ => True end) ->
  (match ts with t :: _ => is_kw "final" t = false | [] => True end) ->
  starts_at ts || type_ahead ts = true -> p_stmt (S n) ts = p_decl n false ts.
Proof.
  intros Hb Hf Hd. destruct ts as [|t r]; [discriminate|].
  destruct t; try (destruct Hb; fail); cbn [p_stmt is_kw tl]; try (rewrite Hd; reflexivity).
  unfold is_kw in Hf. rewrite Hf. cbn [tl]. rewrite Hd. reflexivity.
Qed.

Lemma p_decl_plain n fin t name tl :
  p_decl n fin (render_ty t ++ KId name :: tl) =
  match p_decl_tail n (render_ty t ++ KId name :: tl) with Some (t', nm, i, r') => Some (SDecl fin false t' nm i, r') | None => None end.
Proof. unfold render_ty. destruct (tbase_of t); cbn [base_toks app]; reflexivity. Qed.

Lemma render_decl_tail_shape t name i rest :
  render_decl_tail t name i ++ rest = render_ty t ++ KId name :: (render_init i ++ [kw ";"]) ++ rest.
Proof. unfold render_decl_tail. rewrite <- app_assoc. reflexivity. Qed.

Lemma rt_decl fin tr t name i : ok_ty t -> ok_opt i -> (tr = true \/ decl_start t name) -> RT (SDecl fin tr t name i).
Proof.
  intros Ht Hi Hst rest _. cbn [render_stmt].
  destruct (decl_tail_roundtrip t name i rest Ht Hi) as [n1 H1].
  exists (S n1). intros n Hn. fuel1 n. specialize (H1 n ltac:(lia)).
  destruct tr.
  - (* @tracked *)
    destruct fin; unfold kw; norm_app.
    + rewrite decl_step_final. cbn [starts_at is_kw String.eqb Ascii.eqb Bool.eqb orb].
      cbn [p_decl String.eqb Ascii.eqb Bool.eqb andb]. rewrite H1. reflexivity.
    + rewrite decl_step; [|exact I|reflexivity|reflexivity].
      cbn [p_decl String.eqb Ascii.eqb Bool.eqb andb]. rewrite H1. reflexivity.
  - destruct Hst as [Hst|Hst]; [discriminate|].
    assert (Hta : type_ahead (render_decl_tail t name i ++ rest) = true).
    { rewrite render_decl_tail_shape. apply Hst. }
    assert (Hsh := render_decl_tail_shape t name i rest).
    destruct fin; unfold kw; cbn [app].
    + rewrite decl_step_final. rewrite Hta, orb_true_r. rewrite Hsh, p_decl_plain, <- Hsh. rewrite H1. reflexivity.
    + rewrite decl_step.
      * rewrite Hsh, p_decl_plain, <- Hsh. rewrite H1. reflexivity.
      * rewrite Hsh. unfold render_ty. destruct (tbase_of t); exact I.
      * rewrite Hsh. unfold render_ty. destruct (tbase_of t); reflexivity.
      * rewrite Hta. apply orb_true_r.
Qed.

(* for *)
Definition for_init (n : nat) (r1 : list tok) : option (finit * list tok) :=
  match r1 with
  | q :: r2 =>
    if is_kw ";" q then Some (FNone, r2)
    else
      let ffin := is_kw "final" q in
      let r3 := if ffin then r2 else r1 in
      if starts_at r3 then None
      else if type_ahead r3 then
        match p_decl_tail n r3 with Some (t, nm, i, r') => Some (FDecl ffin t nm i, r') | None => None end
      else if ffin then None
      else match p_assign n r3 with
           | Some (e, r4) => match expect ";" r4 with Some r5 => Some (FExpr e, r5) | None => None end
           | None => None
           end
  | [] => None
  end.

Lemma for_step n r1 :
  p_stmt (S n) (KOther "for" :: KLP :: r1) =
  match for_init n r1 with
  | Some (i, r2) =>
    match p_assign n r2 with
    | Some (c, r3) =>
      match expect ";" r3 with
      | Some r4 =>
        match p_assign n r4 with
        | Some (st, KRP :: KLBrace :: r5) =>
          match p_items_s n r5 with Some (b, r6) => Some (SFor i c st b, r6) | None => None end
        | _ => None
        end
      | None => None
      end
    | None => None
    end
  | None => None
  end.
Proof. reflexivity. Qed.

Lemma for_init_roundtrip i tl : ok_finit i -> ev (fun n => for_init n (render_finit i ++ tl)) (i, tl).
Proof.
  intros Hi. destruct i as [|fin t nm init|e]; cbn [render_finit ok_finit] in *; unfold kw.
  - exists 0. intros n _. reflexivity.
  - destruct Hi as (Ht & Hin & Hst).
    destruct (decl_tail_roundtrip t nm init tl Ht Hin) as [n1 H1].
    assert (Hta : type_ahead (render_decl_tail t nm init ++ tl) = true) by (rewrite render_decl_tail_shape; apply Hst).
    assert (Hsa : starts_at (render_decl_tail t nm init ++ tl) = false).
    { rewrite render_decl_tail_shape. unfold render_ty. destruct (tbase_of t); reflexivity. }
    assert (Hhd : exists h r, render_decl_tail t nm init ++ tl = h :: r /\ is_kw ";" h = false /\ is_kw "final" h = false).
    { rewrite render_decl_tail_shape. unfold render_ty. destruct (tbase_of t); cbn; eauto. }
    exists n1. intros n Hn. specialize (H1 n Hn). destruct fin; cbn [app].
    + unfold for_init. cbn [is_kw String.eqb Ascii.eqb Bool.eqb]. rewrite Hsa, Hta, H1. reflexivity.
    + destruct Hhd as (h & r & E & Hq & Hf). unfold for_init. rewrite E. rewrite Hq, Hf. rewrite <- E.
      rewrite Hsa, Hta, H1. reflexivity.
  - destruct Hi as [He Hta]. norm_app.
    destruct (ev_expr e (KOther ";" :: tl) He (aclosed_kw _ _)) as [n1 H1].
    destruct (render_head e) as (h & r & E & St).
    exists n1. intros n Hn. specialize (H1 n Hn). specialize (Hta tl). unfold kw in Hta.
    unfold for_init. rewrite E in *. cbn [app] in *.
    rewrite (starter_not_kw h ";" St), (starter_not_kw h "final" St).
    assert (Hsa : starts_at (h :: r ++ KOther ";" :: tl) = false) by (cbn; apply starter_not_kw; assumption).
    rewrite Hsa, Hta, H1. reflexivity.
Qed.

Lemma rt_for i c st b : ok_finit i -> ok c -> ok st -> RTL b -> RT (SFor i c st b).
Proof.
  intros Hi Hc Hs Hb rest _. cbn [render_stmt]. rewrite rs_eq. unfold kw. norm_app.
  destruct (for_init_roundtrip i (render c ++ KOther ";" :: render st ++ KRP :: KLBrace :: render_stmts b ++ KRBrace :: rest) Hi) as [n0 H0].
  destruct (ev_expr c (KOther ";" :: render st ++ KRP :: KLBrace :: render_stmts b ++ KRBrace :: rest) Hc (aclosed_kw _ _)) as [n1 H1].
  destruct (ev_expr st (KRP :: KLBrace :: render_stmts b ++ KRBrace :: rest) Hs (aclosed_rp _)) as [n2 H2].
  destruct (Hb rest) as [n3 H3].
  exists (S (n0 + n1 + n2 + n3)). intros n Hn. fuel1 n.
  rewrite for_step. rewrite H0 by lia. rewrite H1 by lia. cbn [expect is_kw String.eqb Ascii.eqb Bool.eqb].
  rewrite H2 by lia. rewrite H3 by lia. reflexivity.
Qed.

(* ---------- the theorem ---------- *)
Lemma ok_stmts_Forall ss : ok_stmts ss -> (forall x, In x ss -> ok_stmt x).
Proof. induction ss as [|x r IH]; cbn; [intros _ y []|]. intros [Hx Hr] y [<-|Hy]; auto. Qed.

Lemma lsize_in x ss : In x ss -> ssize x < lsize ss.
Proof. induction ss as [|y r IH]; cbn; [intros []|]. intros [<-|H]; [lia|]. specialize (IH H). lia. Qed.

Theorem stmt_roundtrip_sz : forall k s, ssize s < k -> ok_stmt s -> RT s.
Proof.
  induction k as [|k IH]; intros s Hsz Hok; [lia|].
  assert (HL : forall ss, lsize ss < k -> ok_stmts ss -> RTL ss).
  { intros ss Hl Hoks. apply items_roundtrip. apply Forall_forall. intros x Hx.
    apply IH; [pose proof (lsize_in x ss Hx); lia | apply (ok_stmts_Forall ss Hoks x Hx)]. }
  destruct s as [ss|fin tr t n i|o|c th el|i c st b|c b|e|e|e|e|c a b|n e|e]; cbn [ok_stmt ssize] in Hok, Hsz; rewrite ?oks_eq, ?lsz_eq in *.
  - apply rt_block. apply HL; [lia|assumption].
  - destruct Hok as (Ht & Hi & Hs). apply rt_decl; assumption.
  - apply rt_return; assumption.
  - destruct Hok as (Hc & Hth & Hel). destruct el as [el|]; cbv beta iota in Hsz, Hel; rewrite ?oks_eq, ?lsz_eq in *.
    + rewrite ?(lsz_eq el) in Hsz.
      apply rt_if; [assumption|apply HL; [lia|assumption]|apply HL; [lia|assumption]].
    + apply rt_if; [assumption|apply HL; [lia|assumption]|exact I].
  - destruct Hok as (Hi & Hc & Hs & Hb). apply rt_for; try assumption. apply HL; [lia|assumption].
  - destruct Hok as (Hc & Hb). apply rt_while; [assumption|apply HL; [lia|assumption]].
  - apply rt_echo; assumption.
  - apply rt_reset; assumption.
  - apply rt_measure; assumption.
  - apply rt_destroy; assumption.
  - destruct Hok as (Hc & Hst & Ha & Hb). apply rt_tern; try assumption; apply IH; try assumption; lia.
  - apply rt_assign; assumption.
  - destruct Hok as (He & Hst). apply rt_expr; assumption.
Qed.

(* rendering a well-formed statement and parsing it back gives that statement, in front of every continuation that
   does not begin with 'else' and for every sufficiently large fuel *)
Theorem stmt_roundtrip s rest : ok_stmt s -> no_else rest ->
  exists n0, forall n, n0 <= n -> p_stmt n (render_stmt s ++ rest) = Some (s, rest).
Proof. intros Hok Hne. exact (stmt_roundtrip_sz (S (ssize s)) s ltac:(lia) Hok rest Hne). Qed.

(* a whole block body: every statement of a well-formed list, in order *)
Theorem block_roundtrip ss rest : ok_stmts ss ->
  exists n0, forall n, n0 <= n -> p_items_s n (render_stmts ss ++ KRBrace :: rest) = Some (ss, rest).
Proof.
  intros Hok. apply items_roundtrip. apply Forall_forall. intros x Hx.
  exact (stmt_roundtrip_sz (S (ssize x)) x ltac:(lia) (ok_stmts_Forall ss Hok x Hx)).
Qed.

(* the side conditions on declarations hold for every primitive type and for class types with at most one dimension
   whose size is absent or a literal *)
Lemma decl_start_prim p ds name : decl_start (mkTy (BPrim p) ds) name.
Proof. intros tl. reflexivity. Qed.
Lemma decl_start_cls c name : decl_start (mkTy (BCls c []) []) name.
Proof. intros tl. reflexivity. Qed.
Lemma decl_start_cls_arr c name : decl_start (mkTy (BCls c []) [ANone]) name.
Proof. intros tl. reflexivity. Qed.
Lemma decl_start_cls_arr_lit c t name : decl_start (mkTy (BCls c []) [ALit t]) name.
Proof. intros tl. reflexivity. Qed.
Lemma decl_start_qualified c m name : decl_start (mkTy (BCls c [m]) []) name.
Proof. intros tl. reflexivity. Qed.
