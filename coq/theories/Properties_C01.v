(* C01 - built-in gates act as their defining unitaries on exactly the addressed qubits.
   Property theorems only; proofs live in Sim/SimLoops.v, Sim/CxLoops.v, Sim/SimReal.v *)
From Coq Require Import List Arith Reals ZArith.
From Bloch Require Import Common.ListUpd Sim.SimModel Sim.SimLoops Sim.CxLoops Sim.SimReal.
Import ListNotations.

(* applySingleQubitGate's blocked in-place loop computes I (x) .. (x) M (x) .. (x) I on qubit q:
   for every register size n, target q, 2x2 matrix m, state st and every scalar instance *)
Theorem C01_single_qubit_loop_is_embedded_operator :
  forall (F : Type) (O : sops F) n q m st,
  q < n -> length st = 2 ^ n ->
  forall k, k < 2 ^ n -> nth k (apply1 O q m st) (c0 O) = embed1 O q m st k.
Proof. exact @apply1_embed. Qed.
Print Assumptions C01_single_qubit_loop_is_embedded_operator.

(* cx's block/between/lowOffset loop computes the controlled-NOT permutation, for both orders of
   control and target, adjacent or not, every register size and state *)
Theorem C01_cx_loop_is_controlled_not :
  forall (F : Type) (O : sops F) n c t st,
  c < n -> t < n -> c <> t -> length st = 2 ^ n ->
  forall k, k < 2 ^ n -> nth k (cx_model O c t st) (c0 O) = cx_spec O c t st k.
Proof. exact @cx_model_spec. Qed.
Print Assumptions C01_cx_loop_is_controlled_not.

(* identity on every other qubit: the only other amplitude an output index depends on sits at the
   index that differs in bit q alone *)
Theorem C01_only_target_bit_changes :
  forall q k i, Nat.testbit (partner q k) i = if i =? q then negb (Nat.testbit k q) else Nat.testbit k i.
Proof. exact partner_bits. Qed.
Print Assumptions C01_only_target_bit_changes.

(* the seven matrices are qelib1's (U as in the OpenQASM 2 specification); rz up to a global phase *)
Theorem C01_matrices_are_qelib1 : forall t,
  gate_matrix Rops GX = U3 PI 0 PI /\ gate_matrix Rops GY = U3 PI (PI / 2) (PI / 2) /\
  gate_matrix Rops GZ = U1 PI /\ gate_matrix Rops GH = U2 0 PI /\
  gate_matrix Rops (GRx t) = U3 t (- (PI / 2)) (PI / 2) /\ gate_matrix Rops (GRy t) = U3 t 0 0 /\
  eq_up_to_phase (gate_matrix Rops (GRz t)) (U1 t).
Proof.
  intros t. exact (conj mX_is_qelib (conj mY_is_qelib (conj mZ_is_qelib (conj mH_is_qelib
           (conj (mRx_is_qelib t) (conj (mRy_is_qelib t) (mRz_is_qelib t))))))).
Qed.
Print Assumptions C01_matrices_are_qelib1.

Theorem C01_rotations_are_exp_closed_form : forall t,
  gate_matrix Rops (GRx t) = pauli_rot t (gate_matrix Rops GX) /\
  gate_matrix Rops (GRy t) = pauli_rot t (gate_matrix Rops GY) /\
  gate_matrix Rops (GRz t) = pauli_rot t (gate_matrix Rops GZ).
Proof. exact rot_closed_form. Qed.
Print Assumptions C01_rotations_are_exp_closed_form.

Theorem C01_gates_unitary : forall g, unitary2 (gate_matrix Rops g).
Proof. exact gates_unitary. Qed.
Print Assumptions C01_gates_unitary.

(* non-vacuity: a concrete 3-qubit register over the integers (exact arithmetic), every index *)
Definition Zops : sops Z :=
  {| s0 := 0%Z; s1 := 1%Z; s2 := 2%Z; sadd := Z.add; ssub := Z.sub; smul := Z.mul; sdiv := Z.div;
     sneg := Z.opp; ssqrt := Z.sqrt; scos := fun x => x; ssin := fun x => x; sltb := Z.ltb; sis0 := Z.eqb 0%Z |}.
Definition st3 : list (C (F:=Z)) := [(1,2);(3,-1);(0,5);(7,7);(-2,4);(6,0);(1,1);(-3,2)]%Z.
Definition mz : mat (F:=Z) := ((2,1),(0,-3),(1,1),(5,2))%Z.
Example ex_apply1 : apply1 Zops 1 mz st3 = map (embed1 Zops 1 mz st3) (seq 0 8) /\ apply1 Zops 1 mz st3 <> st3.
Proof. split; [vm_compute; reflexivity|vm_compute; discriminate]. Qed.
Example ex_cx : cx_model Zops 2 0 st3 = map (cx_spec Zops 2 0 st3) (seq 0 8)
             /\ cx_model Zops 0 2 st3 = map (cx_spec Zops 0 2 st3) (seq 0 8) /\ cx_model Zops 0 2 st3 <> st3.
Proof. repeat split; try (vm_compute; reflexivity). vm_compute; discriminate. Qed.
