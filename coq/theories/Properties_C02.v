(* C02 - measurement follows the Born rule and collapses to the normalised projection. *)
From Coq Require Import List Arith Reals Lra.
From Bloch Require Import Common.ListUpd Sim.SimModel Sim.SimReal Sim.SimNorm Sim.EvalQ Sim.EvalQProofs.
Import ListNotations.
Local Open Scope R_scope.

(* outcome 1 exactly when the uniform draw falls below the squared norm of the bit-q=1 component:
   {r in [0,1) | outcome = 1} = [0, prob1 q st), an interval of length prob1 q st in [0,1] *)
Theorem C02_outcome_follows_born_rule : forall q r st, norm2 st = 1 -> 0 <= r < 1 ->
  (fst (measure_state Rops q r st) = true <-> r < prob1 Rops q st) /\ 0 <= prob1 Rops q st <= 1.
Proof. intros q r st Hn Hr. exact (conj (measure_outcome_iff q r st Hn Hr) (prob1_range q st Hn)). Qed.
Print Assumptions C02_outcome_follows_born_rule.

Theorem C02_sampled_branch_has_positive_probability : forall q r st,
  norm2 st = 1 -> 0 <= r < 1 -> 0 < p_branch q (fst (measure_state Rops q r st)) st.
Proof. exact measure_branch_pos. Qed.
Print Assumptions C02_sampled_branch_has_positive_probability.

(* the post-measurement state is the projection onto the reported outcome divided by the square root
   of that outcome's probability, and has unit norm *)
Theorem C02_collapse_is_normalised_projection : forall q r st, norm2 st = 1 -> 0 <= r < 1 ->
  (let res := fst (measure_state Rops q r st) in
   snd (measure_state Rops q r st) = imap (collapsef q res (sqrt (p_branch q res st))) 0 st) /\
  norm2 (snd (measure_state Rops q r st)) = 1.
Proof. intros q r st Hn Hr. exact (conj (measure_post_eq q r st Hn) (measure_norm q r st Hn Hr)). Qed.
Print Assumptions C02_collapse_is_normalised_projection.

Theorem C02_immediate_reread_agrees : forall q r st, norm2 st = 1 -> 0 <= r < 1 ->
  prob1 Rops q (snd (measure_state Rops q r st)) = if fst (measure_state Rops q r st) then 1 else 0.
Proof. exact measure_repeat. Qed.
Print Assumptions C02_immediate_reread_agrees.

Theorem C02_correlated_qubits_agree : forall q q' r st, norm2 st = 1 -> 0 <= r < 1 ->
  (forall k, (k < length st)%nat -> nth k st (c0 Rops) <> c0 Rops -> Nat.testbit k q' = Nat.testbit k q) ->
  prob1 Rops q' (snd (measure_state Rops q r st)) = if fst (measure_state Rops q r st) then 1 else 0.
Proof. exact measure_correlated. Qed.
Print Assumptions C02_correlated_qubits_agree.

(* the bit the program receives, the bit stored for @tracked reporting and the simulator's outcome are one value *)
Theorem C02_returned_stored_and_collapsed_values_agree :
  forall (F : Type) (O : sops F) (e e' : evq (F:=F)) i ds b ds',
  FInv e -> ev_measure O e i ds = inl (e', b, ds') ->
  nth i (elast e') None = Some b /\ nth i (eflags e') false = true /\
  b = fst (measure_state O i (fst (next_draw O ds)) (amps (esim e))).
Proof.
  intros F O e e' i ds b ds' FI E. destruct (ev_measure_finv O e e' i ds b ds' FI E) as (_ & _ & _ & _ & A & B & _ & D).
  exact (conj B (conj A D)).
Qed.
Print Assumptions C02_returned_stored_and_collapsed_values_agree.

(* non-vacuity: the Bell state satisfies the premises *)
Definition bell : list RC := [(1 / sqrt 2, 0); (0, 0); (0, 0); (1 / sqrt 2, 0)].
Example bell_unit : norm2 bell = 1 /\ prob1 Rops 0 bell = 1 / 2.
Proof.
  pose proof isq2_sq. split.
  - unfold norm2, bell, cn2, cnorm2. cbn. lra.
  - rewrite prob1_isum. unfold bell, w1f, cn2, cnorm2. cbn. lra.
Qed.
