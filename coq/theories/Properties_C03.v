(* C03 - the state stays a unit 2^n vector and qubit handles stay distinct, in any history. *)
From Coq Require Import List Arith Reals Lra.
From Bloch Require Import Common.ListUpd Sim.SimModel Sim.SimReal Sim.SimNorm Sim.SimInv Sim.EvalQ Sim.EvalQProofs.
Import ListNotations.
Local Open Scope R_scope.

(* every reachable simulator state has exactly 2^n amplitudes and unit norm: any interleaving of
   allocate / h x y z rx ry rz / cx / measure / reset, any angles, any draws in [0,1) *)
Theorem C03_state_is_unit_vector_in_every_history : forall os,
  valid_draws os ->
  let s := fst (sim_run Rops (sim_init Rops) os) in
  length (amps s) = (2 ^ nq s)%nat /\ norm2 (amps s) = 1.
Proof. exact reachable_unit_vector. Qed.
Print Assumptions C03_state_is_unit_vector_in_every_history.

Theorem C03_every_operation_preserves_the_invariant : forall s o, SInv s ->
  (forall q0 r, o = SOp (OMeasure q0) r \/ o = SOp (OReset q0) r -> 0 <= r < 1) ->
  SInv (fst (fst (sim_step Rops s o))).
Proof. exact sim_step_inv. Qed.
Print Assumptions C03_every_operation_preserves_the_invariant.

(* allocating a qubit keeps the existing amplitudes (st (x) |0>) *)
Theorem C03_allocation_keeps_existing_state : forall st k, (k < length st)%nat ->
  nth k (alloc_state Rops st) (c0 Rops) = nth k st (c0 Rops) /\
  nth (k + length st) (alloc_state Rops st) (c0 Rops) = c0 Rops.
Proof. exact alloc_keeps_state. Qed.
Print Assumptions C03_allocation_keeps_existing_state.

(* handles: in every history of declarations, gates, measurements, resets and object releases
   (with index recycling), the simulator indices behind all live declarations and the free list are
   pairwise distinct and in range - two live declarations never share a qubit *)
Theorem C03_handles_stay_distinct : forall (F : Type) (O : sops F) os ds,
  let e := fst (ev_run O (evq_init O) os ds) in
  NoDup (efree e ++ live e ++ []) /\ (forall i, In i (efree e ++ live e ++ []) -> (i < nq (esim e))%nat).
Proof.
  intros F O os ds. cbv zeta. pose proof (reachable_inv O os ds) as [_ N R]. exact (conj N R).
Qed.
Print Assumptions C03_handles_stay_distinct.

Example ex_history :
  valid_draws [SAlloc; SOp (OGate GH 0%nat) 0; SAlloc; SOp (OCx 0%nat 1%nat) 0; SOp (OMeasure 0%nat) (1/2); SOp (OReset 1%nat) (1/4)].
Proof. repeat constructor; lra. Qed.
