(* C04 - reset is local: the target goes to |0>, the other qubits' statistics are unchanged. *)
From Coq Require Import List Arith Reals Lra.
From Bloch Require Import Common.ListUpd Sim.SimModel Sim.SimReal Sim.SimNorm.
Import ListNotations.
Local Open Scope R_scope.

(* after reset no amplitude is left where the target bit is 1: the target is |0> and unentangled *)
Theorem C04_reset_target_is_zero : forall q r st k, (k < length st)%nat -> Nat.testbit k q = true ->
  nth k (snd (reset_state Rops q r st)) (c0 Rops) = c0 Rops.
Proof. exact reset_target_zero. Qed.
Print Assumptions C04_reset_target_is_zero.

Theorem C04_reset_keeps_unit_norm : forall n q r st, (q < n)%nat -> length st = (2 ^ n)%nat ->
  norm2 st = 1 -> 0 <= r < 1 -> norm2 (snd (reset_state Rops q r st)) = 1.
Proof. exact reset_norm. Qed.
Print Assumptions C04_reset_keeps_unit_norm.

(* averaged over the draw (branch 1 is taken for r in [0,p1), branch 0 for r in [p1,1)), every entry
   rho(a,b) of the reduced density matrix of the other qubits equals its value before the reset:
   p1 * rho(branch 1) + (1 - p1) * rho(branch 0) = rho(before) *)
Theorem C04_reset_is_local : forall n q st r0 r1 a b,
  (q < n)%nat -> length st = (2 ^ n)%nat -> norm2 st = 1 ->
  0 <= r1 < prob1 Rops q st -> prob1 Rops q st <= r0 < 1 ->
  (a < 2 ^ n)%nat -> (b < 2 ^ n)%nat -> Nat.testbit a q = false -> Nat.testbit b q = false ->
  cadd Rops (cscale (prob1 Rops q st) (rho q (snd (reset_state Rops q r1 st)) a b))
            (cscale (1 - prob1 Rops q st) (rho q (snd (reset_state Rops q r0 st)) a b))
  = rho q st a b.
Proof. exact reset_local. Qed.
Print Assumptions C04_reset_is_local.

(* which branch is taken follows the Born rule of the target *)
Theorem C04_reset_branch_rule : forall q r st, norm2 st = 1 -> 0 <= r < 1 ->
  (fst (reset_state Rops q r st) = true <-> r < prob1 Rops q st).
Proof. exact reset_outcome_iff. Qed.
Print Assumptions C04_reset_branch_rule.
