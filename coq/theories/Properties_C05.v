(* C05 - the emitted OpenQASM 2.0 replays to the same quantum state as the simulation. *)
From Coq Require Import List Arith String.
From Bloch Require Import Common.ListUpd Sim.SimModel Sim.Qasm Sim.QasmParse Sim.EvalQ Sim.QasmLog Sim.SimReal Sim.LazyAlloc.
Import ListNotations.

(* the text is a well-formed program of the emitted subset and an independent reader recovers from it
   exactly the register size and the logged operations: nothing lost, nothing duplicated, order kept
   (for every n, every op list, every angle whose %f text is a signed fixed-point literal) *)
Theorem C05_emitted_text_reads_back_as_the_log :
  forall (F : Type) (fmt : F -> string) n ops,
  Forall (angle_ok fmt) ops -> parse_qasm (emit fmt n ops) = Some (n, map (top fmt) ops).
Proof. exact @parse_emit. Qed.
Print Assumptions C05_emitted_text_reads_back_as_the_log.

(* the log is the history: every operation that succeeded, once, in execution order *)
Theorem C05_log_is_the_execution_history :
  forall (F : Type) (O : sops F) os s, qlog (fst (sim_run O s os)) = qlog s ++ applied O s os.
Proof. intros F O os s. exact (log_is_history O os s). Qed.
Print Assumptions C05_log_is_the_execution_history.

(* every operand index is below the declared register size and cx operands are distinct, in every
   history the evaluator can produce *)
Theorem C05_emitted_operands_in_range_and_distinct :
  forall (F : Type) (O : sops F) os ds,
  let s := esim (fst (ev_run O (evq_init O) os ds)) in Forall (fun o => op_ok (nq s) o = true) (qlog s).
Proof. exact @emitted_ops_wellformed. Qed.
Print Assumptions C05_emitted_operands_in_range_and_distinct.

(* replaying the log on a register declared up front gives the simulated state: the simulator allocates lazily (the
   state doubles when a declaration is reached), the emitted program declares all qubits first; every operation that
   succeeded commutes with allocation, so for every scripted history - any interleaving of declarations, gates, cx,
   measurements and resets, refused operations included, any draws - the final simulator (register size, amplitudes,
   measured flags, log) equals the one obtained by allocating every qubit first and then performing exactly the
   logged operations with the same draws.  Over the reals. *)
Theorem C05_replaying_the_log_on_a_register_declared_up_front_gives_the_simulated_state :
  forall os,
    (fst (sim_run Rops (sim_init Rops) os) =
     fst (sim_run Rops (pad_many (allocs os) (sim_init Rops)) (succeeded (sim_init Rops) os))) /\
    (map (fun o => match o with SOp q _ => [q] | SAlloc => [] end) (succeeded (sim_init Rops) os))
    = (map (fun q => [q]) (applied Rops (sim_init Rops) os)).
Proof. intro os. split; [exact (replay_from_scratch os) | apply succeeded_is_the_log]. Qed.
Print Assumptions C05_replaying_the_log_on_a_register_declared_up_front_gives_the_simulated_state.

Local Open Scope string_scope.
Example ex_roundtrip :
  let fmt (x : nat) := "1.500000" in
  parse_qasm (emit fmt 3 [OGate GH 0; OGate (GRx 7) 2; OCx 2 0; OReset 1; OMeasure 12])
  = Some (3, [OGate GH 0; OGate (GRx "1.500000") 2; OCx 2 0; OReset 1; OMeasure 12]).
Proof. vm_compute. reflexivity. Qed.
