(* C06 - a measured qubit cannot be operated on until reset, through any access path. *)
From Coq Require Import List Arith.
From Bloch Require Import Common.ListUpd Sim.SimModel Sim.EvalQ Sim.EvalQProofs.
Import ListNotations.

Section C06.
  Context {F : Type} (O : sops F).

  (* in every history the evaluator's measured flags and the simulator's agree on every qubit *)
  Theorem C06_flags_agree_in_every_history : forall os ds,
    let e := fst (ev_run O (evq_init O) os ds) in
    length (eflags e) = nq (esim e) /\
    forall i, i < nq (esim e) -> nth i (eflags e) false = nth i (meas (esim e)) false.
  Proof. intros os ds. cbv zeta. pose proof (reachable_inv O os ds) as [[L1 _ _ A] _ _]. exact (conj L1 A). Qed.

  Theorem C06_gate_on_measured_qubit_is_refused : forall (e : evq (F:=F)) g i,
    i < length (eflags e) -> nth i (eflags e) false = true -> ev_gate O e g i = inr EMeasuredLocated.
  Proof. exact (gate_on_measured_refused O). Qed.

  Theorem C06_cx_on_measured_operand_is_refused : forall (e : evq (F:=F)) c t,
    c < length (eflags e) -> t < length (eflags e) ->
    nth c (eflags e) false = true \/ nth t (eflags e) false = true -> ev_cx O e c t = inr EMeasuredLocated.
  Proof. exact (cx_on_measured_refused O). Qed.

  Theorem C06_measure_on_measured_qubit_is_refused : forall (e : evq (F:=F)) i ds,
    i < length (eflags e) -> nth i (eflags e) false = true -> ev_measure O e i ds = inr EMeasuredLocated.
  Proof. exact (measure_on_measured_refused O). Qed.

  Theorem C06_reset_reenables : forall (e e' : evq (F:=F)) i ds ds' g,
    FInv e -> ev_reset O e i ds = inl (e', ds') -> exists e'', ev_gate O e' g i = inl e''.
  Proof. exact (reset_reenables O). Qed.

  Theorem C06_unmeasured_qubit_is_never_refused : forall (e : evq (F:=F)) g i ds,
    FInv e -> i < nq (esim e) -> nth i (eflags e) false = false ->
    (exists e', ev_gate O e g i = inl e') /\ (exists e' b ds', ev_measure O e i ds = inl (e', b, ds')).
  Proof. intros e g i ds FI Hi Hf. exact (conj (unmeasured_never_refused O e g i FI Hi Hf) (unmeasured_measure_ok O e i ds FI Hi Hf)). Qed.

  Theorem C06_measuring_an_array_marks_every_element : forall is (e e' : evq (F:=F)) ds bs ds',
    FInv e -> ev_measure_all O e is ds = (e', bs, ds', None) -> forall i, In i is -> nth i (eflags e') false = true.
  Proof.
    intros is e e' ds bs ds' FI E i Hi.
    destruct (ev_measure_all_finv O is e e' ds bs ds' None [] FI (fun _ (H : In _ []) => match H with end) E) as (_ & _ & _ & _ & M).
    apply M; [reflexivity|]. exact Hi.
  Qed.

  (* refusals carry a source position: the simulator's own position-less check is unreachable *)
  Theorem C06_refusals_are_located : forall (e : evq (F:=F)) g i x,
    FInv e -> ev_gate O e g i = inr x -> x = EMeasuredLocated \/ x = ERangeLocated.
  Proof. exact (ev_gate_located O). Qed.
End C06.
Print Assumptions C06_flags_agree_in_every_history.
Print Assumptions C06_gate_on_measured_qubit_is_refused.
Print Assumptions C06_cx_on_measured_operand_is_refused.
Print Assumptions C06_measure_on_measured_qubit_is_refused.
Print Assumptions C06_reset_reenables.
Print Assumptions C06_unmeasured_qubit_is_never_refused.
Print Assumptions C06_measuring_an_array_marks_every_element.
Print Assumptions C06_refusals_are_located.

(* non-vacuity: a concrete history that measures, is refused, resets and continues *)
Definition Nops : sops nat :=
  {| s0 := 0; s1 := 1; s2 := 2; sadd := Nat.add; ssub := Nat.sub; smul := Nat.mul; sdiv := Nat.div;
     sneg := fun x => x; ssqrt := Nat.sqrt; scos := fun x => x; ssin := fun x => x; sltb := Nat.ltb; sis0 := Nat.eqb 0 |}.
Example ex_refused_then_reset :
  snd (ev_run Nops (evq_init Nops) [EDecl 2; EMeas 0 1; EGate GX 0 1] []) = [ROk []; ROk [false]; RErr EMeasuredLocated]
  /\ snd (ev_run Nops (evq_init Nops) [EDecl 2; EMeas 0 1; EReset 0 1; EGate GX 0 1] []) = [ROk []; ROk [false]; ROk []; ROk []].
Proof. split; vm_compute; reflexivity. Qed.
