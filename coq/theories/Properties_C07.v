(* C07 - classical evaluation agrees with the documented language semantics.
   The reference interpreter is Lang/Eval.v; these theorems state what the documentation fixes about
   it for every value of every type (the float type and its operations are arbitrary). *)
From Coq Require Import List ZArith String Ascii Bool.
From Bloch Require Import Lang.Soundness Lang.Syntax Lang.Eval Lang.Typing Lang.OpSound Lang.EvalProps.
Import ListNotations.

(* a binary operator applied to well-formed operands of documented types yields a value of exactly
   the documented result type (int -> long -> float promotion, comparisons and logic give boolean,
   bitwise operators give bit / bit[]) or a documented runtime error; it is never stuck *)
Theorem C07_binary_operators_follow_the_documented_typing :
  forall F (O : fops F) o a b t, wf a = true -> wf b = true ->
    bin_ty o (type_of a) (type_of b) = Some t -> sound_res (binop_eval O o a b) t.
Proof. exact @binop_sound. Qed.
Print Assumptions C07_binary_operators_follow_the_documented_typing.

Theorem C07_unary_operators_follow_the_documented_typing :
  forall F (O : fops F) o a t, wf a = true -> un_ty o (type_of a) = Some t -> sound_res (unop_eval O o a) t.
Proof. exact @unop_sound. Qed.
Print Assumptions C07_unary_operators_follow_the_documented_typing.

Theorem C07_casts_follow_the_documented_typing :
  forall F (O : fops F) t a t', cast_ty t (type_of a) = Some t' -> sound_res (cast_eval O t a) t'.
Proof. exact @cast_sound. Qed.
Print Assumptions C07_casts_follow_the_documented_typing.

Theorem C07_division_always_yields_float :
  forall F (O : fops F) a b v, binop_eval O ODiv a b = Ok v -> type_of v = TFloat.
Proof. exact @div_always_float. Qed.
Print Assumptions C07_division_always_yields_float.

Theorem C07_modulo_is_integer_only :
  forall F (O : fops F) a b v, binop_eval O OMod a b = Ok v ->
    integral (type_of a) = true /\ integral (type_of b) = true /\ integral (type_of v) = true.
Proof. exact @mod_integer_only. Qed.
Print Assumptions C07_modulo_is_integer_only.

Theorem C07_array_element_conversions_are_the_documented_ones :
  forall F (O : fops F) elt v, elem_ok elt (type_of v) = true ->
    match elem_conv O elt v with
    | Ok w => type_of w = elt /\ scalar_val w = true
    | Err e => documented e
    | OutOfFuel => False
    end.
Proof. exact @elem_conv_sound. Qed.
Print Assumptions C07_array_element_conversions_are_the_documented_ones.

(* arrays (and every other value) have value semantics: writing one variable never changes another *)
Theorem C07_writing_a_variable_changes_no_other :
  forall F x y (v : value F) e, x <> y -> lookup x (update y v e) = lookup x e.
Proof. exact @lookup_update_other. Qed.
Print Assumptions C07_writing_a_variable_changes_no_other.

Theorem C07_a_copied_array_is_independent :
  forall F x y elt (l l' : list (value F)) e, x <> y -> lookup x e = Some (VArr elt l) ->
    lookup x (update y (VArr elt l') (declare y (VArr elt l) e)) = Some (VArr elt l).
Proof. exact @array_copy_is_independent. Qed.
Print Assumptions C07_a_copied_array_is_independent.

(* a call of a function binds its arguments in a fresh frame (the caller's environment is parked where
   no name lookup reaches) and returns the caller's environment and class context untouched *)
Theorem C07_calls_bind_parameters_in_a_fresh_environment :
  forall F (O : fops F) fns cls depth n s f fd args v s',
    fns f = Some fd ->
    eval O fns cls depth (S n) s (ECall f args) = Ok (v, s') ->
    exists vs s1 sc c s2,
      evals (eval O fns cls depth n) s args = Ok (vs, s1) /\
      bind_params (fn_params fd) vs = Some sc /\
      execs cls depth (exec O fns cls depth n) (enter (with_temps s1 (vs ++ s_temps s1)) sc EmptyString) (fn_body fd) = Ok (c, s2) /\
      s_env (enter (with_temps s1 (vs ++ s_temps s1)) sc EmptyString) = [sc] /\
      s_env s' = s_env s1 /\ s_ctx s' = s_ctx s1.
Proof. exact @call_isolated. Qed.
Print Assumptions C07_calls_bind_parameters_in_a_fresh_environment.

(* whole programs: whatever the fuel, a class-free program accepted by the reference checker finishes, runs out of
   fuel, or ends with a documented runtime error (or a result flagged as outside the documentation) - it never
   reaches an operation the semantics does not define *)
Theorem C07_checked_programs_never_reach_an_undefined_operation :
  forall F (O : fops F) p fuel, check_program p = true -> p_classes p = [] ->
    forall why, snd (run O fuel p) <> Failed (RStuck why).
Proof. exact @checked_programs_never_get_stuck. Qed.
Print Assumptions C07_checked_programs_never_reach_an_undefined_operation.

(* non-vacuity: the interpreter runs, over a toy float instance (integers), a program with promotion,
   '/', '%', an array copy that is then written, a loop, recursion and a documented runtime error *)
Local Open Scope string_scope.
Local Open Scope Z_scope.
Definition zops : fops Z :=
  mkF Z Z.add Z.sub Z.mul Z.quot Z.opp Z.eqb Z.ltb Z.leb (fun z => z) (fun z => z) show_Z show_Z.
Definition fact : fdecl :=
  mkFn "fact" [(TInt, "d")] TLong
    [SIf (EBin OLe (EVar "d") (ELit (LInt 0))) (SBlock [SReturn (Some (ELit (LInt 1)))]) None;
     SReturn (Some (EBin OMul (ECast TLong (EVar "d")) (ECall "fact" [EBin OSub (EVar "d") (ELit (LInt 1))])))].
Definition demo_fns : list fdecl :=
  [mkFn "main" [] TVoid
     [SDeclArr TInt "a" None (Some (EArr [ELit (LInt 1); ELit (LInt 2); ELit (LInt 3)]));
      SDeclArr TInt "b" None (Some (EVar "a"));
      SArrAssign "b" (ELit (LInt 0)) (ELit (LInt 9));
      SEcho (EVar "a"); SEcho (EVar "b");
      SEcho (EBin OAdd (ELit (LStr "5!=")) (ECall "fact" [ELit (LInt 5)]));
      SFor (Some (SDecl false TInt "i" (Some (ELit (LInt 0))))) (Some (EBin OLt (EVar "i") (ELit (LInt 2))))
           (Some (SExpr (EPost "i" true))) (SBlock [SEcho (EBin OMod (ELit (LInt 7)) (EBin OAdd (EVar "i") (ELit (LInt 2))))]);
      SEcho (EIndex (EVar "a") (ELit (LInt 3)))];
   fact].
Example ex_run_ok :
  run zops 40 (mkProg [] (map (fun d => mkFn (fn_name d) (fn_params d) (fn_ret d) (firstn 7 (fn_body d))) demo_fns))
  = (["{1, 2, 3}"; "{9, 2, 3}"; "5!=120"; "1"; "1"], Finished).
Proof. vm_compute. reflexivity. Qed.
Definition demo : program := mkProg [] demo_fns.
Example ex_run_err : run zops 40 demo = ([], Failed (RIndex 3 3)).
Proof. vm_compute. reflexivity. Qed.
Example ex_checker_accepts : check_program demo = true.
Proof. vm_compute. reflexivity. Qed.
