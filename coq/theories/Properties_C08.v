(* C08 - object model: construction order, dispatch, overloads, statics, destructors.
   The reference semantics is the object layer of Lang/Eval.v; these theorems characterise its
   mechanisms for every class table.  The whole-program statement (output equality with the
   implementation) is established by differential execution, see DESIGN.md. *)
From Coq Require Import List ZArith String Ascii Bool Arith.
From Bloch Require Import Lang.Syntax Lang.Eval Lang.ObjProps.
Import ListNotations.

Theorem C08_virtual_call_reaches_the_most_derived_override :
  forall cls depth dyn m pt cd md,
    dispatch cls depth dyn m pt = Some (cd, md) ->
    exists pre post, chain cls depth dyn = pre ++ cd :: post /\ In md (cd_meths cd) /\ md_name md = m /\
                     ptys (md_params md) = pt /\ forall c, In c pre -> ~ declares c m pt.
Proof. exact dispatch_most_derived. Qed.
Print Assumptions C08_virtual_call_reaches_the_most_derived_override.

Theorem C08_overload_choice_is_the_unique_least_cost_candidate :
  forall A (l : list (A * nat)) a, pick l = Some a ->
    exists c l1 l2, l = l1 ++ (a, c) :: l2 /\ forall x e, In (x, e) (l1 ++ l2) -> c < e.
Proof. exact @pick_least_and_unique. Qed.
Print Assumptions C08_overload_choice_is_the_unique_least_cost_candidate.

Theorem C08_inheritance_chain_is_derived_first :
  forall cls k c cd, cls c = Some cd ->
    chain_from cls (S k) c = cd :: match cd_base cd with Some b => chain_from cls k b | None => [] end.
Proof. exact chain_unfold. Qed.
Print Assumptions C08_inheritance_chain_is_derived_first.

Theorem C08_static_field_is_one_cell_per_class :
  forall F c f (v : value F) l, st_find c f (st_set c f v l) = Some v.
Proof. exact @st_find_set_same. Qed.
Print Assumptions C08_static_field_is_one_cell_per_class.

Theorem C08_writing_a_static_field_changes_no_other :
  forall F c f c2 f2 (v : value F) l, (c, f) <> (c2, f2) -> st_find c2 f2 (st_set c f v l) = st_find c2 f2 l.
Proof. exact @st_find_set_other. Qed.
Print Assumptions C08_writing_a_static_field_changes_no_other.

(* non-vacuity: a three-level hierarchy; base-first construction, field initialiser before the body,
   most-derived override through a base-typed reference, super.m(), shared static, derived-first destructors *)
Local Open Scope string_scope.
Local Open Scope Z_scope.
Definition zops : fops Z :=
  mkF Z Z.add Z.sub Z.mul Z.quot Z.opp Z.eqb Z.ltb Z.leb (fun z => z) (fun z => z) show_Z show_Z.
Definition S_ (s : string) := ELit (LStr s).
Definition kA : cdecl :=
  mkClass "A" None [mkField false false TInt "a" (Some (ELit (LInt 1))) VPub; mkField true false TInt "cnt" (Some (ELit (LInt 0))) VPub]
    [mkCtor [(TInt, "v")] None [SEcho (S_ "A.ctor"); SExpr (EFieldSet EThis "a" (EVar "v"));
                                SExpr (ESFieldSet "A" "cnt" (EBin OAdd (ESField "A" "cnt") (ELit (LInt 1))))] false VPub]
    [mkMeth "name" [] TStr [SReturn (Some (EBin OAdd (S_ "A") (EVar "a")))] false true VPub]
    (Some [SEcho (S_ "~A")]) KNormal.
Definition kB : cdecl :=
  mkClass "B" (Some "A") [mkField false false TInt "b" (Some (EBin OAdd (EVar "a") (ELit (LInt 10)))) VPub]
    [mkCtor [(TInt, "a")] (Some [EBin OAdd (EVar "a") (ELit (LInt 1))]) [SEcho (EBin OAdd (S_ "B.ctor b=") (EField EThis "b"))] false VPub]
    [mkMeth "name" [] TStr [SReturn (Some (EBin OAdd (S_ "B>") (ESuperCall "name" [])))] false true VPub]
    (Some [SEcho (S_ "~B")]) KNormal.
Definition kC : cdecl :=
  mkClass "C" (Some "B") []
    [mkCtor [] (Some [ELit (LInt 4)]) [SEcho (S_ "C.ctor")] false VPub]
    [mkMeth "name" [] TStr [SReturn (Some (EBin OAdd (S_ "C>") (ESuperCall "name" [])))] false true VPub]
    (Some [SEcho (S_ "~C")]) KNormal.
Definition demo : program :=
  mkProg [kC; kA; kB]      (* declaration order is irrelevant *)
    [mkFn "main" [] TVoid
       [SDecl false (TClass "A") "x" (Some (ENew "C" []));
        SEcho (EMCall (EVar "x") "name" []);
        SEcho (ESField "B" "cnt");
        SAssign "x" ENull;
        SEcho (S_ "end")]].
Example ex_object_model :
  run zops 60 demo = (["A.ctor"; "B.ctor b=15"; "C.ctor"; "C>B>A5"; "1"; "~C"; "~B"; "~A"; "end"], Finished).
Proof. vm_compute. reflexivity. Qed.
