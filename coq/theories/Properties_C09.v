(* C09 - scoping is lexical.
   Proved on the reference interpreter: a bare name is resolved from the running body's frame, then the
   enclosing object, then the enclosing class's statics; the environments of suspended callers are never
   read and never written; a call hands the caller's environment back untouched; an injective renaming
   of a frame's names commutes with every environment operation and does not change which objects are
   referenced; and, for the class-free fragment, the property itself: giving every function its own injective
   renaming of locals and parameters (one function renamed, the others left alone, being the special case)
   leaves every run unchanged, for every fuel.  For programs with classes the statement is decided on the
   implementation directly (output before/after renaming) and against the interpreter, see DESIGN.md. *)
From Coq Require Import List ZArith String Ascii Bool Arith.
From Bloch Require Import Lang.Syntax Lang.Eval Lang.EvalProps Lang.ScopeProps Lang.Alpha.
Import ListNotations.

Theorem C09_name_lookup_never_reads_a_callers_locals :
  forall F cls depth x (s : st (F:=F)) fr, read_name cls depth x (with_frames s fr) = read_name cls depth x s.
Proof. exact @read_ignores_callers. Qed.
Print Assumptions C09_name_lookup_never_reads_a_callers_locals.

Theorem C09_assignment_never_changes_a_callers_locals :
  forall F cls depth x v (s s' : st (F:=F)), write_name cls depth x v s = Ok s' -> s_frames s' = s_frames s.
Proof. exact @write_never_touches_callers. Qed.
Print Assumptions C09_assignment_never_changes_a_callers_locals.

Theorem C09_a_bare_write_is_to_a_local_else_a_field_or_static :
  forall F cls depth x v (s s' : st (F:=F)), write_name cls depth x v s = Ok s' ->
    (lookup x (s_env s) <> None /\ s_heap s' = s_heap s /\ s_statics s' = s_statics s) \/
    (lookup x (s_env s) = None /\ s_env s' = s_env s).
Proof. exact @write_is_local_field_or_static. Qed.
Print Assumptions C09_a_bare_write_is_to_a_local_else_a_field_or_static.

Theorem C09_a_call_returns_the_callers_environment_untouched :
  forall F (O : fops F) fns cls depth n s f fd args v s',
    fns f = Some fd ->
    eval O fns cls depth (S n) s (ECall f args) = Ok (v, s') ->
    exists vs s1 sc c s2,
      evals (eval O fns cls depth n) s args = Ok (vs, s1) /\
      bind_params (fn_params fd) vs = Some sc /\
      execs cls depth (exec O fns cls depth n) (enter (with_temps s1 (vs ++ s_temps s1)) sc EmptyString) (fn_body fd) = Ok (c, s2) /\
      s_env (enter (with_temps s1 (vs ++ s_temps s1)) sc EmptyString) = [sc] /\
      s_env s' = s_env s1 /\ s_ctx s' = s_ctx s1.
Proof. exact @call_isolated. Qed.
Print Assumptions C09_a_call_returns_the_callers_environment_untouched.

Theorem C09_partial_renaming_commutes_with_environment_operations :
  forall F (rho : string -> string), (forall a b, rho a = rho b -> a = b) ->
    (forall x (e : env (F:=F)), lookup (rho x) (ren_env rho e) = lookup x e) /\
    (forall x v (e : env (F:=F)), ren_env rho (update x v e) = update (rho x) v (ren_env rho e)) /\
    (forall x v (e : env (F:=F)), ren_env rho (declare x v e) = declare (rho x) v (ren_env rho e)) /\
    (forall (e : env (F:=F)), env_refs (ren_env rho e) = env_refs e).
Proof.
  intros F rho inj. split; [|split; [|split]].
  - intros; now apply lookup_ren.
  - intros; now apply update_ren.
  - intros; apply declare_ren.
  - intros; apply refs_ren.
Qed.
Print Assumptions C09_partial_renaming_commutes_with_environment_operations.

(* the property itself, for programs without classes: every function may have its locals and parameters renamed by
   an injective renaming of its own (fresh names, or names used by other functions - the renamings are independent);
   the run is the same for every fuel *)
Theorem C09_renaming_locals_and_parameters_never_changes_a_run :
  forall F (O : fops F) rt p fuel,
    p_classes p = [] -> (forall g, good (rt g)) ->
    (forall d, In d (p_fns p) -> forallb plain_stmt (fn_body d) = true) ->
    run O fuel (rename_program rt p) = run O fuel p.
Proof. exact @renaming_locals_preserves_every_run. Qed.
Print Assumptions C09_renaming_locals_and_parameters_never_changes_a_run.

(* non-vacuity: in a two-function program the callee's parameter d is renamed to the name of the caller's local n
   (and n to d), the caller is left alone; the premises hold and the renamed program is a different text *)
Local Open Scope string_scope.
Local Open Scope Z_scope.
Definition zops : fops Z :=
  mkF Z Z.add Z.sub Z.mul Z.quot Z.opp Z.eqb Z.ltb Z.leb (fun z => z) (fun z => z) show_Z show_Z.
Definition callee : fdecl :=
  mkFn "twice" [(TInt, "d")] TInt [SDecl false TInt "t" (Some (EBin OMul (EVar "d") (ELit (LInt 2)))); SReturn (Some (EVar "t"))].
Definition caller : fdecl :=
  mkFn "main" [] TVoid [SDecl false TInt "n" (Some (ELit (LInt 21))); SEcho (ECall "twice" [EVar "n"]); SEcho (EVar "n")].
Definition prog2 : program := mkProg [] [caller; callee].
Definition rt2 (g : string) : string -> string := if String.eqb g "twice" then swap "d" "n" else (fun x => x).
Example ex_rt2_good : forall g, good (rt2 g).
Proof.
  intro g. unfold rt2. destruct (String.eqb g "twice"); [apply good_swap; discriminate | apply good_id].
Qed.
Example ex_renamed_differs : rename_program rt2 prog2 <> prog2 /\ run zops 20 (rename_program rt2 prog2) = (["42"; "21"], Finished).
Proof. split; [vm_compute; discriminate | vm_compute; reflexivity]. Qed.
