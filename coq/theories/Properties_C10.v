(* C10 - acceptance and behaviour do not depend on top-level declaration order.
   The reference interpreter reaches functions and classes only by name; these theorems show that this
   makes every run independent of the order of the declaration lists.  The implementation is checked
   against the property directly (every generated program under several permutations), see DESIGN.md. *)
From Coq Require Import List ZArith String Ascii Bool Arith Permutation.
From Bloch Require Import Lang.Syntax Lang.Eval Lang.Typing Lang.OrderProps Properties_C08.
Import ListNotations.

Theorem C10_lookup_by_name_ignores_declaration_order :
  forall A (name : A -> string) x (l l' : list A), NoDup (map name l) -> Permutation l l' ->
    find (fun d => String.eqb (name d) x) l = find (fun d => String.eqb (name d) x) l'.
Proof. exact @find_perm. Qed.
Print Assumptions C10_lookup_by_name_ignores_declaration_order.

Theorem C10_evaluation_ignores_declaration_order :
  forall F (O : fops F) p q fuel s e, wf_names p -> same_decls p q ->
    eval O (find_fn p) (find_class p) (List.length (p_classes p)) fuel s e =
    eval O (find_fn q) (find_class q) (List.length (p_classes q)) fuel s e.
Proof. exact @eval_order_independent. Qed.
Print Assumptions C10_evaluation_ignores_declaration_order.

Theorem C10_run_ignores_function_order :
  forall F (O : fops F) p q fuel, wf_names p -> Permutation (p_fns p) (p_fns q) -> p_classes p = p_classes q ->
    run O fuel p = run O fuel q.
Proof. exact @run_order_independent_functions. Qed.
Print Assumptions C10_run_ignores_function_order.

Theorem C10_run_ignores_class_and_function_order :
  forall F (O : fops F) p q fuel, wf_names p -> same_decls p q -> static_free p -> run O fuel p = run O fuel q.
Proof. exact @run_order_independent. Qed.
Print Assumptions C10_run_ignores_class_and_function_order.

Theorem C10_acceptance_ignores_function_order :
  forall p q, wf_names p -> Permutation (p_fns p) (p_fns q) -> p_classes p = p_classes q -> Typing.check_program p = Typing.check_program q.
Proof. exact check_program_order_independent. Qed.
Print Assumptions C10_acceptance_ignores_function_order.

(* non-vacuity: the C08 demo (derived class listed before its bases) meets wf_names, and reordering it changes nothing *)
Example ex_demo_names : wf_names demo.
Proof. split; cbn; repeat constructor; cbn; intuition discriminate. Qed.
Example ex_reordered :
  run zops 60 (mkProg [kA; kB; kC] (p_fns demo)) = run zops 60 demo.
Proof. vm_compute. reflexivity. Qed.
