(* C11 - garbage collection is unobservable under every schedule.
   The reference interpreter has no tracing collector at all: objects die by reference counting only,
   so its output is by construction independent of any collection schedule.  These theorems are about
   a mark-and-sweep collector over the interpreter's heap with the interpreter's roots (running frame,
   suspended callers, pending operands, statics, an in-flight return value): run at any state, it keeps
   every reachable object exactly as it is and touches nothing but the heap.  That the implementation's
   collector behaves like this one under every forced schedule, and that its timer thread is race-free
   and always stopped, is observed (not proved) by the schedule-forcing and ThreadSanitizer runs. *)
From Coq Require Import List ZArith String Ascii Bool Arith.
From Bloch Require Import Lang.Syntax Lang.Eval Lang.Gc Lang.GcPin.
Import ListNotations.

Theorem C11_marking_reaches_everything_reachable :
  forall F fuel (h : list (obj (F:=F))) roots M,
    mark fuel h roots [] = Some M -> forall l, reach h roots l -> In l M.
Proof. exact @mark_complete. Qed.
Print Assumptions C11_marking_reaches_everything_reachable.

Theorem C11_a_collection_never_clears_a_reachable_object :
  forall F fuel extra (s : st (F:=F)) l,
    reach (s_heap s) (roots_of s extra) l -> get_obj (collect fuel extra s) l = get_obj s l.
Proof. exact @collect_preserves_reachable. Qed.
Print Assumptions C11_a_collection_never_clears_a_reachable_object.

Theorem C11_a_collection_touches_only_the_heap :
  forall F fuel extra (s : st (F:=F)),
    let s' := collect fuel extra s in
    s_env s' = s_env s /\ s_frames s' = s_frames s /\ s_temps s' = s_temps s /\ s_statics s' = s_statics s /\
    s_out s' = s_out s /\ s_ctx s' = s_ctx s /\ List.length (s_heap s') = List.length (s_heap s).
Proof. exact @collect_touches_only_the_heap. Qed.
Print Assumptions C11_a_collection_touches_only_the_heap.

Theorem C11_what_is_cleared_was_unreachable :
  forall F fuel extra (s : st (F:=F)) l o,
    get_obj s l = Some o -> get_obj (collect fuel extra s) l <> Some o -> ~ reach (s_heap s) (roots_of s extra) l.
Proof. exact @collect_clears_only_unreachable. Qed.
Print Assumptions C11_what_is_cleared_was_unreachable.

(* non-vacuity: a heap with a live chain 0 -> 1 held by a pending argument, and an unreachable cycle 2 <-> 3:
   marking completes, the chain is kept, the cycle is wiped *)
Local Open Scope string_scope.
Definition o_ (c : string) (fs : list (string * value Z)) : obj (F:=Z) := mkObj c fs false.
Definition heap4 : list (obj (F:=Z)) :=
  [o_ "Pair" [("left", VObj (Some 1%nat) "Leaf")]; o_ "Leaf" [("v", VInt 3)];
   o_ "Node" [("next", VObj (Some 3%nat) "Node")]; o_ "Node" [("next", VObj (Some 2%nat) "Node")]].
Definition s4 : st (F:=Z) := mkSt [] [] [] [VObj (Some 0%nat) "Pair"] heap4 [] "" 0.
Example ex_collect :
  map (fun o => List.length (o_fields o)) (s_heap (collect 10 [] s4)) = [1; 1; 0; 0]%nat
  /\ map (@o_dead Z) (s_heap (collect 10 [] s4)) = [false; false; true; true].
Proof. vm_compute. split; reflexivity. Qed.

(* The implementation's second rule (runCycleCollector): objects whose release is observable - user destructor,
   qubits, @tracked fields - are never released by a sweep, nor is anything from which one can be reached, through
   garbage or through live objects.  GcPin.pin is the implementation's `while (changed)` iteration; hook H7 logs the
   heap graph, the kept set and the swept set of every collection and the check compares them with pin (extracted).
   For every heap graph: when the iteration stops, the kept set holds every object that reaches an observable one - so
   an object the sweep wipes reaches none, and none of its fields refers to an observable object or to a kept one. *)
Theorem C11_the_kept_set_holds_everything_that_reaches_an_observable_object :
  forall (children : nat -> list nat) (nodes : list nat) (obs : nat -> bool),
    (forall l, In l nodes -> forall m, In m (children l) -> In m nodes) ->
    forall fuel seeds Q,
      pin children nodes fuel seeds = Some Q ->
      (forall n, In n nodes -> obs n = true -> In n seeds) ->
      forall l n, In l nodes -> reaches children l n -> obs n = true -> In l Q.
Proof. exact pinned_covers. Qed.
Print Assumptions C11_the_kept_set_holds_everything_that_reaches_an_observable_object.

Theorem C11_what_a_sweep_wipes_reaches_nothing_whose_release_is_observable :
  forall (children : nat -> list nat) (nodes : list nat) (obs : nat -> bool),
    (forall l, In l nodes -> forall m, In m (children l) -> In m nodes) ->
    forall fuel seeds Q l,
      pin children nodes fuel seeds = Some Q ->
      (forall n, In n nodes -> obs n = true -> In n seeds) ->
      In l nodes -> ~ In l Q ->
      (forall n, reaches children l n -> obs n = false) /\ (forall m, In m (children l) -> obs m = false /\ ~ In m Q).
Proof. exact swept_reaches_nothing_observable. Qed.
Print Assumptions C11_what_a_sweep_wipes_reaches_nothing_whose_release_is_observable.

(* the rule keeps nothing beyond that: whatever is in the kept set is a seed (an observable or a live object) or reaches one *)
Theorem C11_the_kept_set_holds_only_what_reaches_a_seed :
  forall (children : nat -> list nat) (nodes : list nat) fuel seeds Q,
    pin children nodes fuel seeds = Some Q -> forall l, In l Q -> exists s, In s seeds /\ reaches children l s.
Proof. exact pinned_only_what_reaches_a_seed. Qed.
Print Assumptions C11_the_kept_set_holds_only_what_reaches_a_seed.

(* non-vacuity: garbage 1 holds live plain 2, which holds observable 3; unrelated garbage 4 is the only thing outside *)
Example ex_kept_through_live :
  pin (fun l => match l with 1 => [2] | 2 => [3] | _ => [] end)%nat [1; 2; 3; 4]%nat 5 [3]%nat = Some [3; 2; 1]%nat.
Proof. reflexivity. Qed.
