(* C12 - running an accepted program never crashes the interpreter.
   What a proof can carry here is the logic: on every arithmetic edge case the reference semantics is
   defined (a value in the machine range, a flagged out-of-documentation result, or a documented
   runtime error).  Memory safety, teardown order and exception shape are properties of the C++ run
   time; they are observed by the sanitizer-instrumented correspondence runs (see DESIGN.md). *)
From Coq Require Import List ZArith String Ascii Bool.
From Bloch Require Import Lang.Soundness Lang.Syntax Lang.Eval Lang.Typing Lang.OpSound Lang.Edge.
Import ListNotations.
Local Open Scope Z_scope.

Theorem C12_int_arithmetic_stays_in_range :
  forall F (O : fops F) o a b r, arith_op o = true -> in32 a = true -> in32 b = true ->
    binop_eval O o (VInt a) (VInt b) = Ok r -> exists z, r = VInt z /\ in32 z = true.
Proof. exact @int_arith_in_range. Qed.
Print Assumptions C12_int_arithmetic_stays_in_range.

Theorem C12_long_arithmetic_in_range_or_flagged :
  forall F (O : fops F) o a b r, arith_op o = true -> in64 a = true -> in64 b = true ->
    binop_eval O o (VLong a) (VLong b) = Ok r -> exists z, r = VLong z /\ in64 z = true.
Proof. exact @long_arith_in_range_or_flagged. Qed.
Print Assumptions C12_long_arithmetic_in_range_or_flagged.

Theorem C12_modulo_by_minus_one_is_zero :
  forall F (O : fops F) a, binop_eval O OMod (VLong a) (VLong (-1)) = Ok (VLong 0)
                        /\ binop_eval O OMod (VInt a) (VInt (-1)) = Ok (VInt 0).
Proof. exact @mod_minus_one. Qed.
Print Assumptions C12_modulo_by_minus_one_is_zero.

Theorem C12_modulo_by_zero_is_a_runtime_error :
  forall F (O : fops F) a b, integralv a = true -> (b = VInt 0 \/ b = VLong 0) -> binop_eval O OMod a b = Err RModZero.
Proof. exact @mod_by_zero_reported. Qed.
Print Assumptions C12_modulo_by_zero_is_a_runtime_error.

Theorem C12_division_by_zero_is_a_runtime_error :
  forall F (O : fops F) a b na nb, as_num a = Some na -> as_num b = Some nb ->
    feqb O (num_f O nb) (fzero O) = true -> binop_eval O ODiv a b = Err RDivZero.
Proof. exact @div_by_zero_reported. Qed.
Print Assumptions C12_division_by_zero_is_a_runtime_error.

Theorem C12_every_index_is_checked :
  forall F (O : fops F) ev ex fns cls depth s a i v s',
    eval_step O fns cls depth ev ex s (EIndex a i) = Ok (v, s') ->
    exists va s1 vi t l k, ev s a = Ok (va, s1) /\ ev s1 i = Ok (vi, s') /\ va = VArr t l /\ index_of O vi = Some k /\
                           0 <= k < Z.of_nat (List.length l) /\ nth_error l (Z.to_nat k) = Some v.
Proof. exact @index_is_checked. Qed.
Print Assumptions C12_every_index_is_checked.

(* every well-typed operator application is defined: a value, or a documented error - never stuck *)
Theorem C12_operators_are_total_on_well_typed_operands :
  forall F (O : fops F) o a b t, wf a = true -> wf b = true ->
    bin_ty o (type_of a) (type_of b) = Some t -> sound_res (binop_eval O o a b) t.
Proof. exact @binop_sound. Qed.
Print Assumptions C12_operators_are_total_on_well_typed_operands.

(* whole programs: whatever the fuel, a class-free program accepted by the reference checker finishes, runs out of
   fuel, or ends with a documented runtime error (or a result flagged as outside the documentation) - it never
   reaches an operation the semantics does not define *)
Theorem C12_an_accepted_program_never_gets_stuck :
  forall F (O : fops F) p fuel, check_program p = true -> p_classes p = [] ->
    forall why, snd (run O fuel p) <> Failed (RStuck why).
Proof. exact @checked_programs_never_get_stuck. Qed.
Print Assumptions C12_an_accepted_program_never_gets_stuck.

Example ex_most_negative_long :
  binop_eval (mkF Z Z.add Z.sub Z.mul Z.quot Z.opp Z.eqb Z.ltb Z.leb (fun z => z) (fun z => z) show_Z show_Z)
             OMod (VLong (-9223372036854775808)) (VLong (-1)) = Ok (VLong 0).
Proof. vm_compute. reflexivity. Qed.
