(* C13 - the front end is total.
   Proved on the models: the lexer terminates on every string (its result is a token list or one
   positioned error, never "out of fuel"); every successful step of the expression parser consumes
   input, so none of its loops can spin; the import traversal terminates on every import graph,
   cyclic or not.  Crashes, out-of-bounds reads and analyser reuse are run-time behaviour of the C++
   code: they are observed by mutation runs on a sanitizer build (see DESIGN.md), not proved. *)
From Coq Require Import List Arith String Ascii.
From Bloch Require Import Lex.LexModel Lex.LexProofs Parse.PrattModel Parse.PrattProgress Loader.LoaderModel Loader.LoaderProofs.
Import ListNotations.

Theorem C13_lexer_terminates_on_every_input : forall s, lex s <> LexFuel.
Proof. exact lex_total. Qed.
Print Assumptions C13_lexer_terminates_on_every_input.

Theorem C13_every_parser_step_consumes_input : forall fuel,
  (forall ts, consumes ts (p_assign fuel ts)) /\
  (forall bp ts, consumes ts (p_pratt fuel bp ts)) /\
  (forall ts, consumes ts (p_prefix fuel ts)) /\
  (forall ts, consumes ts (p_primary fuel ts)) /\
  (forall bp l ts, keeps ts (p_loop fuel bp l ts)) /\
  (forall c ts, consumes ts (p_list fuel c ts)) /\
  (forall c ts, consumes ts (p_items fuel c ts)).
Proof. exact parser_progress. Qed.
Print Assumptions C13_every_parser_step_consumes_input.

Theorem C13_import_loading_terminates_on_every_graph : forall fs cfg entry, load fs cfg entry <> inr EFuel.
Proof. exact load_never_out_of_fuel. Qed.
Print Assumptions C13_import_loading_terminates_on_every_graph.
